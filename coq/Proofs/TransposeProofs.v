(* C15 — proofs about Model/Transpose.v. *)
From Coq Require Import List ZArith Bool Lia Arith.
From CF Require Import Model.Transpose.
Import ListNotations.
Open Scope Z_scope.

(* ------------------------------------------------------------------------------------------------ *)
(* 1. loops                                                                                         *)
(* ------------------------------------------------------------------------------------------------ *)

Lemma while_lt_exact :
  forall (S : Type) (body : Z -> S -> outcome S) (step : Z) (n : nat) (I : nat -> S -> Prop)
         (fuel : nat) (start : Z) (s : S),
    0 < step -> (n <= fuel)%nat ->
    I 0%nat s ->
    (forall (m : nat) (s1 : S), (m < n)%nat -> I m s1 ->
        exists s2, body (start + Z.of_nat m * step) s1 = Ok s2 /\ I (Datatypes.S m) s2) ->
    exists s', while_lt fuel start (start + Z.of_nat n * step) step body s
               = Ok (start + Z.of_nat n * step, s') /\ I n s'.
Proof.
  intros S body step n. induction n as [|n IH]; intros I fuel start s Hstep Hfuel HI0 Hbody.
  - exists s. split; [|exact HI0].
    destruct fuel; cbn [while_lt]; replace (start + Z.of_nat 0 * step) with start by lia;
      rewrite Z.ltb_irrefl; reflexivity.
  - destruct fuel as [|fuel]; [lia|].
    cbn [while_lt].
    assert (Hlt : (start <? start + Z.of_nat (Datatypes.S n) * step) = true) by (apply Z.ltb_lt; nia).
    rewrite Hlt.
    destruct (Hbody 0%nat s ltac:(lia) HI0) as [s2 [Hb HI1]].
    replace (start + Z.of_nat 0 * step) with start in Hb by lia.
    rewrite Hb. cbn [bind].
    destruct (IH (fun m => I (Datatypes.S m)) fuel (start + step) s2 Hstep ltac:(lia) HI1) as [s' [Hw HIn]].
    + intros m s1 Hm HIm. destruct (Hbody (Datatypes.S m) s1 ltac:(lia) HIm) as [s3 [Hb3 HI3]].
      exists s3. split; [|exact HI3].
      rewrite <- Hb3. f_equal. lia.
    + exists s'. split; [|exact HIn].
      replace (start + Z.of_nat (Datatypes.S n) * step) with (start + step + Z.of_nat n * step) by lia.
      exact Hw.
Qed.

(* a loop whose condition is false from the start *)
Lemma while_lt_none :
  forall (S : Type) (body : Z -> S -> outcome S) fuel i bound step (s : S),
    bound <= i -> while_lt fuel i bound step body s = Ok (i, s).
Proof.
  intros S body fuel i bound step s H.
  destruct fuel; cbn [while_lt]; (replace (i <? bound) with false by (symmetry; apply Z.ltb_ge; lia));
    reflexivity.
Qed.

(* ------------------------------------------------------------------------------------------------ *)
(* 2. lists addressed by Z                                                                          *)
(* ------------------------------------------------------------------------------------------------ *)

Lemma zget_some_iff : forall T (l : list T) k, (exists v, zget l k = Some v) <-> 0 <= k < zlen l.
Proof.
  intros T l k. unfold zget, zlen. destruct (k <? 0) eqn:E.
  - apply Z.ltb_lt in E. split; [intros [v H]; discriminate | lia].
  - apply Z.ltb_ge in E. split.
    + intros [v H]. assert (Hn : nth_error l (Z.to_nat k) <> None) by congruence.
      apply nth_error_Some in Hn. lia.
    + intros H. destruct (nth_error l (Z.to_nat k)) eqn:En; [eauto|].
      apply nth_error_None in En. lia.
Qed.

Lemma zget_nat : forall T (l : list T) (n : nat), zget l (Z.of_nat n) = nth_error l n.
Proof.
  intros. unfold zget. replace (Z.of_nat n <? 0) with false by (symmetry; apply Z.ltb_ge; lia).
  now rewrite Nat2Z.id.
Qed.

Lemma nth_error_firstn_lt : forall T (l : list T) n c,
  (c < n)%nat -> nth_error (firstn n l) c = nth_error l c.
Proof.
  intros T l. induction l as [|a l IH]; intros n c H.
  - now rewrite firstn_nil.
  - destruct n; [lia|]. destruct c; cbn [firstn nth_error]; [reflexivity|]. apply IH. lia.
Qed.

Lemma nth_error_skipn_add : forall T (l : list T) k c,
  nth_error (skipn k l) c = nth_error l (k + c).
Proof.
  intros T l. induction l as [|a l IH]; intros k c.
  - rewrite skipn_nil. destruct c, k; reflexivity.
  - destruct k; cbn [skipn Nat.add nth_error]; [reflexivity|]. apply IH.
Qed.

Lemma splice_length : forall T (l v : list T) k,
  (k + length v <= length l)%nat -> length (splice l k v) = length l.
Proof.
  intros. unfold splice. rewrite !app_length, firstn_length, skipn_length. lia.
Qed.

Lemma splice_nth_in : forall T (l v : list T) k c,
  (k + length v <= length l)%nat -> (c < length v)%nat ->
  nth_error (splice l k v) (k + c) = nth_error v c.
Proof.
  intros T l v k c Hk Hc. unfold splice.
  rewrite nth_error_app2 by (rewrite firstn_length; lia).
  rewrite firstn_length. replace (k + c - Nat.min k (length l))%nat with c by lia.
  now rewrite nth_error_app1 by lia.
Qed.

Lemma splice_nth_out : forall T (l v : list T) k x,
  (k + length v <= length l)%nat -> (x < k \/ k + length v <= x)%nat ->
  nth_error (splice l k v) x = nth_error l x.
Proof.
  intros T l v k x Hk Hx. unfold splice. destruct Hx as [Hx|Hx].
  - rewrite nth_error_app1 by (rewrite firstn_length; lia).
    now rewrite nth_error_firstn_lt by lia.
  - rewrite nth_error_app2 by (rewrite firstn_length; lia).
    rewrite firstn_length.
    rewrite nth_error_app2 by lia.
    rewrite nth_error_skipn_add. f_equal. lia.
Qed.

Lemma firstn_skipn_nth : forall T (l : list T) k n c,
  (c < n)%nat -> nth_error (firstn n (skipn k l)) c = nth_error l (k + c).
Proof.
  intros T l k n c Hc. rewrite nth_error_firstn_lt by lia. apply nth_error_skipn_add.
Qed.

Lemma firstn_skipn_length : forall T (l : list T) k n,
  (k + n <= length l)%nat -> length (firstn n (skipn k l)) = n.
Proof. intros. rewrite firstn_length, skipn_length. lia. Qed.

(* ------------------------------------------------------------------------------------------------ *)
(* 3. the in-register shuffle networks are the transposes of their blocks                           *)
(* ------------------------------------------------------------------------------------------------ *)

Definition square {T} (n : nat) (m : list (list T)) : Prop :=
  length m = n /\ Forall (fun r => length r = n) m.

Ltac inv_len :=
  repeat match goal with
         | H : length ?l = Datatypes.S _ |- _ =>
             destruct l as [|? ?]; cbn [length] in H; [discriminate H | apply Nat.succ_inj in H]
         | H : length ?l = O |- _ => destruct l; cbn [length] in H; [clear H | discriminate H]
         | H : Forall _ (_ :: _) |- _ => apply Forall_cons_iff in H; destruct H as [? H]
         | H : Forall _ [] |- _ => clear H
         end.

(* (a) for ARBITRARY (symbolic) lanes of any element type *)
Lemma reg_transpose_f32 : forall T (m : list (list T)),
  square 8 m -> run_network net_f32 m = mtranspose 8 m.
Proof. intros T m [Hl HF]. inv_len. reflexivity. Qed.

Lemma reg_transpose_f64 : forall T (m : list (list T)),
  square 4 m -> run_network net_f64 m = mtranspose 4 m.
Proof. intros T m [Hl HF]. inv_len. reflexivity. Qed.

Lemma lane_some : forall T (row : list T) r, (r < length row)%nat ->
  exists x, lane row r = [x] /\ nth_error row r = Some x.
Proof.
  intros T row r Hr. unfold lane.
  destruct (nth_error row r) as [x|] eqn:E; [|apply nth_error_None in E; lia].
  exists x. split; [|reflexivity].
  destruct (skipn r row) as [|y tl] eqn:Es.
  - assert (Hl : length (skipn r row) = 0%nat) by now rewrite Es. rewrite skipn_length in Hl. lia.
  - assert (Hy : nth_error (skipn r row) 0 = Some y) by now rewrite Es.
    rewrite nth_error_skipn_add, Nat.add_0_r, E in Hy. injection Hy as ->. reflexivity.
Qed.

Lemma flat_lane_nth : forall T (m : list (list T)) r,
  Forall (fun row => (r < length row)%nat) m ->
  length (flat_map (fun row => lane row r) m) = length m /\
  forall c, nth_error (flat_map (fun row => lane row r) m) c
            = match nth_error m c with Some mr => nth_error mr r | None => None end.
Proof.
  intros T m r. induction m as [|row m IH]; intros HF.
  - split; [reflexivity|]. intros c. destruct c; reflexivity.
  - apply Forall_cons_iff in HF. destruct HF as [Hrow HF]. destruct (IH HF) as [IHl IHn].
    destruct (lane_some T row r Hrow) as [x [Hx Hnx]].
    cbn [flat_map]. rewrite Hx. cbn [app length]. split; [now rewrite IHl|].
    intros c. destruct c as [|c]; cbn [nth_error]; [now rewrite Hnx | apply IHn].
Qed.

Lemma nth_error_seq0 : forall n r, (r < n)%nat -> nth_error (seq 0 n) r = Some r.
Proof.
  intros n r Hr. rewrite (nth_error_nth' (seq 0 n) 0%nat) by (rewrite seq_length; lia).
  now rewrite seq_nth by lia.
Qed.

(* entry (r, c) of the transposed block is entry (c, r) of the block *)
Lemma mtranspose_nth : forall T n (m : list (list T)) r,
  square n m -> (r < n)%nat ->
  exists row, nth_error (mtranspose n m) r = Some row /\ length row = n /\
              forall c, nth_error row c = match nth_error m c with Some mr => nth_error mr r | None => None end.
Proof.
  intros T n m r [Hl HF] Hr. unfold mtranspose.
  exists (flat_map (fun row => lane row r) m).
  split; [apply (map_nth_error (fun c => flat_map (fun row => lane row c) m) r (seq 0 n)), nth_error_seq0, Hr|].
  assert (HF' : Forall (fun row => (r < length row)%nat) m).
  { eapply Forall_impl; [|exact HF]. cbn beta. intros a Ha. lia. }
  destruct (flat_lane_nth T m r HF') as [H1 H2]. split; [now rewrite H1 | exact H2].
Qed.

Lemma mtranspose_length : forall T n (m : list (list T)), length (mtranspose n m) = n.
Proof. intros. unfold mtranspose. now rewrite map_length, seq_length. Qed.

(* ------------------------------------------------------------------------------------------------ *)
(* 4. the invariant of a run on a well-shaped call                                                  *)
(* ------------------------------------------------------------------------------------------------ *)

Lemma wrap64_id : forall x, 0 <= x < two64 -> wrap64 x = x.
Proof. intros. unfold wrap64. now apply Z.mod_small. Qed.

Lemma two64_pos : 0 < two64.
Proof. reflexivity. Qed.

Section Inv.
  Context {T : Type}.
  Variable data : list T.
  Variables w h : Z.
  Hypothesis Hw : 0 < w.
  Hypothesis Hh : 0 < h.
  Hypothesis Hdata : zlen data = w * h.
  Hypothesis Hno : w * h < two64.

  (* the source cell of result cell k:  k = i*h + j  |->  j*w + i *)
  Definition src (k : Z) : Z := (k mod h) * w + k / h.

  Lemma src_pair : forall i j, 0 <= j < h -> src (i * h + j) = j * w + i.
  Proof.
    intros i j Hj. unfold src.
    rewrite (Z.add_comm (i * h) j), Z_mod_plus_full, Z.mod_small by lia.
    rewrite Z.div_add by lia. rewrite Z.div_small by lia. lia.
  Qed.

  Definition ev_inb (e : event) : Prop :=
    0 <= ev_idx e /\ 0 <= ev_len e /\ ev_idx e + ev_len e <= w * h.
  Definition written (k : Z) (lg : list event) : Prop :=
    exists e, In e lg /\ ev_wr e = true /\ ev_idx e <= k < ev_idx e + ev_len e.

  (* D: the set of result cells known to have been written *)
  Definition Inv (D : Z -> Prop) (s : st T) : Prop :=
    zlen (res s) = w * h /\
    Forall ev_inb (log s) /\
    (forall k, written k (log s) -> zget (res s) k = zget data (src k)) /\
    (forall k, D k -> written k (log s)).

  Lemma Inv_mono : forall (D D' : Z -> Prop) s, (forall k, D' k -> D k) -> Inv D s -> Inv D' s.
  Proof. intros D D' s H (H1 & H2 & H3 & H4). repeat split; auto. Qed.

  Lemma written_cons : forall k e lg,
    written k (e :: lg) <-> (ev_wr e = true /\ ev_idx e <= k < ev_idx e + ev_len e) \/ written k lg.
  Proof.
    intros k e lg. unfold written. split.
    - intros [e' [[He|He] H]]; [subst e'; left; exact H | right; eauto].
    - intros [H | [e' [He H]]]; [exists e; split; [now left | exact H] | exists e'; split; [now right | exact H]].
  Qed.

  Lemma written_inb : forall k lg, Forall ev_inb lg -> written k lg -> 0 <= k < w * h.
  Proof.
    intros k lg HF [e [He [_ Hk]]]. rewrite Forall_forall in HF. specialize (HF e He).
    unfold ev_inb in HF. lia.
  Qed.

  (* a vector load inside `data` *)
  Lemma rdv_spec : forall D s n k,
    Inv D s -> 0 <= k -> k + Z.of_nat n <= w * h ->
    exists row s', rdv data n k s = Ok (row, s') /\ Inv D s' /\ length row = n /\
                   forall c, (c < n)%nat -> nth_error row c = zget data (k + Z.of_nat c).
  Proof.
    intros D s n k (H1 & H2 & H3 & H4) Hk Hkn. unfold rdv.
    replace ((0 <=? k) && (k + Z.of_nat n <=? zlen data)) with true
      by (symmetry; apply andb_true_iff; split; [apply Z.leb_le; lia | apply Z.leb_le; lia]).
    eexists; eexists; split; [reflexivity|]. split; [|split].
    - repeat split; cbn [res log]; auto.
      + constructor; [unfold ev_inb; cbn [ev_idx ev_len]; lia | exact H2].
      + intros k0 Hk0. apply written_cons in Hk0. cbn [ev_wr] in Hk0.
        destruct Hk0 as [[Hf _]|Hk0]; [discriminate | auto].
      + intros k0 Hk0. apply written_cons. right. auto.
    - apply firstn_skipn_length. unfold zlen in Hdata. lia.
    - intros c Hc. rewrite firstn_skipn_nth by lia.
      replace (k + Z.of_nat c) with (Z.of_nat (Z.to_nat k + c)) by lia. now rewrite zget_nat.
  Qed.

  (* a vector store of correct values inside `result` *)
  Lemma wrv_spec : forall D s k (row : list T),
    Inv D s -> 0 <= k -> k + zlen row <= w * h ->
    (forall c, (c < length row)%nat -> nth_error row c = zget data (src (k + Z.of_nat c))) ->
    exists s', wrv k row s = Ok s' /\ Inv (fun x => D x \/ k <= x < k + zlen row) s'.
  Proof.
    intros D s k row (H1 & H2 & H3 & H4) Hk Hkn Hrow. unfold wrv.
    replace ((0 <=? k) && (k + zlen row <=? zlen (res s))) with true
      by (symmetry; apply andb_true_iff; split; apply Z.leb_le; lia).
    eexists; split; [reflexivity|].
    assert (Hlen : (Z.to_nat k + length row <= length (res s))%nat) by (unfold zlen in *; lia).
    unfold Inv; cbn [res log]. split; [|split; [|split]].
    - unfold zlen. rewrite splice_length by exact Hlen. exact H1.
    - constructor; [unfold ev_inb; cbn [ev_idx ev_len]; unfold zlen in *; lia | exact H2].
    - intros x Hx.
      assert (Hxin : 0 <= x < w * h).
      { apply written_inb with (lg := {| ev_wr := true; ev_idx := k; ev_len := zlen row |} :: log s);
          [|exact Hx].
        constructor; [unfold ev_inb; cbn [ev_idx ev_len]; unfold zlen in *; lia | exact H2]. }
      destruct (Z_lt_dec x k) as [Hlt|Hge]; [|destruct (Z_lt_dec x (k + zlen row)) as [Hin|Hout]].
      + apply written_cons in Hx. cbn [ev_wr ev_idx ev_len] in Hx.
        destruct Hx as [[_ Hx]|Hx]; [lia|].
        rewrite <- (H3 x Hx). unfold zget. destruct (x <? 0); [reflexivity|].
        apply splice_nth_out; [exact Hlen | lia].
      + clear Hx. unfold zlen in Hin.
        replace x with (k + Z.of_nat (Z.to_nat (x - k))) by lia.
        rewrite <- Hrow by lia.
        replace (k + Z.of_nat (Z.to_nat (x - k))) with (Z.of_nat (Z.to_nat k + Z.to_nat (x - k))) by lia.
        rewrite zget_nat. apply splice_nth_in; [exact Hlen | lia].
      + apply written_cons in Hx. cbn [ev_wr ev_idx ev_len] in Hx.
        destruct Hx as [[_ Hx]|Hx]; [lia|].
        rewrite <- (H3 x Hx). unfold zget. destruct (x <? 0); [reflexivity|].
        apply splice_nth_out; [exact Hlen | unfold zlen in Hout; lia].
    - intros x [Hx|Hx]; apply written_cons; [right; auto | left; cbn [ev_wr ev_idx ev_len]; auto].
  Qed.

  Definition Rect (i0 i1 j0 j1 : Z) (k : Z) : Prop :=
    exists i j, i0 <= i < i1 /\ j0 <= j < j1 /\ k = i * h + j.

  Lemma cell_lt : forall i j, 0 <= i < w -> 0 <= j < h -> 0 <= i * h + j < w * h.
  Proof. intros. nia. Qed.
  Lemma cell_lt' : forall i j, 0 <= i < w -> 0 <= j < h -> 0 <= j * w + i < w * h.
  Proof. intros. nia. Qed.

  (* result[i*height + j] = data[j*width + i] *)
  Lemma scalar_cell_spec : forall D s i j,
    Inv D s -> 0 <= i < w -> 0 <= j < h ->
    exists s', scalar_cell data w h j i s = Ok s' /\ Inv (fun x => D x \/ x = i * h + j) s'.
  Proof.
    intros D s i j HI Hi Hj. unfold scalar_cell.
    pose proof (cell_lt i j Hi Hj) as Hc. pose proof (cell_lt' i j Hi Hj) as Hc'.
    rewrite !wrap64_id by lia.
    unfold rd1.
    destruct (proj2 (zget_some_iff T data (j * w + i)) ltac:(lia)) as [v Hv]. rewrite Hv. cbn [bind].
    unfold wr1.
    assert (HI1 : Inv D {| res := res s; log := {| ev_wr := false; ev_idx := j * w + i; ev_len := 1 |} :: log s |}).
    { destruct HI as (H1 & H2 & H3 & H4). repeat split; cbn [res log]; auto.
      + constructor; [unfold ev_inb; cbn [ev_idx ev_len]; lia | exact H2].
      + intros k0 Hk0. apply written_cons in Hk0. cbn [ev_wr] in Hk0.
        destruct Hk0 as [[Hf _]|Hk0]; [discriminate | auto].
      + intros k0 Hk0. apply written_cons. right. auto. }
    destruct (wrv_spec D _ (i * h + j) [v] HI1) as [s' [Hs' HI']].
    - lia.
    - unfold zlen; cbn [length]; lia.
    - intros c Hc0. cbn [length] in Hc0. assert (c = 0%nat) by lia. subst c.
      cbn [nth_error]. rewrite Z.add_0_r, src_pair by lia. now rewrite Hv.
    - exists s'. split; [exact Hs'|]. eapply Inv_mono; [|exact HI'].
      intros k [Hk|Hk]; [left; exact Hk | right; unfold zlen; cbn [length]; lia].
  Qed.

  (* the scalar double loop over the cells [i0,i1) x [j0,j1) *)
  Lemma scalar_loops_spec : forall D s fuel i0 i1 j0 j1,
    Inv D s -> 0 <= i0 <= i1 -> i1 <= w -> 0 <= j0 <= j1 -> j1 <= h -> (Z.to_nat (w * h) <= fuel)%nat ->
    exists s', scalar_loops data w h fuel j0 j1 i0 i1 s = Ok (j1, s')
               /\ Inv (fun x => D x \/ Rect i0 i1 j0 j1 x) s'.
  Proof.
    intros D s fuel i0 i1 j0 j1 HI Hi0 Hi1 Hj0 Hj1 Hfuel. unfold scalar_loops.
    assert (Hwle : w <= w * h) by nia. assert (Hhle : h <= w * h) by nia.
    destruct (while_lt_exact (st T)
                (fun j s => bind (while_lt fuel i0 i1 1 (scalar_cell data w h j) s) (fun '(_, s') => Ok s'))
                1 (Z.to_nat (j1 - j0))
                (fun m s => Inv (fun x => D x \/ Rect i0 i1 j0 (j0 + Z.of_nat m) x) s)
                fuel j0 s) as [s' [Hrun HI']].
    - lia.
    - lia.
    - eapply Inv_mono; [|exact HI]. intros k [Hk|[i [j Hk]]]; [exact Hk | lia].
    - intros m s1 Hm HIm.
      set (j := j0 + Z.of_nat m * 1).
      destruct (while_lt_exact (st T) (scalar_cell data w h j) 1 (Z.to_nat (i1 - i0))
                  (fun n s => Inv (fun x => (D x \/ Rect i0 i1 j0 (j0 + Z.of_nat m) x)
                                            \/ Rect i0 (i0 + Z.of_nat n) j (j + 1) x) s)
                  fuel i0 s1) as [s2 [Hrun2 HI2]].
      + lia.
      + lia.
      + eapply Inv_mono; [|exact HIm]. intros k [Hk|[i [j' Hk]]]; [exact Hk | lia].
      + intros n s3 Hn HIn.
        destruct (scalar_cell_spec _ s3 (i0 + Z.of_nat n * 1) j HIn) as [s4 [Hs4 HI4]]; [lia | unfold j; lia |].
        exists s4. split; [exact Hs4|]. eapply Inv_mono; [|exact HI4].
        intros k [Hk|[i [j' Hk]]]; [left; left; exact Hk|].
        destruct (Z.eq_dec i (i0 + Z.of_nat n)) as [He|Hne].
        * right. nia.
        * left. right. exists i, j'. lia.
      + replace (i0 + Z.of_nat (Z.to_nat (i1 - i0)) * 1) with i1 in Hrun2 by lia.
        rewrite Hrun2. cbn [bind]. exists s2. split; [reflexivity|].
        eapply Inv_mono; [|exact HI2].
        intros k [Hk|[i [j' Hk]]]; [left; left; exact Hk|].
        destruct (Z.eq_dec j' j) as [He|Hne].
        * right. exists i, j'. lia.
        * left. right. exists i, j'. unfold j in Hne. lia.
    - replace (j0 + Z.of_nat (Z.to_nat (j1 - j0)) * 1) with j1 in Hrun by lia.
      exists s'. split; [exact Hrun|]. eapply Inv_mono; [|exact HI'].
      intros k [Hk|[i [j Hk]]]; [left; exact Hk | right; exists i, j; lia].
  Qed.

  (* ---------------------------------------------------------------------------------------------- *)
  (* 5. load_matrix / write_matrix / one register block / the block loops                           *)
  (* ---------------------------------------------------------------------------------------------- *)

  Variable fuel : nat.
  Hypothesis Hfuel : (Z.to_nat (w * h) <= fuel)%nat.
  Variable L : nat.
  Variable net : network.
  Hypothesis HL : (0 < L)%nat.
  Hypothesis Hnet : forall m : list (list T), square L m -> run_network net m = mtranspose L m.

  Notation Lz := (Z.of_nat L).

  Lemma load_rows_spec : forall rs D s off,
    Inv D s ->
    (forall r, In r rs -> 0 <= off + w * Z.of_nat r /\ off + w * Z.of_nat r + Lz <= w * h) ->
    exists rows s', load_rows data w L rs off s = Ok (rows, s') /\ Inv D s' /\
      length rows = length rs /\ Forall (fun row => length row = L) rows /\
      forall idx r, nth_error rs idx = Some r ->
        exists row, nth_error rows idx = Some row /\
          forall c, (c < L)%nat -> nth_error row c = zget data (off + w * Z.of_nat r + Z.of_nat c).
  Proof.
    induction rs as [|r rs IH]; intros D s off HI Hrs.
    - exists [], s. cbn [load_rows]. split; [reflexivity|]. split; [exact HI|]. split; [reflexivity|].
      split; [constructor|]. intros idx r H. destruct idx; discriminate H.
    - cbn [load_rows].
      destruct (Hrs r (or_introl eq_refl)) as [Hr0 Hr1].
      rewrite wrap64_id by lia.
      destruct (rdv_spec D s L _ HI Hr0 Hr1) as [row [s1 [Hrd [HI1 [Hlen Hrow]]]]].
      rewrite Hrd. cbn [bind].
      destruct (IH D s1 off HI1) as [rows [s2 [Hld [HI2 [Hlen2 [HF2 Hrows]]]]]].
      { intros r' Hr'. apply Hrs. now right. }
      rewrite Hld. cbn [bind]. exists (row :: rows), s2. split; [reflexivity|].
      split; [exact HI2|]. split; [cbn [length]; now rewrite Hlen2|]. split; [now constructor|].
      intros idx r' Hidx. destruct idx as [|idx]; cbn [nth_error] in *.
      + injection Hidx as <-. exists row. split; [reflexivity | exact Hrow].
      + apply Hrows. exact Hidx.
  Qed.

  Lemma write_rows_spec : forall rows r0 D s i0 j0,
    Inv D s -> 0 <= i0 -> 0 <= j0 -> j0 + Lz <= h ->
    i0 + Z.of_nat r0 + Z.of_nat (length rows) <= w ->
    (forall idx row, nth_error rows idx = Some row ->
       length row = L /\
       forall c, (c < L)%nat ->
         nth_error row c = zget data ((j0 + Z.of_nat c) * w + (i0 + Z.of_nat (r0 + idx)))) ->
    exists s', write_rows h r0 rows (j0 + i0 * h) s = Ok s' /\
               Inv (fun x => D x \/ Rect (i0 + Z.of_nat r0) (i0 + Z.of_nat r0 + Z.of_nat (length rows))
                                         j0 (j0 + Lz) x) s'.
  Proof.
    induction rows as [|row rows IH]; intros r0 D s i0 j0 HI Hi0 Hj0 Hj1 Hi1 Hrows.
    - exists s. cbn [write_rows]. split; [reflexivity|]. eapply Inv_mono; [|exact HI].
      intros k [Hk|[i [j Hk]]]; [exact Hk|]. cbn [length] in Hk. lia.
    - cbn [write_rows]. cbn [length] in Hi1.
      destruct (Hrows 0%nat row eq_refl) as [Hlen Hrow].
      set (i := i0 + Z.of_nat r0).
      assert (Hi : 0 <= i < w) by (unfold i; lia).
      pose proof (cell_lt i j0 Hi ltac:(lia)) as Hc0.
      pose proof (cell_lt i (j0 + Lz - 1) Hi ltac:(lia)) as Hc1.
      replace (j0 + i0 * h + Z.of_nat r0 * h) with (i * h + j0) by (unfold i; lia).
      rewrite wrap64_id by lia.
      destruct (wrv_spec D s (i * h + j0) row HI) as [s1 [Hwr HI1]].
      + lia.
      + unfold zlen. rewrite Hlen. lia.
      + intros c Hc. rewrite Hlen in Hc. rewrite (Hrow c Hc). f_equal.
        replace (i * h + j0 + Z.of_nat c) with (i * h + (j0 + Z.of_nat c)) by lia.
        rewrite src_pair by lia. rewrite Nat.add_0_r. unfold i. reflexivity.
      + rewrite Hwr. cbn [bind].
        destruct (IH (Datatypes.S r0) _ s1 i0 j0 HI1 Hi0 Hj0 Hj1) as [s2 [Hw2 HI2]].
        * lia.
        * intros idx row' Hidx. destruct (Hrows (Datatypes.S idx) row' Hidx) as [Hl' Hr'].
          split; [exact Hl'|]. intros c Hc. rewrite (Hr' c Hc). f_equal. lia.
        * exists s2. split; [exact Hw2|]. eapply Inv_mono; [|exact HI2].
          intros k [Hk|[i' [j' Hk]]]; [left; left; exact Hk|].
          destruct (Z.eq_dec i' i) as [He|Hne].
          -- left. right. unfold zlen. rewrite Hlen. subst i'. lia.
          -- right. exists i', j'. cbn [length] in Hk. unfold i in Hne. lia.
  Qed.

  (* one L x L register block with top-left corner (column i0, row j0) of the input *)
  Lemma sub_block_spec : forall D s i0 j0,
    Inv D s -> 0 <= i0 -> i0 + Lz <= w -> 0 <= j0 -> j0 + Lz <= h ->
    exists s', sub_block data w h L net (i0 + j0 * w) (j0 + i0 * h) s = Ok s' /\
               Inv (fun x => D x \/ Rect i0 (i0 + Lz) j0 (j0 + Lz) x) s'.
  Proof.
    intros D s i0 j0 HI Hi0 Hi1 Hj0 Hj1. unfold sub_block, load_matrix.
    destruct (load_rows_spec (seq 0 L) D s (i0 + j0 * w) HI) as [m [s1 [Hld [HI1 [Hlen [HF Hm]]]]]].
    { intros r Hr. apply in_seq in Hr. nia. }
    rewrite Hld. cbn [bind]. rewrite seq_length in Hlen.
    rewrite Hnet by (split; assumption). unfold write_matrix.
    destruct (write_rows_spec (mtranspose L m) 0%nat D s1 i0 j0 HI1 Hi0 Hj0 Hj1) as [s2 [Hwr HI2]].
    - rewrite mtranspose_length. lia.
    - intros idx row Hidx.
      assert (Hidx' : (idx < L)%nat).
      { rewrite <- (mtranspose_length T L m). apply nth_error_Some. congruence. }
      destruct (mtranspose_nth T L m idx (conj Hlen HF) Hidx') as [row' [Hr1 [Hr2 Hr3]]].
      rewrite Hr1 in Hidx. injection Hidx as <-. split; [exact Hr2|].
      intros c Hc. rewrite Hr3.
      destruct (Hm c c (nth_error_seq0 L c Hc)) as [mr [Hmr Hmrc]]. rewrite Hmr.
      rewrite (Hmrc idx Hidx'). f_equal. lia.
    - exists s2. split; [exact Hwr|]. eapply Inv_mono; [|exact HI2].
      intros k [Hk|[i [j Hk]]]; [left; exact Hk|]. right. exists i, j.
      rewrite mtranspose_length. lia.
  Qed.

  Notation bs := (Lz * 2).

  (* a 2L x 2L block: four register blocks *)
  Lemma block4_spec : forall D s i j,
    Inv D s -> 0 <= i -> i + bs <= w -> 0 <= j -> j + bs <= h ->
    exists s', block4 data w h L net Lz j i s = Ok s' /\
               Inv (fun x => D x \/ Rect i (i + bs) j (j + bs) x) s'.
  Proof.
    intros D s i j HI Hi0 Hi1 Hj0 Hj1. unfold block4.
    destruct (sub_block_spec D s i j HI) as [s1 [H1 HI1]]; try lia.
    rewrite H1; cbn [bind].
    destruct (sub_block_spec _ s1 i (j + Lz) HI1) as [s2 [H2 HI2]]; try lia.
    rewrite H2; cbn [bind].
    destruct (sub_block_spec _ s2 (i + Lz) j HI2) as [s3 [H3 HI3]]; try lia.
    rewrite H3; cbn [bind].
    destruct (sub_block_spec _ s3 (i + Lz) (j + Lz) HI3) as [s4 [H4 HI4]]; try lia.
    exists s4. split; [exact H4|]. eapply Inv_mono; [|exact HI4].
    intros k [Hk|[i' [j' Hk]]]; [left; left; left; left; exact Hk|].
    destruct (Z_lt_dec i' (i + Lz)) as [Hil|Hil]; destruct (Z_lt_dec j' (j + Lz)) as [Hjl|Hjl].
    - left; left; left; right. exists i', j'. lia.
    - left; left; right. exists i', j'. lia.
    - left; right. exists i', j'. lia.
    - right. exists i', j'. lia.
  Qed.

  Lemma round_down : forall x, 0 <= x ->
    x - x mod bs = 0 + Z.of_nat (Z.to_nat (x / bs)) * bs /\ 0 <= x / bs /\ (x / bs) * bs <= x /\ x mod bs < bs.
  Proof.
    intros x Hx. assert (Hb : 0 < bs) by lia.
    pose proof (Z.div_pos x bs Hx Hb) as Hq. pose proof (Z.mod_pos_bound x bs Hb) as Hm.
    pose proof (Z.div_mod x bs ltac:(lia)) as Hdm.
    rewrite Z2Nat.id by exact Hq. lia.
  Qed.

  Lemma block_loops_spec : forall D s,
    Inv D s ->
    exists s', block_loops data w h fuel L net bs Lz (h mod bs) (w mod bs) s = Ok (h - h mod bs, s') /\
               Inv (fun x => D x \/ Rect 0 (w - w mod bs) 0 (h - h mod bs) x) s'.
  Proof.
    intros D s HI. unfold block_loops.
    destruct (round_down h ltac:(lia)) as [Hhe [Hhq [Hhle Hhm]]].
    destruct (round_down w ltac:(lia)) as [Hwe [Hwq [Hwle Hwm]]].
    assert (Hwle' : w <= w * h) by nia. assert (Hhle' : h <= w * h) by nia.
    assert (Hb : 1 <= bs) by lia.
    set (nj := Z.to_nat (h / bs)) in *. set (ni := Z.to_nat (w / bs)) in *.
    rewrite Hhe, Hwe.
    destruct (while_lt_exact (st T)
                (fun j s => bind (while_lt fuel 0 (0 + Z.of_nat ni * bs) bs (block4 data w h L net Lz j) s)
                                 (fun '(_, s') => Ok s'))
                bs nj
                (fun m s => Inv (fun x => D x \/ Rect 0 (Z.of_nat ni * bs) 0 (Z.of_nat m * bs) x) s)
                fuel 0 s) as [s' [Hrun HI']].
    - lia.
    - unfold nj. nia.
    - eapply Inv_mono; [|exact HI]. intros k [Hk|[i [j Hk]]]; [exact Hk | lia].
    - intros m s1 Hm HIm.
      set (j := 0 + Z.of_nat m * bs).
      assert (Hj : 0 <= j /\ j + bs <= h) by (unfold j, nj in *; nia).
      destruct (while_lt_exact (st T) (block4 data w h L net Lz j) bs ni
                  (fun n s => Inv (fun x => (D x \/ Rect 0 (Z.of_nat ni * bs) 0 (Z.of_nat m * bs) x)
                                            \/ Rect 0 (Z.of_nat n * bs) j (j + bs) x) s)
                  fuel 0 s1) as [s2 [Hrun2 HI2]].
      + lia.
      + unfold ni. nia.
      + eapply Inv_mono; [|exact HIm]. intros k [Hk|[i [j' Hk]]]; [exact Hk | lia].
      + intros n s3 Hn HIn.
        destruct (block4_spec _ s3 (0 + Z.of_nat n * bs) j HIn) as [s4 [Hs4 HI4]];
          try (unfold ni in *; nia).
        exists s4. split; [exact Hs4|]. eapply Inv_mono; [|exact HI4].
        intros k [Hk|[i [j' Hk]]]; [left; left; exact Hk|].
        destruct (Z_lt_dec i (Z.of_nat n * bs)) as [Hlt|Hge].
        * left. right. exists i, j'. lia.
        * right. exists i, j'. lia.
      + rewrite Hrun2. cbn [bind]. exists s2. split; [reflexivity|].
        eapply Inv_mono; [|exact HI2].
        intros k [Hk|[i [j' Hk]]]; [left; left; exact Hk|].
        destruct (Z_lt_dec j' j) as [Hlt|Hge].
        * left. right. exists i, j'. unfold j in Hlt. lia.
        * right. exists i, j'. unfold j in *. lia.
    - exists s'. split; [exact Hrun|]. eapply Inv_mono; [|exact HI'].
      intros k [Hk|[i [j Hk]]]; [left; exact Hk | right; exists i, j; lia].
  Qed.

  Lemma shape_asserts_ok : forall f debug, shape_asserts f debug w h (w * h) (w * h) = Ok tt.
  Proof.
    intros f debug. unfold shape_asserts, shape_product.
    assert (Hlt : (w * h <? two64) = true) by (apply Z.ltb_lt; exact Hno).
    destruct f; [destruct debug|]; rewrite ?Hlt; cbn [bind];
      rewrite ?Z.mod_small by nia; rewrite Z.eqb_refl; reflexivity.
  Qed.

  Definition AllCells (x : Z) : Prop := 0 <= x < w * h.

  Lemma generic_transpose_spec : forall cfg debug (result : list T),
    zlen result = w * h ->
    exists s', generic_transpose data w h fuel L net cfg debug result = Ok s' /\ Inv AllCells s'.
  Proof.
    intros cfg debug result Hres. unfold generic_transpose.
    rewrite Hdata, Hres, shape_asserts_ok. cbn [bind]. cbv zeta.
    assert (HI0 : Inv (fun _ => False) {| res := result; log := [] |}).
    { repeat split; cbn [res log]; auto.
      - intros k [e [[] _]].
      - intros k []. }
    destruct (round_down h ltac:(lia)) as [Hhe [Hhq [Hhle Hhm]]].
    destruct (round_down w ltac:(lia)) as [Hwe [Hwq [Hwle Hwm]]].
    pose proof (Z.mod_pos_bound h bs ltac:(lia)) as Hhm0.
    pose proof (Z.mod_pos_bound w bs ltac:(lia)) as Hwm0.
    destruct (block_loops_spec _ _ HI0) as [s1 [H1 HI1]]. rewrite H1. cbn [bind].
    destruct (scalar_loops_spec _ s1 fuel (w - w mod bs) w 0 (h - h mod bs) HI1) as [s2 [H2 HI2]]; try lia.
    rewrite H2. cbn [bind].
    destruct (scalar_loops_spec _ s2 fuel 0 w (h - h mod bs) h HI2) as [s3 [H3 HI3]]; try lia.
    rewrite H3. cbn [bind]. exists s3. split; [reflexivity|].
    eapply Inv_mono; [|exact HI3].
    intros k Hk. unfold AllCells in Hk.
    set (i := k / h). set (j := k mod h).
    assert (Hkij : k = i * h + j) by (unfold i, j; pose proof (Z.div_mod k h ltac:(lia)); lia).
    pose proof (Z.mod_pos_bound k h Hh) as Hjb. fold j in Hjb.
    assert (Hib : 0 <= i < w).
    { split; [apply Z.div_pos; lia|]. apply Z.div_lt_upper_bound; lia. }
    destruct (Z_lt_dec j (h - h mod bs)) as [Hjl|Hjl].
    - destruct (Z_lt_dec i (w - w mod bs)) as [Hil|Hil].
      + left. left. right. exists i, j. lia.
      + left. right. exists i, j. lia.
    - right. exists i, j. lia.
  Qed.

  (* what the invariant over all cells says about the final state *)
  Lemma Inv_final : forall s,
    Inv AllCells s ->
    zlen (res s) = w * h /\
    (forall i j, 0 <= i < w -> 0 <= j < h ->
       exists v, zget (res s) (i * h + j) = Some v /\ zget data (j * w + i) = Some v) /\
    Forall ev_inb (log s) /\
    (forall x, 0 <= x < w * h -> written x (log s)).
  Proof.
    clear Hfuel HL Hnet.
    intros s (H1 & H2 & H3 & H4). split; [exact H1|]. split; [|split; [exact H2 | exact H4]].
    intros i j Hi Hj. pose proof (cell_lt i j Hi Hj) as Hc. pose proof (cell_lt' i j Hi Hj) as Hc'.
    specialize (H3 _ (H4 _ Hc)). rewrite src_pair in H3 by lia.
    destruct (proj2 (zget_some_iff T data (j * w + i)) ltac:(lia)) as [v Hv].
    exists v. split; [now rewrite H3 | exact Hv].
  Qed.
End Inv.

(* ------------------------------------------------------------------------------------------------ *)
(* 6. transpose_matrix                                                                              *)
(* ------------------------------------------------------------------------------------------------ *)

(* the two networks of a configuration transpose their register blocks *)
Definition cfg_wf (cfg : tcfg) : Prop :=
  (forall T (m : list (list T)), square 8 m -> run_network (net32 cfg) m = mtranspose 8 m) /\
  (forall T (m : list (list T)), square 4 m -> run_network (net64 cfg) m = mtranspose 4 m).

Lemma std_cfg_wf : forall o i, cfg_wf (std_cfg o i).
Proof. intros o i. split; cbn [std_cfg net32 net64]; [exact reg_transpose_f32 | exact reg_transpose_f64]. Qed.

(* the specification of a successful run *)
Definition transposed {T} (w h : Z) (data result : list T) (s : st T) : Prop :=
  length (res s) = length result /\
  (forall i j, 0 <= i < w -> 0 <= j < h ->
     exists v, zget (res s) (i * h + j) = Some v /\ zget data (j * w + i) = Some v) /\
  Forall (ev_inb w h) (log s) /\
  (forall x, 0 <= x < w * h -> written x (log s)).

Lemma transposed_of_Inv : forall T (data result : list T) w h s,
  0 < w -> 0 < h -> zlen data = w * h -> zlen result = w * h ->
  Inv data w h (AllCells w h) s -> transposed w h data result s.
Proof.
  intros T data result w h s Hw Hh Hd Hr HI.
  destruct (Inv_final data w h Hw Hh Hd s HI) as (H1 & H2 & H3 & H4).
  split; [unfold zlen in *; lia|]. split; [exact H2|]. split; [exact H3 | exact H4].
Qed.

Lemma fuel_of_enough : forall T (data : list T) w h, zlen data = w * h -> (Z.to_nat (w * h) <= fuel_of data)%nat.
Proof. intros T data w h H. unfold fuel_of, zlen in *. lia. Qed.

Lemma naive_transpose_spec : forall T (data result : list T) w h,
  0 < w -> 0 < h -> w * h < two64 -> zlen data = w * h -> zlen result = w * h ->
  exists s', naive_transpose w h data result = Ok s' /\ transposed w h data result s'.
Proof.
  intros T data result w h Hw Hh Hno Hd Hr. unfold naive_transpose.
  assert (HI0 : Inv data w h (fun _ => False) {| res := result; log := [] |}).
  { repeat split; cbn [res log]; auto.
    - intros k [e [[] _]].
    - intros k []. }
  destruct (scalar_loops_spec data w h Hw Hh Hd Hno _ _ (fuel_of data) 0 w 0 h HI0) as [s1 [H1 HI1]];
    try lia.
  { eapply fuel_of_enough; eassumption. }
  rewrite H1. cbn [bind]. exists s1. split; [reflexivity|].
  apply transposed_of_Inv; try assumption.
  eapply Inv_mono; [|exact HI1]. intros k Hk. right.
  unfold AllCells in Hk. exists (k / h), (k mod h).
  pose proof (Z.mod_pos_bound k h Hh). pose proof (Z.div_mod k h ltac:(lia)).
  split; [split; [apply Z.div_pos; lia | apply Z.div_lt_upper_bound; lia]|]. split; lia.
Qed.

(* the two public AVX2 entry points, called as documented *)
Lemma generic_entry_spec : forall T L net cfg debug (data result : list T) w h,
  (0 < L)%nat -> (forall m : list (list T), square L m -> run_network net m = mtranspose L m) ->
  0 < w -> 0 < h -> w * h < two64 -> zlen data = w * h -> zlen result = w * h ->
  exists s', generic_transpose data w h (fuel_of data) L net cfg debug result = Ok s'
             /\ transposed w h data result s'.
Proof.
  intros T L net cfg debug data result w h HL Hnet Hw Hh Hno Hd Hr.
  destruct (generic_transpose_spec data w h Hw Hh Hd Hno (fuel_of data)
              (fuel_of_enough T data w h Hd) L net HL Hnet cfg debug result Hr) as [s' [H1 HI]].
  exists s'. split; [exact H1|]. now apply transposed_of_Inv.
Qed.

(* (b) *)
Lemma transpose_matrix_correct :
  forall T cfg debug k avx2 w h (data result : list T),
    cfg_wf cfg -> 0 <= w -> 0 <= h -> w * h < two64 ->
    zlen data = w * h -> zlen result = w * h ->
    exists s', transpose_matrix cfg debug k avx2 w h data result = Ok s'
               /\ transposed w h data result s'.
Proof.
  intros T cfg debug k avx2 w h data result [Hn32 Hn64] Hw Hh Hno Hd Hr. unfold transpose_matrix.
  assert (Hsa : shape_asserts (chk_outer cfg) debug w h (zlen data) (zlen result) = Ok tt).
  { rewrite Hd, Hr. unfold shape_asserts, shape_product.
    assert (Hlt : (w * h <? two64) = true) by (apply Z.ltb_lt; exact Hno).
    destruct (chk_outer cfg); [destruct debug|]; rewrite ?Hlt; cbn [bind];
      rewrite ?Z.mod_small by nia; rewrite Z.eqb_refl; reflexivity. }
  rewrite Hsa. cbn [bind].
  destruct ((w =? 0) || (h =? 0)) eqn:E0.
  { eexists. split; [reflexivity|]. apply orb_true_iff in E0.
    assert (Hz : w * h = 0) by (destruct E0 as [E|E]; apply Z.eqb_eq in E; subst; lia).
    unfold transposed; cbn [res log]. split; [reflexivity|]. split; [|split; [constructor | intros; lia]].
    intros i j Hi Hj. nia. }
  apply orb_false_iff in E0. destruct E0 as [Ew Eh]. apply Z.eqb_neq in Ew, Eh.
  destruct ((w =? 1) || (h =? 1)) eqn:E1.
  { eexists. split; [reflexivity|]. apply orb_true_iff in E1.
    unfold transposed; cbn [res log]. split; [unfold zlen in *; lia|]. split; [|split].
    - intros i j Hi Hj.
      assert (Heq : i * h + j = j * w + i) by (destruct E1 as [E|E]; apply Z.eqb_eq in E; subst; lia).
      rewrite Heq.
      destruct (proj2 (zget_some_iff T data (j * w + i)) ltac:(nia)) as [v Hv]. exists v. auto.
    - repeat constructor; cbn [ev_idx ev_len]; unfold zlen in *; lia.
    - intros x Hx. exists {| ev_wr := true; ev_idx := 0; ev_len := zlen data |}.
      split; [now left|]. cbn [ev_wr ev_idx ev_len]. split; [reflexivity | lia]. }
  assert (Hw' : 0 < w) by lia. assert (Hh' : 0 < h) by lia.
  destruct k, avx2;
    try (apply naive_transpose_spec; assumption).
  - apply generic_entry_spec; try assumption; [lia | apply Hn32].
  - apply generic_entry_spec; try assumption; [lia | apply Hn64].
Qed.

(* (c) shape mismatches, for the forms of the product that cannot wrap *)
Definition no_wrap_form (f : mulform) (debug : bool) : bool :=
  match f with MulChecked => true | MulPlain => debug end.

Lemma shape_asserts_rejects : forall f debug w h ld lr,
  no_wrap_form f debug = true -> (ld <> w * h \/ lr <> ld) ->
  shape_asserts f debug w h ld lr = if w * h <? two64 then PanicAssert else PanicOverflow.
Proof.
  intros f debug w h ld lr Hf Hm. unfold shape_asserts, shape_product.
  assert (Hp : (if w * h <? two64 then @Ok Z (w * h) else PanicOverflow)
               = match f with
                 | MulChecked => if w * h <? two64 then Ok (w * h) else PanicOverflow
                 | MulPlain => if debug then if w * h <? two64 then Ok (w * h) else PanicOverflow
                               else Ok ((w * h) mod two64)
                 end).
  { destruct f; [|reflexivity]. cbn [no_wrap_form] in Hf. now rewrite Hf. }
  rewrite <- Hp. destruct (w * h <? two64); cbn [bind]; [|reflexivity].
  destruct (Z.eqb_spec ld (w * h)) as [E|E]; [|reflexivity].
  destruct (Z.eqb_spec ld lr) as [E'|E']; [|reflexivity]. destruct Hm; congruence.
Qed.

Lemma transpose_matrix_rejects :
  forall T cfg debug k avx2 w h (data result : list T),
    no_wrap_form (chk_outer cfg) debug = true ->
    (zlen data <> w * h \/ zlen result <> zlen data) ->
    transpose_matrix cfg debug k avx2 w h data result
    = if w * h <? two64 then PanicAssert else PanicOverflow.
Proof.
  intros T cfg debug k avx2 w h data result Hf Hm. unfold transpose_matrix.
  rewrite (shape_asserts_rejects _ _ _ _ _ _ Hf Hm). destruct (w * h <? two64); reflexivity.
Qed.

(* every form, when the product does not overflow *)
Lemma transpose_matrix_rejects_no_overflow :
  forall T cfg debug k avx2 w h (data result : list T),
    0 <= w -> 0 <= h -> w * h < two64 ->
    (zlen data <> w * h \/ zlen result <> zlen data) ->
    transpose_matrix cfg debug k avx2 w h data result = PanicAssert.
Proof.
  intros T cfg debug k avx2 w h data result Hw Hh Hno Hm. unfold transpose_matrix, shape_asserts, shape_product.
  assert (Hlt : (w * h <? two64) = true) by (apply Z.ltb_lt; exact Hno).
  destruct (chk_outer cfg); [destruct debug|]; rewrite ?Hlt; cbn [bind];
    rewrite ?Z.mod_small by nia;
    (destruct (Z.eqb_spec (zlen data) (w * h)) as [E|E]; [|reflexivity]);
    (destruct (Z.eqb_spec (zlen data) (zlen result)) as [E'|E']; [|reflexivity]); destruct Hm; congruence.
Qed.

Lemma generic_transpose_rejects :
  forall T L net cfg debug fuel w h (data result : list T),
    no_wrap_form (chk_inner cfg) debug = true ->
    (zlen data <> w * h \/ zlen result <> zlen data) ->
    generic_transpose data w h fuel L net cfg debug result
    = if w * h <? two64 then PanicAssert else PanicOverflow.
Proof.
  intros T L net cfg debug fuel w h data result Hf Hm. unfold generic_transpose.
  rewrite (shape_asserts_rejects _ _ _ _ _ _ Hf Hm). destruct (w * h <? two64); reflexivity.
Qed.

(* ... and the plain release product is refuted: a wrapped product passes both asserts *)
Lemma transpose_matrix_rejects_refuted :
  exists (w h : Z) (data result : list unit),
    0 <= w < two64 /\ 0 <= h < two64 /\ zlen data <> w * h /\
    (forall k avx2, transpose_matrix (std_cfg MulPlain MulPlain) false k avx2 w h data result = Fault) /\
    (* whatever the inner check of generic_transpose does, the scalar route is reached unchecked *)
    (forall inner avx2, transpose_matrix (std_cfg MulPlain inner) false KOther avx2 w h data result = Fault).
Proof.
  exists (2 ^ 63), 2, [], []. split; [split; [discriminate | reflexivity]|].
  split; [split; [discriminate | reflexivity]|]. split; [discriminate|]. split.
  - intros k avx2. destruct k, avx2; vm_compute; reflexivity.
  - intros inner avx2. destruct inner, avx2; vm_compute; reflexivity.
Qed.

Lemma avx2_entry_rejects_refuted :
  exists (w h : Z) (data result : list unit),
    0 <= w < two64 /\ 0 <= h < two64 /\ zlen data <> w * h /\
    forall outer, f32_xany_avx2_nofma_transpose (std_cfg outer MulPlain) false w h data result = Fault
               /\ f64_xany_avx2_nofma_transpose (std_cfg outer MulPlain) false w h data result = Fault.
Proof.
  exists (2 ^ 63), 2, [], []. split; [split; [discriminate | reflexivity]|].
  split; [split; [discriminate | reflexivity]|]. split; [discriminate|].
  intros outer. destruct outer; split; vm_compute; reflexivity.
Qed.

(* (d) *)
Lemma nth_error_ext_eq : forall T (l1 l2 : list T),
  (forall n, nth_error l1 n = nth_error l2 n) -> l1 = l2.
Proof.
  intros T l1. induction l1 as [|a l1 IH]; intros l2 H.
  - destruct l2 as [|b l2]; [reflexivity | specialize (H 0%nat); discriminate H].
  - destruct l2 as [|b l2]; [specialize (H 0%nat); discriminate H|].
    pose proof (H 0%nat) as H0. cbn [nth_error] in H0. injection H0 as <-.
    f_equal. apply IH. intros n. exact (H (Datatypes.S n)).
Qed.

Lemma transpose_involution :
  forall T cfg debug k avx2 w h (data r0 r1 : list T),
    cfg_wf cfg -> 0 <= w -> 0 <= h -> w * h < two64 ->
    zlen data = w * h -> zlen r0 = w * h -> zlen r1 = w * h ->
    exists s1 s2,
      transpose_matrix cfg debug k avx2 w h data r0 = Ok s1 /\
      transpose_matrix cfg debug k avx2 h w (res s1) r1 = Ok s2 /\
      res s2 = data.
Proof.
  intros T cfg debug k avx2 w h data r0 r1 Hcfg Hw Hh Hno Hd Hr0 Hr1.
  destruct (transpose_matrix_correct T cfg debug k avx2 w h data r0 Hcfg Hw Hh Hno Hd Hr0)
    as [s1 [H1 (L1 & C1 & _ & _)]].
  assert (Hl1 : zlen (res s1) = h * w) by (unfold zlen in *; lia).
  destruct (transpose_matrix_correct T cfg debug k avx2 h w (res s1) r1 Hcfg Hh Hw ltac:(lia) Hl1 ltac:(lia))
    as [s2 [H2 (L2 & C2 & _ & _)]].
  exists s1, s2. split; [exact H1|]. split; [exact H2|].
  apply nth_error_ext_eq. intros n.
  destruct (Z_lt_dec (Z.of_nat n) (w * h)) as [Hlt|Hge].
  - assert (Hwpos : 0 < w) by nia.
    set (i := Z.of_nat n / w). set (j := Z.of_nat n mod w).
    pose proof (Z.mod_pos_bound (Z.of_nat n) w Hwpos) as Hj. fold j in Hj.
    assert (Hn : Z.of_nat n = i * w + j) by (unfold i, j; pose proof (Z.div_mod (Z.of_nat n) w ltac:(lia)); lia).
    assert (Hi : 0 <= i < h).
    { split; [apply Z.div_pos; lia | apply Z.div_lt_upper_bound; lia]. }
    destruct (C2 i j Hi Hj) as [v [Hv2 Hv1]].
    destruct (C1 j i Hj Hi) as [v' [Hv1' Hvd]].
    rewrite Hv1' in Hv1. injection Hv1 as ->.
    rewrite <- !zget_nat, Hn, Hv2, Hvd. reflexivity.
  - assert (E1 : nth_error (res s2) n = None) by (apply nth_error_None; unfold zlen in *; lia).
    assert (E2 : nth_error data n = None) by (apply nth_error_None; unfold zlen in *; lia).
    now rewrite E1, E2.
Qed.

(* the two public AVX2 entry points called as documented (they are `unsafe fn`: avx2 present, both
   slices of length width*height) *)
Lemma avx2_entries_correct :
  forall T cfg debug w h (data result : list T),
    cfg_wf cfg -> 0 < w -> 0 < h -> w * h < two64 -> zlen data = w * h -> zlen result = w * h ->
    (exists s, f32_xany_avx2_nofma_transpose cfg debug w h data result = Ok s /\ transposed w h data result s) /\
    (exists s, f64_xany_avx2_nofma_transpose cfg debug w h data result = Ok s /\ transposed w h data result s).
Proof.
  intros T cfg debug w h data result [H32 H64] Hw Hh Hno Hd Hr.
  unfold f32_xany_avx2_nofma_transpose, f64_xany_avx2_nofma_transpose.
  split; apply generic_entry_spec; try assumption; try lia; [apply H32 | apply H64].
Qed.

Lemma avx2_entries_reject :
  forall T cfg debug w h (data result : list T),
    no_wrap_form (chk_inner cfg) debug = true ->
    (zlen data <> w * h \/ zlen result <> zlen data) ->
    f32_xany_avx2_nofma_transpose cfg debug w h data result = (if w * h <? two64 then PanicAssert else PanicOverflow) /\
    f64_xany_avx2_nofma_transpose cfg debug w h data result = (if w * h <? two64 then PanicAssert else PanicOverflow).
Proof.
  intros. unfold f32_xany_avx2_nofma_transpose, f64_xany_avx2_nofma_transpose.
  split; apply generic_transpose_rejects; assumption.
Qed.
