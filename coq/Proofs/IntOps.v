(* Integer kernels on any back end satisfying IntLanewise + IntElementwise (C13's conclusions):
   element-wise add/sub/mul/max/min (vector and by-value forms) are the scalar operation at every index
   (C02, C05), horizontal max/min return the true extreme of the signed/unsigned readings (C05). *)
From Coq Require Import ZArith List Arith Bool Lia.
From CF Require Import Base.Mem Model.SimdApi Model.Kernels Model.Tables Model.Prim Model.Regs.
From CF Require Import Proofs.MemProofs Proofs.KernelRules Proofs.KernelSafety Proofs.KernelBounds
     Proofs.OpsWf Proofs.ListFacts Proofs.ReduceCorrect Proofs.IntReduce Proofs.MapCorrect
     Proofs.Extreme Proofs.HorizExtreme Proofs.IntBackends Proofs.DivCorrect.
From CF Require Proofs.RegArith.
Import ListNotations.

Section IntOps.
  Variable w : Z.
  Hypothesis Hw : (0 < w)%Z.
  Variable sg : bool.
  Variable R : SimdOps Z.
  Hypothesis IL : IntLanewise w R.
  Hypothesis IE : IntElementwise w sg R.
  Notation Ln := (lanes R).
  Notation okv := (in_range w).
  Let Mth := int_math sg w.
  Let HL : 1 <= Ln := wf_L R (il_wf w R IL).

  Variables a b res : list Z.
  Variable dims : nat.
  Hypothesis Ha : length a = dims.
  Hypothesis Hr : length res = dims.
  Hypothesis Hoka : Forall okv a.
  Let m0 := init_mem a b res.

  (* -------- element-wise, vector (x) vector -------- *)
  Section Vec.
    Hypothesis Hb : length b = dims.
    Hypothesis Hokb : Forall okv b.

    Lemma vec_gen (f : Z -> Z -> Z) op_dense op sop :
      (forall x y, length x = Ln -> length y = Ln -> Forall okv x -> Forall okv y -> op x y = map2 f x y) ->
      (forall x y, op_dense x y = apply_dense2 op x y) ->
      (forall x y, sop x y = f x y) ->
      match map_vector R Mth dims op_dense op sop m0 with
      | Ok _ m => run_ok m0 m /\ mR m = map2 f a b
      | _ => False
      end.
    Proof.
      intros H1 H2 H3.
      apply (map_vector_correct R Mth HL a b res dims Ha Hr okv Hoka Hb f op_dense op sop Hokb); auto.
    Qed.

    Theorem add_vector_exact :
      match generic_add_vector R Mth dims m0 with
      | Ok _ m => run_ok m0 m /\ mR m = map2 (i_add w) a b | _ => False end.
    Proof. apply vec_gen; [apply (il_add w R IL) | apply (il_add_dense w R IL) | reflexivity]. Qed.
    Theorem sub_vector_exact :
      match generic_sub_vector R Mth dims m0 with
      | Ok _ m => run_ok m0 m /\ mR m = map2 (i_sub w) a b | _ => False end.
    Proof. apply vec_gen; [apply (il_sub w R IL) | apply (il_sub_dense w R IL) | reflexivity]. Qed.
    Theorem mul_vector_exact :
      match generic_mul_vector R Mth dims m0 with
      | Ok _ m => run_ok m0 m /\ mR m = map2 (i_mul w) a b | _ => False end.
    Proof. apply vec_gen; [apply (il_mul w R IL) | apply (ie_mul_dense w sg R IE) | reflexivity]. Qed.
    Theorem max_vertical_exact :
      match generic_max_vertical R Mth dims m0 with
      | Ok _ m => run_ok m0 m /\ mR m = map2 (i_max sg w) a b | _ => False end.
    Proof. apply vec_gen; [apply (ie_max w sg R IE) | apply (ie_max_dense w sg R IE) | reflexivity]. Qed.
    Theorem min_vertical_exact :
      match generic_min_vertical R Mth dims m0 with
      | Ok _ m => run_ok m0 m /\ mR m = map2 (i_min sg w) a b | _ => False end.
    Proof. apply vec_gen; [apply (ie_min w sg R IE) | apply (ie_min_dense w sg R IE) | reflexivity]. Qed.
  End Vec.

  (* -------- element-wise, vector (x) broadcast value -------- *)
  Section Val.
    Variable value : Z.
    Hypothesis Hokv : okv value.

    Lemma val_gen (f : Z -> Z -> Z) op_dense op sop :
      (forall x y, length x = Ln -> length y = Ln -> Forall okv x -> Forall okv y -> op x y = map2 f x y) ->
      (forall x y, op_dense x y = apply_dense2 op x y) ->
      (forall x y, sop x y = f x y) ->
      match map_value R Mth dims value (dense_copy (repeat value Ln)) (repeat value Ln) op_dense op sop m0 with
      | Ok _ m => run_ok m0 m /\ mR m = map (fun x => f x value) a
      | _ => False
      end.
    Proof.
      intros H1 H2 H3.
      apply (map_value_correct R Mth HL a b res dims Ha Hr okv Hoka f value op_dense op sop Hokv); auto.
    Qed.

    Theorem add_value_exact :
      match generic_add_value R Mth dims value m0 with
      | Ok _ m => run_ok m0 m /\ mR m = map (fun x => i_add w x value) a | _ => False end.
    Proof.
      unfold generic_add_value. rewrite (ie_filled w sg R IE).
      apply val_gen; [apply (il_add w R IL) | apply (il_add_dense w R IL) | reflexivity].
    Qed.
    Theorem sub_value_exact :
      match generic_sub_value R Mth dims value m0 with
      | Ok _ m => run_ok m0 m /\ mR m = map (fun x => i_sub w x value) a | _ => False end.
    Proof.
      unfold generic_sub_value. rewrite (ie_filled w sg R IE).
      apply val_gen; [apply (il_sub w R IL) | apply (il_sub_dense w R IL) | reflexivity].
    Qed.
    Theorem mul_value_exact :
      match generic_mul_value R Mth dims value m0 with
      | Ok _ m => run_ok m0 m /\ mR m = map (fun x => i_mul w x value) a | _ => False end.
    Proof.
      unfold generic_mul_value. rewrite (ie_filled w sg R IE).
      apply val_gen; [apply (il_mul w R IL) | apply (ie_mul_dense w sg R IE) | reflexivity].
    Qed.

    Lemma filled_dense_eq : filled_dense R value = dense_copy (repeat value Ln)
                            /\ nth_reg (filled_dense R value) 0 = repeat value Ln.
    Proof. unfold filled_dense. rewrite (ie_filled w sg R IE). split; reflexivity. Qed.

    Theorem max_value_exact :
      match generic_max_value R Mth dims value m0 with
      | Ok _ m => run_ok m0 m /\ mR m = map (fun x => i_max sg w x value) a | _ => False end.
    Proof.
      unfold generic_max_value. cbv zeta. destruct filled_dense_eq as [E1 E2]. rewrite E2, E1.
      apply val_gen; [apply (ie_max w sg R IE) | apply (ie_max_dense w sg R IE) | reflexivity].
    Qed.
    Theorem min_value_exact :
      match generic_min_value R Mth dims value m0 with
      | Ok _ m => run_ok m0 m /\ mR m = map (fun x => i_min sg w x value) a | _ => False end.
    Proof.
      unfold generic_min_value. cbv zeta. destruct filled_dense_eq as [E1 E2]. rewrite E2, E1.
      apply val_gen; [apply (ie_min w sg R IE) | apply (ie_min_dense w sg R IE) | reflexivity].
    Qed.
  End Val.

  (* -------- division: panics iff a divisor is zero, otherwise the truncated quotients -------- *)
  Lemma div_none_iff_zero x y : i_div sg w x y = None <-> y = 0%Z.
  Proof. unfold i_div. destruct (Z.eqb_spec y 0); split; intros; try discriminate; try reflexivity; try assumption; contradiction. Qed.

  Lemma sequence_div_none (x y : list Z) :
    length x = length y ->
    (sequence (map2 (i_div sg w) x y) = None <-> Exists (fun d => d = 0%Z) y).
  Proof.
    revert y. induction x as [|p x IH]; intros [|q y] Hl; cbn in Hl; try lia; cbn [map2 sequence].
    - split; [discriminate | intros H; inversion H].
    - destruct (i_div sg w p q) as [c|] eqn:E.
      + assert (q <> 0%Z) by (intros ->; rewrite (proj2 (div_none_iff_zero p 0) eq_refl) in E; discriminate).
        specialize (IH y ltac:(lia)). destruct (sequence (map2 (i_div sg w) x y)) as [r|].
        * split; [discriminate|]. intros Hx. inversion Hx as [? ? Hq|? ? Hy]; subst; [contradiction|]. apply IH in Hy. discriminate.
        * split; [intros _; right; apply IH; reflexivity | reflexivity].
      + split; [intros _; left; apply (div_none_iff_zero p q); exact E | reflexivity].
  Qed.

  Section DivVec.
    Hypothesis Hb : length b = dims.
    Hypothesis Hokb : Forall okv b.
    Theorem div_vector_exact :
      match generic_div_vector R Mth dims m0 with
      | Ok _ m => run_ok m0 m /\ sequence (map2 (i_div sg w) a b) = Some (mR m) /\ ~ Exists (fun d => d = 0%Z) b
      | Panic _ => Exists (fun d => d = 0%Z) b
      | _ => False
      end.
    Proof.
      pose proof (div_vector_correct R Mth HL a b res dims Ha Hr okv Hoka (i_div sg w)
                    (ie_div w sg R IE) (ie_div_dense w sg R IE) (fun x y => eq_refl) Hb Hokb) as H.
      fold m0 in H. destruct (generic_div_vector R Mth dims m0) as [[] m| m | |]; auto.
      - destruct H as [H1 H2]. unfold whole in H2. split; [exact H1|]. split; [exact H2|].
        intros Hx. apply (sequence_div_none a b ltac:(lia)) in Hx. rewrite Hx in H2. discriminate.
      - unfold whole in H. apply (sequence_div_none a b ltac:(lia)). exact H.
    Qed.
  End DivVec.

  Section DivVal.
    Variable value : Z.
    Hypothesis Hokv : okv value.
    Theorem div_value_exact :
      match generic_div_value R Mth dims value m0 with
      | Ok _ m => run_ok m0 m /\ sequence (map (fun x => i_div sg w x value) a) = Some (mR m)
                  /\ (value <> 0%Z \/ dims = 0)
      | Panic _ => value = 0%Z /\ dims <> 0
      | _ => False
      end.
    Proof.
      pose proof (div_value_correct R Mth HL a b res dims Ha Hr okv Hoka (i_div sg w)
                    (ie_div w sg R IE) (ie_div_dense w sg R IE) (fun x y => eq_refl) value Hokv
                    (ie_filled w sg R IE value)) as H.
      fold m0 in H. destruct (generic_div_value R Mth dims value m0) as [[] m| m | |]; auto.
      - destruct H as [H1 H2]. split; [exact H1|]. split; [exact H2|].
        destruct (Z.eq_dec value 0) as [->|Hn]; [right | left; exact Hn].
        destruct a as [|x a']; [cbn in Ha; lia|]. cbn [map sequence] in H2.
        rewrite (proj2 (div_none_iff_zero x 0) eq_refl) in H2. discriminate.
      - destruct a as [|x a']; [cbn in H; discriminate|]. split; [|cbn in Ha; lia].
        destruct (Z.eq_dec value 0) as [->|Hn]; [reflexivity|]. exfalso.
        clear - H Hn. revert H. generalize (x :: a'). intros l. induction l as [|y l IH]; cbn [map sequence].
        + discriminate.
        + destruct (i_div sg w y value) eqn:E; [|apply div_none_iff_zero in E; contradiction].
          destruct (sequence (map (fun x0 => i_div sg w x0 value) l)); [discriminate | intros _; apply IH; reflexivity].
    Qed.
  End DivVal.

  (* -------- horizontal extremes -------- *)
  Definition le_val (x y : Z) : Prop := (ival sg w x <= ival sg w y)%Z.
  Definition ge_val (x y : Z) : Prop := (ival sg w y <= ival sg w x)%Z.

  Lemma le_val_refl x : okv x -> le_val x x. Proof. clear - w sg. unfold le_val. lia. Qed.
  Lemma le_val_trans x y z : okv x -> okv y -> okv z -> le_val x y -> le_val y z -> le_val x z.
  Proof. clear - w sg. unfold le_val. lia. Qed.
  Lemma ge_val_refl x : okv x -> ge_val x x. Proof. clear - w sg. unfold ge_val. lia. Qed.
  Lemma ge_val_trans x y z : okv x -> okv y -> okv z -> ge_val x y -> ge_val y z -> ge_val x z.
  Proof. clear - w sg. unfold ge_val. lia. Qed.

  Lemma max_selecting : selecting okv le_val (i_max sg w).
  Proof. clear - Hw.
    intros x y Hx Hy. destruct (RegArith.i_max_spec sg w x y Hx Hy Hw) as [E S].
    split; [exact S|]. unfold le_val. rewrite E. lia.
  Qed.
  Lemma min_selecting : selecting okv ge_val (i_min sg w).
  Proof. clear - Hw.
    intros x y Hx Hy. destruct (RegArith.i_min_spec sg w x y Hx Hy Hw) as [E S].
    split; [exact S|]. unfold ge_val. rewrite E. lia.
  Qed.

  Lemma okv_MIN : okv (i_MIN sg w).
  Proof. clear - Hw.
    unfold in_range, i_MIN. pose proof (RegArith.pow2_split w Hw). pose proof (RegArith.pow2_pos (w - 1) ltac:(lia)).
    destruct sg; lia.
  Qed.
  Lemma okv_MAX : okv (i_MAX sg w).
  Proof. clear - Hw.
    unfold in_range, i_MAX. pose proof (RegArith.pow2_split w Hw). pose proof (RegArith.pow2_pos (w - 1) ltac:(lia)).
    destruct sg; lia.
  Qed.

  Lemma fold_max_attains k l : In (fold_right Z.max k l) (k :: l) /\ (forall z, In z (k :: l) -> (z <= fold_right Z.max k l)%Z).
  Proof. clear - w sg.
    induction l as [|x l [IH1 IH2]]; cbn [fold_right].
    - split; [left; reflexivity|]. intros z [<-|[]]. lia.
    - split.
      + destruct (Z.max_spec x (fold_right Z.max k l)) as [[_ E]|[_ E]]; rewrite E.
        * destruct IH1 as [H|H]; [left; exact H | right; right; exact H].
        * right; left; reflexivity.
      + intros z [<-|[<-|Hz]].
        * specialize (IH2 k ltac:(left; reflexivity)). lia.
        * lia.
        * specialize (IH2 z ltac:(right; exact Hz)). lia.
  Qed.
  Lemma fold_min_attains k l : In (fold_right Z.min k l) (k :: l) /\ (forall z, In z (k :: l) -> (fold_right Z.min k l <= z)%Z).
  Proof. clear - w sg.
    induction l as [|x l [IH1 IH2]]; cbn [fold_right].
    - split; [left; reflexivity|]. intros z [<-|[]]. lia.
    - split.
      + destruct (Z.min_spec x (fold_right Z.min k l)) as [[_ E]|[_ E]]; rewrite E.
        * right; left; reflexivity.
        * destruct IH1 as [H|H]; [left; exact H | right; right; exact H].
      + intros z [<-|[<-|Hz]].
        * specialize (IH2 k ltac:(left; reflexivity)). lia.
        * lia.
        * specialize (IH2 z ltac:(right; exact Hz)). lia.
  Qed.

  (* from "value = fold of the readings" to "selected from and dominating the lanes" *)
  Lemma tov_refines (le : Z -> Z -> Prop) (cmp : Z -> Z -> Prop) e v x :
    okv e -> okv v -> Forall okv x ->
    In (ival sg w v) (ival sg w e :: map (ival sg w) x) ->
    (forall z, In z (e :: x) -> le z v) ->
    Refines okv le [v] (e :: x).
  Proof. clear - Hw.
    intros He Hv Fx Hin Hdom. repeat split.
    - constructor; auto.
    - constructor; auto.
    - intros s [<-|[]].
      change (ival sg w e :: map (ival sg w) x) with (map (ival sg w) (e :: x)) in Hin.
      apply in_map_iff in Hin. destruct Hin as (z & Ez & Hz).
      assert (okv z) by (destruct Hz as [<-|Hz]; [exact He | rewrite Forall_forall in Fx; auto]).
      rewrite (RegArith.ival_inj sg w v z Hw Hv H (eq_sym Ez)). exact Hz.
    - intros s Hs. exists v. split; [left; reflexivity | apply Hdom; exact Hs].
  Qed.

  Theorem max_horizontal_extreme :
    match generic_max_horizontal R Mth dims m0 with
    | Ok r m => run_ok m0 m /\ In r (i_MIN sg w :: a)
                /\ forall z, In z (i_MIN sg w :: a) -> (ival sg w z <= ival sg w r)%Z
    | _ => False
    end.
  Proof. clear Hr.
    unfold generic_max_horizontal, max_to_register.
    apply (horiz_extreme okv le_val le_val_refl le_val_trans R HL Mth (r_max R) (r_max_dense R)
                         (r_max_to_value R) (i_max sg w) (i_max sg w) (i_MIN sg w) okv_MIN
                         (ie_filled w sg R IE (i_MIN sg w)) max_selecting max_selecting); auto.
    - intros x y [Lx Fx] [Ly Fy]. apply (ie_max w sg R IE); assumption.
    - apply (ie_max_dense w sg R IE).
    - intros x [Lx Fx]. destruct (ie_maxv w sg R IE x Lx Fx) as [Hv Ev].
      destruct (fold_max_attains (ival sg w (i_MIN sg w)) (map (ival sg w) x)) as [A1 A2].
      apply (tov_refines le_val le_val); auto using okv_MIN.
      + rewrite Ev. exact A1.
      + intros z Hz. unfold le_val. rewrite Ev. apply A2.
        change (ival sg w (i_MIN sg w) :: map (ival sg w) x) with (map (ival sg w) (i_MIN sg w :: x)).
        apply in_map. exact Hz.
  Qed.

  Theorem min_horizontal_extreme :
    match generic_min_horizontal R Mth dims m0 with
    | Ok r m => run_ok m0 m /\ In r (i_MAX sg w :: a)
                /\ forall z, In z (i_MAX sg w :: a) -> (ival sg w r <= ival sg w z)%Z
    | _ => False
    end.
  Proof. clear Hr.
    unfold generic_min_horizontal, min_to_register.
    apply (horiz_extreme okv ge_val ge_val_refl ge_val_trans R HL Mth (r_min R) (r_min_dense R)
                         (r_min_to_value R) (i_min sg w) (i_min sg w) (i_MAX sg w) okv_MAX
                         (ie_filled w sg R IE (i_MAX sg w)) min_selecting min_selecting); auto.
    - intros x y [Lx Fx] [Ly Fy]. apply (ie_min w sg R IE); assumption.
    - apply (ie_min_dense w sg R IE).
    - intros x [Lx Fx]. destruct (ie_minv w sg R IE x Lx Fx) as [Hv Ev].
      destruct (fold_min_attains (ival sg w (i_MAX sg w)) (map (ival sg w) x)) as [A1 A2].
      apply (tov_refines ge_val ge_val); auto using okv_MAX.
      + rewrite Ev. exact A1.
      + intros z Hz. unfold ge_val. rewrite Ev. apply A2.
        change (ival sg w (i_MAX sg w) :: map (ival sg w) x) with (map (ival sg w) (i_MAX sg w :: x)).
        apply in_map. exact Hz.
  Qed.
End IntOps.
