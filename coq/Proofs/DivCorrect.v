(* Division kernels, generic in the back end: if the register division is the lane-by-lane scalar division
   (rejecting a register iff one lane's division is rejected), its dense form is the single-register form on
   the 8 registers in order, and the scalar division is the same function, then for EVERY length the kernel
   panics iff some element's division is rejected, and otherwise writes exactly the quotients.  Axiom-free. *)
From Coq Require Import List Arith Bool Lia.
From CF Require Import Base.Mem Model.SimdApi Model.Kernels Model.Tables.
From CF Require Import Proofs.MemProofs Proofs.KernelRules Proofs.KernelSafety Proofs.KernelBounds
     Proofs.OpsWf Proofs.ListFacts.
Import ListNotations.

Lemma apply_dense2_opt_none {T} (op : vreg T -> vreg T -> option (vreg T)) (x y : dense T) :
  apply_dense2_opt op x y = None ->
  exists k, k < length x /\ k < length y /\ op (nth k x []) (nth k y []) = None.
Proof.
  revert y. induction x as [|p x IH]; intros [|q y] H; cbn in H; try discriminate.
  destruct (op p q) as [c|] eqn:E.
  - destruct (apply_dense2_opt op x y) as [r|] eqn:E2; [discriminate|].
    destruct (IH y E2) as (k & H1 & H2 & H3). exists (S k). cbn. repeat split; try lia. exact H3.
  - exists 0. cbn. repeat split; try lia. exact E.
Qed.

Section DivCorrect.
  Context {T : Type}.
  Variable R : SimdOps T.
  Variable Mth : MathOps T.
  Hypothesis HL : 1 <= lanes R.
  Notation Ln := (lanes R).

  Variables a b res : list T.
  Variable dims : nat.
  Hypothesis Ha : length a = dims.
  Hypothesis Hr : length res = dims.
  Let m0 := init_mem a b res.

  Variable okv : T -> Prop.
  Hypothesis Hoka : Forall okv a.

  Variable fdiv : T -> T -> option T.
  Hypothesis Hdiv : forall x y, length x = Ln -> length y = Ln -> Forall okv x -> Forall okv y ->
                                r_div R x y = sequence (map2 fdiv x y).
  Hypothesis Hdense : forall x y, r_div_dense R x y = apply_dense2_opt (r_div R) x y.
  Hypothesis Hsdiv : forall x y, m_div Mth x y = fdiv x y.

  (* second operand: either the slice b (vector form) or a broadcast value *)
  Section Blocks.
    Variable bb : list T.
    Hypothesis Hb : length bb = dims.
    Hypothesis Hokb : Forall okv bb.

    Definition quot (i n : nat) : option (list T) :=
      sequence (map2 fdiv (firstn n (skipn i a)) (firstn n (skipn i bb))).
    Definition whole : option (list T) := sequence (map2 fdiv a bb).

    Lemma whole_split j n :
      j + n <= dims ->
      whole = match quot 0 j, quot j n, sequence (map2 fdiv (skipn (j + n) a) (skipn (j + n) bb)) with
              | Some x, Some y, Some z => Some (x ++ y ++ z)
              | _, _, _ => None
              end.
    Proof.
      intros Hj. unfold whole, quot. cbn [skipn].
      assert (Sp : forall l : list T, l = firstn j l ++ firstn n (skipn j l) ++ skipn (j + n) l).
      { intros l. rewrite <- skipn_skipn_add. rewrite (firstn_skipn n (skipn j l)). symmetry. apply firstn_skipn. }
      transitivity (sequence (map2 fdiv (firstn j a ++ firstn n (skipn j a) ++ skipn (j + n) a)
                                        (firstn j bb ++ firstn n (skipn j bb) ++ skipn (j + n) bb))).
      { rewrite <- (Sp a), <- (Sp bb). reflexivity. }
      rewrite map2_app by (rewrite !firstn_length; lia). rewrite sequence_app.
      rewrite map2_app by (rewrite !firstn_length, !skipn_length; lia). rewrite sequence_app.
      destruct (sequence (map2 fdiv (firstn j a) (firstn j bb))); [|reflexivity].
      destruct (sequence (map2 fdiv (firstn n (skipn j a)) (firstn n (skipn j bb)))); [|reflexivity].
      destruct (sequence (map2 fdiv (skipn (j + n) a) (skipn (j + n) bb))); reflexivity.
    Qed.

    Lemma block_none j n : j + n <= dims -> quot j n = None -> whole = None.
    Proof.
      intros Hj E. rewrite (whole_split j n Hj), E. destruct (quot 0 j); reflexivity.
    Qed.

    Definition PhiD (i : nat) (r : list T) : Prop :=
      exists P, quot 0 i = Some P /\ r = P ++ skipn i res.
    Definition PanicD (_ : mem T) : Prop := whole = None.

    Lemma quot_step j n P v : quot 0 j = Some P -> quot j n = Some v -> quot 0 (j + n) = Some (P ++ v).
    Proof.
      unfold quot. cbn [skipn]. intros H1 H2. rewrite !firstn_add_split.
      rewrite map2_app by (rewrite !firstn_length; lia). rewrite sequence_app, H1, H2. reflexivity.
    Qed.

    Lemma PhiD_step j v r :
      j + length v <= dims -> PhiD j r -> quot j (length v) = Some v -> PhiD (j + length v) (splice r j v).
    Proof.
      intros Hj (P & HP & ->) Hv. exists (P ++ v). split; [apply quot_step; assumption|].
      apply prefix_step; [|lia].
      apply sequence_length in HP. rewrite HP, map2_length, !firstn_length. cbn [skipn]. lia.
    Qed.

    Lemma reg_block j : j + Ln <= dims ->
      length (firstn Ln (skipn j a)) = Ln /\ length (firstn Ln (skipn j bb)) = Ln
      /\ Forall okv (firstn Ln (skipn j a)) /\ Forall okv (firstn Ln (skipn j bb)).
    Proof.
      intros Hj. repeat split; try (rewrite firstn_length, skipn_length; lia); apply Forall_block; assumption.
    Qed.

    Lemma div_block j v : j + Ln <= dims ->
      r_div R (firstn Ln (skipn j a)) (firstn Ln (skipn j bb)) = Some v -> length v = Ln /\ quot j (length v) = Some v.
    Proof.
      intros Hj E. destruct (reg_block j Hj) as (L1 & L2 & F1 & F2). rewrite Hdiv in E by assumption.
      assert (Lv : length v = Ln) by (apply sequence_length in E; rewrite E, map2_length; lia).
      split; [exact Lv|]. unfold quot. rewrite Lv. exact E.
    Qed.

  End Blocks.

  Section Vector.
    Hypothesis Hb : length b = dims.
    Hypothesis Hokb : Forall okv b.
    Notation quot := (quot b).
    Notation whole := (whole b).
    Notation PhiD := (PhiD b).
    Notation PanicD := (PanicD b).

    Theorem div_vector_correct :
      match generic_div_vector R Mth dims m0 with
      | Ok _ m => run_ok m0 m /\ whole = Some (mR m)
      | Panic _ => whole = None
      | _ => False
      end.
    Proof.
      assert (H : triple (SafeR m0 (PhiD 0)) (generic_div_vector R Mth dims)
                         (fun _ m => SafeR m0 (PhiD dims) m) PanicD).
      { unfold generic_div_vector.
        apply (three_phase_rule R HL dims (fun i _ => SafeR m0 (PhiD i)) (fun i _ => SafeR m0 (PhiD i))
                                (fun i _ => SafeR m0 (PhiD i)) PanicD); auto.
        - (* dense *)
          intros k [] Hk. pose proof (dense_in dims Ln HL k Hk) as Hin.
          apply load_dense_bind; [discriminate | unfold m0; cbn [slice_of init_mem mA mB mR]; lia |].
          apply load_dense_bind; [discriminate | unfold m0; cbn [slice_of init_mem mA mB mR]; lia |].
          unfold m0; cbn [slice_of init_mem mA mB mR]; fold m0.
          rewrite Hdense.
          apply lift_opt_bind_c.
          + intros E m _. unfold PanicD. apply apply_dense2_opt_none in E. destruct E as (q & Q1 & Q2 & Q3).
            cbn [length dense_at] in Q1. rewrite !nth_dense_at in Q3 by exact Q1.
            destruct (reg_block b Hb Hokb (k * Dn Ln + Ln * q) ltac:(unfold Dn in *; nia)) as (L1 & L2 & F1 & F2).
            rewrite Hdiv in Q3 by assumption.
            apply (block_none b Hb (k * Dn Ln + Ln * q) Ln); [unfold Dn in *; nia | exact Q3].
          + intros l El. destruct (apply_dense2_opt_spec R HL (r_div R) _ _ l El) as [Ll Hn].
            cbn [length dense_at] in Ll. rewrite Nat.min_id in Ll.
            assert (Hnth : forall q, q < 8 -> r_div R (firstn Ln (skipn (k * Dn Ln + Ln * q) a))
                                                   (firstn Ln (skipn (k * Dn Ln + Ln * q) b)) = Some (nth_reg l q)).
            { intros q Hq. specialize (Hn q ltac:(lia)). rewrite !nth_dense_at in Hn by exact Hq. exact Hn. }
            apply triple_bind_ret_r.
            apply (write_dense_steps m0 R PhiD (k * Dn Ln) l).
            * intros q Hq. apply (div_block b Hb Hokb (k * Dn Ln + Ln * q)); [unfold Dn in *; nia | apply Hnth; exact Hq].
            * unfold m0; cbn [init_mem mR]; lia.
            * intros q r Hq Hlen HP.
              destruct (div_block b Hb Hokb (k * Dn Ln + Ln * q) (nth_reg l q) ltac:(unfold Dn in *; nia) (Hnth q Hq)) as [E1 E2].
              replace (k * Dn Ln + Ln * S q) with (k * Dn Ln + Ln * q + length (nth_reg l q)) by (rewrite E1; lia).
              apply (PhiD_step b Hb); [rewrite E1; unfold Dn in *; nia | exact HP | exact E2].
            * replace (k * Dn Ln + Ln * 8) with (S k * Dn Ln) by (unfold Dn; lia). apply triple_ret. auto.
        - (* lane *)
          intros k [] Hk. pose proof (lane_in dims Ln HL k Hk) as Hin. unfold L.
          apply load_bind; [discriminate | unfold m0; cbn [slice_of init_mem mA mB mR]; lia |].
          apply load_bind; [discriminate | unfold m0; cbn [slice_of init_mem mA mB mR]; lia |].
          unfold m0; cbn [slice_of init_mem mA mB mR]; fold m0.
          apply lift_opt_bind_c.
          + intros E m _. unfold PanicD.
            destruct (reg_block b Hb Hokb (qn dims Ln * Dn Ln + k * Ln) ltac:(lia)) as (L1 & L2 & F1 & F2).
            rewrite Hdiv in E by assumption.
            apply (block_none b Hb (qn dims Ln * Dn Ln + k * Ln) Ln); [lia | exact E].
          + intros v Ev. destruct (div_block b Hb Hokb (qn dims Ln * Dn Ln + k * Ln) v ltac:(lia) Ev) as [E1 E2].
            apply (store_last m0 (PhiD (qn dims Ln * Dn Ln + k * Ln)) (PhiD (qn dims Ln * Dn Ln + S k * Ln))).
            * rewrite E1. unfold m0; cbn [init_mem mR]; lia.
            * intros r Hlen HP.
              replace (qn dims Ln * Dn Ln + S k * Ln) with (qn dims Ln * Dn Ln + k * Ln + length v) by (rewrite E1; lia).
              apply (PhiD_step b Hb); [rewrite E1; lia | exact HP | exact E2].
            * auto.
        - (* scalar *)
          intros i [] Hi. unfold read1, write1.
          apply triple_bind_assoc. apply load_bind; [discriminate | unfold m0; cbn [slice_of init_mem mA mB mR]; lia |].
          apply triple_bind_ret_l.
          apply triple_bind_assoc. apply load_bind; [discriminate | unfold m0; cbn [slice_of init_mem mA mB mR]; lia |].
          apply triple_bind_ret_l. unfold m0; cbn [slice_of init_mem mA mB mR]; fold m0.
          assert (Q1 : quot i 1 = match fdiv (hd (dflt Mth) (firstn 1 (skipn i a))) (hd (dflt Mth) (firstn 1 (skipn i b))) with
                                  | Some q => Some [q] | None => None end).
          { unfold quot. rewrite (hd_firstn1 (dflt Mth) a i) at 1 by lia.
            rewrite (hd_firstn1 (dflt Mth) b i) at 1 by lia. cbn [map2 sequence].
            destruct (fdiv _ _); reflexivity. }
          rewrite Hsdiv.
          apply lift_opt_bind_c.
          + intros E m _. unfold PanicD. apply (block_none b Hb i 1); [lia|]. rewrite Q1, E. reflexivity.
          + intros q Eq. rewrite Eq in Q1.
            apply (store_last m0 (PhiD i) (PhiD (S i))).
            * unfold m0; cbn [length init_mem mR]; lia.
            * intros r Hlen HP. replace (S i) with (i + length [q]) by (cbn [length]; lia).
              apply (PhiD_step b Hb); [cbn [length]; lia | exact HP | exact Q1].
            * auto. }
      specialize (H m0).
      assert (P0 : SafeR m0 (PhiD 0) m0).
      { split; [apply Safe0_init; reflexivity|]. exists []. split; reflexivity. }
      specialize (H P0). destruct (generic_div_vector R Mth dims m0) as [[] m| m | |]; auto.
      destruct H as [Hs (P & HP & E)]. split; [exact Hs|].
      unfold whole. unfold quot in HP. cbn [skipn] in HP. rewrite map2_full in HP by assumption.
      rewrite E, skipn_all2, app_nil_r by lia. exact HP.
    Qed.
  End Vector.

  Section Value.
    Variable value : T.
    Hypothesis Hokv : okv value.
    Hypothesis Hfilled : r_filled R value = repeat value Ln.
    Let bb := repeat value dims.

    Lemma bb_len : length bb = dims. Proof. apply repeat_length. Qed.
    Lemma bb_ok : Forall okv bb.
    Proof. apply Forall_forall. intros x Hx. apply repeat_spec in Hx. subst. exact Hokv. Qed.
    Lemma skipn_repeat (v : T) j n : skipn j (repeat v n) = repeat v (n - j).
    Proof.
      revert n. induction j as [|j IH]; intros n; cbn [skipn]; [f_equal; lia|].
      destruct n as [|n]; cbn [repeat]; [reflexivity|]. apply IH.
    Qed.
    Lemma firstn_repeat (v : T) j n : j <= n -> firstn j (repeat v n) = repeat v j.
    Proof.
      revert n. induction j as [|j IH]; intros n Hj; cbn [firstn]; [reflexivity|].
      destruct n as [|n]; [lia|]. cbn [repeat firstn]. f_equal. apply IH. lia.
    Qed.
    Lemma bb_block j n : j + n <= dims -> firstn n (skipn j bb) = repeat value n.
    Proof. intros H. unfold bb. rewrite skipn_repeat. apply firstn_repeat. lia. Qed.

    Notation quot := (quot bb).
    Notation whole := (whole bb).
    Notation PhiD := (PhiD bb).
    Notation PanicD := (PanicD bb).

    Theorem div_value_correct :
      match generic_div_value R Mth dims value m0 with
      | Ok _ m => run_ok m0 m /\ sequence (map (fun x => fdiv x value) a) = Some (mR m)
      | Panic _ => sequence (map (fun x => fdiv x value) a) = None
      | _ => False
      end.
    Proof.
      assert (W : whole = sequence (map (fun x => fdiv x value) a)).
      { unfold DivCorrect.whole, bb. rewrite <- Ha. rewrite map2_repeat_r. reflexivity. }
      assert (H : triple (SafeR m0 (PhiD 0)) (generic_div_value R Mth dims value)
                         (fun _ m => SafeR m0 (PhiD dims) m) PanicD).
      { unfold generic_div_value. cbv zeta. rewrite Hfilled.
        apply (three_phase_rule R HL dims (fun i _ => SafeR m0 (PhiD i)) (fun i _ => SafeR m0 (PhiD i))
                                (fun i _ => SafeR m0 (PhiD i)) PanicD); auto.
        - (* dense *)
          intros k [] Hk. pose proof (dense_in dims Ln HL k Hk) as Hin.
          apply load_dense_bind; [discriminate | unfold m0; cbn [slice_of init_mem mA mB mR]; lia |].
          unfold m0; cbn [slice_of init_mem mA mB mR]; fold m0.
          rewrite Hdense.
          assert (VD : forall q, q < 8 -> nth q (dense_copy (repeat value Ln)) [] = firstn Ln (skipn (k * Dn Ln + Ln * q) bb)).
          { intros q Hq. rewrite bb_block by (unfold Dn in *; nia). unfold dense_copy, NUM_LANES.
            do 8 (destruct q as [|q]; [reflexivity|]). lia. }
          apply lift_opt_bind_c.
          + intros E m _. unfold DivCorrect.PanicD. apply apply_dense2_opt_none in E. destruct E as (q & Q1 & Q2 & Q3).
            cbn [length dense_at] in Q1. rewrite nth_dense_at in Q3 by exact Q1. rewrite (VD q Q1) in Q3.
            destruct (reg_block bb bb_len bb_ok (k * Dn Ln + Ln * q) ltac:(unfold Dn in *; nia)) as (L1 & L2 & F1 & F2).
            rewrite Hdiv in Q3 by assumption.
            apply (block_none bb bb_len (k * Dn Ln + Ln * q) Ln); [unfold Dn in *; nia | exact Q3].
          + intros l El. destruct (apply_dense2_opt_spec R HL (r_div R) _ _ l El) as [Ll Hn].
            cbn [length dense_at] in Ll. unfold dense_copy, NUM_LANES in Ll. cbn [repeat length] in Ll.
            assert (Hnth : forall q, q < 8 -> r_div R (firstn Ln (skipn (k * Dn Ln + Ln * q) a))
                                                   (firstn Ln (skipn (k * Dn Ln + Ln * q) bb)) = Some (nth_reg l q)).
            { intros q Hq. specialize (Hn q ltac:(cbn in Ll; lia)). rewrite nth_dense_at in Hn by exact Hq.
              rewrite (VD q Hq) in Hn. exact Hn. }
            apply triple_bind_ret_r.
            apply (write_dense_steps m0 R PhiD (k * Dn Ln) l).
            * intros q Hq. apply (div_block bb bb_len bb_ok (k * Dn Ln + Ln * q)); [unfold Dn in *; nia | apply Hnth; exact Hq].
            * unfold m0; cbn [init_mem mR]; lia.
            * intros q r Hq Hlen HP.
              destruct (div_block bb bb_len bb_ok (k * Dn Ln + Ln * q) (nth_reg l q) ltac:(unfold Dn in *; nia) (Hnth q Hq)) as [E1 E2].
              replace (k * Dn Ln + Ln * S q) with (k * Dn Ln + Ln * q + length (nth_reg l q)) by (rewrite E1; lia).
              apply (PhiD_step bb bb_len); [rewrite E1; unfold Dn in *; nia | exact HP | exact E2].
            * replace (k * Dn Ln + Ln * 8) with (S k * Dn Ln) by (unfold Dn; lia). apply triple_ret. auto.
        - (* lane *)
          intros k [] Hk. pose proof (lane_in dims Ln HL k Hk) as Hin. unfold L.
          apply load_bind; [discriminate | unfold m0; cbn [slice_of init_mem mA mB mR]; lia |].
          unfold m0; cbn [slice_of init_mem mA mB mR]; fold m0.
          rewrite <- (bb_block (qn dims Ln * Dn Ln + k * Ln) Ln) by lia.
          apply lift_opt_bind_c.
          + intros E m _. unfold DivCorrect.PanicD.
            destruct (reg_block bb bb_len bb_ok (qn dims Ln * Dn Ln + k * Ln) ltac:(lia)) as (L1 & L2 & F1 & F2).
            rewrite Hdiv in E by assumption.
            apply (block_none bb bb_len (qn dims Ln * Dn Ln + k * Ln) Ln); [lia | exact E].
          + intros v Ev. destruct (div_block bb bb_len bb_ok (qn dims Ln * Dn Ln + k * Ln) v ltac:(lia) Ev) as [E1 E2].
            apply (store_last m0 (PhiD (qn dims Ln * Dn Ln + k * Ln)) (PhiD (qn dims Ln * Dn Ln + S k * Ln))).
            * rewrite E1. unfold m0; cbn [init_mem mR]; lia.
            * intros r Hlen HP.
              replace (qn dims Ln * Dn Ln + S k * Ln) with (qn dims Ln * Dn Ln + k * Ln + length v) by (rewrite E1; lia).
              apply (PhiD_step bb bb_len); [rewrite E1; lia | exact HP | exact E2].
            * auto.
        - (* scalar *)
          intros i [] Hi. unfold read1, write1.
          apply triple_bind_assoc. apply load_bind; [discriminate | unfold m0; cbn [slice_of init_mem mA mB mR]; lia |].
          apply triple_bind_ret_l. unfold m0; cbn [slice_of init_mem mA mB mR]; fold m0.
          assert (Q1 : quot i 1 = match fdiv (hd (dflt Mth) (firstn 1 (skipn i a))) value with
                                  | Some q => Some [q] | None => None end).
          { unfold DivCorrect.quot. rewrite (hd_firstn1 (dflt Mth) a i) at 1 by lia.
            rewrite bb_block by lia. cbn [repeat map2 sequence].
            destruct (fdiv _ _); reflexivity. }
          rewrite Hsdiv.
          apply lift_opt_bind_c.
          + intros E m _. unfold DivCorrect.PanicD. apply (block_none bb bb_len i 1); [lia|]. rewrite Q1, E. reflexivity.
          + intros q Eq. rewrite Eq in Q1.
            apply (store_last m0 (PhiD i) (PhiD (S i))).
            * unfold m0; cbn [length init_mem mR]; lia.
            * intros r Hlen HP. replace (S i) with (i + length [q]) by (cbn [length]; lia).
              apply (PhiD_step bb bb_len); [cbn [length]; lia | exact HP | exact Q1].
            * auto. }
      specialize (H m0).
      assert (P0 : SafeR m0 (PhiD 0) m0).
      { split; [apply Safe0_init; reflexivity|]. exists []. split; reflexivity. }
      specialize (H P0). rewrite <- W.
      destruct (generic_div_value R Mth dims value m0) as [[] m| m | |]; auto.
      destruct H as [Hs (P & HP & E)]. split; [exact Hs|].
      unfold DivCorrect.whole. unfold DivCorrect.quot in HP. cbn [skipn] in HP.
      rewrite map2_full in HP by (assumption || apply bb_len).
      rewrite E, skipn_all2, app_nil_r by lia. exact HP.
    Qed.
  End Value.
End DivCorrect.
