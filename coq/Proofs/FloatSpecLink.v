(* The float element-wise arithmetic kernels of every modelled back end meet the executable specification
   [spec_float] (Model/Spec.v, the oracle applied to the real implementation's output): every result cell is
   Flocq's correctly rounded operation on the operands at that index, division never panics. *)
From Coq Require Import ZArith List Arith Bool Lia.
From Flocq Require Import IEEE754.BinarySingleNaN.
From CF Require Import Base.Mem Model.SimdApi Model.Kernels Model.Tables Model.Prim Model.Regs Model.Spec.
From CF Require Import Proofs.KernelBounds Proofs.OpsWf Proofs.Extreme Proofs.FloatOrder Proofs.FloatBackends
     Proofs.BackendTable Proofs.SpecLink.
Import ListNotations.

Definition float_arith_kernels : list kernel :=
  [KAddVec; KSubVec; KMulVec; KDivVec; KAddVal; KSubVal; KMulVal; KDivVal].

Section FloatMeets.
  Context {prec emax : Z} {Hp : FLX.Prec_gt_0 prec} {He : Prec_lt_emax prec emax}.
  Notation bf := (binary_float prec emax).
  Variable R : SimdOps bf.
  Variables vmax vmin : bf -> bf -> bf.
  Variable fused : bool.
  Hypothesis FL : FloatLanewise R vmax vmin fused.
  Variables a b res : list bf.
  Variable v : bf.
  Variable dims : nat.
  Hypothesis Ha : length a = dims.
  Hypothesis Hr : length res = dims.
  Let m0 := init_mem a b res.

  Ltac unit_case H :=
    cbn [run_kernel]; unfold bind; fold m0 in H;
    match type of H with match ?c with _ => _ end => destruct c as [[] m| m | |] end;
    cbv beta iota in H; try contradiction; cbn [meets ret spec_float]; exact H.

  Theorem float_kernel_meets_spec k :
    In k float_arith_kernels ->
    (kernel_uses_b k = true -> length b = dims) ->
    meets m0 (run_kernel R float_math k dims v m0) (spec_float k v a b).
  Proof.
    intros Hk Hb. unfold float_arith_kernels in Hk. cbn [In] in Hk.
    repeat (destruct Hk as [<-|Hk]); [..|destruct Hk]; try (specialize (Hb eq_refl)).
    - pose proof (f_add_vector_exact R vmax vmin fused FL a b res dims Ha Hr Hb) as H. unit_case H.
    - pose proof (f_sub_vector_exact R vmax vmin fused FL a b res dims Ha Hr Hb) as H. unit_case H.
    - pose proof (f_mul_vector_exact R vmax vmin fused FL a b res dims Ha Hr Hb) as H. unit_case H.
    - pose proof (f_div_vector_exact R vmax vmin fused FL a b res dims Ha Hr Hb) as H. unit_case H.
    - pose proof (f_add_value_exact R vmax vmin fused FL a b res dims Ha Hr v) as H. unit_case H.
    - pose proof (f_sub_value_exact R vmax vmin fused FL a b res dims Ha Hr v) as H. unit_case H.
    - pose proof (f_mul_value_exact R vmax vmin fused FL a b res dims Ha Hr v) as H. unit_case H.
    - pose proof (f_div_value_exact R vmax vmin fused FL a b res dims Ha Hr v) as H. unit_case H.
  Qed.
End FloatMeets.

Theorem f32_export_meets_spec r R k a b res v dims :
  f32_ops r = Some R -> In k float_arith_kernels ->
  length a = dims -> length res = dims -> (kernel_uses_b k = true -> length b = dims) ->
  meets (init_mem a b res) (run_kernel R float_math k dims v (init_mem a b res)) (spec_float k v a b).
Proof.
  intros HR Hk Ha Hr Hb.
  exact (float_kernel_meets_spec R _ _ _ (f32_ops_faithful r R HR) a b res v dims Ha Hr k Hk Hb).
Qed.

Theorem f64_export_meets_spec r R k a b res v dims :
  f64_ops r = Some R -> In k float_arith_kernels ->
  length a = dims -> length res = dims -> (kernel_uses_b k = true -> length b = dims) ->
  meets (init_mem a b res) (run_kernel R float_math k dims v (init_mem a b res)) (spec_float k v a b).
Proof.
  intros HR Hk Ha Hr Hb.
  exact (float_kernel_meets_spec R _ _ _ (f64_ops_faithful r R HR) a b res v dims Ha Hr k Hk Hb).
Qed.
