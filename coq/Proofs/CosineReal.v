(* C06 (iv), real-number part: Cauchy-Schwarz on lists, and the propagation of the rounding errors of
   1 - D / sqrt (X * Y) through the four scalar operations of op_cosine::cosine (product, square root, quotient,
   difference: one rounding each) on top of the a-priori bounds of the three reductions (C04).
   Pure real analysis (Coq's Reals: the standard-library axioms of the reals; nothing else). *)
From Coq Require Import Reals List Lra Lia Psatz.
From CF Require Import Model.SimdApi Proofs.RoundErr.
Import ListNotations.
Local Open Scope R_scope.

Lemma sq_le_le A M : 0 <= M -> A * A <= M * M -> A <= M.
Proof. intros HM H. destruct (Rle_or_lt A M) as [|L]; [assumption|]. nra. Qed.

Lemma Rsum_sq_nonneg (a : list R) : 0 <= Rsum (map (fun x => x * x) a).
Proof. induction a as [|x a IH]; cbn [map Rsum fold_right]; [lra|]. fold (Rsum (map (fun x => x * x) a)). nra. Qed.

(* Cauchy-Schwarz, on the sum of the absolute values of the products *)
Lemma cauchy_schwarz_abs (a b : list R) :
  0 <= Rsum (map2 (fun x y => Rabs (x * y)) a b) /\
  Rsum (map2 (fun x y => Rabs (x * y)) a b) * Rsum (map2 (fun x y => Rabs (x * y)) a b)
  <= Rsum (map (fun x => x * x) a) * Rsum (map (fun x => x * x) b).
Proof.
  revert b. induction a as [|x a IH]; intros [|y b]; cbn [map2 map Rsum fold_right].
  - lra.
  - lra.
  - split; [lra|]. rewrite Rmult_0_l, Rmult_0_r. lra.
  - fold (Rsum (map2 (fun x y => Rabs (x * y)) a b)) (Rsum (map (fun x => x * x) a)) (Rsum (map (fun x => x * x) b)).
    destruct (IH b) as [A0 A2].
    pose proof (Rsum_sq_nonneg a) as NX0. pose proof (Rsum_sq_nonneg b) as NY0.
    set (A := Rsum (map2 (fun x y => Rabs (x * y)) a b)) in *.
    set (NX := Rsum (map (fun x => x * x) a)) in *. set (NY := Rsum (map (fun x => x * x) b)) in *.
    rewrite Rabs_mult. set (p := Rabs x). set (q := Rabs y).
    assert (Hp : 0 <= p) by apply Rabs_pos. assert (Hq : 0 <= q) by apply Rabs_pos.
    assert (Ex : x * x = p * p) by (unfold p; rewrite <- Rabs_mult; symmetry; apply Rabs_pos_eq; nra).
    assert (Ey : y * y = q * q) by (unfold q; rewrite <- Rabs_mult; symmetry; apply Rabs_pos_eq; nra).
    rewrite Ex, Ey. split; [nra|].
    assert (K : 2 * p * q * A <= p * p * NY + q * q * NX).
    { apply sq_le_le; [nra|].
      set (P := p * p * NY). set (Q := q * q * NX).
      assert (0 <= P) by (unfold P; nra). assert (0 <= Q) by (unfold Q; nra).
      assert (H1 : (2 * p * q * A) * (2 * p * q * A) <= 4 * (P * Q)).
      { unfold P, Q. replace (2 * p * q * A * (2 * p * q * A)) with (4 * (p * p * (q * q)) * (A * A)) by ring.
        replace (4 * (p * p * NY * (q * q * NX))) with (4 * (p * p * (q * q)) * (NX * NY)) by ring.
        apply Rmult_le_compat_l; [nra | exact A2]. }
      fold P Q. pose proof (Rle_0_sqr (P - Q)) as SQ. unfold Rsqr in SQ. lra. }
    nra.
Qed.

Lemma dot_le_abs (a b : list R) :
  Rabs (Rsum (map2 (fun x y => x * y) a b)) <= Rsum (map2 (fun x y => Rabs (x * y)) a b).
Proof.
  revert b. induction a as [|x a IH]; intros [|y b]; cbn [map2 Rsum fold_right]; try (rewrite Rabs_R0; lra).
  eapply Rle_trans; [apply Rabs_triang|]. specialize (IH b). unfold Rsum in IH. lra.
Qed.

(* from |x - c| <= e to the two inequalities *)
Lemma abs_le_inv x e : Rabs x <= e -> - e <= x <= e.
Proof. intros H. unfold Rabs in H. destruct (Rcase_abs x); lra. Qed.

Section Propagation.
  Variables u g K : R.
  Hypothesis Hu : 0 <= u.
  Hypothesis HK : 8 <= K.
  Hypothesis HKu : K * u <= / 16.
  Hypothesis Hg0 : 0 <= g.
  Hypothesis Hg : g <= 16 / 15 * ((K - 5) * u).

  Lemma u_small : u <= / 128. Proof. nra. Qed.
  Lemma g_small : g <= / 15. Proof. nra. Qed.

  Variables NX NY DOT A X Y D p s q r : R.
  Hypothesis HNX : 0 < NX.
  Hypothesis HNY : 0 < NY.
  Let S := sqrt (NX * NY).
  Hypothesis HA : A <= S.
  Hypothesis HDOT : Rabs DOT <= A.
  Hypothesis HX : Rabs (X - NX) <= g * NX.
  Hypothesis HY : Rabs (Y - NY) <= g * NY.
  Hypothesis HD : Rabs (D - DOT) <= g * A.
  Hypothesis Hp : Rabs (p - X * Y) <= u * Rabs (X * Y).
  Hypothesis Hs : Rabs (s - sqrt p) <= u * Rabs (sqrt p).
  Hypothesis Hq : Rabs (q - D / s) <= u * Rabs (D / s) + u.
  Hypothesis Hr : Rabs (r - (1 - q)) <= u * Rabs (1 - q).

  Lemma S_pos : 0 < S. Proof. apply sqrt_lt_R0. nra. Qed.
  Lemma S_sq : S * S = NX * NY. Proof. apply sqrt_sqrt. nra. Qed.

  Lemma XY_bounds : NX * NY * ((1 - g) * (1 - g)) <= X * Y <= NX * NY * ((1 + g) * (1 + g)).
  Proof.
    pose proof g_small. apply abs_le_inv in HX. apply abs_le_inv in HY.
    assert (NX * (1 - g) <= X <= NX * (1 + g)) by lra.
    assert (NY * (1 - g) <= Y <= NY * (1 + g)) by lra.
    assert (0 < NX * (1 - g)) by nra. assert (0 < NY * (1 - g)) by nra.
    split; nra.
  Qed.

  Lemma p_bounds : S * S * ((1 - g) * (1 - g) * (1 - u)) <= p <= S * S * ((1 + g) * (1 + g) * (1 + u)).
  Proof.
    pose proof g_small. pose proof u_small. destruct XY_bounds as [L U]. rewrite S_sq.
    assert (P0 : 0 < X * Y) by nra.
    rewrite (Rabs_pos_eq (X * Y)) in Hp by lra. apply abs_le_inv in Hp.
    split; nra.
  Qed.

  Lemma sqrtp_bounds : S * ((1 - g) * (1 - u)) <= sqrt p <= S * ((1 + g) * (1 + u)).
  Proof.
    pose proof g_small. pose proof u_small. pose proof S_pos. destruct p_bounds as [L U].
    assert (Z1 : 0 <= S * ((1 - g) * (1 - u))) by (apply Rmult_le_pos; [lra | apply Rmult_le_pos; lra]).
    assert (Z2 : 0 <= S * ((1 + g) * (1 + u))) by (apply Rmult_le_pos; [lra | apply Rmult_le_pos; lra]).
    assert (Z3 : 0 <= S * S) by (apply Rmult_le_pos; lra).
    split.
    - rewrite <- (sqrt_square (S * ((1 - g) * (1 - u)))) by exact Z1. apply sqrt_le_1_alt.
      eapply Rle_trans; [|exact L].
      replace (S * ((1 - g) * (1 - u)) * (S * ((1 - g) * (1 - u)))) with (S * S * ((1 - g) * (1 - g) * ((1 - u) * (1 - u)))) by ring.
      apply Rmult_le_compat_l; [exact Z3|]. apply Rmult_le_compat_l; [nra|nra].
    - rewrite <- (sqrt_square (S * ((1 + g) * (1 + u)))) by exact Z2. apply sqrt_le_1_alt.
      eapply Rle_trans; [exact U|].
      replace (S * ((1 + g) * (1 + u)) * (S * ((1 + g) * (1 + u)))) with (S * S * ((1 + g) * (1 + g) * ((1 + u) * (1 + u)))) by ring.
      apply Rmult_le_compat_l; [exact Z3|]. apply Rmult_le_compat_l; [nra|nra].
  Qed.

  Lemma s_bounds : S * ((1 - g) * ((1 - u) * (1 - u))) <= s <= S * ((1 + g) * ((1 + u) * (1 + u))).
  Proof.
    pose proof g_small. pose proof u_small. pose proof S_pos. destruct sqrtp_bounds as [L U].
    assert (Z1 : 0 < S * ((1 - g) * (1 - u))) by (apply Rmult_lt_0_compat; [lra | apply Rmult_lt_0_compat; lra]).
    assert (P0 : 0 < sqrt p) by lra.
    rewrite (Rabs_pos_eq (sqrt p)) in Hs by lra. apply abs_le_inv in Hs.
    assert (L' : S * ((1 - g) * (1 - u)) * (1 - u) <= sqrt p * (1 - u)) by (apply Rmult_le_compat_r; lra).
    assert (U' : sqrt p * (1 + u) <= S * ((1 + g) * (1 + u)) * (1 + u)) by (apply Rmult_le_compat_r; lra).
    split; lra.
  Qed.

  Let beta := 5 / 4 * (g + 2 * u).

  Lemma poly_lo : 1 <= (1 + beta) * ((1 - g) * ((1 - u) * (1 - u))).
  Proof.
    pose proof g_small. pose proof u_small. unfold beta. set (w := g + 2 * u).
    assert (W : 0 <= w <= / 5) by (unfold w; lra).
    assert (LO : 1 - w <= (1 - g) * ((1 - u) * (1 - u))) by (unfold w; nra).
    apply Rle_trans with ((1 + 5 / 4 * w) * (1 - w)); [nra|].
    apply Rmult_le_compat_l; lra.
  Qed.
  Lemma poly_hi : (1 - beta) * ((1 + g) * ((1 + u) * (1 + u))) <= 1.
  Proof.
    pose proof g_small. pose proof u_small. unfold beta. set (w := g + 2 * u).
    assert (W : 0 <= w <= / 5) by (unfold w; lra).
    assert (D1 : u * (u + 2 * g + g * u) <= u * / 4) by (apply Rmult_le_compat_l; nra).
    assert (HI : (1 + g) * ((1 + u) * (1 + u)) <= 1 + 9 / 8 * w) by (unfold w; nra).
    apply Rle_trans with ((1 - 5 / 4 * w) * (1 + 9 / 8 * w)); [|nra].
    apply Rmult_le_compat_l; lra.
  Qed.
  Lemma beta_small : 0 <= beta <= / 8.
  Proof. pose proof g_small. pose proof u_small. unfold beta. lra. Qed.

  Lemma s_pos : 0 < s.
  Proof.
    pose proof g_small. pose proof u_small. pose proof S_pos. destruct s_bounds as [L _].
    assert (0 < S * ((1 - g) * ((1 - u) * (1 - u)))); [|lra].
    apply Rmult_lt_0_compat; [lra|]. apply Rmult_lt_0_compat; [lra|]. apply Rmult_lt_0_compat; lra.
  Qed.

  Lemma psi_bounds : 1 - beta <= S / s <= 1 + beta.
  Proof.
    pose proof S_pos. pose proof s_pos. destruct s_bounds as [L U]. pose proof beta_small.
    pose proof poly_lo as PL. pose proof poly_hi as PH.
    split.
    - apply Rmult_le_reg_r with s; [lra|]. unfold Rdiv. rewrite Rmult_assoc, Rinv_l, Rmult_1_r by lra.
      (* (1 - beta) s <= (1 - beta) S hi <= S *)
      apply Rle_trans with ((1 - beta) * (S * ((1 + g) * ((1 + u) * (1 + u))))).
      + apply Rmult_le_compat_l; lra.
      + replace ((1 - beta) * (S * ((1 + g) * ((1 + u) * (1 + u))))) with (S * ((1 - beta) * ((1 + g) * ((1 + u) * (1 + u))))) by ring.
        rewrite <- (Rmult_1_r S) at 2. apply Rmult_le_compat_l; lra.
    - apply Rmult_le_reg_r with s; [lra|]. unfold Rdiv. rewrite Rmult_assoc, Rinv_l, Rmult_1_r by lra.
      apply Rle_trans with ((1 + beta) * (S * ((1 - g) * ((1 - u) * (1 - u))))).
      + replace ((1 + beta) * (S * ((1 - g) * ((1 - u) * (1 - u))))) with (S * ((1 + beta) * ((1 - g) * ((1 - u) * (1 - u))))) by ring.
        rewrite <- (Rmult_1_r S) at 1. apply Rmult_le_compat_l; lra.
      + apply Rmult_le_compat_l; lra.
  Qed.

  Let c := DOT / S.
  Let kappa := beta + g * (1 + beta).

  Lemma c_bounds : -1 <= c <= 1.
  Proof.
    pose proof S_pos. apply abs_le_inv in HDOT. unfold c.
    split.
    - apply Rmult_le_reg_r with S; [lra|]. unfold Rdiv. rewrite Rmult_assoc, Rinv_l, Rmult_1_r by lra. lra.
    - apply Rmult_le_reg_r with S; [lra|]. unfold Rdiv. rewrite Rmult_assoc, Rinv_l, Rmult_1_r by lra. lra.
  Qed.

  Lemma quot_err : Rabs (D / s - c) <= kappa.
  Proof.
    pose proof S_pos as HS. pose proof s_pos as Hs0. pose proof beta_small as HB. pose proof g_small as HG.
    pose proof c_bounds as HC. pose proof psi_bounds as HP.
    set (t := (D - DOT) / S).
    assert (Ht : - g <= t <= g).
    { apply abs_le_inv in HD. pose proof (Rabs_pos DOT).
      assert (g * A <= g * S) by (apply Rmult_le_compat_l; lra).
      unfold t. split.
      - apply Rmult_le_reg_r with S; [lra|]. unfold Rdiv. rewrite Rmult_assoc, Rinv_l, Rmult_1_r by lra. lra.
      - apply Rmult_le_reg_r with S; [lra|]. unfold Rdiv. rewrite Rmult_assoc, Rinv_l, Rmult_1_r by lra. lra. }
    set (psi := S / s) in *.
    assert (E : D / s - c = c * (psi - 1) + t * psi).
    { unfold c, t, psi. field. lra. }
    rewrite E. unfold kappa. apply Rabs_le.
    assert (B1 : - beta <= c * (psi - 1) <= beta) by (split; nra).
    assert (B2 : - (g * (1 + beta)) <= t * psi <= g * (1 + beta)) by (split; nra).
    lra.
  Qed.

  Lemma kappa_bound : kappa <= 12 / 5 * g + 5 / 2 * u.
  Proof. pose proof g_small. pose proof u_small. unfold kappa, beta. nra. Qed.

  Lemma quot_abs : Rabs (D / s) <= 5 / 4.
  Proof.
    pose proof quot_err as HQ. pose proof kappa_bound as HKp. pose proof c_bounds as HC.
    pose proof g_small as HG. pose proof u_small as HU.
    apply abs_le_inv in HQ. apply Rabs_le. lra.
  Qed.

  Lemma q_abs : Rabs q <= 3 / 2.
  Proof.
    pose proof quot_abs as HQ. pose proof u_small as HU.
    assert (Hq' : Rabs (q - D / s) <= u * (5 / 4) + u).
    { eapply Rle_trans; [exact Hq|]. apply Rplus_le_compat_r. apply Rmult_le_compat_l; assumption. }
    apply abs_le_inv in Hq'. apply abs_le_inv in HQ. apply Rabs_le. lra.
  Qed.

  Theorem cosine_err : Rabs (r - (1 - DOT / S)) <= 4 * (K * u).
  Proof.
    fold c. pose proof quot_err as HQ. pose proof kappa_bound as HKp. pose proof c_bounds as HC.
    pose proof g_small as HG. pose proof u_small as HU.
    assert (Hk0 : 0 <= kappa) by (unfold kappa; pose proof beta_small; nra).
    assert (Hk1 : kappa <= / 4) by lra.
    apply abs_le_inv in HQ.
    assert (Hds : Rabs (D / s) <= 1 + kappa) by (apply Rabs_le; lra).
    assert (Hq' : Rabs (q - D / s) <= u * (1 + kappa) + u).
    { eapply Rle_trans; [exact Hq|]. apply Rplus_le_compat_r. apply Rmult_le_compat_l; assumption. }
    apply abs_le_inv in Hq'.
    assert (Hqc : - (kappa + u * (2 + kappa)) <= q - c <= kappa + u * (2 + kappa)) by lra.
    assert (H1q : Rabs (1 - q) <= 2 + kappa + u * (2 + kappa)) by (apply Rabs_le; lra).
    assert (Hr' : Rabs (r - (1 - q)) <= u * (2 + kappa + u * (2 + kappa))).
    { eapply Rle_trans; [exact Hr|]. apply Rmult_le_compat_l; assumption. }
    apply abs_le_inv in Hr'.
    apply Rabs_le.
    assert (T : kappa + u * (2 + kappa) + u * (2 + kappa + u * (2 + kappa)) <= 4 * (K * u)) by nra.
    lra.
  Qed.
End Propagation.
