(* C06 (i), (ii): the branch structure of op_cosine::cosine, and the integer cosine of every modelled back end
   meets the executable specification [spec_int ... KCosine] (Model/Spec.v — the oracle applied to the real
   implementation's output): the formula in wrapping arithmetic over the exact sums reduced modulo 2^w, with the
   truncated square root through f64, panicking exactly when that square root is 0 on the general branch.

   Proof: Proofs/KernelValue.v decomposes [generic_cosine] into the VALUES of the dot-product and squared-norm
   kernels; C03 ([dot_exact], [norm_exact]) says what those values are modulo 2^w.  Axiom-free. *)
From Coq Require Import ZArith List Arith Bool Lia.
From CF Require Import Base.Mem Model.SimdApi Model.Kernels Model.Tables Model.Prim Model.Regs Model.Spec.
From CF Require Import Proofs.KernelBounds Proofs.OpsWf Proofs.ListFacts Proofs.ReduceCorrect Proofs.IntReduce
     Proofs.IntBackends Proofs.BackendTable Proofs.SpecLink Proofs.KernelValue.
Import ListNotations.

(** * (i) the three branches, for any element type and math layer *)
Section Branches.
  Context {T : Type}.
  Variable Mth : MathOps T.
  Notation isz x := (m_cmp_eq Mth x (m_zero Mth)).

  Theorem cosine_branches dot nx ny :
    (isz nx = true -> isz ny = true -> cosine Mth dot nx ny = Some (m_zero Mth))
    /\ (isz nx <> isz ny -> cosine Mth dot nx ny = Some (m_one Mth))
    /\ (isz nx = false -> isz ny = false ->
        cosine Mth dot nx ny
        = match m_div Mth dot (m_sqrt Mth (m_mul Mth nx ny)) with
          | Some q => Some (m_sub Mth (m_one Mth) q)
          | None => None
          end).
  Proof.
    unfold cosine. destruct (isz nx), (isz ny); cbn [andb orb]; repeat split; intros; try reflexivity;
      try discriminate; try congruence.
  Qed.

  (* None (= the run panics) iff the general branch is taken and the division returns None *)
  Theorem cosine_none_iff dot nx ny :
    cosine Mth dot nx ny = None <->
    (isz nx = false /\ isz ny = false /\ m_div Mth dot (m_sqrt Mth (m_mul Mth nx ny)) = None).
  Proof.
    unfold cosine. destruct (isz nx), (isz ny); cbn [andb orb]; split;
      try discriminate; try (intros (H1 & H2 & _); discriminate).
    - intros H. repeat split. destruct (m_div Mth dot _); [discriminate | reflexivity].
    - intros (_ & _ & ->). reflexivity.
  Qed.
End Branches.

(** * (ii) integers *)
Section CosineInt.
  Variable w : Z.
  Hypothesis Hw : (0 < w)%Z.
  Variable sg : bool.
  Variable R : SimdOps Z.
  Hypothesis IL : IntLanewise w R.
  Notation okv := (in_range w).
  Let Mth := int_math sg w.
  Let HL : 1 <= lanes R := wf_L R (il_wf w R IL).

  Variables a b res : list Z.
  Variable dims : nat.
  Hypothesis Ha : length a = dims.
  Hypothesis Hb : length b = dims.
  Hypothesis Hoka : Forall okv a.
  Hypothesis Hokb : Forall okv b.
  Let m0 := init_mem a b res.

  (* the values of the two reductions, by C03 *)
  Lemma dot_ref_int :
    dot_ref R Mth dims a b = of_val w (Spec.Zsum (map2 (fun x y => (V sg w x * V sg w y)%Z) a b)).
  Proof.
    pose proof (dot_exact w Hw sg R IL a b res dims Ha Hoka Hb Hokb) as H.
    pose proof (dot_run R Mth HL a b res dims Ha Hb) as H'. fold Mth in H.
    destruct (generic_dot_product R Mth dims (init_mem a b res)) as [r m| | |]; try contradiction.
    destruct H as (_ & H2 & H3). destruct H' as [_ <-].
    apply (sum_link w r _ H2). eapply eqm_trans; [exact H3|]. apply eqm_sym.
    apply (Zsum_V2 w Hw sg Z.mul Z.mul). intros x y. apply (eqm_mul w Hw); apply (V_eqm w Hw).
  Qed.

  Lemma norm_ref_int (x y : list Z) :
    length x = dims -> Forall okv x ->
    norm_ref R Mth dims x = of_val w (Spec.Zsum (map (fun p => (V sg w p * V sg w p)%Z) x)).
  Proof.
    intros Lx Fx.
    pose proof (norm_exact w Hw sg R IL x y res dims Lx Fx) as H.
    pose proof (norm_run R Mth HL x y res dims Lx) as H'. fold Mth in H.
    destruct (generic_squared_norm R Mth dims (init_mem x y res)) as [r m| | |]; try contradiction.
    destruct H as (_ & H2 & H3). destruct H' as [_ <-].
    apply (sum_link w r _ H2). eapply eqm_trans; [exact H3|]. apply eqm_sym.
    rewrite (map_as_map2 (fun p q => (V sg w p * V sg w q)%Z)).
    apply (Zsum_V2 w Hw sg Z.mul Z.mul). intros p q. apply (eqm_mul w Hw); apply (V_eqm w Hw).
  Qed.

  Theorem cosine_int_meets_spec v :
    meets m0 (run_kernel R Mth KCosine dims v m0) (spec_int sg w KCosine v a b).
  Proof.
    pose proof (cosine_run R Mth HL a b res dims Ha Hb) as H. fold m0 in H.
    cbn [run_kernel]. unfold bind.
    rewrite dot_ref_int, (norm_ref_int a b Ha Hoka), (norm_ref_int b a Hb Hokb) in H.
    cbn [spec_int].
    set (dot := of_val w (Spec.Zsum (map2 (fun x y => (V sg w x * V sg w y)%Z) a b))) in *.
    set (nx := of_val w (Spec.Zsum (map (fun x => (V sg w x * V sg w x)%Z) a))) in *.
    set (ny := of_val w (Spec.Zsum (map (fun x => (V sg w x * V sg w x)%Z) b))) in *.
    unfold cosine, Mth in H. cbn [int_math m_cmp_eq m_zero m_one m_div m_sqrt m_mul m_sub] in H.
    unfold i_eq in H. unfold Mth.
    destruct (generic_cosine R (int_math sg w) dims m0) as [r m|m| |]; try contradiction;
      destruct H as [Hs E]; cbn [meets ret]; (split; [exact Hs|]).
    - destruct ((nx =? 0)%Z && (ny =? 0)%Z); [inversion E; reflexivity|].
      destruct ((nx =? 0)%Z || (ny =? 0)%Z); [inversion E; reflexivity|].
      destruct (i_div sg w dot (i_sqrt sg w (i_mul w nx ny))) as [q|]; [inversion E; reflexivity | discriminate].
    - left.
      destruct ((nx =? 0)%Z && (ny =? 0)%Z); [discriminate|].
      destruct ((nx =? 0)%Z || (ny =? 0)%Z); [discriminate|].
      destruct (i_div sg w dot (i_sqrt sg w (i_mul w nx ny))) as [q|]; [discriminate | reflexivity].
  Qed.
End CosineInt.

(* what the specification says, spelled out *)
Theorem cosine_spec_reads sg w v a b :
  let Vv := ival sg w in
  let dot := wrap w (fold_right Z.add 0%Z (map2 (fun x y => (Vv x * Vv y)%Z) a b)) in
  let nx := wrap w (fold_right Z.add 0%Z (map (fun x => (Vv x * Vv x)%Z) a)) in
  let ny := wrap w (fold_right Z.add 0%Z (map (fun x => (Vv x * Vv x)%Z) b)) in
  spec_int sg w KCosine v a b
  = if ((nx =? 0) && (ny =? 0))%Z then SVal 0%Z
    else if ((nx =? 0) || (ny =? 0))%Z then SVal 1%Z
    else let s := i_sqrt sg w (wrap w (nx * ny)) in
         if (s =? 0)%Z then SPanic
         else SVal (wrap w (1 - (if sg then wrap w (Z.quot (sgn w dot) (sgn w s)) else dot / s)%Z)).
Proof.
  cbv zeta. cbn [spec_int]. unfold of_val, V, Spec.Zsum, i_div, i_sub, i_mul.
  destruct (_ && _); [reflexivity|]. destruct (_ || _); [reflexivity|].
  destruct (_ =? 0)%Z; reflexivity.
Qed.

(* the specification demands a panic exactly when neither zero branch is taken and the integer square root of the
   wrapped product of the wrapped squared norms is 0 *)
Theorem cosine_spec_panic_iff sg w v a b :
  let Vv := ival sg w in
  let nx := wrap w (fold_right Z.add 0%Z (map (fun x => (Vv x * Vv x)%Z) a)) in
  let ny := wrap w (fold_right Z.add 0%Z (map (fun x => (Vv x * Vv x)%Z) b)) in
  spec_int sg w KCosine v a b = SPanic <-> (nx <> 0 /\ ny <> 0 /\ i_sqrt sg w (wrap w (nx * ny)) = 0)%Z.
Proof.
  cbv zeta. rewrite cosine_spec_reads. cbv zeta.
  set (nx := wrap w (fold_right Z.add 0%Z (map (fun x => (ival sg w x * ival sg w x)%Z) a))).
  set (ny := wrap w (fold_right Z.add 0%Z (map (fun x => (ival sg w x * ival sg w x)%Z) b))).
  destruct (Z.eqb_spec nx 0) as [Ex|Ex], (Z.eqb_spec ny 0) as [Ey|Ey]; cbn [andb orb];
    try (split; [discriminate | intros (H1 & H2 & _); contradiction]).
  destruct (Z.eqb_spec (i_sqrt sg w (wrap w (nx * ny))) 0) as [Es|Es].
  - split; auto.
  - split; [discriminate | intros (_ & _ & H); contradiction].
Qed.

(* For every row of the export tables with an integer element type and a modelled register. *)
Theorem int_cosine_meets_spec r t R a b res v dims :
  int_ops r t = Some R ->
  length a = dims -> length b = dims ->
  Forall (in_range (width t)) a -> Forall (in_range (width t)) b ->
  meets (init_mem a b res)
        (run_kernel R (int_math (is_signed t) (width t)) KCosine dims v (init_mem a b res))
        (spec_int (is_signed t) (width t) KCosine v a b).
Proof.
  intros HR Ha Hb Fa Fb. destruct (int_ops_faithful r t R HR) as (IL & _ & Hw).
  apply (cosine_int_meets_spec (width t) Hw (is_signed t) R IL a b res dims Ha Hb Fa Fb v).
Qed.

(* any two modelled back ends: same outcome (both panic, or both return the same bit pattern) *)
Theorem int_cosine_backend_independent r1 r2 t R1 R2 a b res v dims :
  int_ops r1 t = Some R1 -> int_ops r2 t = Some R2 ->
  length a = dims -> length b = dims ->
  Forall (in_range (width t)) a -> Forall (in_range (width t)) b ->
  match run_kernel R1 (int_math (is_signed t) (width t)) KCosine dims v (init_mem a b res),
        run_kernel R2 (int_math (is_signed t) (width t)) KCosine dims v (init_mem a b res) with
  | Ok (RValue x) _, Ok (RValue y) _ => x = y
  | Panic _, Panic _ => True
  | _, _ => False
  end.
Proof.
  intros H1 H2 Ha Hb Fa Fb.
  pose proof (int_cosine_meets_spec r1 t R1 a b res v dims H1 Ha Hb Fa Fb) as M1.
  pose proof (int_cosine_meets_spec r2 t R2 a b res v dims H2 Ha Hb Fa Fb) as M2.
  destruct (run_kernel R1 _ KCosine dims v _) as [[x|] m1|m1| |];
    destruct (run_kernel R2 _ KCosine dims v _) as [[y|] m2|m2| |]; cbn [meets] in *; try contradiction;
      destruct M1 as [_ M1]; destruct M2 as [_ M2];
        destruct (spec_int (is_signed t) (width t) KCosine v a b) as [s|l| |] eqn:Es;
        try contradiction; try congruence; try exact I;
          try (destruct M1 as [M1|M1]; discriminate); try (destruct M2 as [M2|M2]; discriminate).
  (* spec unspecified cannot happen for cosine *)
  all: exfalso; revert Es; cbn [spec_int];
    repeat match goal with |- context [if ?c then _ else _] => destruct c end;
    try discriminate; destruct (i_div _ _ _ _); discriminate.
Qed.
