(* The VALUE a three-phase kernel returns, as a pure function of its input slices — generically in the element
   type T and in ANY SimdOps T / MathOps T with at least one lane (no lane-wise assumption).

   [pure3] iterates pure step functions over the exact trip counts of the three loops; [three_phase_value]: if every
   step of a kernel, run in bounds from a safe memory, only loads and returns a pure function of its accumulator,
   then the kernel returns [pure3] of those functions, from ANY safe memory (in particular whatever the trace
   already holds: the value does not depend on the initial trace).  Instances: the dot product, the squared norm
   and the pair loop of [generic_cosine]; hence

     generic_cosine a b  =  cosine (dot_ref a b) (norm_ref a) (norm_ref b)

   where [dot_ref] / [norm_ref] are EXACTLY the values [generic_dot_product] / [generic_squared_norm] return
   ([dot_run], [norm_run], [cosine_run]).  Everything C06 says about cosine is derived from this decomposition and
   the theorems about the two reductions.  Axiom-free. *)
From Coq Require Import List Arith Bool Lia.
From CF Require Import Base.Mem Model.SimdApi Model.Kernels Model.Tables.
From CF Require Import Proofs.MemProofs Proofs.KernelRules Proofs.KernelSafety Proofs.KernelBounds.
Import ListNotations.

Lemma triple_no_panic {T A} (P : mem T -> Prop) (c : M T A) Q (I : mem T -> Prop) :
  triple P c Q (fun _ => False) -> triple P c Q I.
Proof. intros H m Hm. specialize (H m Hm). destruct (c m); auto; contradiction. Qed.

(** * Pure iteration *)
Section Iter.
  Context {S : Type}.

  (* s_0 = s, s_{k+1} = f (start + k*step) s_k; returns s_n *)
  Fixpoint iter_steps (f : nat -> S -> S) (start step n : nat) (s : S) : S :=
    match n with
    | O => s
    | Datatypes.S n' => f (start + n' * step) (iter_steps f start step n' s)
    end.
End Iter.

Lemma iter_steps_rel {S S'} (P : S -> S' -> Prop) (f : nat -> S -> S) (f' : nat -> S' -> S') start step n s s' :
  P s s' ->
  (forall k x x', k < n -> P x x' -> P (f (start + k * step) x) (f' (start + k * step) x')) ->
  P (iter_steps f start step n s) (iter_steps f' start step n s').
Proof.
  intros H0 Hstep. induction n as [|n IH]; [exact H0|].
  cbn [iter_steps]. apply Hstep; [lia|]. apply IH. intros k x x' Hk. apply Hstep. lia.
Qed.

Lemma iter_steps_pair {S1 S2} (f : nat -> S1 -> S1) (g : nat -> S2 -> S2) start step n s1 s2 :
  iter_steps (fun i s => (f i (fst s), g i (snd s))) start step n (s1, s2)
  = (iter_steps f start step n s1, iter_steps g start step n s2).
Proof. induction n as [|n IH]; [reflexivity|]. cbn [iter_steps]. rewrite IH. reflexivity. Qed.

(** * The value of a three-phase kernel *)
Section Pure3.
  Variables Ln dims : nat.
  Context {S1 S2 S3 : Type}.

  Definition pure3 (init : S1) (fd : nat -> S1 -> S1) (roll : S1 -> S2) (fl : nat -> S2 -> S2)
             (tov : S2 -> S3) (fs : nat -> S3 -> S3) : S3 :=
    let q := qn dims Ln in let mm := mn dims Ln in let r := rn dims Ln in
    let s1 := iter_steps fd 0 (Dn Ln) q init in
    let s2 := iter_steps fl (q * Dn Ln) Ln mm (roll s1) in
    iter_steps fs (q * Dn Ln + mm * Ln) 1 r (tov s2).
End Pure3.

(* two pure3 computations in lock step *)
Lemma pure3_rel {S1 S2 S3 S1' S2' S3'} Ln dims (HL : 1 <= Ln)
      (P1 : S1 -> S1' -> Prop) (P2 : S2 -> S2' -> Prop) (P3 : S3 -> S3' -> Prop)
      init fd roll fl tov fs init' fd' roll' fl' tov' fs' :
  P1 init init' ->
  (forall i x x', i + Ln * 8 <= dims -> P1 x x' -> P1 (fd i x) (fd' i x')) ->
  (forall x x', P1 x x' -> P2 (roll x) (roll' x')) ->
  (forall i x x', i + Ln <= dims -> P2 x x' -> P2 (fl i x) (fl' i x')) ->
  (forall x x', P2 x x' -> P3 (tov x) (tov' x')) ->
  (forall i x x', i < dims -> P3 x x' -> P3 (fs i x) (fs' i x')) ->
  P3 (pure3 Ln dims init fd roll fl tov fs) (pure3 Ln dims init' fd' roll' fl' tov' fs').
Proof.
  intros H0 Hd Hr Hl Hv Hs. unfold pure3. cbv zeta.
  pose proof (tail_bound dims Ln HL) as HT.
  apply iter_steps_rel.
  - apply Hv. apply iter_steps_rel.
    + apply Hr. apply iter_steps_rel; [exact H0|].
      intros k x x' Hk. cbn [Nat.add]. apply Hd. apply (dense_in dims Ln HL k Hk).
    + intros k x x' Hk. apply Hl. apply (lane_in dims Ln HL k Hk).
  - intros k x x' Hk. apply Hs. lia.
Qed.

Lemma pure3_pair {A1 A2 A3 B1 B2 B3} Ln dims
      (ia : A1) (ib : B1) fa fb (ra : A1 -> A2) (rb : B1 -> B2) la lb (ta : A2 -> A3) (tb : B2 -> B3) sa sb :
  pure3 Ln dims (ia, ib) (fun i s => (fa i (fst s), fb i (snd s)))
        (fun s => (ra (fst s), rb (snd s))) (fun i s => (la i (fst s), lb i (snd s)))
        (fun s => (ta (fst s), tb (snd s))) (fun i s => (sa i (fst s), sb i (snd s)))
  = (pure3 Ln dims ia fa ra la ta sa, pure3 Ln dims ib fb rb lb tb sb).
Proof.
  unfold pure3. cbv zeta. rewrite iter_steps_pair. cbn [fst snd]. rewrite iter_steps_pair. cbn [fst snd].
  rewrite iter_steps_pair. reflexivity.
Qed.

Section Value.
  Context {T : Type}.
  Variable R : SimdOps T.
  Hypothesis HL : 1 <= lanes R.
  Notation Ln := (lanes R).
  Variable m0 : mem T.
  Variable dims : nat.
  Let Inv : mem T -> Prop := SafeR m0 (fun _ => True).
  Let No : mem T -> Prop := fun _ => False.

  Lemma three_phase_value {S1 S2 S3 : Type} (init : S1) dense_step (roll : S1 -> S2) lane_step
        (tovalue : S2 -> S3) scalar_step fd fl fs :
    (forall i s, i + Ln * 8 <= dims -> triple Inv (dense_step i s) (fun s' m => Inv m /\ s' = fd i s) No) ->
    (forall i s, i + Ln <= dims -> triple Inv (lane_step i s) (fun s' m => Inv m /\ s' = fl i s) No) ->
    (forall i s, i < dims -> triple Inv (scalar_step i s) (fun s' m => Inv m /\ s' = fs i s) No) ->
    triple Inv (three_phase R dims init dense_step roll lane_step tovalue scalar_step)
           (fun s m => Inv m /\ s = pure3 Ln dims init fd roll fl tovalue fs) No.
  Proof.
    intros Hd Hl Hs.
    set (D := Dn Ln). set (q := qn dims Ln). set (mm := mn dims Ln).
    set (s1q := iter_steps fd 0 D q init).
    set (s2m := iter_steps fl (q * D) Ln mm (roll s1q)).
    set (base := q * D + mm * Ln).
    pose proof (Dn_pos Ln HL) as HD. fold D in HD.
    eapply triple_conseq.
    - apply (three_phase_rule R HL dims
               (fun i s m => Inv m /\ forall k, i = k * D -> s = iter_steps fd 0 D k init)
               (fun i s m => Inv m /\ forall k, i = q * D + k * Ln -> s = iter_steps fl (q * D) Ln k (roll s1q))
               (fun i s m => Inv m /\ forall k, i = base + k * 1 -> s = iter_steps fs base 1 k (tovalue s2m))
               No).
      + intros k s Hk. pose proof (dense_in dims Ln HL k Hk) as Hin. fold D.
        intros m [Hm Hs1]. specialize (Hd (k * D) s Hin m Hm).
        destruct (dense_step (k * D) s m) as [s' m'| | |]; auto.
        destruct Hd as [Hm' ->]. split; [exact Hm'|].
        intros k' Hk'. assert (k' = Datatypes.S k) by nia. subst k'.
        cbn [iter_steps Nat.add]. rewrite <- (Hs1 k eq_refl). reflexivity.
      + fold D q. intros s m [Hm Hs1]. split; [exact Hm|].
        intros k Hk. assert (k = 0) by nia. subst k. cbn [iter_steps].
        rewrite (Hs1 q eq_refl). reflexivity.
      + intros k s Hk. pose proof (lane_in dims Ln HL k Hk) as Hin. fold D q.
        intros m [Hm Hs2]. specialize (Hl (q * D + k * Ln) s Hin m Hm).
        destruct (lane_step (q * D + k * Ln) s m) as [s' m'| | |]; auto.
        destruct Hl as [Hm' ->]. split; [exact Hm'|].
        intros k' Hk'. assert (k' = Datatypes.S k) by nia. subst k'.
        cbn [iter_steps]. rewrite <- (Hs2 k eq_refl). reflexivity.
      + fold D q mm base. intros s m [Hm Hs2]. split; [exact Hm|].
        intros k Hk. assert (k = 0) by lia. subst k. cbn [iter_steps].
        unfold s2m. rewrite (Hs2 mm eq_refl). reflexivity.
      + fold D q mm base. intros i s Hi m [Hm Hs3]. specialize (Hs i s ltac:(lia) m Hm).
        destruct (scalar_step i s m) as [s' m'| | |]; auto.
        destruct Hs as [Hm' ->]. split; [exact Hm'|].
        intros k' Hk'. destruct k' as [|k]; [lia|].
        cbn [iter_steps]. assert (Ei : i = base + k * 1) by lia.
        rewrite <- (Hs3 k Ei). rewrite <- Ei. reflexivity.
    - intros m Hm. split; [exact Hm|]. intros k Hk. assert (k = 0) by nia. subst k. reflexivity.
    - cbv beta. intros s m [Hm Hs3]. split; [exact Hm|].
      pose proof (tail_bound dims Ln HL) as HT. fold D q mm base in HT.
      unfold pure3. cbv zeta. fold D q mm s1q s2m base. apply Hs3. exact HT.
  Qed.
End Value.

(** * The reductions cosine is made of *)
Section Refs.
  Context {T : Type}.
  Variable R : SimdOps T.
  Variable Mth : MathOps T.
  Notation Ln := (lanes R).

  Definition blk (sl : list T) (i : nat) : vreg T := firstn Ln (skipn i sl).
  Definition elt (sl : list T) (i : nat) : T := hd (dflt Mth) (firstn 1 (skipn i sl)).

  (* the value [generic_dot_product] returns on slices a, b of length dims *)
  Definition dot_ref (dims : nat) (a b : list T) : T :=
    pure3 Ln dims (zeroed_dense R)
          (fun i total => r_fmadd_dense R (dense_at Ln a i) (dense_at Ln b i) total)
          (sum_to_register R)
          (fun i total => r_fmadd R (blk a i) (blk b i) total)
          (r_sum_to_value R)
          (fun i total => m_add Mth total (m_mul Mth (elt a i) (elt b i))).

  (* the value [generic_squared_norm] returns on a slice a of length dims *)
  Definition norm_ref (dims : nat) (a : list T) : T :=
    pure3 Ln dims (zeroed_dense R)
          (fun i total => r_fmadd_dense R (dense_at Ln a i) (dense_at Ln a i) total)
          (sum_to_register R)
          (fun i total => r_fmadd R (blk a i) (blk a i) total)
          (r_sum_to_value R)
          (fun i total => m_add Mth total (m_mul Mth (elt a i) (elt a i))).

  Hypothesis HL : 1 <= Ln.
  Variable m0 : mem T.
  Variable dims : nat.
  Hypothesis HA : length (mA m0) = dims.
  Let Inv : mem T -> Prop := SafeR m0 (fun _ => True).
  Let No : mem T -> Prop := fun _ => False.

  Ltac vstep :=
    first
      [ apply triple_bind_ret_l
      | apply load_dense_bind; [discriminate | cbn [slice_of]; lia | ]
      | apply load_bind; [discriminate | cbn [slice_of]; lia | ]
      | apply triple_bind_assoc ].

  Lemma norm_value :
    triple Inv (generic_squared_norm R Mth dims) (fun r m => Inv m /\ r = norm_ref dims (mA m0)) No.
  Proof.
    unfold generic_squared_norm, norm_ref. apply (three_phase_value R HL m0 dims).
    - intros i s Hi. repeat vstep. cbn [slice_of]. apply triple_ret. intros m Hm. split; [exact Hm | reflexivity].
    - intros i s Hi. unfold L. repeat vstep. cbn [slice_of]. apply triple_ret. intros m Hm.
      split; [exact Hm | reflexivity].
    - intros i s Hi. unfold read1. repeat vstep. cbn [slice_of]. apply triple_ret. intros m Hm.
      split; [exact Hm | reflexivity].
  Qed.

  Hypothesis HB : length (mB m0) = dims.

  Lemma dot_value :
    triple Inv (generic_dot_product R Mth dims) (fun r m => Inv m /\ r = dot_ref dims (mA m0) (mB m0)) No.
  Proof.
    unfold generic_dot_product, dot_ref. apply (three_phase_value R HL m0 dims).
    - intros i s Hi. repeat vstep. cbn [slice_of]. apply triple_ret. intros m Hm. split; [exact Hm | reflexivity].
    - intros i s Hi. unfold L. repeat vstep. cbn [slice_of]. apply triple_ret. intros m Hm.
      split; [exact Hm | reflexivity].
    - intros i s Hi. unfold read1. repeat vstep. cbn [slice_of]. apply triple_ret. intros m Hm.
      split; [exact Hm | reflexivity].
  Qed.

  (* the pair loop of generic_cosine computes the two squared norms *)
  Lemma cosine_value :
    triple Inv (generic_cosine R Mth dims)
           (fun r m => Inv m /\
                       cosine Mth (dot_ref dims (mA m0) (mB m0)) (norm_ref dims (mA m0)) (norm_ref dims (mB m0)) = Some r)
           (fun m => Inv m /\
                     cosine Mth (dot_ref dims (mA m0) (mB m0)) (norm_ref dims (mA m0)) (norm_ref dims (mB m0)) = None).
  Proof.
    unfold generic_cosine.
    eapply triple_bind with
        (Qa := fun s m => Inv m /\ s = (norm_ref dims (mA m0), norm_ref dims (mB m0))).
    - apply triple_no_panic. eapply triple_conseq with (P' := Inv); [| auto |].
      + intros m Hm.
        pose proof (three_phase_value R HL m0 dims
                      (zeroed_dense R, zeroed_dense R)
                      (fun i '(norm_a, norm_b) =>
                         bind (load_dense R SA i) (fun l1 => bind (load_dense R SB i) (fun l2 =>
                           ret (r_fmadd_dense R l1 l1 norm_a, r_fmadd_dense R l2 l2 norm_b))))
                      (fun '(norm_a, norm_b) => (sum_to_register R norm_a, sum_to_register R norm_b))
                      (fun i '(norm_a, norm_b) =>
                         bind (load SA i (L R)) (fun l1 => bind (load SB i (L R)) (fun l2 =>
                           ret (r_fmadd R l1 l1 norm_a, r_fmadd R l2 l2 norm_b))))
                      (fun '(norm_a, norm_b) => (r_sum_to_value R norm_a, r_sum_to_value R norm_b))
                      (fun i '(norm_a, norm_b) =>
                         bind (read1 (dflt Mth) SA i) (fun a => bind (read1 (dflt Mth) SB i) (fun b =>
                           ret (m_add Mth norm_a (m_mul Mth a a), m_add Mth norm_b (m_mul Mth b b)))))
                      (fun i s => (r_fmadd_dense R (dense_at Ln (mA m0) i) (dense_at Ln (mA m0) i) (fst s),
                                   r_fmadd_dense R (dense_at Ln (mB m0) i) (dense_at Ln (mB m0) i) (snd s)))
                      (fun i s => (r_fmadd R (blk (mA m0) i) (blk (mA m0) i) (fst s),
                                   r_fmadd R (blk (mB m0) i) (blk (mB m0) i) (snd s)))
                      (fun i s => (m_add Mth (fst s) (m_mul Mth (elt (mA m0) i) (elt (mA m0) i)),
                                   m_add Mth (snd s) (m_mul Mth (elt (mB m0) i) (elt (mB m0) i))))) as TV.
        cbv beta in TV. refine (TV _ _ _ m Hm); clear TV.
        * intros i [na nb] Hi. repeat vstep. cbn [slice_of fst snd]. apply triple_ret. intros m' Hm'.
          split; [exact Hm' | reflexivity].
        * intros i [na nb] Hi. unfold L. repeat vstep. cbn [slice_of fst snd]. apply triple_ret. intros m' Hm'.
          split; [exact Hm' | reflexivity].
        * intros i [na nb] Hi. unfold read1. repeat vstep. cbn [slice_of fst snd]. apply triple_ret. intros m' Hm'.
          split; [exact Hm' | reflexivity].
      + cbv beta. intros s m [Hm ->]. split; [exact Hm|].
        unfold norm_ref. rewrite <- pure3_pair. unfold pure3. cbv zeta.
        (* the two descriptions of roll / to-value agree on pairs *)
        assert (E1 : forall p : dense T * dense T,
                   (let '(norm_a, norm_b) := p in (sum_to_register R norm_a, sum_to_register R norm_b))
                   = (sum_to_register R (fst p), sum_to_register R (snd p))) by (intros [? ?]; reflexivity).
        assert (E2 : forall p : vreg T * vreg T,
                   (let '(norm_a, norm_b) := p in (r_sum_to_value R norm_a, r_sum_to_value R norm_b))
                   = (r_sum_to_value R (fst p), r_sum_to_value R (snd p))) by (intros [? ?]; reflexivity).
        rewrite E1, E2. reflexivity.
    - intros [na nb]. cbv beta iota.
      eapply triple_bind with
          (Qa := fun d m => (Inv m /\ (na, nb) = (norm_ref dims (mA m0), norm_ref dims (mB m0)))
                            /\ d = dot_ref dims (mA m0) (mB m0)).
      + apply triple_no_panic. intros m [Hm E]. pose proof (dot_value m Hm) as Hd.
        destruct (generic_dot_product R Mth dims m) as [d m'| | |]; auto.
        destruct Hd as [Hm' ->]. auto.
      + intros d. apply triple_lift_opt.
        * intros r m Ec [[Hm E] ->]. inversion E; subst. auto.
        * intros m Ec [[Hm E] ->]. inversion E; subst. auto.
  Qed.
End Refs.

(** * Run form, from the initial memory *)
Section Runs.
  Context {T : Type}.
  Variable R : SimdOps T.
  Variable Mth : MathOps T.
  Hypothesis HL : 1 <= lanes R.
  Variables a b res : list T.
  Variable dims : nat.
  Hypothesis Ha : length a = dims.
  Let m0 := init_mem a b res.

  Lemma Inv_init : SafeR m0 (fun _ => True) m0.
  Proof. split; [apply Safe0_init; reflexivity | exact I]. Qed.

  Theorem norm_run :
    match generic_squared_norm R Mth dims m0 with
    | Ok r m => run_ok m0 m /\ r = norm_ref R Mth dims a
    | _ => False
    end.
  Proof.
    pose proof (norm_value R Mth HL m0 dims Ha m0 Inv_init) as H.
    destruct (generic_squared_norm R Mth dims m0) as [r m| | |]; auto.
    destruct H as [[Hs _] ->]. split; [exact Hs | reflexivity].
  Qed.

  Hypothesis Hb : length b = dims.

  Theorem dot_run :
    match generic_dot_product R Mth dims m0 with
    | Ok r m => run_ok m0 m /\ r = dot_ref R Mth dims a b
    | _ => False
    end.
  Proof.
    pose proof (dot_value R Mth HL m0 dims Ha Hb m0 Inv_init) as H.
    destruct (generic_dot_product R Mth dims m0) as [r m| | |]; auto.
    destruct H as [[Hs _] ->]. split; [exact Hs | reflexivity].
  Qed.

  Theorem cosine_run :
    match generic_cosine R Mth dims m0 with
    | Ok r m => run_ok m0 m /\ cosine Mth (dot_ref R Mth dims a b) (norm_ref R Mth dims a) (norm_ref R Mth dims b) = Some r
    | Panic m => run_ok m0 m /\ cosine Mth (dot_ref R Mth dims a b) (norm_ref R Mth dims a) (norm_ref R Mth dims b) = None
    | _ => False
    end.
  Proof.
    pose proof (cosine_value R Mth HL m0 dims Ha Hb m0 Inv_init) as H.
    destruct (generic_cosine R Mth dims m0) as [r m|m | |]; auto.
    - destruct H as [[Hs _] E]. split; [exact Hs | exact E].
    - destruct H as [[Hs _] E]. split; [exact Hs | exact E].
  Qed.
End Runs.

(* the same, stated on the three kernels' own runs *)
Theorem cosine_decomposition :
  forall (T : Type) (R : SimdOps T) (Mth : MathOps T) (a b res : list T) (dims : nat),
    1 <= lanes R -> length a = dims -> length b = dims ->
    match generic_dot_product R Mth dims (init_mem a b res),
          generic_squared_norm R Mth dims (init_mem a b res),
          generic_squared_norm R Mth dims (init_mem b a res) with
    | Ok d _, Ok nx _, Ok ny _ =>
        match generic_cosine R Mth dims (init_mem a b res) with
        | Ok r m => run_ok (init_mem a b res) m /\ cosine Mth d nx ny = Some r
        | Panic m => run_ok (init_mem a b res) m /\ cosine Mth d nx ny = None
        | _ => False
        end
    | _, _, _ => False
    end.
Proof.
  intros T R Mth a b res dims HL Ha Hb.
  pose proof (dot_run R Mth HL a b res dims Ha Hb) as H1.
  pose proof (norm_run R Mth HL a b res dims Ha) as H2.
  pose proof (norm_run R Mth HL b a res dims Hb) as H3.
  destruct (generic_dot_product R Mth dims (init_mem a b res)) as [d m1| | |]; try contradiction.
  destruct (generic_squared_norm R Mth dims (init_mem a b res)) as [nx m2| | |]; try contradiction.
  destruct (generic_squared_norm R Mth dims (init_mem b a res)) as [ny m3| | |]; try contradiction.
  destruct H1 as [_ ->]. destruct H2 as [_ ->]. destruct H3 as [_ ->].
  exact (cosine_run R Mth HL a b res dims Ha Hb).
Qed.
