(* The order used by C05 on floats: [fle x y := f_lt y x = false] is a total preorder on the non-NaN values of
   any binary format (both infinities and both zeros included; +0 and -0 are equivalent), and the four
   max/min operations of the models (x86 MAXPS/MINPS lane semantics, f32::max / f32::min) are selecting
   operations for it: on non-NaN operands each returns one of its arguments and bounds both.

   Flocq's [Bltb_correct] / [Bcompare_correct] only cover finite operands, so the order facts are derived
   structurally: [rank] maps a non-NaN float to a triple of integers (class, signed exponent, signed
   mantissa) such that [f_lt x y = true] iff [rank x] is lexicographically below [rank y]
   ([f_lt_rank], by case analysis on [SFcompare]); everything else is linear integer arithmetic.
   No axioms beyond the ones Flocq's real numbers bring with the float type itself. *)
From Coq Require Import ZArith List Arith Bool Lia.
From Coq Require Import Floats.SpecFloat.
From Flocq Require Import IEEE754.BinarySingleNaN.
From CF Require Import Model.SimdApi Model.Prim Proofs.Extreme.
Import ListNotations.

Section Order.
  Context {prec emax : Z} {Hp : FLX.Prec_gt_0 prec} {He : Prec_lt_emax prec emax}.
  Notation bf := (binary_float prec emax).

  Definition okf (x : bf) : Prop := f_is_nan x = false.          (* not NaN *)
  Definition fle (x y : bf) : Prop := f_lt y x = false.          (* x <= y numerically (+0 = -0) *)
  Definition fge (x y : bf) : Prop := fle y x.

  (** ** rank: an order embedding into Z * Z * Z with the lexicographic order *)

  Local Open Scope Z_scope.

  Definition rank (x : bf) : Z * Z * Z :=
    match x with
    | B754_nan => (0, 0, 0)
    | B754_infinity true => (-2, 0, 0)
    | B754_infinity false => (2, 0, 0)
    | B754_zero _ => (0, 0, 0)
    | B754_finite true m e _ => (-1, - e, - Zpos m)
    | B754_finite false m e _ => (1, e, Zpos m)
    end.

  Definition lt3 (a b : Z * Z * Z) : Prop :=
    let '(a1, a2, a3) := a in
    let '(b1, b2, b3) := b in
    a1 < b1 \/ (a1 = b1 /\ (a2 < b2 \/ (a2 = b2 /\ a3 < b3))).

  Ltac rank_case :=
    split; (let K := fresh "K" in intros K; first [discriminate K | reflexivity | exfalso; lia | lia]).

  Lemma f_lt_rank x y : okf x -> okf y -> (f_lt x y = true <-> lt3 (rank x) (rank y)).
  Proof.
    unfold okf, f_is_nan, f_lt, Bltb, SFltb.
    destruct x as [sx|sx| |sx mx ex Hx], y as [sy|sy| |sy my ey Hy];
      cbn [is_nan B2SF SFcompare]; intros Nx Ny; try discriminate.
    - cbn [rank lt3]. rank_case.
    - destruct sy; cbn [rank lt3]; rank_case.
    - destruct sy; cbn [rank lt3]; rank_case.
    - destruct sx; cbn [rank lt3]; rank_case.
    - destruct sx, sy; cbn [rank lt3]; rank_case.
    - destruct sx, sy; cbn [rank lt3]; rank_case.
    - destruct sx; cbn [rank lt3]; rank_case.
    - destruct sx, sy; cbn [rank lt3]; rank_case.
    - change (Pcompare mx my Eq) with (Pos.compare mx my).
      destruct sx, sy; cbn [rank lt3].
      + destruct (Z.compare_spec ex ey); [destruct (Pos.compare_spec mx my)| |]; cbn [CompOpp]; rank_case.
      + rank_case.
      + rank_case.
      + destruct (Z.compare_spec ex ey); [destruct (Pos.compare_spec mx my)| |]; rank_case.
  Qed.

  Lemma fle_rank x y : okf x -> okf y -> (fle x y <-> ~ lt3 (rank y) (rank x)).
  Proof.
    intros Hx Hy. unfold fle. rewrite <- (f_lt_rank y x Hy Hx).
    destruct (f_lt y x); split; congruence.
  Qed.

  Ltac ranks :=
    repeat match goal with
           | H : fle ?x ?y |- _ => apply fle_rank in H; [|assumption|assumption]
           | |- fle ?x ?y => apply fle_rank; [assumption|assumption|]
           end;
    repeat match goal with
           | |- context [rank ?x] => let a := fresh "a" in let b := fresh "b" in let c := fresh "c" in
                                     destruct (rank x) as [[a b] c]
           | H : context [rank ?x] |- _ => let a := fresh "a" in let b := fresh "b" in let c := fresh "c" in
                                     destruct (rank x) as [[a b] c]
           end;
    unfold lt3 in *.

  (** ** total preorder *)

  Lemma fle_refl x : okf x -> fle x x.
  Proof. intros Hx. ranks. lia. Qed.

  Lemma fle_trans x y z : okf x -> okf y -> okf z -> fle x y -> fle y z -> fle x z.
  Proof. intros Hx Hy Hz H1 H2. ranks. lia. Qed.

  Lemma fge_refl x : okf x -> fge x x.
  Proof. unfold fge. apply fle_refl. Qed.

  Lemma fge_trans x y z : okf x -> okf y -> okf z -> fge x y -> fge y z -> fge x z.
  Proof. unfold fge. intros Hx Hy Hz H1 H2. exact (fle_trans z y x Hz Hy Hx H2 H1). Qed.

  Lemma fle_total x y : okf x -> okf y -> fle x y \/ fle y x.
  Proof.
    intros Hx Hy.
    destruct (fle_rank x y Hx Hy) as [_ A]. destruct (fle_rank y x Hy Hx) as [_ B].
    revert A B. destruct (rank x) as [[a1 a2] a3], (rank y) as [[b1 b2] b3]. unfold lt3. intros A B.
    assert (C : ~ (b1 < a1 \/ b1 = a1 /\ (b2 < a2 \/ b2 = a2 /\ b3 < a3))
                \/ ~ (a1 < b1 \/ a1 = b1 /\ (a2 < b2 \/ a2 = b2 /\ a3 < b3))) by lia.
    destruct C as [C|C]; [left; apply A, C | right; apply B, C].
  Qed.

  (* strict order is asymmetric: x < y implies y <= x fails to be strict, i.e. x <= y *)
  Lemma f_lt_fle x y : okf x -> okf y -> f_lt x y = true -> fle x y.
  Proof.
    intros Hx Hy H. apply (f_lt_rank x y Hx Hy) in H. apply fle_rank; [assumption..|].
    revert H. destruct (rank x) as [[a1 a2] a3], (rank y) as [[b1 b2] b3]. unfold lt3. lia.
  Qed.

  (** ** the max / min operations of the models *)

  Lemma x86_max_selecting : selecting okf fle (@x86_max prec emax).
  Proof.
    intros x y Hx Hy. unfold x86_max. destruct (f_lt y x) eqn:E.
    - split; [left; reflexivity|]. split; [apply fle_refl; exact Hx | apply f_lt_fle; assumption].
    - split; [right; reflexivity|]. split; [exact E | apply fle_refl; exact Hy].
  Qed.

  Lemma f_max_selecting : selecting okf fle (@f_max prec emax).
  Proof.
    intros x y Hx Hy. unfold f_max. rewrite Hx, Hy. destruct (f_lt x y) eqn:E.
    - split; [right; reflexivity|]. split; [apply f_lt_fle; assumption | apply fle_refl; exact Hy].
    - split; [left; reflexivity|]. split; [apply fle_refl; exact Hx | exact E].
  Qed.

  Lemma x86_min_selecting : selecting okf fge (@x86_min prec emax).
  Proof.
    intros x y Hx Hy. unfold x86_min, fge. destruct (f_lt x y) eqn:E.
    - split; [left; reflexivity|]. split; [apply fle_refl; exact Hx | apply f_lt_fle; assumption].
    - split; [right; reflexivity|]. split; [exact E | apply fle_refl; exact Hy].
  Qed.

  Lemma f_min_selecting : selecting okf fge (@f_min prec emax).
  Proof.
    intros x y Hx Hy. unfold f_min, fge. rewrite Hx, Hy. destruct (f_lt y x) eqn:E.
    - split; [right; reflexivity|]. split; [apply f_lt_fle; assumption | apply fle_refl; exact Hy].
    - split; [left; reflexivity|]. split; [apply fle_refl; exact Hx | exact E].
  Qed.

  (** ** the identities of the horizontal reductions *)

  Lemma okf_inf s : okf (@f_inf prec emax s).
  Proof. reflexivity. Qed.

  Lemma inf_bottom x : okf x -> fle (f_inf true) x.           (* -inf <= x *)
  Proof.
    intros Hx. apply fle_rank; [apply okf_inf | exact Hx |].
    unfold okf, f_is_nan in Hx. destruct x as [s|[|]| |[|] m e B]; cbn [is_nan rank f_inf lt3] in *;
      try discriminate; lia.
  Qed.

  Lemma inf_top x : okf x -> fle x (f_inf false).              (* x <= +inf *)
  Proof.
    intros Hx. apply fle_rank; [exact Hx | apply okf_inf |].
    unfold okf, f_is_nan in Hx. destruct x as [s|[|]| |[|] m e B]; cbn [is_nan rank f_inf lt3] in *;
      try discriminate; lia.
  Qed.
End Order.
