(* C05 (horizontal forms): a three-phase kernel whose steps combine accumulator lanes with "selecting"
   operations (each returns one of its two arguments and is an upper bound of both in a total preorder)
   returns an element of {identity} ∪ input that bounds every element — the true extreme — for EVERY length,
   wherever in the vector it lies.  Generic in the element type and the preorder (integers: signed/unsigned
   readings; floats without NaN: numeric order, +0 = -0).  Axiom-free. *)
From Coq Require Import List Arith Bool Lia.
From CF Require Import Base.Mem Model.SimdApi Model.Kernels Model.Tables.
From CF Require Import Proofs.MemProofs Proofs.KernelRules Proofs.KernelSafety Proofs.KernelBounds
     Proofs.OpsWf Proofs.ListFacts.
Import ListNotations.

Section Refines.
  Context {T : Type}.
  Variable okv : T -> Prop.
  Variable le : T -> T -> Prop.
  Hypothesis le_refl : forall x, okv x -> le x x.
  Hypothesis le_trans : forall x y z, okv x -> okv y -> okv z -> le x y -> le y z -> le x z.

  (* S' is a selection from S that dominates S *)
  Definition Refines (S' S : list T) : Prop :=
    Forall okv S' /\ Forall okv S /\ (forall s', In s' S' -> In s' S) /\ (forall s, In s S -> exists s', In s' S' /\ le s s').

  Lemma Refines_refl S : Forall okv S -> Refines S S.
  Proof.
    intros F. repeat split; auto. intros s Hs. exists s. split; [exact Hs|]. apply le_refl.
    rewrite Forall_forall in F. auto.
  Qed.

  Lemma Refines_trans S2 S1 S0 : Refines S2 S1 -> Refines S1 S0 -> Refines S2 S0.
  Proof.
    intros (F2 & F1 & Sub21 & Dom21) (_ & F0 & Sub10 & Dom10). repeat split; auto.
    intros s Hs. destruct (Dom10 s Hs) as (s1 & H1 & L1). destruct (Dom21 s1 H1) as (s2 & H2 & L2).
    exists s2. split; [exact H2|]. rewrite Forall_forall in *. eapply le_trans; eauto.
  Qed.

  Lemma Refines_app S1' S1 S2' S2 : Refines S1' S1 -> Refines S2' S2 -> Refines (S1' ++ S2') (S1 ++ S2).
  Proof.
    intros (A1 & A2 & A3 & A4) (B1 & B2 & B3 & B4). repeat split.
    - apply Forall_app; auto.
    - apply Forall_app; auto.
    - intros s Hs. apply in_app_or in Hs. apply in_or_app. destruct Hs; [left|right]; auto.
    - intros s Hs. apply in_app_or in Hs. destruct Hs as [Hs|Hs].
      + destruct (A4 s Hs) as (s' & H' & L'). exists s'. split; [apply in_or_app; auto | exact L'].
      + destruct (B4 s Hs) as (s' & H' & L'). exists s'. split; [apply in_or_app; auto | exact L'].
  Qed.

  (* set-insensitivity: only membership in S matters *)
  Lemma Refines_equiv S' S U :
    Refines S' S -> Forall okv U -> (forall x, In x S <-> In x U) -> Refines S' U.
  Proof.
    intros (A1 & A2 & A3 & A4) FU E. repeat split; auto.
    - intros s Hs. apply E. auto.
    - intros s Hs. apply E in Hs. auto.
  Qed.

  (* a selecting operation *)
  Definition selecting (op : T -> T -> T) : Prop :=
    forall x y, okv x -> okv y -> (op x y = x \/ op x y = y) /\ le x (op x y) /\ le y (op x y).

  Lemma selecting_ok op x y : selecting op -> okv x -> okv y -> okv (op x y).
  Proof. intros H Hx Hy. destruct (H x y Hx Hy) as [[->| ->] _]; assumption. Qed.

  Lemma Refines_map2 op X Y :
    selecting op -> length X = length Y -> Forall okv X -> Forall okv Y -> Refines (map2 op X Y) (X ++ Y).
  Proof.
    intros Hop. revert Y. induction X as [|x X IH]; intros [|y Y] Hl FX FY; cbn in Hl; try lia.
    - cbn. apply Refines_refl. constructor.
    - inversion FX as [|? ? Hx FX']; subst. inversion FY as [|? ? Hy FY']; subst.
      specialize (IH Y ltac:(lia) FX' FY'). destruct IH as (I1 & I2 & I3 & I4).
      destruct (Hop x y Hx Hy) as (Hsel & Lx & Ly).
      cbn [map2]. repeat split.
      + constructor; [apply selecting_ok; assumption | exact I1].
      + apply Forall_app. split; assumption.
      + intros s [<-|Hs].
        * destruct Hsel as [-> | ->]; [left; reflexivity | apply in_or_app; right; left; reflexivity].
        * specialize (I3 s Hs). apply in_app_or in I3. cbn. destruct I3; [right; apply in_or_app; auto|].
          right. apply in_or_app. right. right. assumption.
      + intros s Hs. cbn in Hs. destruct Hs as [<-|Hs].
        * exists (op x y). split; [left; reflexivity | exact Lx].
        * apply in_app_or in Hs. destruct Hs as [Hs|Hs].
          -- destruct (I4 s ltac:(apply in_or_app; auto)) as (s' & H' & L'). exists s'. split; [right; exact H' | exact L'].
          -- destruct Hs as [<-|Hs].
             ++ exists (op x y). split; [left; reflexivity | exact Ly].
             ++ destruct (I4 s ltac:(apply in_or_app; auto)) as (s' & H' & L'). exists s'. split; [right; exact H' | exact L'].
  Qed.

  Lemma Refines_repeat e n : okv e -> 1 <= n -> Refines (repeat e n) [e].
  Proof.
    intros He Hn. repeat split.
    - apply Forall_forall. intros x Hx. apply repeat_spec in Hx. subst. exact He.
    - constructor; auto.
    - intros s Hs. apply repeat_spec in Hs. subst. left. reflexivity.
    - intros s [<-|[]]. exists e. split; [|apply le_refl; exact He]. destruct n; [lia|]. left. reflexivity.
  Qed.

  (* the conclusion: a single value refining e :: a is the extreme of a (or the identity) *)
  Lemma Refines_singleton r S :
    Refines [r] S -> In r S /\ forall z, In z S -> le z r.
  Proof.
    intros (_ & _ & Sub & Dom). split; [apply Sub; left; reflexivity|].
    intros z Hz. destruct (Dom z Hz) as (s' & [E|[]] & L). subst s'. exact L.
  Qed.
End Refines.

Section Extreme.
  Context {T : Type}.
  Variable okv : T -> Prop.
  Variable le : T -> T -> Prop.
  Hypothesis le_refl : forall x, okv x -> le x x.
  Hypothesis le_trans : forall x y z, okv x -> okv y -> okv z -> le x y -> le y z -> le x z.
  Notation Ref := (Refines okv le).

  Variable R : SimdOps T.
  Hypothesis HL : 1 <= lanes R.
  Notation Ln := (lanes R).

  Variables a b res : list T.
  Variable dims : nat.
  Hypothesis Ha : length a = dims.
  Hypothesis Hoka : Forall okv a.
  Let m0 := init_mem a b res.
  Let Inv : mem T -> Prop := SafeR m0 (fun _ => True).

  Variable e : T.                      (* the identity the accumulators start from *)
  Hypothesis Hoke : okv e.
  Definition pre (i : nat) : list T := e :: firstn i a.

  Variable okd : dense T -> Prop.
  Variable okr : vreg T -> Prop.

  Variable init : dense T.
  Variable dense_step : nat -> dense T -> M T (dense T).
  Variable roll : dense T -> vreg T.
  Variable lane_step : nat -> vreg T -> M T (vreg T).
  Variable tovalue : vreg T -> T.
  Variable scalar_step : nat -> T -> M T T.

  Hypothesis Hinit : okd init /\ Ref (concat init) [e].
  Hypothesis Hdense : forall i acc, i + Ln * 8 <= dims -> okd acc ->
      triple Inv (dense_step i acc)
             (fun acc' m => Inv m /\ okd acc' /\ Ref (concat acc') (concat acc ++ firstn (Ln * 8) (skipn i a)))
             (fun _ => False).
  Hypothesis Hroll : forall acc, okd acc -> okr (roll acc) /\ Ref (roll acc) (concat acc).
  Hypothesis Hlane : forall i acc, i + Ln <= dims -> okr acc ->
      triple Inv (lane_step i acc)
             (fun acc' m => Inv m /\ okr acc' /\ Ref acc' (acc ++ firstn Ln (skipn i a))) (fun _ => False).
  Hypothesis Htov : forall acc, okr acc -> Ref [tovalue acc] (e :: acc).
  Hypothesis Hscalar : forall i s, i < dims -> okv s ->
      triple Inv (scalar_step i s)
             (fun s' m => Inv m /\ Ref [s'] ([s] ++ firstn 1 (skipn i a))) (fun _ => False).

  Lemma pre_ok i : Forall okv (pre i).
  Proof.
    unfold pre. constructor; [exact Hoke|]. rewrite Forall_forall in *. intros x Hx.
    apply Hoka. eapply In_firstn_In; eauto.
  Qed.

  Lemma pre_step i n : pre (i + n) = pre i ++ firstn n (skipn i a).
  Proof. unfold pre. rewrite firstn_add_split. reflexivity. Qed.

  Lemma Ref_step S' S i n :
    Ref S' (S ++ firstn n (skipn i a)) -> Ref S (pre i) -> Ref S' (pre (i + n)).
  Proof.
    intros H1 H2. rewrite pre_step. eapply Refines_trans; eauto.
    apply Refines_app; auto. apply Refines_refl; auto. apply Forall_block. exact Hoka.
  Qed.

  Theorem extreme_correct :
    match three_phase R dims init dense_step roll lane_step tovalue scalar_step m0 with
    | Ok r m => run_ok m0 m /\ In r (e :: a) /\ forall z, In z (e :: a) -> le z r
    | _ => False
    end.
  Proof.
    assert (H : triple (fun m => Inv m /\ okd init /\ Ref (concat init) (pre 0))
                       (three_phase R dims init dense_step roll lane_step tovalue scalar_step)
                       (fun s m => Inv m /\ okv s /\ Ref [s] (pre dims)) (fun _ => False)).
    { apply (three_phase_rule R HL dims
               (fun i acc m => Inv m /\ okd acc /\ Ref (concat acc) (pre i))
               (fun i acc m => Inv m /\ okr acc /\ Ref acc (pre i))
               (fun i s m => Inv m /\ okv s /\ Ref [s] (pre i)) (fun _ => False)).
      - intros k acc Hk. pose proof (dense_in dims Ln HL k Hk) as Hin.
        intros m (Hm & Hok & Hs). specialize (Hdense (k * Dn Ln) acc Hin Hok m Hm).
        destruct (dense_step (k * Dn Ln) acc m) as [acc' m'| | |]; auto.
        destruct Hdense as (Hm' & Hok' & Hs'). split; [assumption|]. split; [assumption|].
        replace (S k * Dn Ln) with (k * Dn Ln + Ln * 8) by (unfold Dn; lia).
        eapply Ref_step; eauto.
      - intros acc m (Hm & Hok & Hs). destruct (Hroll acc Hok) as [Hr1 Hr2].
        split; [assumption|]. split; [assumption|]. eapply Refines_trans; eauto.
      - intros k acc Hk. pose proof (lane_in dims Ln HL k Hk) as Hin.
        intros m (Hm & Hok & Hs). specialize (Hlane (qn dims Ln * Dn Ln + k * Ln) acc Hin Hok m Hm).
        destruct (lane_step (qn dims Ln * Dn Ln + k * Ln) acc m) as [acc' m'| | |]; auto.
        destruct Hlane as (Hm' & Hok' & Hs'). split; [assumption|]. split; [assumption|].
        replace (qn dims Ln * Dn Ln + S k * Ln) with (qn dims Ln * Dn Ln + k * Ln + Ln) by lia.
        eapply Ref_step; eauto.
      - intros acc m (Hm & Hok & Hs). pose proof (Htov acc Hok) as Ht.
        split; [assumption|]. split.
        + destruct Ht as (F & _). inversion F; assumption.
        + assert (Hx : Ref (e :: acc) (pre (qn dims Ln * Dn Ln + mn dims Ln * Ln))).
          { (* e :: acc refines pre i because e is in pre i and acc refines it *)
            replace (e :: acc) with ([e] ++ acc) by reflexivity.
            eapply Refines_equiv with (S := [e] ++ pre (qn dims Ln * Dn Ln + mn dims Ln * Ln)).
            - apply Refines_app; [apply Refines_refl; auto; constructor; auto | exact Hs].
            - apply pre_ok.
            - intros x. unfold pre. cbn. tauto. }
          eapply Refines_trans; eauto.
      - intros i s Hi m (Hm & Hok & Hs). specialize (Hscalar i s ltac:(lia) Hok m Hm).
        destruct (scalar_step i s m) as [s' m'| | |]; auto.
        destruct Hscalar as (Hm' & Hs'). split; [assumption|]. split.
        + destruct Hs' as (F & _). inversion F; assumption.
        + replace (S i) with (i + 1) by lia. eapply Ref_step; eauto. }
    specialize (H m0).
    assert (P0 : Inv m0 /\ okd init /\ Ref (concat init) (pre 0)).
    { split; [|split].
      - split; [apply Safe0_init; reflexivity | exact I].
      - apply Hinit.
      - unfold pre. cbn [firstn]. apply Hinit. }
    specialize (H P0).
    destruct (three_phase R dims init dense_step roll lane_step tovalue scalar_step m0) as [r m| | |]; auto.
    destruct H as ((Hs & _) & Hr & He). split; [exact Hs|].
    unfold pre in He. rewrite <- Ha in He. rewrite firstn_all in He.
    apply (Refines_singleton okv le). exact He.
  Qed.
End Extreme.
