(* C08: what a kernel run can depend on.  Generic in the element type T and in ANY SimdOps T / MathOps T (no
   lane-wise assumption, not even a lane count).

   1. STRUCTURE.  Every one of the 19 kernels is built from six things only: ret, bind, a load from an INPUT
      slice (A or B, never the result), a store to the result, a panic, and running out of loop fuel
      ([kernels_monadic]: any predicate on computations that is closed under these six holds of every kernel).
   2. RELATIONAL ([obl], an instance of 1).  Two runs that start from memories with the same inputs, the same
      trace and result slices of the same length that agree on every cell some earlier write event covers,
      proceed in lock step: same outcome constructor, same returned value, same trace, and result slices that
      again agree on every covered cell.  In particular the previous contents of the result slice are irrelevant
      ([prefill_irrelevant]).
   3. FRAME ([frames], an instance of 1, unary).  A run never changes A or B, keeps the length of the result
      slice, only appends to the trace, appends only reads of A/B and writes of the result, and every result
      cell that no appended write event covers still holds its initial value.
   Axiom-free. *)
From Coq Require Import List Arith Bool Lia.
From CF Require Import Base.Mem Model.SimdApi Model.Kernels Model.Tables Proofs.MemProofs.
Import ListNotations.

(** * Coverage of result cells by write events *)

Definition covered (j : nat) (tr : list event) : Prop :=
  exists e, In e tr /\ ev_write e = true /\ ev_idx e <= j < ev_idx e + ev_width e.

Lemma covered_nil j : ~ covered j [].
Proof. intros (e & [] & _). Qed.

Lemma covered_app j tr tr' : covered j (tr ++ tr') <-> covered j tr \/ covered j tr'.
Proof.
  split.
  - intros (e & Hin & H). apply in_app_or in Hin. destruct Hin as [Hin|Hin]; [left|right]; exists e; auto.
  - intros [(e & Hin & H)|(e & Hin & H)]; exists e; (split; [apply in_or_app; auto | exact H]).
Qed.

Lemma covered_one j e : covered j [e] <-> ev_write e = true /\ ev_idx e <= j < ev_idx e + ev_width e.
Proof.
  split.
  - intros (e' & [<-|[]] & H). exact H.
  - intros H. exists e. split; [left; reflexivity | exact H].
Qed.

(** * List facts *)

Lemma nth_error_firstn_lt {T} (l : list T) n j : j < n -> nth_error (firstn n l) j = nth_error l j.
Proof.
  revert l j. induction n as [|n IH]; intros l j H; [lia|].
  destruct l as [|x l]; [destruct j; reflexivity|]. destruct j as [|j]; cbn; [reflexivity|]. apply IH. lia.
Qed.

Lemma nth_error_skipn_add {T} (l : list T) k j : nth_error (skipn k l) j = nth_error l (k + j).
Proof.
  revert l. induction k as [|k IH]; intros l; [reflexivity|].
  destruct l as [|x l]; cbn [skipn]; [destruct j; reflexivity|]. apply IH.
Qed.

Lemma nth_error_splice {T} (l : list T) i v j :
  i + length v <= length l ->
  nth_error (splice l i v) j =
    if (i <=? j) && (j <? i + length v) then nth_error v (j - i) else nth_error l j.
Proof.
  intros H. unfold splice.
  assert (Lf : length (firstn i l) = i) by (rewrite firstn_length; lia).
  destruct (Nat.leb_spec i j) as [Hij|Hij]; cbn [andb].
  - rewrite nth_error_app2 by lia. rewrite Lf.
    destruct (Nat.ltb_spec j (i + length v)) as [Hjv|Hjv].
    + rewrite nth_error_app1 by lia. reflexivity.
    + rewrite nth_error_app2 by lia. rewrite nth_error_skipn_add. f_equal. lia.
  - rewrite nth_error_app1 by lia. apply nth_error_firstn_lt. exact Hij.
Qed.

Lemma nth_error_ext {T} (l l' : list T) : (forall j, nth_error l j = nth_error l' j) -> l = l'.
Proof.
  revert l'. induction l as [|x l IH]; intros l' H.
  - destruct l' as [|y l']; [reflexivity|]. specialize (H 0). discriminate H.
  - destruct l' as [|y l']; [specialize (H 0); discriminate H|].
    pose proof (H 0) as H0. cbn in H0. injection H0 as ->. f_equal. apply IH. intros j. exact (H (S j)).
Qed.

(** * 1. The six constructors every kernel is made of *)

Section Monadic.
  Context {T : Type}.

  Record monadic (P : forall A : Type, M T A -> Prop) : Prop := {
    p_ret : forall A (x : A), P A (ret x);
    p_bind : forall A B (c : M T A) (f : A -> M T B), P A c -> (forall a, P B (f a)) -> P B (bind c f);
    p_load : forall sc s i w, s <> SR -> P (list T) (load_gen sc s i w);     (* inputs only *)
    p_store : forall sc i v, P unit (store_gen sc i v);
    p_panic : forall A, P A panic;
    p_fuel : forall A, P A (fun _ => OutOfFuel)
  }.

  Variable P : forall A : Type, M T A -> Prop.
  Hypothesis HP : monadic P.

  Lemma p_lift_opt A (o : option A) : P A (lift_opt o).
  Proof. destruct o; cbn [lift_opt]; [apply (p_ret P HP) | apply (p_panic P HP)]. Qed.

  Lemma p_read1 d s i : s <> SR -> P T (read1 d s i).
  Proof.
    intros Hs. unfold read1. apply (p_bind P HP); [apply (p_load P HP); exact Hs|]. intros l. apply (p_ret P HP).
  Qed.

  Lemma p_write1 i v : P unit (write1 i v).
  Proof. unfold write1. apply (p_store P HP). Qed.

  Lemma p_while_lt St (body : nat -> St -> M T St) bound step :
    (forall i s, P St (body i s)) -> forall fuel i s, P (nat * St)%type (while_lt fuel i bound step body s).
  Proof.
    intros Hb. induction fuel as [|fuel IH]; intros i s; cbn [while_lt].
    - apply (p_fuel P HP).
    - destruct (i <? bound); [|apply (p_ret P HP)].
      apply (p_bind P HP); [apply Hb|]. intros s'. apply IH.
  Qed.

  Lemma p_three_phase (R : SimdOps T) S1 S2 S3 dims init ds roll ls tov ss :
    (forall i s, P S1 (ds i s)) -> (forall i s, P S2 (ls i s)) -> (forall i s, P S3 (ss i s)) ->
    P S3 (@three_phase T R S1 S2 S3 dims init ds roll ls tov ss).
  Proof.
    intros H1 H2 H3. unfold three_phase. cbv zeta.
    apply (p_bind P HP); [apply p_while_lt; exact H1|]. intros [i s1].
    apply (p_bind P HP); [apply p_while_lt; exact H2|]. intros [i2 s2].
    apply (p_bind P HP); [apply p_while_lt; exact H3|]. intros [i3 s3]. apply (p_ret P HP).
  Qed.

  Lemma p_load_dense (R : SimdOps T) s i : s <> SR -> P (dense T) (load_dense R s i).
  Proof.
    intros Hs. unfold load_dense, load.
    repeat (apply (p_bind P HP); [apply (p_load P HP); exact Hs | intros ?]). apply (p_ret P HP).
  Qed.

  Lemma p_write_dense (R : SimdOps T) i l : P unit (write_dense R i l).
  Proof.
    unfold write_dense, store.
    repeat (apply (p_bind P HP); [apply (p_store P HP) | intros ?]). apply (p_store P HP).
  Qed.

  (* One tactic for all kernels: peel binds, pair-valued accumulators (generic_cosine), and the primitives. *)
  Ltac ptac :=
    repeat first
      [ apply (p_ret P HP)
      | apply p_three_phase; intros; cbv beta
      | apply p_load_dense; discriminate
      | apply p_read1; discriminate
      | apply (p_load P HP); discriminate
      | apply p_write_dense
      | apply p_write1
      | apply (p_store P HP)
      | apply p_lift_opt
      | match goal with |- context [match ?x with (_, _) => _ end] => destruct x end
      | apply (p_bind P HP); [| intros ?] ].

  Variable R : SimdOps T.
  Variable Mth : MathOps T.

  Lemma p_sum dims : P T (generic_sum R Mth dims).
  Proof. unfold generic_sum, load. ptac. Qed.
  Lemma p_dot dims : P T (generic_dot_product R Mth dims).
  Proof. unfold generic_dot_product, load. ptac. Qed.
  Lemma p_norm dims : P T (generic_squared_norm R Mth dims).
  Proof. unfold generic_squared_norm, load. ptac. Qed.
  Lemma p_euclid dims : P T (generic_euclidean R Mth dims).
  Proof. unfold generic_euclidean, load. ptac. Qed.
  Lemma p_maxh dims : P T (generic_max_horizontal R Mth dims).
  Proof. unfold generic_max_horizontal, load. ptac. Qed.
  Lemma p_minh dims : P T (generic_min_horizontal R Mth dims).
  Proof. unfold generic_min_horizontal, load. ptac. Qed.

  Lemma p_cosine dims : P T (generic_cosine R Mth dims).
  Proof.
    unfold generic_cosine.
    apply (p_bind P HP); [unfold load; ptac|]. intros [na nb].
    apply (p_bind P HP); [apply p_dot|]. intros dot. apply p_lift_opt.
  Qed.

  Lemma p_map_vector dims opd op sop : P unit (map_vector R Mth dims opd op sop).
  Proof. unfold map_vector, load, store. ptac. Qed.
  Lemma p_map_value dims value bd br opd op sop : P unit (map_value R Mth dims value bd br opd op sop).
  Proof. unfold map_value, load, store. ptac. Qed.
  Lemma p_div_vector dims : P unit (generic_div_vector R Mth dims).
  Proof. unfold generic_div_vector, load, store. ptac. Qed.
  Lemma p_div_value dims value : P unit (generic_div_value R Mth dims value).
  Proof. unfold generic_div_value, load, store. cbv zeta. ptac. Qed.

  Theorem kernels_monadic k dims v : P (kresult (T := T)) (run_kernel R Mth k dims v).
  Proof.
    destruct k; cbv beta zeta delta [run_kernel]; (apply (p_bind P HP); [| intros ?; apply (p_ret P HP)]).
    - apply p_dot.
    - apply p_cosine.
    - apply p_euclid.
    - apply p_norm.
    - apply p_sum.
    - apply p_maxh.
    - apply p_map_vector.
    - apply p_map_value.
    - apply p_minh.
    - apply p_map_vector.
    - apply p_map_value.
    - apply p_map_value.
    - apply p_map_value.
    - apply p_map_value.
    - apply p_div_value.
    - apply p_map_vector.
    - apply p_map_vector.
    - apply p_map_vector.
    - apply p_div_vector.
  Qed.
End Monadic.

(** * 2. Obliviousness to the previous contents of the result slice (relational) *)

Section Obl.
  Context {T : Type}.

  Definition eqv (m m' : mem T) : Prop :=
    mA m = mA m' /\ mB m = mB m' /\ trace m = trace m' /\ length (mR m) = length (mR m')
    /\ forall j, covered j (trace m) -> nth_error (mR m) j = nth_error (mR m') j.

  Definition obl {A} (c : M T A) : Prop :=
    forall m m', eqv m m' ->
      match c m, c m' with
      | Ok x n, Ok x' n' => x = x' /\ eqv n n'
      | Panic n, Panic n' => eqv n n'
      | Fault e, Fault e' => e = e'
      | OutOfFuel, OutOfFuel => True
      | _, _ => False
      end.

  Lemma eqv_init (a b res res' : list T) : length res = length res' -> eqv (init_mem a b res) (init_mem a b res').
  Proof.
    intros H. unfold eqv, init_mem; cbn. repeat split; auto. intros j Hj. destruct (covered_nil j Hj).
  Qed.

  Lemma obl_ret A (x : A) : obl (ret x).
  Proof. intros m m' H. cbn. auto. Qed.

  Lemma obl_panic A : obl (@panic T A).
  Proof. intros m m' H. cbn. exact H. Qed.

  Lemma obl_fuel A : obl (fun _ : mem T => @OutOfFuel T A).
  Proof. intros m m' H. exact I. Qed.

  Lemma obl_bind A B (c : M T A) (f : A -> M T B) : obl c -> (forall a, obl (f a)) -> obl (bind c f).
  Proof.
    intros Hc Hf m m' H. unfold bind. specialize (Hc m m' H).
    destruct (c m) as [x n|n|e|], (c m') as [x' n'|n'|e'|]; cbv beta iota in Hc; try contradiction; auto.
    destruct Hc as [-> Hn]. apply Hf. exact Hn.
  Qed.

  Lemma obl_load_gen sc s i w : s <> SR -> obl (load_gen sc s i w).
  Proof.
    intros Hs m m' (HA & HB & HT & HL & HC). unfold load_gen.
    assert (E : slice_of m' s = slice_of m s) by (destruct s; cbn; congruence).
    rewrite E. destruct (i + w <=? length (slice_of m s)); [|reflexivity].
    split; [reflexivity|]. unfold eqv, log; cbn [mA mB mR trace].
    split; [exact HA|]. split; [exact HB|]. split; [rewrite HT; reflexivity|]. split; [exact HL|].
    intros j Hj. apply HC. apply covered_app in Hj. destruct Hj as [Hj|Hj]; [exact Hj|].
    apply covered_one in Hj. cbn in Hj. destruct Hj as [Hw _]. discriminate Hw.
  Qed.

  (* any index, any values: the stored values are the same on both sides, so the newly covered cells agree;
     previously covered cells are either overwritten identically or untouched *)
  Lemma obl_store_gen sc i v : obl (store_gen sc i v).
  Proof.
    intros m m' (HA & HB & HT & HL & HC). unfold store_gen. rewrite <- HL.
    destruct (Nat.leb_spec (i + length v) (length (mR m))) as [Hb|Hb]; [|reflexivity].
    split; [reflexivity|]. unfold eqv; cbn [mA mB mR trace].
    split; [exact HA|]. split; [exact HB|]. split; [rewrite HT; reflexivity|].
    split; [rewrite !length_splice by lia; exact HL|].
    intros j Hj. rewrite !nth_error_splice by lia.
    destruct ((i <=? j) && (j <? i + length v)) eqn:E; [reflexivity|].
    apply HC. apply covered_app in Hj. destruct Hj as [Hj|Hj]; [exact Hj|].
    apply covered_one in Hj. cbn in Hj. destruct Hj as [_ Hr]. exfalso.
    apply andb_false_iff in E. destruct E as [E|E]; [apply Nat.leb_gt in E | apply Nat.ltb_ge in E]; lia.
  Qed.

  Theorem obl_monadic : monadic (fun A c => @obl A c).
  Proof.
    constructor.
    - exact obl_ret.
    - exact obl_bind.
    - exact obl_load_gen.
    - exact obl_store_gen.
    - exact obl_panic.
    - exact obl_fuel.
  Qed.

  (* the closure lemmas, in the form other proofs may want them *)
  Lemma obl_lift_opt A (o : option A) : obl (lift_opt o).
  Proof. exact (p_lift_opt _ obl_monadic A o). Qed.
  Lemma obl_read1 d s i : s <> SR -> obl (read1 (T := T) d s i).
  Proof. exact (p_read1 _ obl_monadic d s i). Qed.
  Lemma obl_write1 i (v : T) : obl (write1 i v).
  Proof. exact (p_write1 _ obl_monadic i v). Qed.
  Lemma obl_while_lt St (body : nat -> St -> M T St) bound step :
    (forall i s, obl (body i s)) -> forall fuel i s, obl (while_lt fuel i bound step body s).
  Proof. exact (p_while_lt _ obl_monadic St body bound step). Qed.
  Lemma obl_three_phase (R : SimdOps T) S1 S2 S3 dims init ds roll ls tov ss :
    (forall i s, obl (ds i s)) -> (forall i s, obl (ls i s)) -> (forall i s, obl (ss i s)) ->
    obl (@three_phase T R S1 S2 S3 dims init ds roll ls tov ss).
  Proof. exact (p_three_phase _ obl_monadic R S1 S2 S3 dims init ds roll ls tov ss). Qed.
  Lemma obl_load_dense (R : SimdOps T) s i : s <> SR -> obl (load_dense R s i).
  Proof. exact (p_load_dense _ obl_monadic R s i). Qed.
  Lemma obl_write_dense (R : SimdOps T) i l : obl (write_dense R i l).
  Proof. exact (p_write_dense _ obl_monadic R i l). Qed.

  Theorem kernel_oblivious (R : SimdOps T) (Mth : MathOps T) k dims v : obl (run_kernel R Mth k dims v).
  Proof. exact (kernels_monadic _ obl_monadic R Mth k dims v). Qed.

  (* Corollary 1: two prefills of the same length. *)
  Definition same_upto_uncovered (m m' : mem T) : Prop :=
    trace m = trace m' /\ mA m = mA m' /\ mB m = mB m' /\ length (mR m) = length (mR m')
    /\ forall j, covered j (trace m) -> nth_error (mR m) j = nth_error (mR m') j.

  Theorem prefill_irrelevant (R : SimdOps T) (Mth : MathOps T) k dims v (a b res res' : list T) :
    length res = length res' ->
    match run_kernel R Mth k dims v (init_mem a b res), run_kernel R Mth k dims v (init_mem a b res') with
    | Ok x m, Ok x' m' => x = x' /\ same_upto_uncovered m m'
    | Panic m, Panic m' => same_upto_uncovered m m'
    | Fault e, Fault e' => e = e'
    | OutOfFuel, OutOfFuel => True
    | _, _ => False
    end.
  Proof.
    intros H. pose proof (kernel_oblivious R Mth k dims v _ _ (eqv_init a b res res' H)) as O.
    destruct (run_kernel R Mth k dims v (init_mem a b res)) as [x n|n|e|],
             (run_kernel R Mth k dims v (init_mem a b res')) as [x' n'|n'|e'|];
      cbv beta iota in O; try contradiction; auto.
    - destruct O as [Hx (HA & HB & HT & HL & HC)]. split; [exact Hx|]. unfold same_upto_uncovered. auto.
    - destruct O as (HA & HB & HT & HL & HC). unfold same_upto_uncovered. auto.
  Qed.
End Obl.

(** * 3. Frame: inputs never modified, uncovered result cells keep their value, only legal events appended *)

Section Frame.
  Context {T : Type}.

  Definition framed (m n : mem T) : Prop :=
    mA n = mA m /\ mB n = mB m /\ length (mR n) = length (mR m)
    /\ exists tr', trace n = trace m ++ tr'
                   /\ Forall (fun e => event_ok e = true) tr'
                   /\ forall j, ~ covered j tr' -> nth_error (mR n) j = nth_error (mR m) j.

  Definition frames {A} (c : M T A) : Prop :=
    forall m, match c m with Ok _ n | Panic n => framed m n | Fault _ | OutOfFuel => True end.

  Lemma framed_refl m : framed m m.
  Proof.
    unfold framed. repeat split; auto. exists []. rewrite app_nil_r. repeat split; auto.
  Qed.

  Lemma framed_trans m n p : framed m n -> framed n p -> framed m p.
  Proof.
    intros (HA & HB & HL & tr1 & HT1 & HE1 & HC1) (HA' & HB' & HL' & tr2 & HT2 & HE2 & HC2).
    unfold framed. split; [congruence|]. split; [congruence|]. split; [congruence|].
    exists (tr1 ++ tr2). split; [rewrite HT2, HT1, app_assoc; reflexivity|].
    split; [apply Forall_app; auto|].
    intros j Hj. rewrite HC2, HC1; [reflexivity| |]; intros Hc; apply Hj; apply covered_app; auto.
  Qed.

  Lemma frames_ret A (x : A) : frames (ret x).
  Proof. intros m. cbn. apply framed_refl. Qed.
  Lemma frames_panic A : frames (@panic T A).
  Proof. intros m. cbn. apply framed_refl. Qed.
  Lemma frames_fuel A : frames (fun _ : mem T => @OutOfFuel T A).
  Proof. intros m. exact I. Qed.

  Lemma frames_bind A B (c : M T A) (f : A -> M T B) : frames c -> (forall a, frames (f a)) -> frames (bind c f).
  Proof.
    intros Hc Hf m. unfold bind. specialize (Hc m). destruct (c m) as [x n|n|e|]; auto.
    specialize (Hf x n). destruct (f x n) as [y p|p|e|]; auto; eapply framed_trans; eauto.
  Qed.

  Lemma frames_load_gen sc s i w : s <> SR -> frames (load_gen (T := T) sc s i w).
  Proof.
    intros Hs m. unfold load_gen. destruct (i + w <=? length (slice_of m s)); [|exact I].
    unfold framed, log; cbn [mA mB mR trace]. repeat split; auto.
    eexists. split; [reflexivity|]. split; [|reflexivity].
    constructor; [|constructor]. unfold event_ok; cbn. destruct s; [reflexivity|reflexivity|congruence].
  Qed.

  Lemma frames_store_gen sc i (v : list T) : frames (store_gen sc i v).
  Proof.
    intros m. unfold store_gen.
    destruct (Nat.leb_spec (i + length v) (length (mR m))) as [Hb|Hb]; [|exact I].
    unfold framed; cbn [mA mB mR trace]. split; [reflexivity|]. split; [reflexivity|].
    split; [apply length_splice; exact Hb|].
    eexists. split; [reflexivity|]. split; [constructor; [reflexivity|constructor]|].
    intros j Hj. rewrite nth_error_splice by exact Hb.
    destruct ((i <=? j) && (j <? i + length v)) eqn:E; [|reflexivity].
    exfalso. apply Hj. apply covered_one. cbn. split; [reflexivity|].
    apply andb_true_iff in E. destruct E as [E1 E2]. apply Nat.leb_le in E1. apply Nat.ltb_lt in E2. lia.
  Qed.

  Theorem frames_monadic : monadic (fun A c => @frames A c).
  Proof.
    constructor.
    - exact frames_ret.
    - exact frames_bind.
    - exact frames_load_gen.
    - exact frames_store_gen.
    - exact frames_panic.
    - exact frames_fuel.
  Qed.

  Theorem kernel_frames (R : SimdOps T) (Mth : MathOps T) k dims v : frames (run_kernel R Mth k dims v).
  Proof. exact (kernels_monadic _ frames_monadic R Mth k dims v). Qed.

  (* Corollary 2: from a fresh memory. *)
  Theorem kernel_frame (R : SimdOps T) (Mth : MathOps T) k dims v (a b res : list T) :
    match run_kernel R Mth k dims v (init_mem a b res) with
    | Ok _ m | Panic m =>
        mA m = a /\ mB m = b /\ length (mR m) = length res
        /\ Forall (fun e => event_ok e = true) (trace m)
        /\ forall j, ~ covered j (trace m) -> nth_error (mR m) j = nth_error res j
    | Fault _ | OutOfFuel => True
    end.
  Proof.
    pose proof (kernel_frames R Mth k dims v (init_mem a b res)) as F.
    destruct (run_kernel R Mth k dims v (init_mem a b res)) as [x n|n|e|]; auto;
      destruct F as (HA & HB & HL & tr' & HT & HE & HC); cbn in HT; subst tr'; repeat split; auto.
  Qed.
End Frame.
