(* Memory, events, outcomes and the state/error monad the kernel models are written in.
   Stdlib only; no proofs here (Proofs/MemProofs.v). *)
From Coq Require Import List Arith Bool.
Import ListNotations.

Inductive slice := SA | SB | SR.
Definition slice_eqb (a b : slice) : bool :=
  match a, b with SA, SA | SB, SB | SR, SR => true | _, _ => false end.

(* One memory event: read/write of [width] consecutive elements of a slice starting at [idx]. *)
(* [ev_scalar]: a plain element access (`*a.get_unchecked(i)`) rather than a register load/store through
   the SimdRegister trait (the symbolic harness can only log the latter). *)
Record event := { ev_write : bool; ev_scalar : bool; ev_slice : slice; ev_idx : nat; ev_width : nat }.

Record mem (T : Type) := { mA : list T; mB : list T; mR : list T; trace : list event }.
Arguments mA {T}. Arguments mB {T}. Arguments mR {T}. Arguments trace {T}.

Definition slice_of {T} (m : mem T) (s : slice) : list T :=
  match s with SA => mA m | SB => mB m | SR => mR m end.

Inductive outcome (T R : Type) :=
| Ok (r : R) (m : mem T)
| Panic (m : mem T)          (* integer division by zero (the only panic a kernel can raise in release) *)
| Fault (e : event)          (* an access that leaves its slice: undefined behaviour in the Rust *)
| OutOfFuel.
Arguments Ok {T R}. Arguments Panic {T R}. Arguments Fault {T R}. Arguments OutOfFuel {T R}.

Definition M (T R : Type) := mem T -> outcome T R.

Definition ret {T R} (r : R) : M T R := fun m => Ok r m.
Definition bind {T A B} (x : M T A) (f : A -> M T B) : M T B :=
  fun m => match x m with
           | Ok a m' => f a m'
           | Panic m' => Panic m'
           | Fault e => Fault e
           | OutOfFuel => OutOfFuel
           end.
Notation "x <- c1 ;; c2" := (bind c1 (fun x => c2)) (at level 61, c1 at next level, right associativity).
Notation "' pat <- c1 ;; c2" := (bind c1 (fun x => match x with pat => c2 end))
  (at level 61, pat pattern, c1 at next level, right associativity).

Definition log {T} (e : event) (m : mem T) : mem T :=
  {| mA := mA m; mB := mB m; mR := mR m; trace := trace m ++ [e] |}.

(* Read [w] consecutive elements (a register load, or a scalar read with w = 1). *)
Definition load_gen {T} (sc : bool) (s : slice) (i w : nat) : M T (list T) :=
  fun m =>
    let e := {| ev_write := false; ev_scalar := sc; ev_slice := s; ev_idx := i; ev_width := w |} in
    if i + w <=? length (slice_of m s)
    then Ok (firstn w (skipn i (slice_of m s))) (log e m)
    else Fault e.

Definition splice {T} (l : list T) (i : nat) (v : list T) : list T :=
  firstn i l ++ v ++ skipn (i + length v) l.

(* Write consecutive elements to the result slice (the only slice kernels write). *)
Definition load {T} := @load_gen T false.

Definition store_gen {T} (sc : bool) (i : nat) (v : list T) : M T unit :=
  fun m =>
    let e := {| ev_write := true; ev_scalar := sc; ev_slice := SR; ev_idx := i; ev_width := length v |} in
    if i + length v <=? length (mR m)
    then Ok tt {| mA := mA m; mB := mB m; mR := splice (mR m) i v; trace := trace m ++ [e] |}
    else Fault e.

Definition store {T} := @store_gen T false.

Definition read1 {T} (d : T) (s : slice) (i : nat) : M T T :=
  l <- load_gen true s i 1 ;; ret (hd d l).
Definition write1 {T} (i : nat) (v : T) : M T unit := store_gen true i [v].

Definition panic {T R} : M T R := fun m => Panic m.
Definition lift_opt {T R} (o : option R) : M T R :=
  match o with Some r => ret r | None => panic end.

(* while i < bound { s <- body i s; i += step }, on explicit fuel. *)
Fixpoint while_lt {T S} (fuel i bound step : nat) (body : nat -> S -> M T S) (s : S) : M T (nat * S) :=
  match fuel with
  | O => fun _ => OutOfFuel
  | S fuel' =>
      if i <? bound
      then s' <- body i s ;; while_lt fuel' (i + step) bound step body s'
      else ret (i, s)
  end.

Definition init_mem {T} (a b r : list T) : mem T := {| mA := a; mB := b; mR := r; trace := [] |}.

Definition event_in_bounds {T} (m : mem T) (e : event) : Prop :=
  ev_idx e + ev_width e <= length (slice_of m (ev_slice e)).
Definition event_ok (e : event) : bool :=
  (* kernels never write their inputs and never read their result *)
  if ev_write e then slice_eqb (ev_slice e) SR else negb (slice_eqb (ev_slice e) SR).
