(* Model of cfavml-utils/src/aligned_buffer.rs (C16).  Executable definitions only; proofs live in
   Proofs/AlignedBufProofs.v.

   The model mirrors the Rust line by line and is parametric in every literal of the source
   (Gen/GenConstsUtils.v, regenerated from /repo by tools/translate_utils.py on every run):

     #[repr(C, align(AL))] struct AlignedBytes([u8; CH]);          Default: Self([FILL; CH])
     zeroed(len):  assert_eq!(CHa % size_of::<T>(), 0);
                   num_per_chunk = CHd / size_of::<T>();
                   num_chunks    = len / num_per_chunk + ADD          (CHK = false: usize `+`, debug panics /
                                                                        release wraps mod 2^64)
                                 | (len / num_per_chunk).checked_add(ADD).expect(..)          (CHK = true)
                   Vec::with_capacity(num_chunks); extend(repeat(default).take(num_chunks)); into_boxed_slice
                   Self { len, allocated_size: num_per_chunk * buffer.len(), buffer }
     as_slice / as_mut_slice: from_raw_parts(buffer.as_ptr().cast(), len)
     copy_from_slice(data):   as_mut_slice().copy_from_slice(data)
     #[derive(Clone)]:        Box<[AlignedBytes]>::clone = fresh allocation + copy of every chunk

   Memory is a heap of blocks (base address |-> bytes).  The global allocator is an ORACLE [pick] (which base a
   request of n bytes at alignment a receives); its contract [pick_ok] (aligned, non-null, fresh) is a hypothesis of
   the theorems and is *observed* by the correspondence (checks/c16.py), not proved. *)
From Coq Require Import ZArith List Bool.
From CF Require Import Gen.GenConstsUtils.
Import ListNotations.
Open Scope Z_scope.

Definition USIZE : Z := 2 ^ 64.
Definition ISIZE_MAX : Z := 2 ^ 63 - 1.

Inductive profile := Debug | Release.

Definition is_debug (p : profile) : bool := match p with Debug => true | Release => false end.

Record ab_params := {
  CH : Z;      (* bytes in one chunk: [u8; CH] *)
  AL : Z;      (* align(AL) *)
  CHa : Z;     (* modulus of the size assert *)
  CHd : Z;     (* dividend of num_per_chunk *)
  ADD : Z;     (* the `+ 1` *)
  CHK : bool;  (* checked_add(..).expect(..) instead of `+` *)
  FILL : Z     (* the byte of AlignedBytes::default() *)
}.

Definition gen_ab_params : ab_params :=
  {| CH := ab_chunk_bytes; AL := ab_align; CHa := ab_assert_mod; CHd := ab_div; ADD := ab_plus;
     CHK := ab_checked; FILL := ab_fill |}.

Inductive panic_kind :=
| PRemZero        (* `64 % 0`: attempt to calculate the remainder with a divisor of zero (every profile) *)
| PAssert         (* assert_eq!(64 % size, 0) *)
| PDivZero        (* len / 0 *)
| PAddOverflow    (* debug: attempt to add with overflow *)
| PMulOverflow    (* debug: attempt to multiply with overflow *)
| PExpect         (* checked_add(..).expect(..) *)
| PCapacity       (* Vec::with_capacity: more than isize::MAX bytes: "capacity overflow" *)
| PCopyLen.       (* copy_from_slice: source slice length does not match destination *)

(* [Fault]: the code would form / use a slice that is not contained in its allocation (undefined behaviour) *)
Inductive outcome (A : Type) := Ok (a : A) | Panic (k : panic_kind) | Fault.
Arguments Ok {A} a.
Arguments Panic {A} k.
Arguments Fault {A}.

(* ---------------------------------------------------------------------------------------------- *)
(* usize arithmetic                                                                               *)
(* ---------------------------------------------------------------------------------------------- *)

Definition usize_add (prof : profile) (a b : Z) : outcome Z :=
  if a + b <? USIZE then Ok (a + b) else if is_debug prof then Panic PAddOverflow else Ok ((a + b) mod USIZE).

Definition usize_mul (prof : profile) (a b : Z) : outcome Z :=
  if a * b <? USIZE then Ok (a * b) else if is_debug prof then Panic PMulOverflow else Ok ((a * b) mod USIZE).

Definition usize_checked_add_expect (a b : Z) : outcome Z :=
  if a + b <? USIZE then Ok (a + b) else Panic PExpect.

(* ---------------------------------------------------------------------------------------------- *)
(* heap and allocator oracle                                                                      *)
(* ---------------------------------------------------------------------------------------------- *)

Definition heap := list (Z * list Z).            (* base address |-> bytes of the block *)
Definition picker := heap -> Z -> Z -> Z.        (* heap, bytes, alignment |-> base address *)

Fixpoint lookup (h : heap) (a : Z) : option (list Z) :=
  match h with
  | [] => None
  | (b, bs) :: r => if b =? a then Some bs else lookup r a
  end.

Fixpoint store (h : heap) (a : Z) (bs : list Z) : heap :=
  match h with
  | [] => []
  | (b, old) :: r => if b =? a then (b, bs) :: r else (b, old) :: store r a bs
  end.

(* Rust: a zero-sized request does not allocate; the pointer is the dangling, well-aligned address `align`. *)
Definition alloc (pick : picker) (h : heap) (bytes : list Z) (align : Z) : heap * Z :=
  if Z.of_nat (length bytes) =? 0 then (h, align)
  else let base := pick h (Z.of_nat (length bytes)) align in ((base, bytes) :: h, base).

Definition block_bytes (h : heap) (ptr : Z) : list Z :=
  match lookup h ptr with Some bs => bs | None => [] end.

(* size_of::<AlignedBytes>() = CH rounded up to a multiple of AL; padding bytes are undefined (-1) *)
Definition stride (p : ab_params) : Z := ((CH p + AL p - 1) / AL p) * AL p.
Definition UNDEF : Z := -1.
Definition default_chunk (p : ab_params) : list Z :=
  repeat (FILL p) (Z.to_nat (CH p)) ++ repeat UNDEF (Z.to_nat (stride p - CH p)).

(* ---------------------------------------------------------------------------------------------- *)
(* AlignedBuffer<T>                                                                               *)
(* ---------------------------------------------------------------------------------------------- *)

Record buf := { b_len : Z; b_alloc : Z; b_ptr : Z; b_nchunks : Z }.   (* buffer: Box<[AlignedBytes]> = (ptr, nchunks) *)

Definition bind {A B} (o : outcome A) (f : A -> outcome B) : outcome B :=
  match o with Ok a => f a | Panic k => Panic k | Fault => Fault end.

(* the arithmetic of zeroed(): (num_per_chunk, num_chunks) *)
Definition chunk_count (p : ab_params) (prof : profile) (len size : Z) : outcome (Z * Z) :=
  if size =? 0 then Panic PRemZero
  else if negb (CHa p mod size =? 0) then Panic PAssert
  else
    let npc := CHd p / size in
    if npc =? 0 then Panic PDivZero
    else
      bind (if CHK p then usize_checked_add_expect (len / npc) (ADD p) else usize_add prof (len / npc) (ADD p))
           (fun chunks => Ok (npc, chunks)).

Definition zeroed (p : ab_params) (prof : profile) (pick : picker) (h : heap) (len size : Z)
  : outcome (heap * buf) :=
  bind (chunk_count p prof len size) (fun '(npc, chunks) =>
    if ISIZE_MAX <? chunks * stride p then Panic PCapacity
    else
      let bytes := concat (repeat (default_chunk p) (Z.to_nat chunks)) in
      let '(h', ptr) := alloc pick h bytes (AL p) in
      bind (usize_mul prof npc chunks) (fun allocated =>
        Ok (h', {| b_len := len; b_alloc := allocated; b_ptr := ptr; b_nchunks := chunks |}))).

Definition allocated_size (b : buf) : Z := b_alloc b.

(* n groups of `size` bytes *)
Fixpoint group (n : nat) (size : nat) (l : list Z) : list (list Z) :=
  match n with
  | O => []
  | S n' => firstn size l :: group n' size (skipn size l)
  end.

(* from_raw_parts(ptr.cast(), len): defined only when len * size bytes lie inside the block *)
Definition view_ok (h : heap) (b : buf) (size : Z) : bool :=
  b_len b * size <=? Z.of_nat (length (block_bytes h (b_ptr b))).

Definition as_slice (h : heap) (b : buf) (size : Z) : option (list (list Z)) :=
  if view_ok h b size then Some (group (Z.to_nat (b_len b)) (Z.to_nat size) (block_bytes h (b_ptr b))) else None.

Definition as_ptr (b : buf) : Z := b_ptr b.

(* as_mut_slice().copy_from_slice(data): elements are `size`-byte groups *)
Definition copy_from_slice (h : heap) (b : buf) (size : Z) (data : list (list Z)) : outcome heap :=
  if negb (view_ok h b size) then Fault
  else if negb (Z.of_nat (length data) =? b_len b) then Panic PCopyLen
  else
    let old := block_bytes h (b_ptr b) in
    Ok (store h (b_ptr b) (concat data ++ skipn (Z.to_nat (b_len b * size)) old)).

(* #[derive(Clone)]: len, allocated_size copied; Box<[AlignedBytes]>::clone allocates and copies every chunk *)
Definition clone (p : ab_params) (pick : picker) (h : heap) (b : buf) : heap * buf :=
  let '(h', ptr) := alloc pick h (block_bytes h (b_ptr b)) (AL p) in
  (h', {| b_len := b_len b; b_alloc := b_alloc b; b_ptr := ptr; b_nchunks := b_nchunks b |}).

(* ---------------------------------------------------------------------------------------------- *)
(* A concrete allocator satisfying the contract, adversarial about everything the contract leaves open:
   it hands out the smallest ODD multiple of the alignment above everything allocated so far, so a block
   is never aligned to more than it asked for. *)
(* ---------------------------------------------------------------------------------------------- *)

Fixpoint heap_top (h : heap) : Z :=
  match h with
  | [] => 4096
  | (b, bs) :: r => Z.max (b + Z.of_nat (length bs)) (heap_top r)
  end.

Definition adv_pick : picker := fun h _ a =>
  let k := heap_top h / a + 1 in (if Z.even k then k + 1 else k) * a.

(* ---------------------------------------------------------------------------------------------- *)
(* Observation scripts run by the correspondence (checks/c16.py); every output is a Z.                     *)
(* ---------------------------------------------------------------------------------------------- *)

Definition panic_code (k : panic_kind) : Z :=
  match k with
  | PRemZero => 1 | PAssert => 2 | PDivZero => 3 | PAddOverflow => 4 | PMulOverflow => 5
  | PExpect => 6 | PCapacity => 7 | PCopyLen => 8
  end.

(* bookkeeping only: [0; len; allocated; nchunks] or [panic code] *)
Definition obs_meta (p : ab_params) (prof : profile) (len size : Z) : list Z :=
  match chunk_count p prof len size with
  | Panic k => [panic_code k]
  | Fault => [99]
  | Ok (npc, chunks) =>
      if ISIZE_MAX <? chunks * stride p then [panic_code PCapacity]
      else match usize_mul prof npc chunks with
           | Ok a => [0; len; a; chunks]
           | Panic k => [panic_code k]
           | Fault => [99]
           end
  end.

(* bit masks instead of `mod`: Z.modulo is quadratic in the operand width under vm_compute *)
Definition pat (k f : Z) : Z := Z.land (f * 131 + k * 89 + 7) 255.

(* element i of write k is the `size` bytes pat k (i*size) .. pat k (i*size + size - 1); Z counters (no nat arithmetic) *)
Fixpoint pat_run (k : Z) (m : nat) (f : Z) : list Z :=
  match m with O => [] | S m' => pat k f :: pat_run k m' (f + 1) end.

Fixpoint pat_elems (k : Z) (n : nat) (size : nat) (f : Z) : list (list Z) :=
  match n with O => [] | S n' => pat_run k size f :: pat_elems k n' size (f + Z.of_nat size) end.

Definition pattern (k : Z) (len size : nat) : list (list Z) := pat_elems k len size 0.

(* Fletcher-style position-sensitive checksum, additions only (cheap under vm_compute): s1 = 1 + sum of the bytes,
   s2 = sum of the running s1; no wrap below 2^26 bytes (s1 < 2^34, s2 < 2^60).  Result s2 * 2^34 + s1. *)
Definition cks (l : list Z) : Z :=
  let '(s1, s2) := fold_left (fun '(s1, s2) b => let s1' := s1 + b in (s1', s2 + s1')) l (1, 0) in
  s2 * 17179869184 + s1.

Definition cks_view (v : option (list (list Z))) : Z :=
  match v with None => -1 | Some els => cks (concat els) end.

Definition all_zero (v : option (list (list Z))) : Z :=
  match v with None => -1 | Some els => if forallb (forallb (Z.eqb 0)) els then 1 else 0 end.

Definition view_len (v : option (list (list Z))) : Z :=
  match v with None => -1 | Some els => Z.of_nat (length els) end.

(* the full script: zeroed, read, write pattern 1, read, clone, write pattern 2 into the clone, read both,
   write pattern 3 into the original, read both.
   Output: [0; len; allocated; ptr mod 64; view length; all-zero flag; checksum after write 1;
            clone ptr mod 64; clone ptr <> ptr; clone checksum at clone time;
            original / clone after the write to the clone; original / clone after the write to the original;
            checksum of the slack bytes beyond len (never touched by the views)] *)
Definition obs_full (p : ab_params) (prof : profile) (len size : Z) : list Z :=
  match zeroed p prof adv_pick [] len size with
  | Panic k => [panic_code k]
  | Fault => [99]
  | Ok (h0, b) =>
      let n := Z.to_nat len in
      let sz := Z.to_nat size in
      let v0 := as_slice h0 b size in
      match copy_from_slice h0 b size (pattern 1 n sz) with
      | Ok h1 =>
          let v1 := as_slice h1 b size in
          let '(h2, c) := clone p adv_pick h1 b in
          let vc0 := as_slice h2 c size in
          match copy_from_slice h2 c size (pattern 2 n sz) with
          | Ok h3 =>
              let vb3 := as_slice h3 b size in
              let vc3 := as_slice h3 c size in
              match copy_from_slice h3 b size (pattern 3 n sz) with
              | Ok h4 =>
                  [0; len; allocated_size b; as_ptr b mod 64; view_len v0; all_zero v0; cks_view v1;
                   as_ptr c mod 64; (if as_ptr c =? as_ptr b then 0 else 1); cks_view vc0;
                   cks_view vb3; cks_view vc3;
                   cks_view (as_slice h4 b size); cks_view (as_slice h4 c size);
                   cks (skipn (Z.to_nat (len * size)) (block_bytes h4 (b_ptr b)))]
              | Panic k => [50; panic_code k]
              | Fault => [51]
              end
          | Panic k => [52; panic_code k]
          | Fault => [53]
          end
      | Panic k => [54; panic_code k]
      | Fault => [55]
      end
  end.

(* ---------------------------------------------------------------------------------------------- *)
(* The specification of C16, as a decidable predicate on what the harness observes of the REAL code. *)
(* ---------------------------------------------------------------------------------------------- *)

(* bookkeeping of a returned buffer: reported capacity and length are backed by storage *)
Definition spec_meta_ok (len size observed_len allocated : Z) : bool :=
  (observed_len =? len) && (len <=? allocated) && (allocated * size <=? ISIZE_MAX).
