(* Meaning of the Rust primitives the library is written in (trusted; see DESIGN §2.8).
   Integers are bit patterns z in [0, 2^w); [sgn w z] is the two's-complement reading.  Floats are Flocq
   IEEE-754 values with a single NaN (BinarySingleNaN), rounding to nearest even. *)
From Coq Require Import ZArith Bool List.
From Flocq Require Import IEEE754.BinarySingleNaN Core.Zaux.
From Flocq Require IEEE754.Binary IEEE754.Bits.
From CF Require Import Model.Tables.
Import ListNotations.
Local Open Scope Z_scope.

(** * Integers *)

Definition wrap (w z : Z) : Z := z mod 2 ^ w.
Definition sgn (w z : Z) : Z := if z <? 2 ^ (w - 1) then z else z - 2 ^ w.

Definition width (t : ty) : Z :=
  match t with
  | I8 | U8 => 8 | I16 | U16 => 16 | I32 | U32 | F32 => 32 | I64 | U64 | F64 => 64
  end.

(* value of a bit pattern under the type's signedness *)
Definition ival (sg : bool) (w z : Z) : Z := if sg then sgn w z else z.

Definition i_add (w a b : Z) : Z := wrap w (a + b).          (* wrapping_add *)
Definition i_sub (w a b : Z) : Z := wrap w (a - b).          (* wrapping_sub *)
Definition i_mul (w a b : Z) : Z := wrap w (a * b).          (* wrapping_mul *)
(* wrapping_div: truncating; MIN / -1 wraps to MIN; a zero divisor panics *)
Definition i_div (sg : bool) (w a b : Z) : option Z :=
  if b =? 0 then None
  else Some (if sg then wrap w (Z.quot (sgn w a) (sgn w b)) else a / b).
Definition i_max (sg : bool) (w a b : Z) : Z := if ival sg w a <? ival sg w b then b else a.   (* Ord::max *)
Definition i_min (sg : bool) (w a b : Z) : Z := if ival sg w b <? ival sg w a then b else a.   (* Ord::min *)
Definition i_eq (a b : Z) : bool := a =? b.
Definition i_MAX (sg : bool) (w : Z) : Z := if sg then 2 ^ (w - 1) - 1 else 2 ^ w - 1.
Definition i_MIN (sg : bool) (w : Z) : Z := if sg then 2 ^ (w - 1) else 0.
(* a.abs() in a release build (MIN.abs() wraps to MIN); unsigned: identity *)
Definition i_abs (sg : bool) (w a : Z) : Z := if sg then wrap w (Z.abs (sgn w a)) else a.

(** * Floats *)

Definition f32 := BinarySingleNaN.binary_float 24 128.
Definition f64 := BinarySingleNaN.binary_float 53 1024.

#[global] Instance prec32 : FLX.Prec_gt_0 24 := eq_refl.
#[global] Instance emax32 : Prec_lt_emax 24 128 := eq_refl.
#[global] Instance prec64 : FLX.Prec_gt_0 53 := eq_refl.
#[global] Instance emax64 : Prec_lt_emax 53 1024 := eq_refl.

Section Float.
  Variables prec emax : Z.
  Context (Hp : FLX.Prec_gt_0 prec) (He : Prec_lt_emax prec emax).
  Notation bf := (BinarySingleNaN.binary_float prec emax).

  Definition f_add (a b : bf) : bf := BinarySingleNaN.Bplus mode_NE a b.
  Definition f_sub (a b : bf) : bf := BinarySingleNaN.Bminus mode_NE a b.
  Definition f_mul (a b : bf) : bf := BinarySingleNaN.Bmult mode_NE a b.
  Definition f_div (a b : bf) : bf := BinarySingleNaN.Bdiv mode_NE a b.
  Definition f_fma (a b c : bf) : bf := BinarySingleNaN.Bfma mode_NE a b c.       (* a * b + c, one rounding *)
  Definition f_sqrt (a : bf) : bf := BinarySingleNaN.Bsqrt mode_NE a.
  Definition f_abs (a : bf) : bf := BinarySingleNaN.Babs a.
  Definition f_eq (a b : bf) : bool := BinarySingleNaN.Beqb a b.                    (* ==: +0 = -0, NaN <> NaN *)
  Definition f_lt (a b : bf) : bool := BinarySingleNaN.Bltb a b.
  Definition f_is_nan (a : bf) : bool := BinarySingleNaN.is_nan a.
  Definition f_zero : bf := B754_zero false.
  Definition f_one : bf := BinarySingleNaN.Bone.
  Definition f_inf (s : bool) : bf := B754_infinity s.

  (* The float min/max of the math layer.  Until /repo bf17999 the source said f32::max / f64::max (IEEE maxNum), whose
     result on equal operands (+0 / -0) is unspecified - the model's "return the first" was a CHOICE, and the compiled
     code really differed between instantiations (C12 finding, DESIGN 8.9).  The source now selects explicitly
     (`if a.is_nan() || b > a { b } else { a }`); tools/translate_more.py renders that term and
     Proofs/MathProofs.f_max_select / f_min_select prove it equal to these definitions, so "the first on equal
     operands, a NaN operand is ignored" is what the source says. *)
  Definition f_max (a b : bf) : bf :=
    if f_is_nan a then b else if f_is_nan b then a else if f_lt a b then b else a.
  Definition f_min (a b : bf) : bf :=
    if f_is_nan a then b else if f_is_nan b then a else if f_lt b a then b else a.

  (* x86 MAXPS/MAXPD lane: a > b ? a : b — the SECOND operand on NaN or equal (signed zeros) *)
  Definition x86_max (a b : bf) : bf := if f_lt b a then a else b.
  Definition x86_min (a b : bf) : bf := if f_lt a b then a else b.

  (* integer -> float (`as`): round to nearest even *)
  Definition f_of_Z (z : Z) : bf := BinarySingleNaN.binary_normalize prec emax Hp He mode_NE z 0 false.
  (* float -> integer (`as`): saturating truncation, NaN -> 0 *)
  Definition f_to_Z (lo hi : Z) (x : bf) : Z :=
    match x with
    | B754_nan => 0
    | B754_infinity s => if s then lo else hi
    | _ => let t := BinarySingleNaN.Btrunc x in if t <? lo then lo else if hi <? t then hi else t
    end.
End Float.

Arguments f_add {prec emax Hp He}. Arguments f_sub {prec emax Hp He}. Arguments f_mul {prec emax Hp He}.
Arguments f_div {prec emax Hp He}. Arguments f_fma {prec emax Hp He}. Arguments f_sqrt {prec emax Hp He}.
Arguments f_abs {prec emax}. Arguments f_eq {prec emax}. Arguments f_lt {prec emax}.
Arguments f_is_nan {prec emax}. Arguments f_zero {prec emax}. Arguments f_one {prec emax Hp He}.
Arguments f_inf {prec emax}. Arguments f_max {prec emax}. Arguments f_min {prec emax}.
Arguments x86_max {prec emax}. Arguments x86_min {prec emax}.
Arguments f_of_Z {prec emax Hp He}. Arguments f_to_Z {prec emax}.

(* bit patterns <-> floats (Flocq's Bits, through the payload-carrying representation) *)
Definition f32_of_bits (z : Z) : f32 := Binary.B2BSN 24 128 (Bits.b32_of_bits z).
Definition f64_of_bits (z : Z) : f64 := Binary.B2BSN 53 1024 (Bits.b64_of_bits z).
(* None = NaN (every NaN is one token) *)
Definition bits_of_f32 (x : f32) : option Z :=
  if BinarySingleNaN.is_nan x then None
  else Some (Bits.bits_of_b32 (Binary.BSN2B 24 128 Bits.default_nan_pl32 x)).
Definition bits_of_f64 (x : f64) : option Z :=
  if BinarySingleNaN.is_nan x then None
  else Some (Bits.bits_of_b64 (Binary.BSN2B 53 1024 Bits.default_nan_pl64 x)).

(* integer square root as the library computes it: `(a as f64).sqrt() as T` *)
Definition i_sqrt (sg : bool) (w a : Z) : Z :=
  let lo := if sg then - 2 ^ (w - 1) else 0 in
  let hi := if sg then 2 ^ (w - 1) - 1 else 2 ^ w - 1 in
  wrap w (f_to_Z lo hi (f_sqrt (f_of_Z (ival sg w a) : f64))).
