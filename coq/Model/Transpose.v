(* C15 — executable model of cfavml-gemm/src/transpose/{mod.rs, impl_avx2.rs}.  Definitions only
   (proofs: Proofs/TransposeProofs.v).  Stdlib only.

   Conventions
   * sizes, loop counters and element indices are [Z] (they are `usize` in the Rust: 0 <= x < 2^64);
     list positions are reached through [zget]/[splice] which convert with [Z.to_nat] only after the
     bounds test, so a run on w = 2^63 never builds a large [nat];
   * `usize` arithmetic: every index expression handed to memory is wrapped once with [wrap64].  Wrapping
     the whole expression equals wrapping after every `+`/`*` (ring homomorphism), so one wrap per
     expression is exact for the release profile.  In the debug profile an overflowing `+`/`*` panics
     instead; the only overflow reachable before the shape check is the shape product itself, modelled in
     [shape_product]; after a passed check in the debug profile w*h < 2^64 and every index expression is
     below w*h (Proofs/TransposeProofs.v discharges every wrap of a well-shaped run with [wrap64_id]), so
     the wraps are the identity there;
   * loops run on fuel [fuel_of data] = len data + 1: enough for every call that passes a non-wrapping
     shape check with width, height >= 1 (each loop runs at most max(width, height) <= width*height
     times).  [OutOfFuel] therefore only arises (i) for a wrapped product whose block loops would spin
     ~2^59 times over an empty inner loop, (ii) for the AVX2 entry points called directly with one zero
     dimension (transpose_matrix returns before); the correspondence treats both as "model undecided";
   * element values are POLYMORPHIC ([T : Type]): the code only moves elements (Copy), never inspects them;
   * the model is parametric in a configuration [tcfg] read from the source by checks/c15.py: the form of
     the two shape checks (plain `width * height` or `checked_mul(..).expect(..)`), and the two shuffle
     networks (instruction, immediate and operand registers of every line of transpose_register_matrix). *)
From Coq Require Import List ZArith Bool.
Import ListNotations.
Open Scope Z_scope.

(* ------------------------------------------------------------------------------------------------ *)
(* outcomes                                                                                         *)
(* ------------------------------------------------------------------------------------------------ *)

Inductive outcome (A : Type) :=
| Ok (a : A)
| PanicAssert        (* one of the two assert_eq! of the shape check failed *)
| PanicOverflow      (* debug profile: `width * height` overflowed; or checked_mul(..).expect(..) *)
| Fault              (* an access outside the slice it targets (undefined behaviour in the Rust) *)
| OutOfFuel.
Arguments Ok {A}. Arguments PanicAssert {A}. Arguments PanicOverflow {A}. Arguments Fault {A}.
Arguments OutOfFuel {A}.

Definition bind {A B} (x : outcome A) (f : A -> outcome B) : outcome B :=
  match x with
  | Ok a => f a
  | PanicAssert => PanicAssert
  | PanicOverflow => PanicOverflow
  | Fault => Fault
  | OutOfFuel => OutOfFuel
  end.

Definition is_panic {A} (o : outcome A) : bool :=
  match o with PanicAssert | PanicOverflow => true | _ => false end.

Definition two64 : Z := 2 ^ 64.
Definition wrap64 (x : Z) : Z := x mod two64.

(* ------------------------------------------------------------------------------------------------ *)
(* memory: the read-only `data` slice, the `result` slice, and the log of accesses                  *)
(* ------------------------------------------------------------------------------------------------ *)

(* one access: [ev_wr] = true for a store into `result`, false for a load from `data`;
   it touches the cells [ev_idx, ev_idx + ev_len). *)
Record event := { ev_wr : bool; ev_idx : Z; ev_len : Z }.

Record st (T : Type) := { res : list T; log : list event }.
Arguments res {T}. Arguments log {T}.

Definition zlen {T} (l : list T) : Z := Z.of_nat (length l).

Definition zget {T} (l : list T) (k : Z) : option T :=
  if k <? 0 then None else nth_error l (Z.to_nat k).

Definition splice {T} (l : list T) (k : nat) (v : list T) : list T :=
  firstn k l ++ v ++ skipn (k + length v) l.

(* load of [n] consecutive elements of `data` starting at element index [k]
   (`_mm256_loadu_ps/pd(ptr.add(k))` for n = 8 / 4) *)
Definition rdv {T} (data : list T) (n : nat) (k : Z) (s : st T) : outcome (list T * st T) :=
  if (0 <=? k) && (k + Z.of_nat n <=? zlen data)
  then Ok (firstn n (skipn (Z.to_nat k) data),
           {| res := res s; log := {| ev_wr := false; ev_idx := k; ev_len := Z.of_nat n |} :: log s |})
  else Fault.

(* store of the lanes [v] to `result` starting at element index [k] (`_mm256_storeu_ps/pd`) *)
Definition wrv {T} (k : Z) (v : list T) (s : st T) : outcome (st T) :=
  if (0 <=? k) && (k + zlen v <=? zlen (res s))
  then Ok {| res := splice (res s) (Z.to_nat k) v;
             log := {| ev_wr := true; ev_idx := k; ev_len := zlen v |} :: log s |}
  else Fault.

(* `*data.get_unchecked(k)` *)
Definition rd1 {T} (data : list T) (k : Z) (s : st T) : outcome (T * st T) :=
  match zget data k with
  | Some v => Ok (v, {| res := res s; log := {| ev_wr := false; ev_idx := k; ev_len := 1 |} :: log s |})
  | None => Fault
  end.

(* `*result.get_unchecked_mut(k) = v` *)
Definition wr1 {T} (k : Z) (v : T) (s : st T) : outcome (st T) := wrv k [v] s.

(* `while i < bound { body(i); i += step }` on explicit fuel; returns the final value of the counter
   (the column-tail loop of generic_transpose continues from the block loop's `j`). *)
Fixpoint while_lt {S} (fuel : nat) (i bound step : Z) (body : Z -> S -> outcome S) (s : S)
  : outcome (Z * S) :=
  if i <? bound then
    match fuel with
    | O => OutOfFuel
    | Datatypes.S f => bind (body i s) (fun s' => while_lt f (i + step) bound step body s')
    end
  else Ok (i, s).

(* ------------------------------------------------------------------------------------------------ *)
(* the AVX intrinsics used by impl_avx2.rs, as functions on lists of lanes (lane 0 first)           *)
(* ------------------------------------------------------------------------------------------------ *)

Section Lanes.
  Context {T : Type}.
  Definition reg := list T.

  (* the one-lane list [l_i] (empty when out of range: no default element is needed) *)
  Definition lane (l : reg) (i : nat) : reg := firstn 1 (skipn i l).
  Definition bits2 (imm : Z) (sh : Z) : nat := Z.to_nat (Z.land (Z.shiftr imm sh) 3).

  (* _mm256_unpacklo_ps: per 128-bit half  a0 b0 a1 b1 *)
  Definition unpacklo_ps (a b : reg) : reg :=
    lane a 0 ++ lane b 0 ++ lane a 1 ++ lane b 1 ++ lane a 4 ++ lane b 4 ++ lane a 5 ++ lane b 5.
  (* _mm256_unpackhi_ps: per 128-bit half  a2 b2 a3 b3 *)
  Definition unpackhi_ps (a b : reg) : reg :=
    lane a 2 ++ lane b 2 ++ lane a 3 ++ lane b 3 ++ lane a 6 ++ lane b 6 ++ lane a 7 ++ lane b 7.
  (* _mm256_shuffle_ps::<imm>: per 128-bit half  a[imm1:0] a[imm3:2] b[imm5:4] b[imm7:6] *)
  Definition shuffle_ps (imm : Z) (a b : reg) : reg :=
    let half base := lane a (base + bits2 imm 0) ++ lane a (base + bits2 imm 2)
                     ++ lane b (base + bits2 imm 4) ++ lane b (base + bits2 imm 6) in
    half 0%nat ++ half 4%nat.
  (* _mm256_unpacklo_pd: per 128-bit half  a0 b0 ;  _mm256_unpackhi_pd: a1 b1 *)
  Definition unpacklo_pd (a b : reg) : reg := lane a 0 ++ lane b 0 ++ lane a 2 ++ lane b 2.
  Definition unpackhi_pd (a b : reg) : reg := lane a 1 ++ lane b 1 ++ lane a 3 ++ lane b 3.
  (* _mm256_permute2f128_ps/pd::<imm> with [hl] lanes per 128-bit half (4 for ps, 2 for pd):
     low half selected by imm[3:0], high half by imm[7:4]; selector 0/1 = a.lo/a.hi, 2/3 = b.lo/b.hi;
     selector bit 3 zeroes the half — there is no zero of an abstract element type: modelled as the
     EMPTY half, which makes every theorem about a network using it fail (none does). *)
  Definition sel128 (hl : nat) (c : Z) (a b : reg) : reg :=
    if Z.testbit c 3 then []
    else match Z.to_nat (Z.land c 3) with
         | 0%nat => firstn hl a
         | 1%nat => firstn hl (skipn hl a)
         | 2%nat => firstn hl b
         | _ => firstn hl (skipn hl b)
         end.
  Definition permute2f128 (hl : nat) (imm : Z) (a b : reg) : reg :=
    sel128 hl (Z.land imm 15) a b ++ sel128 hl (Z.land (Z.shiftr imm 4) 15) a b.
End Lanes.

(* One line of transpose_register_matrix: `field: intrinsic::<imm>(src.x, src.y)`. *)
Inductive op :=
| UnpackLoPs | UnpackHiPs | ShufflePs (imm : Z) | Permute2f128Ps (imm : Z)
| UnpackLoPd | UnpackHiPd | Permute2f128Pd (imm : Z).

Definition apply_op {T} (o : op) (a b : list T) : list T :=
  match o with
  | UnpackLoPs => unpacklo_ps a b
  | UnpackHiPs => unpackhi_ps a b
  | ShufflePs imm => shuffle_ps imm a b
  | Permute2f128Ps imm => permute2f128 4 imm a b
  | UnpackLoPd => unpacklo_pd a b
  | UnpackHiPd => unpackhi_pd a b
  | Permute2f128Pd imm => permute2f128 2 imm a b
  end.

(* (operation, first operand, second operand): operands are field positions (a = 0, b = 1, ...) of the
   struct built by the previous stage (`matrix`, `temp`, `half_transposed`). *)
Definition instr : Type := op * nat * nat.
Definition stage := list instr.
Definition network := list stage.

Definition run_stage {T} (sg : stage) (m : list (list T)) : list (list T) :=
  map (fun '(o, x, y) => apply_op o (nth x m []) (nth y m [])) sg.
Definition run_network {T} (net : network) (m : list (list T)) : list (list T) :=
  fold_left (fun m sg => run_stage sg m) net m.

(* `_MM_SHUFFLE(z, y, x, w)` of impl_avx2.rs *)
Definition mm_shuffle (z y x w : Z) : Z :=
  Z.lor (Z.lor (Z.lor (Z.shiftl z 6) (Z.shiftl y 4)) (Z.shiftl x 2)) w.

(* impl TransposeMatrix<f32> for Avx2 :: transpose_register_matrix, line by line *)
Definition net_f32 : network :=
  [ (* temp *)
    [ (UnpackLoPs, 0, 1); (UnpackLoPs, 2, 3); (UnpackLoPs, 4, 5); (UnpackLoPs, 6, 7);
      (UnpackHiPs, 0, 1); (UnpackHiPs, 2, 3); (UnpackHiPs, 4, 5); (UnpackHiPs, 6, 7) ];
    (* half_transposed *)
    [ (ShufflePs 0x44, 0, 1); (ShufflePs 0xEE, 0, 1); (ShufflePs 0x44, 2, 3); (ShufflePs 0xEE, 2, 3);
      (ShufflePs 0x44, 4, 5); (ShufflePs 0xEE, 4, 5); (ShufflePs 0x44, 6, 7); (ShufflePs 0xEE, 6, 7) ];
    (* result *)
    [ (Permute2f128Ps 0x20, 0, 2); (Permute2f128Ps 0x20, 1, 3);
      (Permute2f128Ps 0x20, 4, 6); (Permute2f128Ps 0x20, 5, 7);
      (Permute2f128Ps 0x31, 0, 2); (Permute2f128Ps 0x31, 1, 3);
      (Permute2f128Ps 0x31, 4, 6); (Permute2f128Ps 0x31, 5, 7) ] ]%nat.

(* impl TransposeMatrix<f64> for Avx2 :: transpose_register_matrix, line by line *)
Definition net_f64 : network :=
  [ (* temp *)
    [ (UnpackLoPd, 0, 1); (UnpackLoPd, 2, 3); (UnpackHiPd, 0, 1); (UnpackHiPd, 2, 3) ];
    (* result *)
    [ (Permute2f128Pd (mm_shuffle 0 0 0 2), 1, 0); (Permute2f128Pd (mm_shuffle 0 0 0 2), 3, 2);
      (Permute2f128Pd (mm_shuffle 0 3 0 1), 0, 1); (Permute2f128Pd (mm_shuffle 0 3 0 1), 2, 3) ] ]%nat.

(* The mathematical transpose of an n x n block given as a list of rows (default-free). *)
Definition mtranspose {T} (n : nat) (m : list (list T)) : list (list T) :=
  map (fun c => flat_map (fun row => lane row c) m) (seq 0 n).

(* ------------------------------------------------------------------------------------------------ *)
(* configuration read from the source                                                               *)
(* ------------------------------------------------------------------------------------------------ *)

(* `assert_eq!(data.len(), width * height, ..)`                                  -> MulPlain
   `assert_eq!(data.len(), width.checked_mul(height).expect(..), ..)`            -> MulChecked *)
Inductive mulform := MulPlain | MulChecked.

Record tcfg := { chk_outer : mulform;      (* transpose_matrix *)
                 chk_inner : mulform;      (* generic_transpose *)
                 net32 : network; net64 : network }.

Definition std_cfg (o i : mulform) : tcfg :=
  {| chk_outer := o; chk_inner := i; net32 := net_f32; net64 := net_f64 |}.

(* ------------------------------------------------------------------------------------------------ *)
(* the shape check                                                                                  *)
(* ------------------------------------------------------------------------------------------------ *)

(* the value of the product expression, or the panic it raises *)
Definition shape_product (f : mulform) (debug : bool) (w h : Z) : outcome Z :=
  match f with
  | MulChecked => if w * h <? two64 then Ok (w * h) else PanicOverflow
  | MulPlain =>
      if debug then (if w * h <? two64 then Ok (w * h) else PanicOverflow)   (* overflow check *)
      else Ok ((w * h) mod two64)                                             (* release: wraps *)
  end.

(* assert_eq!(data.len(), <product>); assert_eq!(data.len(), result.len()) *)
Definition shape_asserts (f : mulform) (debug : bool) (w h ld lr : Z) : outcome unit :=
  bind (shape_product f debug w h) (fun p =>
    if ld =? p then (if ld =? lr then Ok tt else PanicAssert) else PanicAssert).

(* ------------------------------------------------------------------------------------------------ *)
(* generic_transpose                                                                                *)
(* ------------------------------------------------------------------------------------------------ *)

Section Run.
  Context {T : Type}.
  Variable data : list T.
  Variables width height : Z.
  Variable fuel : nat.

  (* The scalar double loop that occurs three times in the source (fallback of transpose_matrix, row
     tail and column tail of generic_transpose):
       while j < j1 { let mut i = i0; while i < i1 { result[i*height + j] = data[j*width + i]; i += 1 } j += 1 }
     returns the final j. *)
  Definition scalar_cell (j i : Z) (s : st T) : outcome (st T) :=
    bind (rd1 data (wrap64 (j * width + i)) s) (fun '(v, s1) =>
      wr1 (wrap64 (i * height + j)) v s1).
  Definition scalar_loops (j0 j1 i0 i1 : Z) (s : st T) : outcome (Z * st T) :=
    while_lt fuel j0 j1 1 (fun j s =>
      bind (while_lt fuel i0 i1 1 (scalar_cell j) s) (fun '(_, s') => Ok s')) s.

  Variable L : nat.              (* R::elements_per_lane(): 8 (f32) or 4 (f64) *)
  Variable net : network.        (* R::transpose_register_matrix *)

  (* load_matrix: rows r = 0 .. L-1 at data_ptr.add(offset + width * r) *)
  Fixpoint load_rows (rs : list nat) (offset : Z) (s : st T) : outcome (list (list T) * st T) :=
    match rs with
    | [] => Ok ([], s)
    | r :: rs' =>
        bind (rdv data L (wrap64 (offset + width * Z.of_nat r)) s) (fun '(row, s1) =>
        bind (load_rows rs' offset s1) (fun '(rows, s2) => Ok (row :: rows, s2)))
    end.
  Definition load_matrix (offset : Z) (s : st T) := load_rows (seq 0 L) offset s.

  (* write_matrix: row r of the register matrix to result_ptr.add(offset + r * height) *)
  Fixpoint write_rows (r : nat) (rows : list (list T)) (offset : Z) (s : st T) : outcome (st T) :=
    match rows with
    | [] => Ok s
    | row :: rows' =>
        bind (wrv (wrap64 (offset + Z.of_nat r * height)) row s) (fun s1 =>
        write_rows (S r) rows' offset s1)
    end.
  Definition write_matrix (offset : Z) (m : list (list T)) (s : st T) := write_rows 0 m offset s.

  (* one L x L sub-block: load at [src], transpose in registers, store at [dst] *)
  Definition sub_block (src dst : Z) (s : st T) : outcome (st T) :=
    bind (load_matrix src s) (fun '(m, s1) => write_matrix dst (run_network net m) s1).

  (* the body of the block loops: a 2L x 2L block as four L x L register transposes *)
  Definition block4 (stp : Z) (j i : Z) (s : st T) : outcome (st T) :=
    (* top-left *)
    bind (sub_block (i + j * width) (j + i * height) s) (fun s =>
    (* bottom-left *)
    bind (sub_block (i + (j + stp) * width) ((j + stp) + i * height) s) (fun s =>
    (* top-right *)
    bind (sub_block ((i + stp) + j * width) (j + (i + stp) * height) s) (fun s =>
    (* bottom-right *)
    sub_block ((i + stp) + (j + stp) * width) ((j + stp) + (i + stp) * height) s))).

  Definition block_loops (bs stp hr wr : Z) (s : st T) : outcome (Z * st T) :=
    while_lt fuel 0 (height - hr) bs (fun j s =>
      bind (while_lt fuel 0 (width - wr) bs (block4 stp j) s) (fun '(_, s') => Ok s')) s.

  Definition generic_transpose (cfg : tcfg) (debug : bool) (result : list T) : outcome (st T) :=
    bind (shape_asserts (chk_inner cfg) debug width height (zlen data) (zlen result)) (fun _ =>
    let bs := Z.of_nat L * 2 in                 (* sub_matrix_block_size *)
    let stp := Z.of_nat L in                    (* matrix_offset_step *)
    let wr := width mod bs in                   (* width_remainder *)
    let hr := height mod bs in                  (* height_remainder *)
    let s0 := {| res := result; log := [] |} in
    (* block loops *)
    bind (block_loops bs stp hr wr s0) (fun '(j, s1) =>
    (* tail of each row *)
    bind (scalar_loops 0 (height - hr) (width - wr) width s1) (fun '(_, s2) =>
    (* tail of each column, continuing from the block loop's j *)
    bind (scalar_loops j height 0 width s2) (fun '(_, s3) => Ok s3)))).
End Run.

(* ------------------------------------------------------------------------------------------------ *)
(* transpose_matrix                                                                                 *)
(* ------------------------------------------------------------------------------------------------ *)

(* TypeId dispatch: f32|u32 -> K32, f64|u64 -> K64, every other type (of any size) -> KOther *)
Inductive kind := K32 | K64 | KOther.

Definition fuel_of {T} (data : list T) : nat := S (length data).

Definition naive_transpose {T} (width height : Z) (data result : list T) : outcome (st T) :=
  bind (scalar_loops data width height (fuel_of data) 0 height 0 width {| res := result; log := [] |})
       (fun '(_, s) => Ok s).

Definition transpose_matrix {T} (cfg : tcfg) (debug : bool) (k : kind) (avx2 : bool)
           (width height : Z) (data result : list T) : outcome (st T) :=
  bind (shape_asserts (chk_outer cfg) debug width height (zlen data) (zlen result)) (fun _ =>
  if (width =? 0) || (height =? 0) then Ok {| res := result; log := [] |}
  else if (width =? 1) || (height =? 1) then
    (* result.copy_from_slice(data): the lengths are equal here (second assert) *)
    Ok {| res := data;
          log := [ {| ev_wr := true; ev_idx := 0; ev_len := zlen data |};
                   {| ev_wr := false; ev_idx := 0; ev_len := zlen data |} ] |}
  else
    match k, avx2 with
    | K32, true => generic_transpose data width height (fuel_of data) 8 (net32 cfg) cfg debug result
    | K64, true => generic_transpose data width height (fuel_of data) 4 (net64 cfg) cfg debug result
    | _, _ => naive_transpose width height data result
    end).

(* the two public AVX2 entry points (`pub unsafe fn`): generic_transpose::<f32|f64, Avx2> directly *)
Definition f32_xany_avx2_nofma_transpose {T} (cfg : tcfg) (debug : bool) (width height : Z)
           (data result : list T) : outcome (st T) :=
  generic_transpose data width height (fuel_of data) 8 (net32 cfg) cfg debug result.
Definition f64_xany_avx2_nofma_transpose {T} (cfg : tcfg) (debug : bool) (width height : Z)
           (data result : list T) : outcome (st T) :=
  generic_transpose data width height (fuel_of data) 4 (net64 cfg) cfg debug result.
