(* Record form of `trait SimdRegister<T>` and `trait Math<T>` and the trait's default methods,
   mirroring cfavml/src/danger/core_simd_api.rs line by line.  A register is its list of lanes; a DenseLane
   is the list of its eight registers [a;b;c;d;e;f;g;h]. *)
From Coq Require Import List Arith Bool.
From CF Require Import Base.Mem.
Import ListNotations.

Definition vreg (T : Type) := list T.
Definition dense (T : Type) := list (vreg T).

Record MathOps (T : Type) := {
  m_zero : T; m_one : T; m_max : T; m_min : T;
  m_sqrt : T -> T; m_abs : T -> T;
  m_cmp_eq : T -> T -> bool; m_cmp_min : T -> T -> T; m_cmp_max : T -> T -> T;
  m_add : T -> T -> T; m_sub : T -> T -> T; m_mul : T -> T -> T;
  m_div : T -> T -> option T          (* None: integer division by zero panics *)
}.
Arguments m_zero {T}. Arguments m_one {T}. Arguments m_max {T}. Arguments m_min {T}.
Arguments m_sqrt {T}. Arguments m_abs {T}. Arguments m_cmp_eq {T}. Arguments m_cmp_min {T}.
Arguments m_cmp_max {T}. Arguments m_add {T}. Arguments m_sub {T}. Arguments m_mul {T}. Arguments m_div {T}.

Record SimdOps (T : Type) := {
  lanes : nat;                                   (* elements_per_lane() *)
  r_filled : T -> vreg T;
  r_zeroed : vreg T;
  r_add : vreg T -> vreg T -> vreg T;
  r_sub : vreg T -> vreg T -> vreg T;
  r_mul : vreg T -> vreg T -> vreg T;
  r_div : vreg T -> vreg T -> option (vreg T);     (* None: a zero divisor lane panics *)
  r_fmadd : vreg T -> vreg T -> vreg T -> vreg T;
  r_max : vreg T -> vreg T -> vreg T;
  r_min : vreg T -> vreg T -> vreg T;
  r_sum_to_value : vreg T -> T;
  r_max_to_value : vreg T -> T;
  r_min_to_value : vreg T -> T;
  (* the dense methods a back end may override *)
  r_add_dense : dense T -> dense T -> dense T;
  r_sub_dense : dense T -> dense T -> dense T;
  r_mul_dense : dense T -> dense T -> dense T;
  r_div_dense : dense T -> dense T -> option (dense T);
  r_fmadd_dense : dense T -> dense T -> dense T -> dense T;
  r_max_dense : dense T -> dense T -> dense T;
  r_min_dense : dense T -> dense T -> dense T
}.
Arguments lanes {T}. Arguments r_filled {T}. Arguments r_zeroed {T}. Arguments r_add {T}.
Arguments r_sub {T}. Arguments r_mul {T}. Arguments r_div {T}. Arguments r_fmadd {T}.
Arguments r_max {T}. Arguments r_min {T}. Arguments r_sum_to_value {T}. Arguments r_max_to_value {T}.
Arguments r_min_to_value {T}. Arguments r_add_dense {T}. Arguments r_sub_dense {T}.
Arguments r_mul_dense {T}. Arguments r_div_dense {T}. Arguments r_fmadd_dense {T}.
Arguments r_max_dense {T}. Arguments r_min_dense {T}.

Section Defaults.
  Context {T : Type}.

  Fixpoint map2 {A B C} (f : A -> B -> C) (x : list A) (y : list B) : list C :=
    match x, y with
    | a :: x', b :: y' => f a b :: map2 f x' y'
    | _, _ => []
    end.
  Fixpoint map3 {A B C D} (f : A -> B -> C -> D) (x : list A) (y : list B) (z : list C) : list D :=
    match x, y, z with
    | a :: x', b :: y', c :: z' => f a b c :: map3 f x' y' z'
    | _, _, _ => []
    end.

  (* apply_dense!($op, l1, l2): a..h in order. *)
  Definition apply_dense2 (op : vreg T -> vreg T -> vreg T) (l1 l2 : dense T) : dense T := map2 op l1 l2.
  Definition apply_dense3 (op : vreg T -> vreg T -> vreg T -> vreg T) (l1 l2 l3 : dense T) : dense T :=
    map3 op l1 l2 l3.
  (* the fallible variant (integer division): registers a..h in order, the first zero divisor panics *)
  Fixpoint apply_dense2_opt (op : vreg T -> vreg T -> option (vreg T)) (l1 l2 : dense T) : option (dense T) :=
    match l1, l2 with
    | a :: l1', b :: l2' =>
        match op a b with
        | None => None
        | Some c => match apply_dense2_opt op l1' l2' with None => None | Some r => Some (c :: r) end
        end
    | _, _ => Some []
    end.

  Definition NUM_LANES := 8.
  Definition dense_copy (r : vreg T) : dense T := repeat r NUM_LANES.

  (* fn elements_per_dense() *)
  Definition elements_per_dense (R : SimdOps T) : nat := lanes R * NUM_LANES.

  (* fn load_dense(mem): a: load(mem + L*0) ... h: load(mem + L*7) *)
  Definition load_dense (R : SimdOps T) (s : slice) (i : nat) : M T (dense T) :=
    a <- load s (i + lanes R * 0) (lanes R) ;;
    b <- load s (i + lanes R * 1) (lanes R) ;;
    c <- load s (i + lanes R * 2) (lanes R) ;;
    d <- load s (i + lanes R * 3) (lanes R) ;;
    e <- load s (i + lanes R * 4) (lanes R) ;;
    f <- load s (i + lanes R * 5) (lanes R) ;;
    g <- load s (i + lanes R * 6) (lanes R) ;;
    h <- load s (i + lanes R * 7) (lanes R) ;;
    ret [a; b; c; d; e; f; g; h].

  Definition filled_dense (R : SimdOps T) (v : T) : dense T := dense_copy (r_filled R v).
  Definition zeroed_dense (R : SimdOps T) : dense T := dense_copy (r_zeroed R).

  Definition nth_reg (l : dense T) (k : nat) : vreg T := nth k l [].

  (* fn sum_to_register(lane): ((a+b)+(c+d)) + ((e+f)+(g+h)) *)
  Definition rollup (op : vreg T -> vreg T -> vreg T) (l : dense T) : vreg T :=
    let acc1 := op (nth_reg l 0) (nth_reg l 1) in
    let acc2 := op (nth_reg l 2) (nth_reg l 3) in
    let acc3 := op (nth_reg l 4) (nth_reg l 5) in
    let acc4 := op (nth_reg l 6) (nth_reg l 7) in
    let acc1 := op acc1 acc2 in
    let acc3 := op acc3 acc4 in
    op acc1 acc3.
  Definition sum_to_register (R : SimdOps T) := rollup (r_add R).
  Definition max_to_register (R : SimdOps T) := rollup (r_max R).
  Definition min_to_register (R : SimdOps T) := rollup (r_min R).

  (* fn write_dense(mem, lane) *)
  Definition write_dense (R : SimdOps T) (i : nat) (l : dense T) : M T unit :=
    _ <- store (i + lanes R * 0) (nth_reg l 0) ;;
    _ <- store (i + lanes R * 1) (nth_reg l 1) ;;
    _ <- store (i + lanes R * 2) (nth_reg l 2) ;;
    _ <- store (i + lanes R * 3) (nth_reg l 3) ;;
    _ <- store (i + lanes R * 4) (nth_reg l 4) ;;
    _ <- store (i + lanes R * 5) (nth_reg l 5) ;;
    _ <- store (i + lanes R * 6) (nth_reg l 6) ;;
    store (i + lanes R * 7) (nth_reg l 7).

  (* A back end that overrides nothing gets the trait's defaults. *)
  Definition with_default_dense
             (L : nat) (filled : T -> vreg T) (zeroed : vreg T)
             (add sub mul : vreg T -> vreg T -> vreg T) (div : vreg T -> vreg T -> option (vreg T))
             (fmadd : vreg T -> vreg T -> vreg T -> vreg T) (max min : vreg T -> vreg T -> vreg T)
             (sumv maxv minv : vreg T -> T) : SimdOps T :=
    {| lanes := L; r_filled := filled; r_zeroed := zeroed; r_add := add; r_sub := sub; r_mul := mul;
       r_div := div; r_fmadd := fmadd; r_max := max; r_min := min;
       r_sum_to_value := sumv; r_max_to_value := maxv; r_min_to_value := minv;
       r_add_dense := apply_dense2 add; r_sub_dense := apply_dense2 sub; r_mul_dense := apply_dense2 mul;
       r_div_dense := apply_dense2_opt div; r_fmadd_dense := apply_dense3 fmadd;
       r_max_dense := apply_dense2 max; r_min_dense := apply_dense2 min |}.
End Defaults.
