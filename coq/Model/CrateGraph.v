(* CrateGraph.v — C14: the crate as a graph of cfg-guarded items and what each item mentions.

   The graph itself ([crate_graph] in Gen/GenCrate.v) is regenerated from /repo/cfavml (Cargo.toml, lib.rs and
   every file reachable through `mod` declarations) by tools/translate_crate.py on every run.  This file gives
   it a meaning: which modules / items / mentions are compiled in a build configuration ([eval_cfg] and
   [buildcfg] of TableSem.v: target_arch x feature "nightly" x feature "std" x compile-time target features;
   every bare flag — test, miri, docsrs, cfavml_verif — is off), how a mention is classified (core /
   crate-internal / audited std use / other std / allocating / other crate), and the boolean checkers the
   theorems of Proofs/CrateProofs.v reflect.  Executable definitions only; no proofs here.

   The three vocabulary lists [alloc_idents], [alloc_methods], [std_float_methods] are READ BY THE TRANSLATOR
   from this very file (single source); the graph records what it scanned for and [scan_complete] compares. *)
From Coq Require Import String List Bool NArith.
From CF Require Import Model.Tables Model.TableSem.
Import ListNotations.
Open Scope string_scope.

(** * The generated graph *)

Inductive mkind :=
| MkPath      (* `a::b::c` path or use-tree path; root = a *)
| MkGlobal    (* `::a::b` path (root is necessarily an extern crate) *)
| MkMacro     (* `name!(..)` / `a::b::name!(..)` invocation; text = name, root = a or "" *)
| MkFloatFn   (* `f32::name` / `f64::name` with a lower-case name (inherent function); text = name *)
| MkIdent     (* bare identifier of the watched identifier vocabulary *)
| MkMethod.   (* `.name(` / `.name::<` / `::name(` with name in alloc_methods; `.name(` with name in std_float_methods *)

Record mention := {
  mn_kind : mkind;
  mn_root : string;     (* first path segment; "" for unqualified macros / identifiers / methods *)
  mn_text : string;     (* last segment: macro name, function name, identifier, method; for MkPath = root *)
  mn_path : string;     (* the path as written (kept in full for roots outside the crate) *)
  mn_line : N;          (* line of the first occurrence inside the item *)
  mn_count : N;         (* occurrences inside the item with the same kind/path/cfg *)
  mn_cfg : cfgexp       (* conjunction of the cfg attributes INSIDE the item that enclose the mention *)
}.

Inductive ikind :=
| IFn | IMethod | IMacroDef | IMacroCall | IConst | IStatic | ITypeDef | ITypeAlias | ITrait | IImpl | IUse
| IExternCrate | IForeign.

Record item := {
  it_kind : ikind;
  it_name : string;
  it_mod : N;                 (* index (in cg_modules) of the enclosing module *)
  it_file : string;
  it_line : N;
  it_cfg : cfgexp;            (* cfg attributes on the item itself (and on the enclosing impl/trait) *)
  it_test : bool;             (* translator's claim: test-only (cfg implies `test`, or #[test]); mentions dropped *)
  it_mentions : list mention
}.

Record module_ := {
  md_path : string;           (* "" = crate root, "danger", "danger::impl_avx2", ... *)
  md_parent : N;              (* index (in cg_modules) of the parent; the root has index 0 and is its own parent *)
  md_file : string;
  md_line : N;
  md_cfg : cfgexp;            (* cfg attributes on the `mod` declaration (+ inner #![cfg]) *)
  md_test : bool;             (* translator's claim: test-only; not descended into *)
  md_inline : bool
}.

Record crate_attr := {
  ca_cfg : cfgexp;            (* condition of the enclosing cfg_attr (CTrue when unconditional) *)
  ca_name : string;           (* "no_std", "feature", "allow", "doc", ... *)
  ca_args : list string;
  ca_line : N
}.

Record dep := {
  dp_section : string;        (* "dependencies", "dev-dependencies", "build-dependencies", "target.<..>.dependencies" ... *)
  dp_name : string;           (* as written in Cargo.toml *)
  dp_ident : string;          (* the identifier it is named by in Rust paths (`-` -> `_`, `package =` renames) *)
  dp_dev : bool               (* a dev-dependency section: only linked into tests/benches/examples *)
}.

Record cargo_feature := { cf_name : string; cf_enables : list string }.

Record cgraph := {
  cg_name : string;
  cg_edition : string;
  cg_build_script : bool;     (* package.build set or build.rs present *)
  cg_proc_macro : bool;
  cg_attrs : list crate_attr;
  cg_modules : list module_;
  cg_items : list item;
  cg_deps : list dep;
  cg_features : list cargo_feature;
  cg_scanned_idents : list string;
  cg_scanned_methods : list string
}.

(** * Vocabulary (specification constants) *)

(* Identifiers that name an allocating type / trait / module of `alloc` or `std` (the std prelude puts Box,
   String, ToString, Vec, ToOwned in scope without any path).  Watched wherever they occur as a token. *)
Definition alloc_idents : list string :=
  ["alloc"; "Vec"; "Box"; "String"; "Rc"; "Arc"; "HashMap"; "HashSet"; "BTreeMap"; "BTreeSet"; "VecDeque";
   "BinaryHeap"; "LinkedList"; "Cow"; "ToString"; "ToOwned"; "CString"; "OsString"; "PathBuf"; "GlobalAlloc";
   "Allocator"; "Layout"].

(* Methods that exist only with `alloc` (inherent on slices / str, or of the prelude traits ToOwned /
   ToString), or that produce an owned container.  `collect` is watched unconditionally (collecting into a
   non-owning target would have to be audited by hand). *)
Definition alloc_methods : list string :=
  ["to_vec"; "to_owned"; "to_string"; "into_boxed_slice"; "into_boxed_str"; "into_vec"; "into_string"; "collect";
   "with_capacity"; "concat"; "join"; "from_iter"; "into_owned"; "alloc_zeroed"; "realloc"; "dealloc"].

(* Float methods that exist only in `std` (they call libm); as method calls `.sqrt()` etc. *)
Definition std_float_methods : list string :=
  ["sqrt"; "powi"; "powf"; "exp"; "exp2"; "ln"; "log"; "log2"; "log10"; "cbrt"; "hypot"; "sin"; "cos"; "tan"; "asin";
   "acos"; "atan"; "atan2"; "sin_cos"; "exp_m1"; "ln_1p"; "sinh"; "cosh"; "tanh"; "asinh"; "acosh"; "atanh"; "floor";
   "ceil"; "round"; "round_ties_even"; "trunc"; "fract"; "mul_add"].

(* `f32::name` / `f64::name` functions that live in `core` (MSRV 1.75). *)
Definition core_float_fns : list string :=
  ["from_bits"; "to_bits"; "min"; "max"; "is_nan"; "is_infinite"; "is_finite"; "is_normal"; "is_subnormal";
   "is_sign_positive"; "is_sign_negative"; "classify"; "recip"; "to_degrees"; "to_radians"; "clamp"; "total_cmp";
   "from_be_bytes"; "from_le_bytes"; "from_ne_bytes"; "to_be_bytes"; "to_le_bytes"; "to_ne_bytes"; "from"; "default";
   "to_int_unchecked"; "partial_cmp"; "eq"; "ne"; "lt"; "le"; "gt"; "ge"; "add"; "sub"; "mul"; "div"; "rem"; "neg";
   "clone"; "sum"; "product"; "from_str"; "try_from"].

(* The audited std-only inherent float functions: they compile to an instruction or a libm call and do not
   allocate. *)
Definition audited_float_fns : list string := ["sqrt"; "abs"].

(* Macros of `core` (available under #![no_std]). *)
Definition core_macros : list string :=
  ["assert"; "assert_eq"; "assert_ne"; "debug_assert"; "debug_assert_eq"; "debug_assert_ne"; "panic"; "unreachable";
   "unimplemented"; "todo"; "matches"; "cfg"; "concat"; "stringify"; "include_str"; "include_bytes"; "include"; "env";
   "option_env"; "line"; "column"; "file"; "module_path"; "compile_error"; "write"; "writeln"; "format_args"].

(* Macros of `std` that allocate or use std's I/O machinery. *)
Definition alloc_macros : list string :=
  ["vec"; "format"; "println"; "print"; "eprintln"; "eprint"; "dbg"; "thread_local"].

(* The audited std macros: run-time CPU feature detection (atomics + cpuid; no allocation). *)
Definition audited_std_macros : list string :=
  ["is_x86_feature_detected"; "is_aarch64_feature_detected"; "is_arm_feature_detected"].

(* Audited NON-macro `std::` paths: none.  Every use of std in the library goes through the macros above or
   the inherent float functions. *)
Definition audited_std_paths : list string := [].

Definition crate_internal_roots : list string := ["crate"; "self"; "super"; "Self"; "$crate"].
Definition sysroot_crates : list string := ["core"; "std"; "alloc"; "test"; "proc_macro"].

(** * Activity *)

Definition find_module (g : cgraph) (p : N) : option module_ := nth_error (cg_modules g) (N.to_nat p).

(* cfg conditions on the chain of modules from [p] up to the crate root (index 0); None if the chain is broken. *)
Fixpoint module_guards (g : cgraph) (fuel : nat) (p : N) : option (list cfgexp) :=
  match fuel with
  | O => None
  | S f =>
      match find_module g p with
      | None => None
      | Some m =>
          if N.eqb p 0 then Some [md_cfg m]
          else match module_guards g f (md_parent m) with
               | None => None
               | Some l => Some (md_cfg m :: l)
               end
      end
  end.

Definition depth_fuel (g : cgraph) : nat := S (length (cg_modules g)).

Definition item_guards (g : cgraph) (it : item) : list cfgexp :=
  match module_guards g (depth_fuel g) (it_mod it) with
  | Some l => it_cfg it :: l
  | None => [it_cfg it]          (* excluded by [graph_wf] *)
  end.

Definition item_active (g : cgraph) (bc : buildcfg) (it : item) : bool :=
  forallb (eval_cfg bc) (item_guards g it).

Definition mention_active (g : cgraph) (bc : buildcfg) (it : item) (m : mention) : bool :=
  item_active g bc it && eval_cfg bc (mn_cfg m).

Definition attr_active (bc : buildcfg) (a : crate_attr) : bool := eval_cfg bc (ca_cfg a).

Definition has_no_std (g : cgraph) (bc : buildcfg) : bool :=
  existsb (fun a => attr_active bc a && String.eqb (ca_name a) "no_std") (cg_attrs g).

Definition active_feature_gates (g : cgraph) (bc : buildcfg) : list string :=
  flat_map (fun a => if attr_active bc a && String.eqb (ca_name a) "feature" then ca_args a else []) (cg_attrs g).

(** * Test-only items and target-feature-free conditions *)

(* Syntactic: the condition cannot hold unless `test` is set. *)
Fixpoint implies_test (c : cfgexp) : bool :=
  match c with
  | CFlag f => String.eqb f "test"
  | CAll l => (fix any (l : list cfgexp) := match l with [] => false | x :: r => implies_test x || any r end) l
  | CAny l =>
      match l with
      | [] => false
      | _ => (fix all (l : list cfgexp) := match l with [] => true | x :: r => implies_test x && all r end) l
      end
  | _ => false
  end.

Fixpoint cfg_tf_free (c : cfgexp) : bool :=
  match c with
  | CTargetFeature _ => false
  | CAll l | CAny l => (fix go (l : list cfgexp) := match l with [] => true | x :: r => cfg_tf_free x && go r end) l
  | CNot x => cfg_tf_free x
  | _ => true
  end.

(* What the graph must satisfy for the reflection to be meaningful:
   - every item sits in a module whose chain reaches the root;
   - an item/module the translator dropped the contents of as "test-only" is really under a condition that
     implies `test` (somewhere on its chain);
   - the conditions on everything else mention no compile-time target feature and only known target_arch
     strings (so 4 architectures x 2 x 2 configurations are exhaustive). *)
Definition item_wf (g : cgraph) (it : item) : bool :=
  match module_guards g (depth_fuel g) (it_mod it) with
  | None => false
  | Some l =>
      let gs := it_cfg it :: l in
      if it_test it then existsb implies_test gs && match it_mentions it with [] => true | _ => false end
      else forallb (fun c => cfg_tf_free c && cfg_archs_known c) gs
           && forallb (fun m => cfg_tf_free (mn_cfg m) && cfg_archs_known (mn_cfg m)) (it_mentions it)
  end.

Definition module_wf (g : cgraph) (im : N * module_) : bool :=
  let (i, m) := im in
  match module_guards g (depth_fuel g) i with
  | None => false
  | Some gs =>
      if md_test m then existsb implies_test gs
      else forallb (fun c => cfg_tf_free c && cfg_archs_known c) gs
  end.

Fixpoint enumerate {A : Type} (i : N) (l : list A) : list (N * A) :=
  match l with [] => [] | x :: r => (i, x) :: enumerate (N.succ i) r end.

Definition attr_wf (a : crate_attr) : bool := cfg_tf_free (ca_cfg a) && cfg_archs_known (ca_cfg a).

Fixpoint list_string_eqb (a b : list string) : bool :=
  match a, b with
  | [], [] => true
  | x :: a', y :: b' => String.eqb x y && list_string_eqb a' b'
  | _, _ => false
  end.

Definition scan_complete (g : cgraph) : bool :=
  list_string_eqb (cg_scanned_idents g) alloc_idents
  && list_string_eqb (cg_scanned_methods g) (alloc_methods ++ std_float_methods)%list.

Definition graph_wf (g : cgraph) : bool :=
  forallb (item_wf g) (cg_items g) && forallb (module_wf g) (enumerate 0 (cg_modules g)) && forallb attr_wf (cg_attrs g)
  && scan_complete g
  && match find_module g 0 with Some m => String.eqb (md_path m) "" | None => false end.

(** * Classification of a mention *)

Inductive mclass :=
| ClCore          (* resolves inside `core` *)
| ClCrate         (* resolves inside this crate (or a local name / primitive type) *)
| ClStdAudited    (* one of the audited, non-allocating uses of std *)
| ClStdOther      (* any other use of std *)
| ClAlloc         (* allocating vocabulary / the `alloc` crate *)
| ClExternal      (* another crate *)
| ClUnknown.      (* a macro that is neither core's, nor std's known ones, nor defined in this crate *)

Definition mclass_eqb (a b : mclass) : bool :=
  match a, b with
  | ClCore, ClCore | ClCrate, ClCrate | ClStdAudited, ClStdAudited | ClStdOther, ClStdOther
  | ClAlloc, ClAlloc | ClExternal, ClExternal | ClUnknown, ClUnknown => true
  | _, _ => false
  end.

Definition extern_crate_names (g : cgraph) : list string :=
  flat_map (fun it => match it_kind it with IExternCrate => [it_name it] | _ => [] end) (cg_items g).

Definition crate_macros (g : cgraph) : list string :=
  flat_map (fun it => match it_kind it with IMacroDef => [it_name it] | _ => [] end) (cg_items g).

(* Edition >= 2018: the first segment of a path names an external crate only if it is in the extern prelude,
   i.e. a sysroot crate, a crate of Cargo.toml (passed with --extern), or one declared by `extern crate`.
   The two name lists a classification needs are computed once per graph ([mk_env]). *)
Record env := { ev_macros : list string; ev_external : list string }.
Definition mk_env (g : cgraph) : env :=
  {| ev_macros := crate_macros g;
     ev_external := (sysroot_crates ++ map dp_ident (cg_deps g) ++ extern_crate_names g)%list |}.

Definition classify_root_e (e : env) (global : bool) (r path : string) : mclass :=
  if String.eqb r "core" then ClCore
  else if String.eqb r "alloc" then ClAlloc
  else if String.eqb r "std" then (if mem_string path audited_std_paths then ClStdAudited else ClStdOther)
  else if mem_string r (ev_external e) then ClExternal
  else if global then ClExternal
  else ClCrate.

Definition classify_macro_e (e : env) (r name : string) : mclass :=
  if String.eqb r "" then
    if mem_string name (ev_macros e) then ClCrate
    else if mem_string name core_macros then ClCore
    else if mem_string name alloc_macros then ClAlloc
    else if mem_string name audited_std_macros then ClStdAudited
    else ClUnknown
  else if String.eqb r "core" then (if mem_string name core_macros then ClCore else ClUnknown)
  else if String.eqb r "std" then
    if mem_string name alloc_macros then ClAlloc
    else if mem_string name audited_std_macros then ClStdAudited
    else ClStdOther
  else if String.eqb r "alloc" then ClAlloc
  else if mem_string r crate_internal_roots then (if mem_string name (ev_macros e) then ClCrate else ClUnknown)
  else if mem_string r (ev_external e) then ClExternal
  else (if mem_string name (ev_macros e) then ClCrate else ClUnknown).

Definition classify_e (e : env) (m : mention) : mclass :=
  match mn_kind m with
  | MkPath => classify_root_e e false (mn_root m) (mn_path m)
  | MkGlobal => classify_root_e e true (mn_root m) (mn_path m)
  | MkMacro => classify_macro_e e (mn_root m) (mn_text m)
  | MkFloatFn =>
      if mem_string (mn_text m) core_float_fns then ClCore
      else if mem_string (mn_text m) audited_float_fns then ClStdAudited
      else ClStdOther
  | MkIdent => if mem_string (mn_text m) alloc_idents then ClAlloc else ClCrate
  | MkMethod =>
      if mem_string (mn_text m) alloc_methods then ClAlloc
      else if mem_string (mn_text m) std_float_methods then ClStdOther
      else ClCrate
  end.

Definition is_external_root (g : cgraph) (r : string) : bool := mem_string r (ev_external (mk_env g)).
Definition classify (g : cgraph) (m : mention) : mclass := classify_e (mk_env g) m.

(* An `extern crate x;` item: x itself is the reference. *)
Definition classify_item (it : item) : mclass :=
  match it_kind it with
  | IExternCrate =>
      if String.eqb (it_name it) "core" then ClCore
      else if String.eqb (it_name it) "alloc" then ClAlloc
      else if String.eqb (it_name it) "std" then ClStdOther
      else ClExternal
  | _ => ClCrate
  end.

(** * The checkers *)

Definition class_core_only (c : mclass) : bool := match c with ClCore | ClCrate => true | _ => false end.
Definition class_noalloc (bc : buildcfg) (c : mclass) : bool :=
  match c with ClCore | ClCrate => true | ClStdAudited => bc_std bc | _ => false end.

(* Every active item and every active mention satisfies [p]. *)
Definition all_active (g : cgraph) (bc : buildcfg) (p : mclass -> bool) : bool :=
  let e := mk_env g in
  forallb (fun it =>
             negb (item_active g bc it)
             || (p (classify_item it)
                 && forallb (fun m => negb (eval_cfg bc (mn_cfg m)) || p (classify_e e m)) (it_mentions it)))
          (cg_items g).

Definition check_nostd (g : cgraph) (bc : buildcfg) : bool :=
  bc_std bc || (has_no_std g bc && all_active g bc class_core_only).

Definition check_noalloc (g : cgraph) (bc : buildcfg) : bool := all_active g bc (class_noalloc bc).

(* The crate is `#![no_std]` EXACTLY when the cargo feature `std` is off (lib.rs:
   `#![cfg_attr(not(feature = "std"), no_std)]`), whatever the architecture / nightly / target features. *)
Definition check_nostd_attr (g : cgraph) (bc : buildcfg) : bool := Bool.eqb (has_no_std g bc) (negb (bc_std bc)).

(* Unstable `#![feature(..)]` gates are switched on only by the `nightly` feature (so a stable toolchain builds
   every configuration without it). *)
Definition check_gates (g : cgraph) (bc : buildcfg) : bool :=
  bc_nightly bc || match active_feature_gates g bc with [] => true | _ => false end.

Definition runtime_deps (g : cgraph) : list dep := filter (fun d => negb (dp_dev d)) (cg_deps g).

Definition feature_enables (g : cgraph) (f : string) : list string :=
  match find (fun x => String.eqb (cf_name x) f) (cg_features g) with Some x => cf_enables x | None => [] end.

(* Cargo side: nothing is linked into the library; no build script can inject cfg flags; the edition gives the
   extern-prelude reading of paths; `std` is a plain switch, part of `default`, and not implied by `nightly`. *)
Definition check_manifest (g : cgraph) : bool :=
  match runtime_deps g with [] => true | _ => false end
  && negb (cg_build_script g) && negb (cg_proc_macro g)
  && (String.eqb (cg_edition g) "2018" || String.eqb (cg_edition g) "2021" || String.eqb (cg_edition g) "2024")
  && mem_string "std" (map cf_name (cg_features g))
  && match feature_enables g "std" with [] => true | _ => false end
  && mem_string "std" (feature_enables g "default")
  && negb (mem_string "std" (feature_enables g "nightly")).

(** * Finite enumeration of configurations *)

Definition norm_bc (bc : buildcfg) : buildcfg :=
  {| bc_arch := bc_arch bc; bc_nightly := bc_nightly bc; bc_std := bc_std bc; bc_tf := [] |}.

Definition all_archs : list arch := [X86; X86_64; Aarch64; OtherArch].
Definition all_configs : list buildcfg :=
  flat_map (fun a => flat_map (fun n => map (fun s =>
    {| bc_arch := a; bc_nightly := n; bc_std := s; bc_tf := [] |}) [false; true]) [false; true]) all_archs.

Definition check_all (g : cgraph) : bool :=
  graph_wf g && check_manifest g
  && forallb (fun bc => check_nostd g bc && check_noalloc g bc && check_gates g bc && check_nostd_attr g bc) all_configs.

(** * Reporting helpers (used by checks/c14.py to name the culprit and to predict what the build references) *)

Definition bc_label (bc : buildcfg) : string :=
  arch_name (bc_arch bc) ++ (if bc_std bc then "+std" else "-std") ++ (if bc_nightly bc then "+nightly" else "-nightly").

Definition class_name (c : mclass) : string :=
  match c with
  | ClCore => "core" | ClCrate => "crate" | ClStdAudited => "std-audited" | ClStdOther => "std" | ClAlloc => "alloc"
  | ClExternal => "external" | ClUnknown => "unknown-macro"
  end.

(* (configuration, file, line, item, what, class) of everything that breaks [p] in [bc]. *)
Definition offenders (g : cgraph) (bc : buildcfg) (p : mclass -> bool)
  : list (string * string * N * string * string * string) :=
  let e := mk_env g in
  flat_map (fun it =>
    if item_active g bc it then
      app (if p (classify_item it) then []
           else [(bc_label bc, it_file it, it_line it, it_name it, "extern crate " ++ it_name it,
                  class_name (classify_item it))])
          (flat_map (fun m =>
             if eval_cfg bc (mn_cfg m) && negb (p (classify_e e m))
             then [(bc_label bc, it_file it, mn_line m, it_name it, mn_path m, class_name (classify_e e m))]
             else []) (it_mentions it))
    else []) (cg_items g).

Definition nostd_offenders (g : cgraph) :=
  flat_map (fun bc => if bc_std bc then [] else offenders g bc class_core_only) all_configs.
Definition noalloc_offenders (g : cgraph) :=
  flat_map (fun bc => offenders g bc (class_noalloc bc)) all_configs.

(* Classes mentioned by active code in a configuration: the model's prediction of which crates the compiled
   library may reference. *)
Definition all_classes : list mclass := [ClCore; ClCrate; ClStdAudited; ClStdOther; ClAlloc; ClExternal; ClUnknown].
Definition class_present (g : cgraph) (bc : buildcfg) (c : mclass) : bool :=
  let e := mk_env g in
  existsb (fun it =>
    item_active g bc it
    && (mclass_eqb (classify_item it) c
        || existsb (fun m => eval_cfg bc (mn_cfg m) && mclass_eqb (classify_e e m) c) (it_mentions it)))
    (cg_items g).
Definition active_classes (g : cgraph) (bc : buildcfg) : list string :=
  map class_name (filter (class_present g bc) all_classes).

(* Distinct paths (as written) of the active mentions of class [c] in [bc]: with c = ClStdAudited this is the model's
   prediction of what a std build references outside core (feature detection, inherent float functions). *)
Fixpoint dedup_strings (l : list string) : list string :=
  match l with
  | [] => []
  | x :: r => if mem_string x r then dedup_strings r else x :: dedup_strings r
  end.
Definition active_paths_of_class (g : cgraph) (bc : buildcfg) (c : mclass) : list string :=
  let e := mk_env g in
  dedup_strings (flat_map (fun it =>
    if item_active g bc it then
      flat_map (fun m => if eval_cfg bc (mn_cfg m) && mclass_eqb (classify_e e m) c
                         then [match mn_kind m with
                               | MkMacro => (mn_path m ++ "!")%string
                               | MkFloatFn => mn_path m
                               | _ => mn_path m
                               end]
                         else []) (it_mentions it)
    else []) (cg_items g)).

(* `extern crate` items compiled in [bc]. *)
Definition active_extern_crates (g : cgraph) (bc : buildcfg) : list string :=
  flat_map (fun it => match it_kind it with
                      | IExternCrate => if item_active g bc it then [it_name it] else []
                      | _ => [] end) (cg_items g).

Definition count_active (g : cgraph) (bc : buildcfg) : N :=
  N.of_nat (length (filter (item_active g bc) (cg_items g))).

Definition wf_offenders (g : cgraph) : list (string * N * string) :=
  (flat_map (fun it => if item_wf g it then [] else [(it_file it, it_line it, it_name it)]) (cg_items g)
   ++ flat_map (fun im => if module_wf g im then [] else [(md_file (snd im), md_line (snd im), ("mod " ++ md_path (snd im))%string)])
               (enumerate 0 (cg_modules g))
   ++ flat_map (fun a => if attr_wf a then [] else [("lib.rs", ca_line a, ("crate attribute " ++ ca_name a)%string)]) (cg_attrs g)
   ++ (if scan_complete g then [] else [("tools/translate_crate.py", 0%N, "scanned vocabulary differs from CrateGraph.v")]))%list.
