(* Semantics *of* the generated tables: what a name says, what the dispatch chain selects, what a safe
   wrapper's assert list guarantees.  Pure, computable definitions only (no proofs), parametric in the
   tables, so that they keep evaluating whatever the repository currently contains. *)
From Coq Require Import String List Bool Arith.
From CF Require Import Model.Tables.
Import ListNotations.
Open Scope string_scope.

(** * Names (C11) *)

Definition arch_tag (r : reg) : string :=
  match r with
  | Fallback => "fallback" | Avx2 => "avx2" | Avx2Fma => "avx2" | Avx512 => "avx512" | Neon => "neon"
  end.

(* Which (register, type) pairs have a *fused* multiply-add.  This is a constant of the specification;
   Proofs/RegFacts ties it to the register models (fmadd is Bfma exactly for these) and GenFeatures ties
   it to the intrinsics the source mentions (fmadd/vfma). *)
Definition fused (r : reg) (t : ty) : bool :=
  is_float t && match r with Avx2Fma | Avx512 | Neon => true | _ => false end.

Definition fma_tag (r : reg) (t : ty) (k : kernel) : string :=
  if kernel_uses_fmadd k && fused r t then "fma" else "nofma".

Inductive form := Const | Any.
Definition form_eqb (a b : form) : bool :=
  match a, b with Const, Const | Any, Any => true | _, _ => false end.
Definition form_tag (f : form) : string := match f with Const => "const" | Any => "any" end.

Definition export_name_spec (f : form) (t : ty) (r : reg) (k : kernel) : string :=
  ty_name t ++ "_x" ++ form_tag f ++ "_" ++ arch_tag r ++ "_" ++ fma_tag r t k ++ "_" ++ kernel_opname k.

Definition e_name (f : form) (e : export) : string :=
  match f with Const => e_xconst e | Any => e_xany e end.

(* Target features an export of a given register may declare (`features = ...`).  Declaring fewer is a
   missed optimisation, not a wrong result (the intrinsics carry their own requirement; C10 accounts for
   those); declaring a feature outside this list would let LLVM use instructions the back end's name does
   not announce.  The precise "what the dispatcher verified" statement is C10's. *)
Definition reg_features (r : reg) : list string :=
  match r with
  | Fallback => [] | Avx2 => ["avx2"] | Avx2Fma => ["avx2"; "fma"]
  | Avx512 => ["avx512f"; "avx512bw"] | Neon => ["neon"]
  end.
Definition subset_strings (a b : list string) : bool :=
  forallb (fun x => existsb (String.eqb x) b) a.

Definition list_string_eqb (a b : list string) : bool :=
  Nat.eqb (length a) (length b) && forallb (fun p => String.eqb (fst p) (snd p)) (combine a b).

(* The cfg an export module must sit under for its register type to exist. *)
Definition reg_modcfg (r : reg) : string :=
  match r with
  | Fallback => ""
  | Avx2 | Avx2Fma => "any(target_arch=""x86"",target_arch=""x86_64"")"
  | Avx512 => "all(any(target_arch=""x86"",target_arch=""x86_64""),feature=""nightly"")"
  | Neon => "target_arch=""aarch64"""
  end.

Definition find_export_macro (ms : list export_macro) (n : string) : option export_macro :=
  find (fun m => String.eqb (xm_name m) n) ms.

Definition list_param_eqb (a b : list param) : bool :=
  Nat.eqb (length a) (length b) && forallb (fun p => param_eqb (fst p) (snd p)) (combine a b).

(* An export macro arm is well formed for an invocation row when it generates exactly the const-generic
   xconst routine passing DIMS and the xany routine passing a.len(), both calling
   `$op::<_, $im, AutoMath>` with the kernel's own argument list, and wiring target_feature iff the arm
   takes `features =`. *)
Definition export_fn_ok (hasf : bool) (k : kernel) (f : form) (x : export_fn) : bool :=
  String.eqb (xf_namevar x) (match f with Const => "xconst_name" | Any => "xany_name" end)
  && Bool.eqb (xf_const_generic x) (match f with Const => true | Any => false end)
  && Bool.eqb (xf_target_feature x) hasf
  && String.eqb (xf_callee x) "$op" && String.eqb (xf_callee_reg x) "$im"
  && String.eqb (xf_callee_math x) "AutoMath"
  && dimarg_eqb (xf_dim x) (match f with Const => DimConst | Any => DimALen end)
  && list_param_eqb (xf_params x) (kernel_params k)
  && list_param_eqb (xf_args x) (kernel_params k).

Definition export_arm_ok (k : kernel) (a : export_arm) : bool :=
  match xa_fns a with
  | [c; y] => export_fn_ok (xa_has_features a) k Const c && export_fn_ok (xa_has_features a) k Any y
  | _ => false
  end.

Definition arm_for (m : export_macro) (e : export) : option export_arm :=
  find (fun a => Bool.eqb (xa_has_features a) (negb (match e_feats e with [] => true | _ => false end)))
       (xm_arms m).

Definition export_row_ok (ms : list export_macro) (e : export) : bool :=
  String.eqb (e_xconst e) (export_name_spec Const (e_ty e) (e_reg e) (e_op e))
  && String.eqb (e_xany e) (export_name_spec Any (e_ty e) (e_reg e) (e_op e))
  && subset_strings (e_feats e) (reg_features (e_reg e))
  && String.eqb (e_modcfg e) (reg_modcfg (e_reg e))
  && match find_export_macro ms (e_macro e) with
     | Some m => match arm_for m e with Some a => export_arm_ok (e_op e) a | None => false end
     | None => false
     end.

Fixpoint nodup_strings (l : list string) : bool :=
  match l with
  | [] => true
  | x :: r => negb (existsb (String.eqb x) r) && nodup_strings r
  end.

Definition all_export_names (es : list export) : list string :=
  (map e_xconst es ++ map e_xany es)%list.

Definition find_export (es : list export) (f : form) (n : string) : option export :=
  find (fun e => String.eqb (e_name f e) n) es.

(** * Build configurations and cfg evaluation *)

Inductive arch := X86 | X86_64 | Aarch64 | OtherArch.
Definition arch_name (a : arch) : string :=
  match a with X86 => "x86" | X86_64 => "x86_64" | Aarch64 => "aarch64" | OtherArch => "<other>" end.
(* `OtherArch` stands for every target_arch string the tables do not mention; [cfg_archs_known] checks that
   the tables mention only the three named ones, so the representative is faithful. *)
Definition known_arch (s : string) : bool :=
  String.eqb s "x86" || String.eqb s "x86_64" || String.eqb s "aarch64".
Fixpoint cfg_archs_known (c : cfgexp) : bool :=
  match c with
  | CArch a => known_arch a
  | CAll l | CAny l => (fix go (l : list cfgexp) := match l with [] => true | x :: r => cfg_archs_known x && go r end) l
  | CNot x => cfg_archs_known x
  | _ => true
  end.

Record buildcfg := {
  bc_arch : arch;
  bc_nightly : bool;          (* cargo feature "nightly" of the crate the cfg is resolved in *)
  bc_std : bool;              (* cargo feature "std" *)
  bc_tf : list string         (* compile-time target features (closed) *)
}.

Definition mem_string (s : string) (l : list string) : bool := existsb (String.eqb s) l.

Fixpoint eval_cfg (bc : buildcfg) (c : cfgexp) : bool :=
  match c with
  | CTrue => true
  | CArch a => String.eqb a (arch_name (bc_arch bc))
  | CFeature f =>
      if String.eqb f "nightly" then bc_nightly bc
      else if String.eqb f "std" then bc_std bc else false
  | CTargetFeature f => mem_string f (bc_tf bc)
  | CFlag _ => false            (* test, miri, docsrs, debug_assertions: off in the modelled builds *)
  | CAll l => (fix all (l : list cfgexp) := match l with [] => true | x :: r => eval_cfg bc x && all r end) l
  | CAny l => (fix any (l : list cfgexp) := match l with [] => false | x :: r => eval_cfg bc x || any r end) l
  | CNot x => negb (eval_cfg bc x)
  end.

(** * Dispatch (C09) *)

Record pouts := { o_avx512 : bool; o_avx2 : bool; o_fma : bool; o_neon : bool }.
Definition pout (p : pouts) (x : pred) : bool :=
  match x with PAvx512 => o_avx512 p | PAvx2 => o_avx2 p | PFma => o_fma p | PNeon => o_neon p end.

Record supplied := { s_avx512 : bool; s_avx2fma : bool; s_avx2 : bool; s_neon : bool }.
Definition is_supplied (s : supplied) (x : slot) : bool :=
  match x with
  | SAvx512 => s_avx512 s | SAvx2Fma => s_avx2fma s | SAvx2 => s_avx2 s | SNeon => s_neon s
  | SFallback => true
  end.

(* The macro's control structure, read off the generated chain: the first link that was supplied at the
   call site, whose cfg holds and whose guards all answer true, returns. *)
Fixpoint select_chain (chain : list chain_entry) (bc : buildcfg) (p : pouts) (s : supplied) : option slot :=
  match chain with
  | [] => None
  | c :: rest =>
      if (negb (ce_optional c) || is_supplied s (ce_slot c))
         && eval_cfg bc (ce_cfg c) && forallb (pout p) (ce_guard c)
      then Some (ce_slot c)
      else select_chain rest bc p s
  end.

(* ... and the specification: documented priority order, the guard each back end needs. *)
Definition priority : list slot := [SAvx512; SAvx2Fma; SAvx2; SNeon; SFallback].
Definition is_x86 (bc : buildcfg) : bool := match bc_arch bc with X86 | X86_64 => true | _ => false end.
Definition compiled (bc : buildcfg) (x : slot) : bool :=
  match x with
  | SAvx512 => is_x86 bc && bc_nightly bc
  | SAvx2Fma | SAvx2 => is_x86 bc
  | SNeon => match bc_arch bc with Aarch64 => true | _ => false end
  | SFallback => true
  end.
Definition guard_spec (x : slot) (p : pouts) : bool :=
  match x with
  | SAvx512 => o_avx512 p
  | SAvx2Fma => o_avx2 p && o_fma p
  | SAvx2 => o_avx2 p
  | SNeon => o_neon p
  | SFallback => true
  end.
Definition select_spec (bc : buildcfg) (p : pouts) (s : supplied) : option slot :=
  find (fun x => is_supplied s x && compiled bc x && guard_spec x p) priority.

(* The chain links invoke the routine and the argument list of their own slot, and the macro pattern lists
   the slots in priority order, the last one mandatory. *)
Definition chain_wiring_ok (pat : list dispatch_pattern_group) (chain : list chain_entry) : bool :=
  forallb (fun c =>
    existsb (fun g => slot_eqb (pg_slot g) (ce_slot c) && String.eqb (pg_fnvar g) (ce_fnvar c)
                      && String.eqb (pg_argvar g) (ce_argvar c) && Bool.eqb (pg_optional g) (ce_optional c)) pat)
    chain
  && nodup_strings (map pg_fnvar pat) && nodup_strings (map pg_argvar pat)
  && Nat.eqb (length pat) 5 && Nat.eqb (length chain) 5
  && forallb (fun q => slot_eqb (pg_slot (fst q)) (snd q)) (combine pat priority).

Definition doc_priority_ok (x86 arm : list string) : bool :=
  list_string_eqb x86 ["AVX512"; "AVX2 + FMA"; "AVX2"; "Fallback"]
  && list_string_eqb arm ["NEON"; "Fallback"].

(* Predicates: evaluate the generated body under a build configuration and a run-time feature oracle. *)
Fixpoint eval_pexp (bc : buildcfg) (rt : string -> bool) (e : pexp) : bool :=
  match e with
  | PxCt c => eval_cfg bc c
  | PxRt _ f => rt f
  | PxAnd a b => eval_pexp bc rt a && eval_pexp bc rt b
  | PxOr a b => eval_pexp bc rt a || eval_pexp bc rt b
  | PxNot a => negb (eval_pexp bc rt a)
  | PxLit b => b
  end.
Definition eval_pred_def (bc : buildcfg) (rt : string -> bool) (d : pred_def) : bool :=
  existsb (fun a => eval_cfg bc (fst a) && eval_pexp bc rt (snd a)) (pd_arms d) || pd_default d.
Definition eval_pred (defs : list pred_def) (bc : buildcfg) (rt : string -> bool) (x : pred) : bool :=
  match find (fun d => pred_eqb (pd_pred d) x) defs with
  | Some d => eval_cfg bc (pd_cfg d) && eval_pred_def bc rt d
  | None => false
  end.
Definition eval_pouts (defs : list pred_def) (bc : buildcfg) (rt : string -> bool) : pouts :=
  {| o_avx512 := eval_pred defs bc rt PAvx512; o_avx2 := eval_pred defs bc rt PAvx2;
     o_fma := eval_pred defs bc rt PFma; o_neon := eval_pred defs bc rt PNeon |}.

(** * Safe wrappers (C01, C09, C12) *)

Record lens := { len_a : nat; len_b : nat; len_r : nat; len_dims : nat }.
Definition eval_len (l : lens) (e : lenexp) : nat :=
  match e with LA => len_a l | LB => len_b l | LR => len_r l | LDIMS => len_dims l end.
Definition asserts_pass (l : lens) (asserts : list (lenexp * lenexp)) : bool :=
  forallb (fun p => Nat.eqb (eval_len l (fst p)) (eval_len l (snd p))) asserts.

(* Equalities a callee needs: dims = len a; len b = dims if it takes b; len result = dims if it writes. *)
Definition needs (f : form) (ps : list param) : list (lenexp * lenexp) :=
  ((match f with Const => [(LDIMS, LA)] | Any => [] end)
  ++ (if existsb (param_eqb PB) ps then [(LB, LA)] else [])
  ++ (if existsb (param_eqb PResult) ps then [(LR, LA)] else []))%list.

(* Syntactic entailment: x and y are connected by the asserted equalities (4 symbols, so 4 rounds of
   neighbour expansion reach the whole component). *)
Definition neighbours (asserts : list (lenexp * lenexp)) (x : lenexp) : list lenexp :=
  flat_map (fun p => ((if lenexp_eqb (fst p) x then [snd p] else [])
                     ++ (if lenexp_eqb (snd p) x then [fst p] else []))%list) asserts.
Fixpoint reach (asserts : list (lenexp * lenexp)) (n : nat) (x : lenexp) : list lenexp :=
  match n with
  | O => [x]
  | S n' => let r := reach asserts n' x in (r ++ flat_map (neighbours asserts) r)%list
  end.
Definition entails (asserts : list (lenexp * lenexp)) (q : lenexp * lenexp) : bool :=
  existsb (lenexp_eqb (snd q)) (reach asserts 4 (fst q)).

Definition find_safe_macro (ms : list safe_macro) (n : string) : option safe_macro :=
  find (fun m => String.eqb (sm_name m) n) ms.

Definition safe_fn_of (m : safe_macro) (f : form) : option safe_fn :=
  find (fun x => String.eqb (sf_namevar x) (match f with Const => "const_name" | Any => "any_name" end))
       (sm_fns m).

Fixpoint lookup_positional (vars vals : list string) (v : string) : option string :=
  match vars, vals with
  | x :: xs, y :: ys => if String.eqb x v then Some y else lookup_positional xs ys v
  | _, _ => None
  end.

Definition allowed_backend (x : slot) (t : ty) : reg :=
  match x with
  | SAvx512 => Avx512
  | SAvx2Fma => if is_float t then Avx2Fma else Avx2
  | SAvx2 => Avx2
  | SNeon => Neon
  | SFallback => Fallback
  end.

(* The operation a safe routine's own name announces: <ty>_x<form>_<op>. *)
Definition safe_name_spec (f : form) (t : ty) (k : kernel) : string :=
  ty_name t ++ "_x" ++ form_tag f ++ "_" ++ kernel_opname k.
Definition s_name (f : form) (s : safe_entry) : string :=
  match f with Const => s_const s | Any => s_any s end.
Definition safe_kernel (s : safe_entry) : option kernel :=
  find (fun k => String.eqb (s_any s) (safe_name_spec Any (s_ty s) k)) all_kernels.

(* The export a safe entry hands the dispatcher in a slot. *)
Definition slot_export (es : list export) (m : safe_macro) (s : safe_entry) (f : form) (x : slot)
  : option export :=
  match safe_fn_of m f with
  | None => None
  | Some sf =>
      match find (fun d => slot_eqb (ds_slot d) x) (sf_dispatch sf) with
      | None => None
      | Some d =>
          match lookup_positional (sm_positional m) (s_slots s) (ds_fnvar d) with
          | None => None
          | Some n => find_export es f n
          end
      end
  end.

Definition safe_slot_ok (es : list export) (m : safe_macro) (s : safe_entry) (k : kernel) (f : form)
           (sf : safe_fn) (d : safe_dispatch_slot) : bool :=
  Bool.eqb (ds_turbofish_dims d) (match f with Const => true | Any => false end)
  && list_param_eqb (ds_args d) (kernel_params k)
  && match lookup_positional (sm_positional m) (s_slots s) (ds_fnvar d) with
     | None => false
     | Some n =>
         match find_export es f n with
         | None => false
         | Some e => ty_eqb (e_ty e) (s_ty s) && kernel_eqb (e_op e) k
                     && reg_eqb (e_reg e) (allowed_backend (ds_slot d) (s_ty s))
         end
     end.

Definition safe_fn_ok (es : list export) (m : safe_macro) (s : safe_entry) (k : kernel) (f : form) : bool :=
  match safe_fn_of m f with
  | None => false
  | Some sf =>
      Bool.eqb (sf_const_generic sf) (match f with Const => true | Any => false end)
      && list_param_eqb (sf_params sf) (kernel_params k)
      && forallb (safe_slot_ok es m s k f sf) (sf_dispatch sf)
      && existsb (fun d => slot_eqb (ds_slot d) SFallback) (sf_dispatch sf)
      && nodup_strings (map ds_fnvar (sf_dispatch sf))
      && Nat.eqb (length (sm_positional m)) (length (s_slots s))
  end.

Definition safe_entry_ok (es : list export) (ms : list safe_macro) (s : safe_entry) : bool :=
  match find_safe_macro ms (s_macro s), safe_kernel s with
  | Some m, Some k =>
      String.eqb (s_const s) (safe_name_spec Const (s_ty s) k)
      && safe_fn_ok es m s k Const && safe_fn_ok es m s k Any
      && Nat.eqb (length (sm_fns m)) 2
  | _, _ => false
  end.

(* C01: the assert list of a safe routine entails every equality its callees need. *)
Definition safe_fn_asserts_ok (f : form) (sf : safe_fn) : bool :=
  forallb (entails (sf_asserts sf)) (needs f (sf_params sf)).
Definition safe_macro_asserts_ok (m : safe_macro) : bool :=
  match safe_fn_of m Const, safe_fn_of m Any with
  | Some c, Some a => safe_fn_asserts_ok Const c && safe_fn_asserts_ok Any a
  | _, _ => false
  end.

(* C12 (safe part): under DIMS = len a the two assert lists are equivalent: each entails the other's
   pairs once the equation DIMS = len a is added. *)
Definition safe_macro_forms_agree (m : safe_macro) : bool :=
  match safe_fn_of m Const, safe_fn_of m Any with
  | Some c, Some a =>
      forallb (entails ((LDIMS, LA) :: sf_asserts c)) (sf_asserts a)
      && forallb (entails ((LDIMS, LA) :: sf_asserts a)) (sf_asserts c)
      && list_param_eqb (sf_params c) (sf_params a)
      && Nat.eqb (length (sf_dispatch c)) (length (sf_dispatch a))
      && forallb (fun q => slot_eqb (ds_slot (fst q)) (ds_slot (snd q))
                           && list_param_eqb (ds_args (fst q)) (ds_args (snd q)))
                 (combine (sf_dispatch c) (sf_dispatch a))
  | _, _ => false
  end.
