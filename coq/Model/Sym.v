(* Symbolic instance of the SimdRegister / Math records: elements are terms, lane operations build
   terms.  Running a kernel on it yields the expression DAG and the memory-event trace the kernel computes
   for given (L, dims).  This is what correspondence (A) compares with a symbolic run of the REAL generic
   kernels (harness `sym`), and the instance on which structure theorems are proved. *)
From Coq Require Import List Arith Bool.
From CF Require Import Base.Mem Model.SimdApi Model.Kernels Model.Tables.
Import ListNotations.

Inductive sop :=
(* register (lane-wise) operations *)
| OAdd | OSub | OMul | ODiv | OFma | OMax | OMin
(* horizontal folds of one register: argument list = its lanes *)
| OSumF | OMaxF | OMinF
(* scalar (Math) operations *)
| SAdd | SSub | SMul | SDiv | SMax | SMin | SSqrt | SAbs.

Inductive tconst := CZero | COne | CMin | CMax | CRegZero.

Inductive term :=
| TVar (s : slice) (i : nat)
| TValue
| TConst (c : tconst)
| TOp (o : sop) (args : list term).

Definition t2 (o : sop) (a b : term) := TOp o [a; b].
Definition t3 (o : sop) (a b c : term) := TOp o [a; b; c].

(* Leaf classes, for the scripted equality oracle of [cosine]. *)
Fixpoint has_leaf (s : slice) (t : term) : bool :=
  match t with
  | TVar s' _ => slice_eqb s s'
  | TOp _ args => (fix go (l : list term) := match l with [] => false | x :: r => has_leaf s x || go r end) args
  | _ => false
  end.

(* cmp_eq(x, _) answers zx when x mentions an element of `a`, else zy when it mentions one of `b`, else z0
   (dims = 0: both norms are constant-only).  The Rust SymMath implements the same rule. *)
Definition sym_math (zx zy z0 : bool) : MathOps term :=
  {| m_zero := TConst CZero; m_one := TConst COne; m_max := TConst CMax; m_min := TConst CMin;
     m_sqrt := fun a => TOp SSqrt [a]; m_abs := fun a => TOp SAbs [a];
     m_cmp_eq := fun a _ => if has_leaf SA a then zx else if has_leaf SB a then zy else z0;
     m_cmp_min := t2 SMin; m_cmp_max := t2 SMax;
     m_add := t2 SAdd; m_sub := t2 SSub; m_mul := t2 SMul;
     m_div := fun a b => Some (t2 SDiv a b) |}.

Definition sym_ops (L : nat) : SimdOps term :=
  with_default_dense L
    (fun v => repeat v L) (repeat (TConst CRegZero) L)
    (map2 (t2 OAdd)) (map2 (t2 OSub)) (map2 (t2 OMul)) (fun x y => Some (map2 (t2 ODiv) x y))
    (map3 (t3 OFma)) (map2 (t2 OMax)) (map2 (t2 OMin))
    (TOp OSumF) (TOp OMaxF) (TOp OMinF).

Definition sym_mem (la lb lr : nat) : mem term :=
  init_mem (map (TVar SA) (seq 0 la)) (map (TVar SB) (seq 0 lb)) (map (TVar SR) (seq 0 lr)).

Definition sym_run (k : kernel) (L dims la lb lr : nat) (zx zy z0 : bool) : outcome term (kresult (T := term)) :=
  run_kernel (sym_ops L) (sym_math zx zy z0) k dims TValue (sym_mem la lb lr).
