(* Semantics of an export row: which kernel on which register model with which math layer, and of the
   dims argument of its two forms (Const: the const generic DIMS; Any: a.len()). *)
From Coq Require Import ZArith List Bool.
From CF Require Import Base.Mem Model.Tables Model.TableSem Model.Prim Model.SimdApi Model.Kernels Model.Regs.
Import ListNotations.

Definition dims_of (f : form) (DIMS : nat) (la : nat) : nat := match f with Const => DIMS | Any => la end.

(* debug builds: the kernels' own debug_assert_eq!(len, dims) *)
Definition debug_asserts_pass (k : kernel) (dims la lb lr : nat) : bool :=
  Nat.eqb la dims
  && (if kernel_uses_b k then Nat.eqb lb dims else true)
  && (if existsb (kernel_eqb k) [KAddVal; KSubVal; KMulVal; KDivVal; KAddVec; KSubVec; KMulVec; KDivVec]
      then Nat.eqb lr dims else true).

Inductive xoutcome (T : Type) :=
| XOk (r : kresult (T := T)) (res : list T) (tr : list event)
| XPanicDiv
| XPanicAssert
| XFault (e : event)
| XOutOfFuel
| XNoModel.
Arguments XOk {T}. Arguments XPanicDiv {T}. Arguments XPanicAssert {T}. Arguments XFault {T}.
Arguments XOutOfFuel {T}. Arguments XNoModel {T}.

Definition xo {T} (o : outcome T (kresult (T := T))) : xoutcome T :=
  match o with
  | Ok r m => XOk r (mR m) (trace m)
  | Panic _ => XPanicDiv
  | Fault e => XFault e
  | OutOfFuel => XOutOfFuel
  end.

Definition run_export_gen {T} (ops : option (SimdOps T)) (Mt : MathOps T) (k : kernel) (debug : bool)
           (dims : nat) (v : T) (a b res : list T) : xoutcome T :=
  match ops with
  | None => XNoModel
  | Some R =>
      if debug && negb (debug_asserts_pass k dims (length a) (length b) (length res)) then XPanicAssert
      else xo (run_kernel R Mt k dims v (init_mem a b res))
  end.

Definition run_export_int (e : export) (f : form) (debug : bool) (DIMS : nat) (v : Z) (a b res : list Z) :=
  run_export_gen (int_ops (e_reg e) (e_ty e)) (int_math (int_signed (e_ty e)) (width (e_ty e))) (e_op e) debug
                 (dims_of f DIMS (length a)) v a b res.
Definition run_export_f32 (e : export) (f : form) (debug : bool) (DIMS : nat) (v : f32) (a b res : list f32) :=
  run_export_gen (f32_ops (e_reg e)) float_math (e_op e) debug (dims_of f DIMS (length a)) v a b res.
Definition run_export_f64 (e : export) (f : form) (debug : bool) (DIMS : nat) (v : f64) (a b res : list f64) :=
  run_export_gen (f64_ops (e_reg e)) float_math (e_op e) debug (dims_of f DIMS (length a)) v a b res.
