(* Specification constants of the dispatcher's AVAILABILITY contract (C09): which CPU features each
   is_*_available predicate stands for, which ones each back end (slot) requires.  No proofs here. *)
From Coq Require Import String List Bool.
From CF Require Import Model.Tables Model.TableSem Model.Features.
Import ListNotations.
Open Scope string_scope.

Definition all_preds : list pred := [PAvx512; PAvx2; PFma; PNeon].

(* what a predicate named is_<x>_available claims *)
Definition pred_features (x : pred) : fset :=
  match x with
  | PAvx512 => ["avx512f"; "avx512bw"]
  | PAvx2 => ["avx2"]
  | PFma => ["fma"]
  | PNeon => ["neon"]
  end.

(* what the back end behind a slot requires of the machine *)
Definition slot_features (s : slot) : fset :=
  match s with
  | SAvx512 => ["avx512f"; "avx512bw"]
  | SAvx2Fma => ["avx2"; "fma"]
  | SAvx2 => ["avx2"]
  | SNeon => ["neon"]
  | SFallback => []
  end.

Definition slot_available (avail : string -> bool) (s : slot) : bool := forallb avail (slot_features s).
Definition pred_holds (avail : string -> bool) (x : pred) : bool := forallb avail (pred_features x).

Definition slot_rank (s : slot) : nat :=
  match s with SAvx512 => 0 | SAvx2Fma => 1 | SAvx2 => 2 | SNeon => 3 | SFallback => 4 end.

(* Boolean facts about the regenerated predicate bodies / chain *)
(* a predicate that answers true has established (compile-time declaration or run-time detection, closed under
   the feature implications, plus the target's baseline) every feature it stands for *)
Definition preds_sound_okb (ps : list pred) (archs : list arch) (defs : list pred_def) : bool :=
  forallb (fun x => forallb (fun a => fsubset (pred_features x) (closure (tested_pred defs x ++ baseline_of a)%list))
                            archs) ps.
Definition preds_sound_ok := preds_sound_okb all_preds all_archs.
(* in a std build each predicate has a purely run-time arm that fires when the features it stands for are there *)
Definition preds_complete_okb (ps : list pred) (defs : list pred_def) : bool :=
  forallb (fun x => match find (fun d => pred_eqb (pd_pred d) x) defs with
                    | Some d => match rt_sufficient_def d with
                                | Some l => fsubset l (closure (pred_features x))
                                | None => false
                                end
                    | None => false
                    end) ps.
Definition preds_complete_ok := preds_complete_okb all_preds.
(* the features a slot requires are claimed by the predicates of its link's guard, and conversely *)
Definition chain_feats_ok (chain : list chain_entry) : bool :=
  forallb (fun c => fsubset (slot_features (ce_slot c)) (flat_map pred_features (ce_guard c))
                    && fsubset (flat_map pred_features (ce_guard c)) (slot_features (ce_slot c))) chain.

(* The availability contract, executable (used as the oracle of the no-std predicate probe): in a build without
   std only the compile-time declared features count. *)
Definition spec_pred_nostd (bc : buildcfg) (x : pred) : bool :=
  (match x with
   | PAvx512 => is_x86 bc && bc_nightly bc
   | PAvx2 | PFma => is_x86 bc
   | PNeon => match bc_arch bc with Aarch64 => true | _ => false end
   end) && forallb (fun f => mem_string f (bc_tf bc)) (pred_features x).
Definition spec_pouts_nostd (bc : buildcfg) : pouts :=
  {| o_avx512 := spec_pred_nostd bc PAvx512; o_avx2 := spec_pred_nostd bc PAvx2;
     o_fma := spec_pred_nostd bc PFma; o_neon := spec_pred_nostd bc PNeon |}.
