(* Meaning of the scalar-loop fragment of Rust that tools/translate_regs.py renders besides the intrinsic calls
   (TRUSTED, like Model/Intrinsics.v; no proofs here — Proofs/RustLoopsFacts.v).

   PANICS.  A computation that may panic is OPTION-valued: [None] = the thread panics.  Panics are the only effect of the
   fragment, so sequencing is [obind] and the order in which the operands of one statement are evaluated does not show.

   ARRAYS.  A fixed-size array `[T; N]` is the list of its N elements; `[v; N]` is [repeat v N]; `a[i] = v` is
   [arr_set a i v]: an index out of bounds panics (Rust checks every index), otherwise element i is replaced.

   LOOP.  `for (idx, (x, y)) in zip(xs, ys).enumerate() { body }` over two arrays taken by value: `zip` stops with the
   shorter one, `enumerate` counts from 0 (a `usize`; it cannot overflow for arrays that exist); [body idx x y st] is one
   iteration on the state [st] (the array the body stores into) and may panic, which ends the loop. *)
From Coq Require Import ZArith List Bool.
Import ListNotations.
Local Open Scope Z_scope.

Definition obind {A B} (o : option A) (f : A -> option B) : option B :=
  match o with Some a => f a | None => None end.

Definition arr_set {A} (a : list A) (i : Z) (v : A) : option (list A) :=
  if (0 <=? i) && (i <? Z.of_nat (length a))
  then Some (firstn (Z.to_nat i) a ++ v :: skipn (S (Z.to_nat i)) a)
  else None.

Fixpoint for_zip_enum {A B S} (body : Z -> A -> B -> S -> option S) (idx : Z) (xs : list A) (ys : list B) (st : S)
  : option S :=
  match xs, ys with
  | x :: xs', y :: ys' => obind (body idx x y st) (for_zip_enum body (idx + 1) xs' ys')
  | _, _ => Some st
  end.
