(* Further Rust primitives that the scalar math layer (math/default.rs, math/fast_math.rs) is written in, on top
   of Model/Prim.v.  These are the targets of tools/translate_more.py (step "math" -> Gen/GenMath.v): every
   method body of `impl Math<T> for StdMath / FastMath` is translated, token by token, into an application of
   the definitions of Prim.v and of this file.  TRUSTED, like Prim.v: this file states what the primitives mean.
   No proofs here (Proofs/MathProofs.v).

   Recorded contract of the algebraic intrinsics (core::intrinsics::f{add,sub,mul,div}_algebraic): they are the
   IEEE-754 operation on which the compiler MAY perform algebraic rewrites (reassociation, contraction into an
   fma, reciprocal for division).  A single call on two run-time operands, which is all that the math layer
   does, leaves nothing to reassociate or to contract: absent compiler rewrites the result is the correctly
   rounded IEEE result.  They are defined as such below; the correspondence (checks/c18.py) measures the real
   nightly build against it bit for bit for add/sub/mul and allows the property's 2 ulp for division. *)
From Coq Require Import ZArith Bool List.
From Flocq Require Import IEEE754.BinarySingleNaN.
From CF Require Import Model.Tables Model.Prim Model.SimdApi.
Import ListNotations.
Local Open Scope Z_scope.

(* which implementor of `trait Math<T>` *)
Inductive math_variant := VStd | VFast.

(** * Integers *)

(* an integer literal at type width w (two's complement pattern of a possibly negative literal) *)
Definition i_lit (w z : Z) : Z := wrap w z.

Definition int_lo (sg : bool) (w : Z) : Z := if sg then - 2 ^ (w - 1) else 0.
Definition int_hi (sg : bool) (w : Z) : Z := if sg then 2 ^ (w - 1) - 1 else 2 ^ w - 1.
Definition clampZ (lo hi v : Z) : Z := if v <? lo then lo else if hi <? v then hi else v.

(* saturating_add / saturating_sub / saturating_mul: exact result clamped to the type's range *)
Definition i_sat_add (sg : bool) (w a b : Z) : Z := wrap w (clampZ (int_lo sg w) (int_hi sg w) (ival sg w a + ival sg w b)).
Definition i_sat_sub (sg : bool) (w a b : Z) : Z := wrap w (clampZ (int_lo sg w) (int_hi sg w) (ival sg w a - ival sg w b)).
Definition i_sat_mul (sg : bool) (w a b : Z) : Z := wrap w (clampZ (int_lo sg w) (int_hi sg w) (ival sg w a * ival sg w b)).
(* wrapping_neg *)
Definition i_neg (w a : Z) : Z := wrap w (- a).
(* wrapping_rem: truncating remainder; a zero divisor panics *)
Definition i_rem (sg : bool) (w a b : Z) : option Z :=
  if b =? 0 then None
  else Some (if sg then wrap w (Z.rem (sgn w a) (sgn w b)) else a mod b).
(* the plain operators `/` and `%` on integers: a zero divisor panics, and so does the one overflowing case
   MIN / -1 (MIN % -1) of the signed types - in EVERY build profile ("attempt to divide with overflow") *)
Definition i_div_op (sg : bool) (w a b : Z) : option Z :=
  if b =? 0 then None
  else if sg && (a =? 2 ^ (w - 1)) && (b =? 2 ^ w - 1) then None
  else i_div sg w a b.
Definition i_rem_op (sg : bool) (w a b : Z) : option Z :=
  if b =? 0 then None
  else if sg && (a =? 2 ^ (w - 1)) && (b =? 2 ^ w - 1) then None
  else i_rem sg w a b.
(* comparisons on the type's reading of the patterns *)
Definition i_lt (sg : bool) (w a b : Z) : bool := ival sg w a <? ival sg w b.
Definition i_le (sg : bool) (w a b : Z) : bool := ival sg w a <=? ival sg w b.

(** * Floats *)

Section Float.
  Variables prec emax : Z.
  Context (Hp : FLX.Prec_gt_0 prec) (He : Prec_lt_emax prec emax).
  Notation bf := (BinarySingleNaN.binary_float prec emax).

  (* a float literal with an integral value (`0.0`, `1.0`, `2.0`, ...): the correctly rounded value *)
  Definition f_lit (z : Z) : bf := f_of_Z z.
  Definition f_neg (a : bf) : bf := BinarySingleNaN.Bopp a.
  Definition f_nan : bf := B754_nan.
  Definition f_le (a b : bf) : bool := BinarySingleNaN.Bleb a b.
  (* f32::MAX / f64::MAX (largest finite) *)
  Definition f_MAXFIN : bf := BinarySingleNaN.Bmax_float.

  (* core::intrinsics::f*_algebraic — see the contract at the top of this file *)
  Definition prim_fadd_algebraic (a b : bf) : bf := f_add a b.
  Definition prim_fsub_algebraic (a b : bf) : bf := f_sub a b.
  Definition prim_fmul_algebraic (a b : bf) : bf := f_mul a b.
  Definition prim_fdiv_algebraic (a b : bf) : bf := f_div a b.
End Float.

Arguments f_lit {prec emax Hp He}. Arguments f_neg {prec emax}. Arguments f_nan {prec emax}.
Arguments f_le {prec emax}. Arguments f_MAXFIN {prec emax Hp He}.
Arguments prim_fadd_algebraic {prec emax Hp He}. Arguments prim_fsub_algebraic {prec emax Hp He}.
Arguments prim_fmul_algebraic {prec emax Hp He}. Arguments prim_fdiv_algebraic {prec emax Hp He}.

(** * `as` casts between integers and floats *)

(* `a as f64` / `a as f32` for an integer a of signedness sg and width w: round to nearest even *)
Definition cast_int_f64 (sg : bool) (w a : Z) : f64 := f_of_Z (ival sg w a).
Definition cast_int_f32 (sg : bool) (w a : Z) : f32 := f_of_Z (ival sg w a).
(* `x as $t` for a float x: saturating truncation, NaN -> 0 (the result is the bit pattern) *)
Definition cast_f64_int (sg : bool) (w : Z) (x : f64) : Z := wrap w (f_to_Z (int_lo sg w) (int_hi sg w) x).
Definition cast_f32_int (sg : bool) (w : Z) (x : f32) : Z := wrap w (f_to_Z (int_lo sg w) (int_hi sg w) x).

(** * Plumbing of the generated file *)

(* sequencing of operations that may panic (None) *)
Definition obind {A B} (x : option A) (f : A -> option B) : option B :=
  match x with Some a => f a | None => None end.

(* extensional, field-by-field equality of two math layers *)
Definition mathops_ext {T} (A B : MathOps T) : Prop :=
  m_zero A = m_zero B /\ m_one A = m_one B /\ m_max A = m_max B /\ m_min A = m_min B
  /\ (forall a, m_sqrt A a = m_sqrt B a) /\ (forall a, m_abs A a = m_abs B a)
  /\ (forall a b, m_cmp_eq A a b = m_cmp_eq B a b)
  /\ (forall a b, m_cmp_min A a b = m_cmp_min B a b) /\ (forall a b, m_cmp_max A a b = m_cmp_max B a b)
  /\ (forall a b, m_add A a b = m_add B a b) /\ (forall a b, m_sub A a b = m_sub B a b)
  /\ (forall a b, m_mul A a b = m_mul B a b) /\ (forall a b, m_div A a b = m_div B a b).

(* operand encodings shared with checks/c18.py: floats travel as bit patterns, NaN as None *)
Definition enc_oZ (x : option Z) : Z := match x with Some z => z | None => -1 end.
Definition enc_bool (b : bool) : Z := if b then 1 else 0.
