(* Models of the executable SimdRegister<T> implementations: Fallback (impl_fallback.rs), Avx2
   (impl_avx2.rs), Avx2Fma (impl_avx2_fma.rs), Avx512 (impl_avx512.rs).  A register is its list of lanes at
   the element width.  Plain lane-wise intrinsics are given their lane semantics directly; wherever the Rust
   *emulates* an operation out of other intrinsics (8-bit multiply through 16-bit words, 64-bit multiply
   from 32-bit partial products, 64-bit compare-and-blend max/min, unsigned 64-bit compare by sign flip,
   horizontal folds through half extraction and strided scalar accumulators, float horizontal trees) the
   model follows the instruction sequence.  Tied to the code by correspondence (B) (checks/regrun.py).
   No proofs here (Proofs/RegProofs.v). *)
From Coq Require Import ZArith List Bool.
From CF Require Import Base.Mem Model.Tables Model.Prim Model.SimdApi.
Import ListNotations.
Local Open Scope Z_scope.

(** * Scalar math layers (hand-written specification of math/default.rs; GenMath.v is the generated one) *)

Definition int_math (sg : bool) (w : Z) : MathOps Z :=
  {| m_zero := 0; m_one := 1; m_max := i_MAX sg w; m_min := i_MIN sg w;
     m_sqrt := i_sqrt sg w; m_abs := i_abs sg w; m_cmp_eq := i_eq;
     m_cmp_min := i_min sg w; m_cmp_max := i_max sg w;
     m_add := i_add w; m_sub := i_sub w; m_mul := i_mul w; m_div := i_div sg w |}.

Definition float_math {prec emax} {Hp : FLX.Prec_gt_0 prec} {He : BinarySingleNaN.Prec_lt_emax prec emax}
  : MathOps (BinarySingleNaN.binary_float prec emax) :=
  {| m_zero := f_zero; m_one := f_one; m_max := f_inf false; m_min := f_inf true;
     m_sqrt := f_sqrt; m_abs := f_abs; m_cmp_eq := f_eq; m_cmp_min := f_min; m_cmp_max := f_max;
     m_add := f_add; m_sub := f_sub; m_mul := f_mul; m_div := fun a b => Some (f_div a b) |}.

(** * Fallback: Register = T, every operation is AutoMath's *)

Definition lane1 {T} (d : T) (r : vreg T) : T := hd d r.

Definition fallback_ops {T} (Mt : MathOps T) : SimdOps T :=
  let d := m_zero Mt in
  let op2 (f : T -> T -> T) (x y : vreg T) : vreg T := [f (lane1 d x) (lane1 d y)] in
  let add := op2 (m_add Mt) in
  let mul := op2 (m_mul Mt) in
  let div (x y : vreg T) : option (vreg T) :=
      match m_div Mt (lane1 d x) (lane1 d y) with Some q => Some [q] | None => None end in
  let fmadd (l1 l2 acc : vreg T) : vreg T := add (mul l1 l2) acc in
  {| lanes := 1;
     r_filled := fun v => [v]; r_zeroed := [m_zero Mt];
     r_add := add; r_sub := op2 (m_sub Mt); r_mul := mul; r_div := div; r_fmadd := fmadd;
     r_max := op2 (m_cmp_max Mt); r_min := op2 (m_cmp_min Mt);
     r_sum_to_value := lane1 d; r_max_to_value := lane1 d; r_min_to_value := lane1 d;
     r_add_dense := apply_dense2 add; r_sub_dense := apply_dense2 (op2 (m_sub Mt));
     r_mul_dense := apply_dense2 mul; r_div_dense := apply_dense2_opt div;
     (* fmadd_dense is overridden: mul_dense then add_dense *)
     r_fmadd_dense := fun l1 l2 acc => apply_dense2 add (apply_dense2 mul l1 l2) acc;
     r_max_dense := apply_dense2 (op2 (m_cmp_max Mt)); r_min_dense := apply_dense2 (op2 (m_cmp_min Mt)) |}.

(** * x86 integer registers *)

Definition div_lanes (sg : bool) (w : Z) (x y : vreg Z) : option (vreg Z) :=
  (* scalar loop over the unpacked lanes, in order; the first zero divisor panics *)
  (fix go (x y : list Z) : option (list Z) :=
     match x, y with
     | a :: x', b :: y' =>
         match i_div sg w a b with
         | None => None
         | Some q => match go x' y' with None => None | Some r => Some (q :: r) end
         end
     | _, _ => Some []
     end) x y.

(* ---- 8-bit multiply through 16-bit words (AVX2 and AVX-512 alike) ---- *)
Definition word16 (lo hi : Z) : Z := lo + 256 * hi.
Definition srai16_8 (x : Z) : Z := wrap 16 (sgn 16 x / 256).        (* _mm*_srai_epi16::<8> *)
Definition slli16_8 (x : Z) : Z := wrap 16 (x * 256).               (* _mm*_slli_epi16::<8> *)
Definition mullo16 (x y : Z) : Z := wrap 16 (x * y).                (* _mm*_mullo_epi16 *)
(* blend: the even byte of each word from [even], the odd byte from [odd]
   (blendv_epi8 with 0xFF00FF00 / mask_blend_epi8 with 0xAAAA...) *)
Definition blend_odd (even odd : Z) : Z := even mod 256 + 256 * (odd / 256).
Definition mul8_word (x y : Z) : Z :=
  let shift_l1 := srai16_8 x in
  let shift_l2 := srai16_8 y in
  let even := mullo16 x y in
  let odd := mullo16 shift_l1 shift_l2 in
  let odd := slli16_8 odd in
  blend_odd even odd.
Fixpoint pairs (l : list Z) : list Z :=
  match l with lo :: hi :: r => word16 lo hi :: pairs r | _ => [] end.
Definition unpairs (l : list Z) : list Z := flat_map (fun x => [x mod 256; x / 256]) l.
Definition mul8 (x y : vreg Z) : vreg Z := unpairs (map2 mul8_word (pairs x) (pairs y)).

(* ---- 64-bit multiply from 32-bit partial products (AVX2) ---- *)
Definition lo32 (a : Z) : Z := a mod 2 ^ 32.
Definition hi32 (a : Z) : Z := a / 2 ^ 32.
Definition mul64_emul (x y : Z) : Z :=
  let digit_1 := lo32 x * lo32 y in                       (* _mm256_mul_epu32(l1, l2) *)
  (* l2_swap swaps the halves of l2; cross_prod = mullo_epi32(l1, l2_swap) *)
  let cross_lo := wrap 32 (lo32 x * hi32 y) in
  let cross_hi := wrap 32 (hi32 x * lo32 y) in
  (* prod_lo = slli_epi64::<32>(cross_prod): low half 0, high half = cross_lo;
     sum_cross = add_epi32(prod_lo, cross_prod): high half = cross_lo + cross_hi (mod 2^32) *)
  let sum_hi := wrap 32 (cross_lo + cross_hi) in
  let digit_2 := sum_hi * 2 ^ 32 in                       (* and_si256(sum_cross, 0xFFFFFFFF00000000) *)
  wrap 64 (digit_1 + digit_2).                            (* add_epi64 *)

(* ---- 64-bit max/min by compare and byte blend (AVX2) ---- *)
Definition cmpgt64 (x y : Z) : Z := if sgn 64 y <? sgn 64 x then 2 ^ 64 - 1 else 0.
Definition byte_of (k : nat) (z : Z) : Z := (z / 256 ^ Z.of_nat k) mod 256.
(* _mm*_blendv_epi8(a, b, mask) on one 64-bit lane: byte k from b iff the top bit of mask byte k is set *)
Definition blendv64 (a b mask : Z) : Z :=
  fold_right Z.add 0
    (map (fun k => (if 128 <=? byte_of k mask then byte_of k b else byte_of k a) * 256 ^ Z.of_nat k)
         (seq 0 8)).
Definition sign_bit64 : Z := 2 ^ 63.
Definition max64_emul (sg : bool) (l1 l2 : Z) : Z :=
  let mask := if sg then cmpgt64 l1 l2 else cmpgt64 (Z.lxor l1 sign_bit64) (Z.lxor l2 sign_bit64) in
  blendv64 l2 l1 mask.
Definition min64_emul (sg : bool) (l1 l2 : Z) : Z :=
  let mask := if sg then cmpgt64 l1 l2 else cmpgt64 (Z.lxor l1 sign_bit64) (Z.lxor l2 sign_bit64) in
  blendv64 l1 l2 mask.

(* ---- horizontal folds (AVX2 integer): hi/lo halves combined, then scalar accumulators ---- *)
Definition upper_half {T} (r : list T) : list T := skipn (Nat.div (length r) 2) r.   (* extracti128::<1> *)
Definition lower_half {T} (r : list T) : list T := firstn (Nat.div (length r) 2) r.  (* castsi256_si128 *)

(* four accumulators over indices i, i+1, i+2, i+3 stepping by 4, then (s1 . s2) . (s3 . s4) *)
Fixpoint strided4 (op : Z -> Z -> Z) (s1 s2 s3 s4 : Z) (l : list Z) : Z :=
  match l with
  | a :: b :: c :: d :: r => strided4 op (op s1 a) (op s2 b) (op s3 c) (op s4 d) r
  | _ => op (op s1 s2) (op s3 s4)
  end.
Definition tree4 (op : Z -> Z -> Z) (l : list Z) : Z :=
  op (op (nth 0 l 0) (nth 1 l 0)) (op (nth 2 l 0) (nth 3 l 0)).
Definition pair2 (op : Z -> Z -> Z) (l : list Z) : Z := op (nth 0 l 0) (nth 1 l 0).

Definition avx2_hfold (w : Z) (lane_op : vreg Z -> vreg Z -> vreg Z) (op : Z -> Z -> Z) (init : Z)
           (reg : vreg Z) : Z :=
  let hi := upper_half reg in
  let lo := lower_half reg in
  let folded := lane_op hi lo in
  if w <=? 16 then strided4 op init init init init folded
  else if w =? 32 then tree4 op folded
  else pair2 op folded.

Definition avx2_int_ops (sg : bool) (w : Z) : SimdOps Z :=
  let Ln := Z.to_nat (256 / w) in
  let add := map2 (i_add w) in
  let sub := map2 (i_sub w) in
  let mul := if w =? 8 then mul8 else if w =? 64 then map2 mul64_emul else map2 (i_mul w) in
  let max := if w =? 64 then map2 (max64_emul sg) else map2 (i_max sg w) in
  let min := if w =? 64 then map2 (min64_emul sg) else map2 (i_min sg w) in
  let div := div_lanes sg w in
  let fmadd := fun l1 l2 acc => add (mul l1 l2) acc in
  {| lanes := Ln;
     r_filled := fun v => repeat v Ln; r_zeroed := repeat 0 Ln;
     r_add := add; r_sub := sub; r_mul := mul; r_div := div; r_fmadd := fmadd; r_max := max; r_min := min;
     r_sum_to_value := avx2_hfold w add (i_add w) 0;
     r_max_to_value := avx2_hfold w max (i_max sg w) (i_MIN sg w);
     r_min_to_value := avx2_hfold w min (i_min sg w) (i_MAX sg w);
     r_add_dense := apply_dense2 add; r_sub_dense := apply_dense2 sub;
     r_mul_dense := apply_dense2 mul;        (* overridden, operation by operation across the 8 registers *)
     r_div_dense := apply_dense2_opt div;
     r_fmadd_dense := fun l1 l2 acc => apply_dense2 add (apply_dense2 mul l1 l2) acc;
     r_max_dense := apply_dense2 max; r_min_dense := apply_dense2 min |}.

(* AVX-512 integers: 8/16-bit folds swap the 256-bit halves and continue in the AVX2 code; 32/64-bit use
   the (order-insensitive) reduce intrinsics; 64-bit multiply/max/min are native. *)
Definition avx512_int_ops (sg : bool) (w : Z) : SimdOps Z :=
  let Ln := Z.to_nat (512 / w) in
  let a2 := avx2_int_ops sg w in
  let add := map2 (i_add w) in
  let sub := map2 (i_sub w) in
  let mul := if w =? 8 then mul8 else map2 (i_mul w) in
  let max := map2 (i_max sg w) in
  let min := map2 (i_min sg w) in
  let div := div_lanes sg w in
  let fmadd := fun l1 l2 acc => add (mul l1 l2) acc in
  let via_avx2 (lane_op : vreg Z -> vreg Z -> vreg Z) (tov : vreg Z -> Z) (reg : vreg Z) : Z :=
      let hi := upper_half reg in          (* shuffle_i64x2::<1,0,3,2>(reg, reg) then cast to 256 *)
      let lo := lower_half reg in
      tov (lane_op hi lo) in
  {| lanes := Ln;
     r_filled := fun v => repeat v Ln; r_zeroed := repeat 0 Ln;
     r_add := add; r_sub := sub; r_mul := mul; r_div := div; r_fmadd := fmadd; r_max := max; r_min := min;
     r_sum_to_value := if w <=? 16 then via_avx2 (r_add a2) (r_sum_to_value a2)
                       else fun reg => fold_left (i_add w) reg 0;
     r_max_to_value := if w <=? 16 then via_avx2 (r_max a2) (r_max_to_value a2)
                       else fun reg => fold_left (i_max sg w) (tl reg) (hd 0 reg);
     r_min_to_value := if w <=? 16 then via_avx2 (r_min a2) (r_min_to_value a2)
                       else fun reg => fold_left (i_min sg w) (tl reg) (hd 0 reg);
     r_add_dense := apply_dense2 add; r_sub_dense := apply_dense2 sub; r_mul_dense := apply_dense2 mul;
     r_div_dense := apply_dense2_opt div;
     r_fmadd_dense := fun l1 l2 acc => apply_dense2 add (apply_dense2 mul l1 l2) acc;
     r_max_dense := apply_dense2 max; r_min_dense := apply_dense2 min |}.

(** * x86 float registers *)

Section FloatRegs.
  Context {prec emax : Z} {Hp : FLX.Prec_gt_0 prec} {He : BinarySingleNaN.Prec_lt_emax prec emax}.
  Notation bf := (BinarySingleNaN.binary_float prec emax).
  Definition fz : bf := f_zero.
  Definition fnth (l : list bf) (k : nat) : bf := nth k l fz.

  (* AVX2 f32 (8 lanes): q = hi + lo; d = q + movehl(q,q); d0 + d1   ==> (q0+q2) + (q1+q3)
     AVX2 f64 (4 lanes): s = hi + lo; s0 + s1 *)
  Definition avx2_fsum (reg : vreg bf) : bf :=
    let q := map2 f_add (upper_half reg) (lower_half reg) in
    match length reg with
    | 8%nat => f_add (f_add (fnth q 0) (fnth q 2)) (f_add (fnth q 1) (fnth q 3))
    | _ => f_add (fnth q 0) (fnth q 1)
    end.
  (* _mm_max_ps(lo, hi) then scalar f32::max tree *)
  Definition avx2_fext (vop sop : bf -> bf -> bf) (reg : vreg bf) : bf :=
    let m := map2 vop (lower_half reg) (upper_half reg) in
    match length reg with
    | 8%nat => sop (sop (fnth m 0) (fnth m 1)) (sop (fnth m 2) (fnth m 3))
    | _ => sop (fnth m 0) (fnth m 1)
    end.

  Definition avx2_float_ops (Ln : nat) (fused : bool) : SimdOps bf :=
    let add := map2 f_add in
    let mul := map2 f_mul in
    let fmadd := if fused then map3 f_fma else fun l1 l2 acc => add (mul l1 l2) acc in
    {| lanes := Ln;
       r_filled := fun v => repeat v Ln; r_zeroed := repeat fz Ln;
       r_add := add; r_sub := map2 f_sub; r_mul := mul; r_div := fun x y => Some (map2 f_div x y);
       r_fmadd := fmadd; r_max := map2 x86_max; r_min := map2 x86_min;
       r_sum_to_value := avx2_fsum;
       r_max_to_value := avx2_fext x86_max f_max; r_min_to_value := avx2_fext x86_min f_min;
       r_add_dense := apply_dense2 add; r_sub_dense := apply_dense2 (map2 f_sub);
       r_mul_dense := apply_dense2 mul;
       r_div_dense := apply_dense2_opt (fun x y => Some (map2 f_div x y));
       (* Avx2 overrides fmadd_dense with mul_dense/add_dense; Avx2Fma keeps the default *)
       r_fmadd_dense := if fused then apply_dense3 fmadd
                        else fun l1 l2 acc => apply_dense2 add (apply_dense2 mul l1 l2) acc;
       r_max_dense := apply_dense2 (map2 x86_max); r_min_dense := apply_dense2 (map2 x86_min) |}.

  (* AVX-512 float folds, as the installed stdarch defines the reduce intrinsics:
       ps: a8 = lo8 . hi8; a4 = a8[0..4] . a8[4..8]; a = a4 . shuffle[2,3,0,1](a4); a[0] . a[1]
       pd: a4 = lo4 . hi4; a2 = a4[0..2] . a4[2..4]; a2[0] . a2[1] *)
  Definition avx512_ftree (op : bf -> bf -> bf) (reg : vreg bf) : bf :=
    let a := map2 op (lower_half reg) (upper_half reg) in
    let a := map2 op (lower_half a) (upper_half a) in
    match length reg with
    | 16%nat => let s := [fnth a 2; fnth a 3; fnth a 0; fnth a 1] in
                let a := map2 op a s in
                op (fnth a 0) (fnth a 1)
    | _ => op (fnth a 0) (fnth a 1)
    end.

  Definition avx512_float_ops (Ln : nat) : SimdOps bf :=
    let add := map2 f_add in
    let mul := map2 f_mul in
    with_default_dense Ln
      (fun v => repeat v Ln) (repeat fz Ln)
      add (map2 f_sub) mul (fun x y => Some (map2 f_div x y))
      (map3 f_fma) (map2 x86_max) (map2 x86_min)
      (avx512_ftree f_add) (avx512_ftree x86_max) (avx512_ftree x86_min).
End FloatRegs.

(** * Which model stands for which (register, element type) of the source *)

Definition int_signed (t : ty) : bool := is_signed t.

Definition int_ops (r : reg) (t : ty) : option (SimdOps Z) :=
  if is_float t then None
  else match r with
       | Fallback => Some (fallback_ops (int_math (int_signed t) (width t)))
       | Avx2 | Avx2Fma => Some (avx2_int_ops (int_signed t) (width t))   (* integers have no Avx2Fma impl *)
       | Avx512 => Some (avx512_int_ops (int_signed t) (width t))
       | Neon => None
       end.

Definition f32_ops (r : reg) : option (SimdOps f32) :=
  match r with
  | Fallback => Some (fallback_ops float_math)
  | Avx2 => Some (avx2_float_ops 8 false)
  | Avx2Fma => Some (avx2_float_ops 8 true)
  | Avx512 => Some (avx512_float_ops 16)
  | Neon => None
  end.
Definition f64_ops (r : reg) : option (SimdOps f64) :=
  match r with
  | Fallback => Some (fallback_ops float_math)
  | Avx2 => Some (avx2_float_ops 4 false)
  | Avx2Fma => Some (avx2_float_ops 4 true)
  | Avx512 => Some (avx512_float_ops 8)
  | Neon => None
  end.
