(* The 19 generic kernels of cfavml/src/danger/op_*.rs, mirrored line by line over the record form of the
   SimdRegister / Math traits.  Every kernel is the same three-phase skeleton

     offset_from = dims % elements_per_dense;  while i < dims - offset_from { dense step; i += 8L }
     roll-up;  offset_from %= L;               while i < dims - offset_from { lane step;  i += L  }
     to-value;                                 while i < dims               { scalar step; i += 1 }

   ([three_phase]); each kernel supplies its three steps, its initial accumulator and the two conversions.
   That each Rust copy really is that instance is what correspondence (A) (symbolic run of the real code)
   checks kernel by kernel.  No proofs here. *)
From Coq Require Import List Arith Bool.
From CF Require Import Base.Mem Model.SimdApi Model.Tables.
Import ListNotations.

Section Kernels.
  Context {T : Type}.
  Variable R : SimdOps T.
  Variable Mth : MathOps T.

  Definition L := lanes R.
  Definition dflt : T := m_zero Mth.       (* default of [hd]; never observed: loads return w elements *)

  Definition three_phase {S1 S2 S3 : Type} (dims : nat)
             (init : S1) (dense_step : nat -> S1 -> M T S1)
             (roll : S1 -> S2) (lane_step : nat -> S2 -> M T S2)
             (tovalue : S2 -> S3) (scalar_step : nat -> S3 -> M T S3) : M T S3 :=
    let fuel := S dims in
    let offset_from := dims mod elements_per_dense R in
    '(i, s1) <- while_lt fuel 0 (dims - offset_from) (elements_per_dense R) dense_step init ;;
    let s2 := roll s1 in
    let offset_from := offset_from mod L in
    '(i, s2) <- while_lt fuel i (dims - offset_from) L lane_step s2 ;;
    let s3 := tovalue s2 in
    '(i, s3) <- while_lt fuel i dims 1 scalar_step s3 ;;
    ret s3.

  (** ** Horizontal reductions *)

  (* generic_sum *)
  Definition generic_sum (dims : nat) : M T T :=
    three_phase dims
      (zeroed_dense R)
      (fun i sum => l1 <- load_dense R SA i ;; ret (r_add_dense R sum l1))
      (sum_to_register R)
      (fun i sum => l1 <- load SA i L ;; ret (r_add R sum l1))
      (r_sum_to_value R)
      (fun i sum => a <- read1 dflt SA i ;; ret (m_add Mth sum a)).

  (* generic_dot_product *)
  Definition generic_dot_product (dims : nat) : M T T :=
    three_phase dims
      (zeroed_dense R)
      (fun i total => l1 <- load_dense R SA i ;; l2 <- load_dense R SB i ;;
                      ret (r_fmadd_dense R l1 l2 total))
      (sum_to_register R)
      (fun i total => l1 <- load SA i L ;; l2 <- load SB i L ;; ret (r_fmadd R l1 l2 total))
      (r_sum_to_value R)
      (fun i total => a <- read1 dflt SA i ;; b <- read1 dflt SB i ;;
                      ret (m_add Mth total (m_mul Mth a b))).

  (* generic_squared_norm *)
  Definition generic_squared_norm (dims : nat) : M T T :=
    three_phase dims
      (zeroed_dense R)
      (fun i total => l1 <- load_dense R SA i ;; ret (r_fmadd_dense R l1 l1 total))
      (sum_to_register R)
      (fun i total => l1 <- load SA i L ;; ret (r_fmadd R l1 l1 total))
      (r_sum_to_value R)
      (fun i total => a <- read1 dflt SA i ;; ret (m_add Mth total (m_mul Mth a a))).

  (* generic_euclidean *)
  Definition generic_euclidean (dims : nat) : M T T :=
    three_phase dims
      (zeroed_dense R)
      (fun i total => l1 <- load_dense R SA i ;; l2 <- load_dense R SB i ;;
                      let diff := r_sub_dense R l1 l2 in
                      ret (r_fmadd_dense R diff diff total))
      (sum_to_register R)
      (fun i total => l1 <- load SA i L ;; l2 <- load SB i L ;;
                      let diff := r_sub R l1 l2 in
                      ret (r_fmadd R diff diff total))
      (r_sum_to_value R)
      (fun i total => a <- read1 dflt SA i ;; b <- read1 dflt SB i ;;
                      let diff := m_sub Mth a b in
                      ret (m_add Mth total (m_mul Mth diff diff))).

  (* op_cosine::cosine *)
  Definition cosine (dot_product norm_x norm_y : T) : option T :=
    if m_cmp_eq Mth norm_x (m_zero Mth) && m_cmp_eq Mth norm_y (m_zero Mth) then Some (m_zero Mth)
    else if m_cmp_eq Mth norm_x (m_zero Mth) || m_cmp_eq Mth norm_y (m_zero Mth) then Some (m_one Mth)
    else match m_div Mth dot_product (m_sqrt Mth (m_mul Mth norm_x norm_y)) with
         | Some q => Some (m_sub Mth (m_one Mth) q)
         | None => None
         end.

  (* generic_cosine: the two norms in one pass, then the dot product kernel, then [cosine]. *)
  Definition generic_cosine (dims : nat) : M T T :=
    '(norm_a, norm_b) <-
      three_phase dims
        (zeroed_dense R, zeroed_dense R)
        (fun i '(norm_a, norm_b) =>
           l1 <- load_dense R SA i ;; l2 <- load_dense R SB i ;;
           ret (r_fmadd_dense R l1 l1 norm_a, r_fmadd_dense R l2 l2 norm_b))
        (fun '(norm_a, norm_b) => (sum_to_register R norm_a, sum_to_register R norm_b))
        (fun i '(norm_a, norm_b) =>
           l1 <- load SA i L ;; l2 <- load SB i L ;;
           ret (r_fmadd R l1 l1 norm_a, r_fmadd R l2 l2 norm_b))
        (fun '(norm_a, norm_b) => (r_sum_to_value R norm_a, r_sum_to_value R norm_b))
        (fun i '(norm_a, norm_b) =>
           a <- read1 dflt SA i ;; b <- read1 dflt SB i ;;
           ret (m_add Mth norm_a (m_mul Mth a a), m_add Mth norm_b (m_mul Mth b b))) ;;
    dot <- generic_dot_product dims ;;
    lift_opt (cosine dot norm_a norm_b).

  (* generic_max_horizontal / generic_min_horizontal *)
  Definition generic_max_horizontal (dims : nat) : M T T :=
    three_phase dims
      (filled_dense R (m_min Mth))
      (fun i mx => l1 <- load_dense R SA i ;; ret (r_max_dense R mx l1))
      (max_to_register R)
      (fun i mx => l1 <- load SA i L ;; ret (r_max R mx l1))
      (r_max_to_value R)
      (fun i mx => a <- read1 dflt SA i ;; ret (m_cmp_max Mth mx a)).

  Definition generic_min_horizontal (dims : nat) : M T T :=
    three_phase dims
      (filled_dense R (m_max Mth))
      (fun i mn => l1 <- load_dense R SA i ;; ret (r_min_dense R mn l1))
      (min_to_register R)
      (fun i mn => l1 <- load SA i L ;; ret (r_min R mn l1))
      (r_min_to_value R)
      (fun i mn => a <- read1 dflt SA i ;; ret (m_cmp_min Mth mn a)).

  (** ** Element-wise kernels: result[i] = f(a[i], b[i]) / f(a[i], value) *)

  (* vector (x) vector, infallible register op *)
  Definition map_vector (dims : nat)
             (op_dense : dense T -> dense T -> dense T) (op : vreg T -> vreg T -> vreg T) (sop : T -> T -> T)
    : M T unit :=
    three_phase dims
      tt
      (fun i _ => l1 <- load_dense R SA i ;; l2 <- load_dense R SB i ;;
                  write_dense R i (op_dense l1 l2))
      (fun u => u)
      (fun i _ => l1 <- load SA i L ;; l2 <- load SB i L ;; store i (op l1 l2))
      (fun u => u)
      (fun i _ => a <- read1 dflt SA i ;; b <- read1 dflt SB i ;; write1 i (sop a b)).

  (* vector (x) broadcast value; [bd] = the dense broadcast, [br] = the single-register broadcast *)
  Definition map_value (dims : nat) (value : T) (bd : dense T) (br : vreg T)
             (op_dense : dense T -> dense T -> dense T) (op : vreg T -> vreg T -> vreg T) (sop : T -> T -> T)
    : M T unit :=
    three_phase dims
      tt
      (fun i _ => l1 <- load_dense R SA i ;; write_dense R i (op_dense l1 bd))
      (fun u => u)
      (fun i _ => l1 <- load SA i L ;; store i (op l1 br))
      (fun u => u)
      (fun i _ => a <- read1 dflt SA i ;; write1 i (sop a value)).

  Definition generic_max_vertical dims := map_vector dims (r_max_dense R) (r_max R) (m_cmp_max Mth).
  Definition generic_min_vertical dims := map_vector dims (r_min_dense R) (r_min R) (m_cmp_min Mth).
  Definition generic_add_vector dims := map_vector dims (r_add_dense R) (r_add R) (m_add Mth).
  Definition generic_sub_vector dims := map_vector dims (r_sub_dense R) (r_sub R) (m_sub Mth).
  Definition generic_mul_vector dims := map_vector dims (r_mul_dense R) (r_mul R) (m_mul Mth).

  (* let broadcast_dense = R::filled_dense(value); ... let broadcast_reg = broadcast_dense.a; *)
  Definition generic_max_value dims value :=
    let bd := filled_dense R value in
    map_value dims value bd (nth_reg bd 0) (r_max_dense R) (r_max R) (m_cmp_max Mth).
  Definition generic_min_value dims value :=
    let bd := filled_dense R value in
    map_value dims value bd (nth_reg bd 0) (r_min_dense R) (r_min R) (m_cmp_min Mth).
  (* let value_reg = R::filled(value); let value_dense = DenseLane::copy(value_reg); *)
  Definition generic_add_value dims value :=
    let vr := r_filled R value in
    map_value dims value (dense_copy vr) vr (r_add_dense R) (r_add R) (m_add Mth).
  Definition generic_sub_value dims value :=
    let vr := r_filled R value in
    map_value dims value (dense_copy vr) vr (r_sub_dense R) (r_sub R) (m_sub Mth).
  Definition generic_mul_value dims value :=
    let vr := r_filled R value in
    map_value dims value (dense_copy vr) vr (r_mul_dense R) (r_mul R) (m_mul Mth).

  (* division: the register and scalar operations can panic (integer zero divisor) *)
  Definition generic_div_vector (dims : nat) : M T unit :=
    three_phase dims
      tt
      (fun i _ => l1 <- load_dense R SA i ;; l2 <- load_dense R SB i ;;
                  res <- lift_opt (r_div_dense R l1 l2) ;; write_dense R i res)
      (fun u => u)
      (fun i _ => l1 <- load SA i L ;; l2 <- load SB i L ;;
                  res <- lift_opt (r_div R l1 l2) ;; store i res)
      (fun u => u)
      (fun i _ => a <- read1 dflt SA i ;; b <- read1 dflt SB i ;;
                  q <- lift_opt (m_div Mth a b) ;; write1 i q).

  Definition generic_div_value (dims : nat) (value : T) : M T unit :=
    let vr := r_filled R value in
    let vd := dense_copy vr in
    three_phase dims
      tt
      (fun i _ => l1 <- load_dense R SA i ;;
                  res <- lift_opt (r_div_dense R l1 vd) ;; write_dense R i res)
      (fun u => u)
      (fun i _ => l1 <- load SA i L ;; res <- lift_opt (r_div R l1 vr) ;; store i res)
      (fun u => u)
      (fun i _ => a <- read1 dflt SA i ;; q <- lift_opt (m_div Mth a value) ;; write1 i q).

  (** ** Uniform entry point: run kernel [k] on (a, b, value, result). *)

  Inductive kresult := RValue (v : T) | RUnit.

  Definition run_kernel (k : kernel) (dims : nat) (value : T) : M T kresult :=
    let val (c : M T T) : M T kresult := v <- c ;; ret (RValue v) in
    let unit (c : M T unit) : M T kresult := _ <- c ;; ret RUnit in
    match k with
    | KDot => val (generic_dot_product dims)
    | KCosine => val (generic_cosine dims)
    | KEuclid => val (generic_euclidean dims)
    | KNorm => val (generic_squared_norm dims)
    | KSum => val (generic_sum dims)
    | KMaxH => val (generic_max_horizontal dims)
    | KMinH => val (generic_min_horizontal dims)
    | KMaxV => unit (generic_max_vertical dims)
    | KMinV => unit (generic_min_vertical dims)
    | KMaxVal => unit (generic_max_value dims value)
    | KMinVal => unit (generic_min_value dims value)
    | KAddVal => unit (generic_add_value dims value)
    | KSubVal => unit (generic_sub_value dims value)
    | KMulVal => unit (generic_mul_value dims value)
    | KDivVal => unit (generic_div_value dims value)
    | KAddVec => unit (generic_add_vector dims)
    | KSubVec => unit (generic_sub_vector dims)
    | KMulVec => unit (generic_mul_vector dims)
    | KDivVec => unit (generic_div_vector dims)
    end.
End Kernels.

Arguments RValue {T}. Arguments RUnit {T}.

Definition kernel_uses_b (k : kernel) : bool := existsb (param_eqb PB) (kernel_params k).
Definition kernel_writes (k : kernel) : bool := existsb (param_eqb PResult) (kernel_params k).
