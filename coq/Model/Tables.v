(* Types of the tables regenerated from /repo by tools/translate.py (Gen/*.v).
   Nothing here is specific to the current contents of the repository. *)
From Coq Require Import String List Bool.
Import ListNotations.
Open Scope string_scope.

Inductive ty := I8 | I16 | I32 | I64 | U8 | U16 | U32 | U64 | F32 | F64.
Inductive reg := Fallback | Avx2 | Avx2Fma | Avx512 | Neon.
Inductive kernel :=
| KDot | KCosine | KEuclid | KNorm | KSum
| KMaxH | KMaxV | KMaxVal | KMinH | KMinV | KMinVal
| KAddVal | KSubVal | KMulVal | KDivVal
| KAddVec | KSubVec | KMulVec | KDivVec.

Definition ty_eqb (a b : ty) : bool :=
  match a, b with
  | I8, I8 | I16, I16 | I32, I32 | I64, I64 | U8, U8 | U16, U16 | U32, U32 | U64, U64
  | F32, F32 | F64, F64 => true
  | _, _ => false
  end.
Definition reg_eqb (a b : reg) : bool :=
  match a, b with
  | Fallback, Fallback | Avx2, Avx2 | Avx2Fma, Avx2Fma | Avx512, Avx512 | Neon, Neon => true
  | _, _ => false
  end.
Definition kernel_eqb (a b : kernel) : bool :=
  match a, b with
  | KDot, KDot | KCosine, KCosine | KEuclid, KEuclid | KNorm, KNorm | KSum, KSum
  | KMaxH, KMaxH | KMaxV, KMaxV | KMaxVal, KMaxVal | KMinH, KMinH | KMinV, KMinV | KMinVal, KMinVal
  | KAddVal, KAddVal | KSubVal, KSubVal | KMulVal, KMulVal | KDivVal, KDivVal
  | KAddVec, KAddVec | KSubVec, KSubVec | KMulVec, KMulVec | KDivVec, KDivVec => true
  | _, _ => false
  end.

Definition is_float (t : ty) : bool := match t with F32 | F64 => true | _ => false end.
Definition is_signed (t : ty) : bool := match t with I8 | I16 | I32 | I64 => true | _ => false end.

Definition ty_name (t : ty) : string :=
  match t with
  | I8 => "i8" | I16 => "i16" | I32 => "i32" | I64 => "i64"
  | U8 => "u8" | U16 => "u16" | U32 => "u32" | U64 => "u64"
  | F32 => "f32" | F64 => "f64"
  end.

(* The name of the generic routine in the Rust source that each kernel constant stands for
   (the translator maps `op = generic_xxx` to the constant by this very table, in reverse). *)
Definition kernel_rust_name (k : kernel) : string :=
  match k with
  | KDot => "generic_dot_product" | KCosine => "generic_cosine" | KEuclid => "generic_euclidean"
  | KNorm => "generic_squared_norm" | KSum => "generic_sum"
  | KMaxH => "generic_max_horizontal" | KMaxV => "generic_max_vertical" | KMaxVal => "generic_max_value"
  | KMinH => "generic_min_horizontal" | KMinV => "generic_min_vertical" | KMinVal => "generic_min_value"
  | KAddVal => "generic_add_value" | KSubVal => "generic_sub_value"
  | KMulVal => "generic_mul_value" | KDivVal => "generic_div_value"
  | KAddVec => "generic_add_vector" | KSubVec => "generic_sub_vector"
  | KMulVec => "generic_mul_vector" | KDivVec => "generic_div_vector"
  end.

(* The operation part of an exported routine's name. *)
Definition kernel_opname (k : kernel) : string :=
  match k with
  | KDot => "dot" | KCosine => "cosine" | KEuclid => "squared_euclidean"
  | KNorm => "squared_norm" | KSum => "sum"
  | KMaxH => "max_horizontal" | KMaxV => "max_vertical" | KMaxVal => "max_value"
  | KMinH => "min_horizontal" | KMinV => "min_vertical" | KMinVal => "min_value"
  | KAddVal => "add_value" | KSubVal => "sub_value" | KMulVal => "mul_value" | KDivVal => "div_value"
  | KAddVec => "add_vector" | KSubVec => "sub_vector" | KMulVec => "mul_vector" | KDivVec => "div_vector"
  end.

Definition all_kernels : list kernel :=
  [KDot; KCosine; KEuclid; KNorm; KSum; KMaxH; KMaxV; KMaxVal; KMinH; KMinV; KMinVal;
   KAddVal; KSubVal; KMulVal; KDivVal; KAddVec; KSubVec; KMulVec; KDivVec].
Definition all_tys : list ty := [I8; I16; I32; I64; U8; U16; U32; U64; F32; F64].
Definition all_regs : list reg := [Fallback; Avx2; Avx2Fma; Avx512; Neon].

(* Shape of a kernel's argument list after `dims`. *)
Inductive param := PValue | PA | PB | PResult.
Definition param_eqb (a b : param) : bool :=
  match a, b with PValue, PValue | PA, PA | PB, PB | PResult, PResult => true | _, _ => false end.

Definition kernel_params (k : kernel) : list param :=
  match k with
  | KDot | KCosine | KEuclid => [PA; PB]
  | KNorm | KSum | KMaxH | KMinH => [PA]
  | KMaxV | KMinV | KAddVec | KSubVec | KMulVec | KDivVec => [PA; PB; PResult]
  | KMaxVal | KMinVal | KAddVal | KSubVal | KMulVal | KDivVal => [PValue; PA; PResult]
  end.

(* Does the kernel go through `fmadd` (and therefore come in fused/unfused flavours)? *)
Definition kernel_uses_fmadd (k : kernel) : bool :=
  match k with KDot | KCosine | KEuclid | KNorm => true | _ => false end.

(** * Export tables (danger/export_*.rs) *)

Record export := {
  e_macro : string;       (* macro invoked *)
  e_module : string;      (* enclosing `pub mod` *)
  e_modcfg : string;      (* textual cfg of the enclosing module, "" when none *)
  e_ty : ty;
  e_reg : reg;
  e_op : kernel;
  e_xconst : string;
  e_xany : string;
  e_feats : list string   (* `features = ...`, [] for the featureless arm *)
}.

Inductive dimarg := DimConst | DimALen | DimOther (s : string).
Definition dimarg_eqb (a b : dimarg) : bool :=
  match a, b with
  | DimConst, DimConst | DimALen, DimALen => true
  | DimOther x, DimOther y => String.eqb x y
  | _, _ => false
  end.

(* One `pub unsafe fn` generated by an export macro arm. *)
Record export_fn := {
  xf_namevar : string;          (* "xconst_name" | "xany_name" *)
  xf_const_generic : bool;      (* <const DIMS: usize> *)
  xf_unsafe : bool;
  xf_target_feature : bool;     (* #[target_feature($(enable = $feat , )* )] present *)
  xf_params : list param;       (* declared parameter list, in order *)
  xf_callee : string;           (* "$op" expected *)
  xf_callee_reg : string;       (* "$im" expected *)
  xf_callee_math : string;      (* "AutoMath" expected *)
  xf_dim : dimarg;              (* first argument of the call *)
  xf_args : list param          (* remaining arguments of the call *)
}.
Record export_arm := { xa_has_features : bool; xa_fns : list export_fn }.
Record export_macro := { xm_name : string; xm_arms : list export_arm }.

(** * Safe wrapper tables (safe_*.rs) *)

Inductive slot := SAvx512 | SAvx2Fma | SAvx2 | SNeon | SFallback.
Definition slot_eqb (a b : slot) : bool :=
  match a, b with
  | SAvx512, SAvx512 | SAvx2Fma, SAvx2Fma | SAvx2, SAvx2 | SNeon, SNeon | SFallback, SFallback => true
  | _, _ => false
  end.
Definition all_slots : list slot := [SAvx512; SAvx2Fma; SAvx2; SNeon; SFallback].

Inductive lenexp := LA | LB | LR | LDIMS.
Definition lenexp_eqb (a b : lenexp) : bool :=
  match a, b with LA, LA | LB, LB | LR, LR | LDIMS, LDIMS => true | _, _ => false end.

Record safe_dispatch_slot := {
  ds_slot : slot;
  ds_fnvar : string;            (* macro variable naming the routine, e.g. "avx2_const_name" *)
  ds_turbofish_dims : bool;     (* `::<DIMS>` *)
  ds_args : list param
}.
Record safe_fn := {
  sf_namevar : string;          (* "const_name" | "any_name" *)
  sf_const_generic : bool;
  sf_params : list param;
  sf_asserts : list (lenexp * lenexp);        (* assert_eq! in order *)
  sf_debug_asserts : list (lenexp * lenexp);  (* debug_assert_eq! *)
  sf_dispatch : list safe_dispatch_slot
}.
Record safe_macro := {
  sm_name : string;
  sm_positional : list string;  (* positional macro variables after any_name, in order *)
  sm_fns : list safe_fn
}.
Record safe_entry := {
  s_macro : string;
  s_ty : ty;
  s_const : string;
  s_any : string;
  s_slots : list string         (* positional identifiers handed to the macro *)
}.

(** * Dispatch (dispatch.rs) *)

Inductive cfgexp :=
| CTrue
| CArch (a : string)            (* target_arch = "..." *)
| CFeature (f : string)         (* feature = "..." *)
| CTargetFeature (f : string)   (* target_feature = "..." *)
| CFlag (f : string)            (* bare flag, e.g. test, miri *)
| CAll (l : list cfgexp)
| CAny (l : list cfgexp)
| CNot (c : cfgexp).

Inductive pred := PAvx512 | PAvx2 | PFma | PNeon.
Definition pred_eqb (a b : pred) : bool :=
  match a, b with PAvx512, PAvx512 | PAvx2, PAvx2 | PFma, PFma | PNeon, PNeon => true | _, _ => false end.

(* Boolean structure of an `if` condition inside an `is_*_available` function. *)
Inductive pexp :=
| PxCt (c : cfgexp)             (* cfg!( ... ) : compile-time constant *)
| PxRt (m f : string)           (* is_x86_feature_detected!("f") and the like: run-time *)
| PxAnd (a b : pexp)
| PxOr (a b : pexp)
| PxNot (a : pexp)
| PxLit (b : bool).

(* `is_X_available`: a list of `[#[cfg(c)]] if e { return true; }` arms, falling through to `false`
   (pd_default). *)
Record pred_def := {
  pd_pred : pred;
  pd_cfg : cfgexp;                         (* cfg on the function itself *)
  pd_arms : list (cfgexp * pexp);
  pd_default : bool
}.

(* One link of the early-return chain inside `dispatch!`. *)
Record chain_entry := {
  ce_slot : slot;               (* which `$(slot = ...)?` group this link sits in *)
  ce_optional : bool;
  ce_cfg : cfgexp;              (* #[cfg(..)] on the `if` *)
  ce_guard : list pred;         (* conjunction of is_*_available() calls *)
  ce_fnvar : string;            (* macro variable invoked: "avx512_fn" ... *)
  ce_argvar : string            (* macro variable of the argument list: "arg1" ... *)
}.
Record dispatch_pattern_group := {
  pg_slot : slot; pg_optional : bool; pg_fnvar : string; pg_argvar : string
}.
