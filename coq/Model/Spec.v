(* Executable SPECIFICATIONS (what the properties say, independent of kernels and registers): used as the
   oracle that decides whether an implementation output violates a property (DESIGN §2.6 step 4), and as the
   right-hand sides of the correctness theorems. *)
From Coq Require Import ZArith List Bool.
From CF Require Import Model.Tables Model.Prim Model.SimdApi.
Import ListNotations.
Local Open Scope Z_scope.

Inductive sres (T : Type) :=
| SVal (v : T)               (* a returned value *)
| SVec (l : list T)          (* the contents of the result slice *)
| SPanic                     (* must panic *)
| SUnspecified.              (* the property does not constrain this input (e.g. NaN for min/max) *)
Arguments SVal {T}. Arguments SVec {T}. Arguments SPanic {T}. Arguments SUnspecified {T}.

Definition Zsum (l : list Z) : Z := fold_right Z.add 0 l.

Section IntSpec.
  Variables (sg : bool) (w : Z).
  Definition V := ival sg w.                       (* the number a bit pattern denotes *)
  Definition of_val (z : Z) : Z := wrap w z.       (* back to a bit pattern *)

  Definition spec_int (k : kernel) (v : Z) (a b : list Z) : sres Z :=
    let vec (f : Z -> Z -> Z) := SVec (map2 (fun x y => of_val (f (V x) (V y))) a b) in
    let vecv (f : Z -> Z -> Z) := SVec (map (fun x => of_val (f (V x) (V v))) a) in
    let tdiv x y := Z.quot x y in                  (* truncating division; MIN / -1 wraps through of_val *)
    match k with
    | KAddVec => vec Z.add | KSubVec => vec Z.sub | KMulVec => vec Z.mul
    | KMaxV => vec Z.max | KMinV => vec Z.min
    | KDivVec => if existsb (Z.eqb 0) (firstn (length a) b) then SPanic else vec tdiv
    | KAddVal => vecv Z.add | KSubVal => vecv Z.sub | KMulVal => vecv Z.mul
    | KMaxVal => vecv Z.max | KMinVal => vecv Z.min
    | KDivVal => if (v =? 0) && negb (Nat.eqb (length a) 0) then SPanic else vecv tdiv
    | KSum => SVal (of_val (Zsum (map V a)))
    | KDot => SVal (of_val (Zsum (map2 (fun x y => V x * V y) a b)))
    | KNorm => SVal (of_val (Zsum (map (fun x => V x * V x) a)))
    | KEuclid => SVal (of_val (Zsum (map2 (fun x y => (V x - V y) * (V x - V y)) a b)))
    | KMaxH => SVal (of_val (fold_right Z.max (V (i_MIN sg w)) (map V a)))
    | KMinH => SVal (of_val (fold_right Z.min (V (i_MAX sg w)) (map V a)))
    | KCosine =>
        (* the formula in wrapping integer arithmetic with the truncated square root *)
        let dot := of_val (Zsum (map2 (fun x y => V x * V y) a b)) in
        let nx := of_val (Zsum (map (fun x => V x * V x) a)) in
        let ny := of_val (Zsum (map (fun x => V x * V x) b)) in
        if (nx =? 0) && (ny =? 0) then SVal 0
        else if (nx =? 0) || (ny =? 0) then SVal 1
        else let s := i_sqrt sg w (i_mul w nx ny) in
             match i_div sg w dot s with
             | None => SPanic
             | Some q => SVal (i_sub w 1 q)
             end
    end.
End IntSpec.

Section FloatSpec.
  Context {prec emax : Z} {Hp : FLX.Prec_gt_0 prec} {He : BinarySingleNaN.Prec_lt_emax prec emax}.
  Notation bf := (BinarySingleNaN.binary_float prec emax).

  (* numerically larger / smaller of two non-NaN floats (either zero for +0 / -0: compared modulo sign of zero) *)
  Definition sp_max (x y : bf) : bf := if f_lt x y then y else x.
  Definition sp_min (x y : bf) : bf := if f_lt y x then y else x.
  Definition any_nan (l : list bf) : bool := existsb f_is_nan l.

  (* element-wise operations and extremes are fully specified; the float reductions are specified by the
     error bound of C04 and decided separately *)
  Definition spec_float (k : kernel) (v : bf) (a b : list bf) : sres bf :=
    match k with
    | KAddVec => SVec (map2 f_add a b) | KSubVec => SVec (map2 f_sub a b)
    | KMulVec => SVec (map2 f_mul a b) | KDivVec => SVec (map2 f_div a b)
    | KAddVal => SVec (map (fun x => f_add x v) a) | KSubVal => SVec (map (fun x => f_sub x v) a)
    | KMulVal => SVec (map (fun x => f_mul x v) a) | KDivVal => SVec (map (fun x => f_div x v) a)
    | KMaxV => if any_nan a || any_nan b then SUnspecified else SVec (map2 sp_max a b)
    | KMinV => if any_nan a || any_nan b then SUnspecified else SVec (map2 sp_min a b)
    | KMaxVal => if any_nan a || f_is_nan v then SUnspecified else SVec (map (fun x => sp_max x v) a)
    | KMinVal => if any_nan a || f_is_nan v then SUnspecified else SVec (map (fun x => sp_min x v) a)
    | KMaxH => if any_nan a then SUnspecified else SVal (fold_right sp_max (f_inf true) a)
    | KMinH => if any_nan a then SUnspecified else SVal (fold_right sp_min (f_inf false) a)
    | _ => SUnspecified
    end.
End FloatSpec.
