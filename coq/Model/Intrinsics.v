(* Meaning of the SIMD intrinsics the register back ends are written in (TRUSTED, hand-written; the other half of the
   trusted base of the "generated register model" tie is tools/translate_regs.py).

   Values.  An integer vector (`__m128i`, `__m256i`, `__m512i`, `int8x16_t`, `uint32x4_t`, ...) is the list of its
   BYTES, little-endian, each a Z in [0, 256): 16, 32 or 64 of them.  The same register is read at several lane
   widths by different instructions (the AVX2 `i8` multiply runs `mullo_epi16` on `i8` data), which is exactly what
   the byte representation is for: [lanes_of w] groups w/8 consecutive bytes into one lane value (a bit pattern in
   [0, 2^w)), [bytes_of w] is its inverse.  A float vector (`__m256`, `__m512d`, `float32x4_t`, ...) is the list of
   its lanes as Flocq floats ([Prim.f32], [Prim.f64]; one NaN).  An integer scalar (`i8`, `u32`, a `__mmask64`) is
   its bit pattern; `as` between integer types of the same width is the identity on bit patterns.

   Every intrinsic FAMILY is defined once, generically in lane width and register length; then one thin definition
   per intrinsic NAME the impl files use (`Definition mm256_add_epi8 := vadd 8.`).  Const-generic immediates
   (`::<8>`) are the leading arguments.  Sources of the semantics: Intel Intrinsics Guide pseudo-code for the x86
   families; for everything that the installed stdarch implements in Rust rather than by an LLVM builtin (the
   `_mm512_reduce_*` family, `_mm512_mask_blend_epi8`, `_mm512_shuffle_i64x2`, `_mm512_mullox_epi64`, the NEON integer
   `vmaxq`/`vminq`/`vaddvq`/`vmaxvq`/`vminvq`, `vfmaq`) the definition follows
   rust-src/library/stdarch/crates/core_arch/src/{x86/avx512f.rs, x86/avx512bw.rs, aarch64/neon/generated.rs,
   arm_shared/neon/generated.rs} of the pinned nightly toolchain; Arm ARM (DDI 0487) shared pseudo-code FPMax/FPMin/
   Reduce for the NEON float max/min and across-vector reductions.  No proofs here (Proofs/IntrinsicsFacts.v). *)
From Coq Require Import ZArith List Bool.
From Flocq Require Import IEEE754.BinarySingleNaN.
From CF Require Import Model.Prim Model.SimdApi.
Import ListNotations.
Local Open Scope Z_scope.

(** * Bytes and lanes *)

(* little-endian value of a byte string / the k low bytes of a value *)
Fixpoint le_val (bs : list Z) : Z :=
  match bs with [] => 0 | b :: r => b + 256 * le_val r end.
Fixpoint le_bytes (k : nat) (z : Z) : list Z :=
  match k with O => [] | S k' => z mod 256 :: le_bytes k' (z / 256) end.

(* consecutive groups of k elements (a trailing partial group is kept; fuel = length suffices) *)
Fixpoint chunks_aux {A} (fuel k : nat) (l : list A) : list (list A) :=
  match fuel with
  | O => []
  | S f => match l with [] => [] | _ => firstn k l :: chunks_aux f k (skipn k l) end
  end.
Definition chunks {A} (k : nat) (l : list A) : list (list A) := chunks_aux (length l) k l.

Definition nbytes (w : Z) : nat := Z.to_nat (w / 8).
Definition lanes_of (w : Z) (bs : list Z) : list Z := map le_val (chunks (nbytes w) bs).
Definition bytes_of (w : Z) (ls : list Z) : list Z := flat_map (le_bytes (nbytes w)) ls.

(** * DenseLane<T> (core_simd_api.rs: `pub struct DenseLane<T> { a, b, c, d, e, f, g, h }`) *)
Record DenseLane (A : Type) := mkDense { da : A; db : A; dc : A; dd : A; de : A; df : A; dg : A; dh : A }.
Arguments mkDense {A}. Arguments da {A}. Arguments db {A}. Arguments dc {A}. Arguments dd {A}.
Arguments de {A}. Arguments df {A}. Arguments dg {A}. Arguments dh {A}.

(** * Integer families *)

(* lane-wise unary / binary / ternary operation at lane width w *)
Definition vlift1 (w : Z) (f : Z -> Z) (a : list Z) : list Z := bytes_of w (map f (lanes_of w a)).
Definition vlift2 (w : Z) (f : Z -> Z -> Z) (a b : list Z) : list Z :=
  bytes_of w (map2 f (lanes_of w a) (lanes_of w b)).

(* PADD* / PSUB* / PMULL*: wrapping; the low w bits of a product do not depend on signedness *)
Definition vadd (w : Z) := vlift2 w (i_add w).
Definition vsub (w : Z) := vlift2 w (i_sub w).
Definition vmullo (w : Z) := vlift2 w (i_mul w).
(* PMAXS* / PMAXU* / PMINS* / PMINU*, NEON SMAX/UMAX/SMIN/UMIN *)
Definition vmax_s (w : Z) := vlift2 w (i_max true w).
Definition vmax_u (w : Z) := vlift2 w (i_max false w).
Definition vmin_s (w : Z) := vlift2 w (i_min true w).
Definition vmin_u (w : Z) := vlift2 w (i_min false w).
(* PADDS* / PADDUS* / PSUBS* / PSUBUS*: saturating (not used by the library; here so that a slip to the saturating
   form is a failing theorem rather than an unknown name) *)
Definition sat (sg : bool) (w v : Z) : Z :=
  let lo := if sg then - 2 ^ (w - 1) else 0 in
  let hi := if sg then 2 ^ (w - 1) - 1 else 2 ^ w - 1 in
  wrap w (if v <? lo then lo else if hi <? v then hi else v).
Definition vadds (sg : bool) (w : Z) := vlift2 w (fun x y => sat sg w (ival sg w x + ival sg w y)).
Definition vsubs (sg : bool) (w : Z) := vlift2 w (fun x y => sat sg w (ival sg w x - ival sg w y)).
(* PMULHW: the high half of the signed product *)
Definition vmulhi_s (w : Z) := vlift2 w (fun x y => wrap w ((sgn w x * sgn w y) / 2 ^ w)).

(* PSRA* / PSLL* / PSRL* by an immediate: arithmetic shift = floor division of the signed reading (count >= w
   gives all sign bits), logical shifts give 0 for count >= w *)
Definition srai_lane (w k x : Z) : Z := wrap w (sgn w x / 2 ^ k).
Definition slli_lane (w k x : Z) : Z := wrap w (x * 2 ^ k).
Definition srli_lane (w k x : Z) : Z := x / 2 ^ k.
Definition vsrai (w k : Z) := vlift1 w (srai_lane w k).
Definition vslli (w k : Z) := vlift1 w (slli_lane w k).
Definition vsrli (w k : Z) := vlift1 w (srli_lane w k).

(* PMULUDQ: per 64-bit lane, the full product of the low unsigned dwords *)
Definition mul_epu32_lane (x y : Z) : Z := (x mod 2 ^ 32) * (y mod 2 ^ 32).
Definition vmul_epu32 := vlift2 64 mul_epu32_lane.

(* PCMPGT*: signed compare, all-ones / all-zeros lane *)
Definition cmpgt_lane (w x y : Z) : Z := if sgn w y <? sgn w x then 2 ^ w - 1 else 0.
Definition vcmpgt (w : Z) := vlift2 w (cmpgt_lane w).

(* PBLENDVB(a, b, mask): byte i from b iff the top bit of mask byte i is set *)
Definition blendv_byte (a b m : Z) : Z := if 128 <=? m then b else a.
Definition vblendv_epi8 (a b mask : list Z) : list Z := map3 blendv_byte a b mask.
(* VPBLENDMB (stdarch: simd_select_bitmask(k, b, a)): byte i from b iff bit i of k is set *)
Fixpoint vmask_blend_epi8 (k : Z) (a b : list Z) : list Z :=
  match a, b with
  | x :: a', y :: b' => (if Z.odd k then y else x) :: vmask_blend_epi8 (k / 2) a' b'
  | _, _ => []
  end.

(* bitwise *)
Definition vand (a b : list Z) : list Z := map2 Z.land a b.
Definition vor (a b : list Z) : list Z := map2 Z.lor a b.
Definition vxor (a b : list Z) : list Z := map2 Z.lxor a b.
Definition vandnot (a b : list Z) : list Z := map2 (fun x y => Z.land (255 - x) y) a b.      (* (NOT a) AND b *)

(* broadcast / zero: n lanes of width w *)
Definition vset1 (w : Z) (n : nat) (v : Z) : list Z := bytes_of w (repeat v n).
Definition vsetzero (nb : nat) : list Z := repeat 0 nb.

(* sub-register extraction: the i-th group of sz elements; casts to a narrower register keep the low part *)
Definition vextract {A} (sz : nat) (i : Z) (a : list A) : list A := firstn sz (skipn (sz * Z.to_nat i) a).
Definition vlow {A} (sz : nat) (a : list A) : list A := firstn sz a.

(* two-bit selector fields of a shuffle immediate *)
Definition imm_field (imm j : Z) : Z := (imm / 4 ^ j) mod 4.
Definition sel {A} (d : A) (l : list A) (i : Z) : A := nth (Z.to_nat i) l d.
(* PSHUFD: inside every 128-bit lane, dword j of the result is dword imm[2j+1:2j] of the source *)
Definition shuffle4 {A} (d : A) (imm : Z) (src : list A) : list A :=
  [sel d src (imm_field imm 0); sel d src (imm_field imm 1); sel d src (imm_field imm 2); sel d src (imm_field imm 3)].
Definition vshuffle_epi32 (imm : Z) (a : list Z) : list Z :=
  bytes_of 32 (flat_map (shuffle4 0 imm) (chunks 4 (lanes_of 32 a))).
(* VSHUFI64X2 (stdarch _mm512_shuffle_i64x2): 128-bit groups 0,1 of the result from a, 2,3 from b *)
Definition vshuffle_i64x2 (imm : Z) (a b : list Z) : list Z :=
  let ca := chunks 16 a in
  let cb := chunks 16 b in
  sel [] ca (imm_field imm 0) ++ sel [] ca (imm_field imm 1) ++ sel [] cb (imm_field imm 2) ++ sel [] cb (imm_field imm 3).

(* across-vector integer reductions (stdarch: simd_reduce_add_ordered(a, 0), simd_reduce_max, simd_reduce_min) *)
Definition vreduce_add (w : Z) (a : list Z) : Z := fold_left (i_add w) (lanes_of w a) 0.
Definition vreduce_max (sg : bool) (w : Z) (a : list Z) : Z :=
  let l := lanes_of w a in fold_left (i_max sg w) (tl l) (hd 0 l).
Definition vreduce_min (sg : bool) (w : Z) (a : list Z) : Z :=
  let l := lanes_of w a in fold_left (i_min sg w) (tl l) (hd 0 l).

(** * Float families (generic in the format) *)

Section FloatFamilies.
  Context {prec emax : Z} {Hp : FLX.Prec_gt_0 prec} {He : Prec_lt_emax prec emax}.
  Notation bf := (binary_float prec emax).

  Definition vfadd (a b : list bf) : list bf := map2 f_add a b.
  Definition vfsub (a b : list bf) : list bf := map2 f_sub a b.
  Definition vfmul (a b : list bf) : list bf := map2 f_mul a b.
  Definition vfdiv (a b : list bf) : list bf := map2 f_div a b.
  (* VFMADD: a * b + c with one rounding *)
  Definition vffma (a b c : list bf) : list bf := map3 f_fma a b c.
  (* MAXPS/MAXPD/MINPS/MINPD: `a > b ? a : b` — the SECOND operand on NaN or equal (signed zeros) *)
  Definition vfmax_x86 (a b : list bf) : list bf := map2 x86_max a b.
  Definition vfmin_x86 (a b : list bf) : list bf := map2 x86_min a b.
  Definition vfset1 (n : nat) (v : bf) : list bf := repeat v n.
  Definition vfsetzero (n : nat) : list bf := repeat f_zero n.
  Definition fnth (k : nat) (l : list bf) : bf := nth k l f_zero.

  (* MOVHLPS(a, b) = [b2; b3; a2; a3];  SHUFPS::<imm>(a, b) = [a[i0]; a[i1]; b[i2]; b[i3]];
     ADDSS(a, b) = [a0 + b0; a1; a2; a3];  CVTSS2F32 = lane 0 *)
  Definition vmovehl (a b : list bf) : list bf := [fnth 2 b; fnth 3 b; fnth 2 a; fnth 3 a].
  Definition vshuffle_ps (imm : Z) (a b : list bf) : list bf :=
    [sel f_zero a (imm_field imm 0); sel f_zero a (imm_field imm 1);
     sel f_zero b (imm_field imm 2); sel f_zero b (imm_field imm 3)].
  Definition vfadd_scalar (a b : list bf) : list bf := f_add (fnth 0 a) (fnth 0 b) :: tl a.
  Definition vcvt_first (a : list bf) : bf := fnth 0 a.

  (* _mm512_reduce_{add,max,min}_ps as the installed stdarch writes them:
       a8 = op(a[0..8], a[8..16]); a4 = op(a8[0..4], a8[4..8]); a = op(a4, shuffle[2,3,0,1](a4)); op(a[0], a[1])
     (for max/min the last step is `_mm_max_ss(a, _mm_movehdup_ps(a))`, i.e. op(a[0], a[1]) as well) *)
  Definition vreduce_ps512 (op : bf -> bf -> bf) (a : list bf) : bf :=
    let a := map2 op (vextract 8 0 a) (vextract 8 1 a) in
    let a := map2 op (vextract 4 0 a) (vextract 4 1 a) in
    let a := map2 op a [fnth 2 a; fnth 3 a; fnth 0 a; fnth 1 a] in
    op (fnth 0 a) (fnth 1 a).
  (* _mm512_reduce_{add,max,min}_pd: a4 = op(a[0..4], a[4..8]); a2 = op(a4[0..2], a4[2..4]); op(a2[0], a2[1]) *)
  Definition vreduce_pd512 (op : bf -> bf -> bf) (a : list bf) : bf :=
    let a := map2 op (vextract 4 0 a) (vextract 4 1 a) in
    let a := map2 op (vextract 2 0 a) (vextract 2 1 a) in
    op (fnth 0 a) (fnth 1 a).

  (* NEON FMAX / FMIN (Arm ARM FPMax / FPMin, default FPCR): NaN if EITHER operand is NaN (unlike maxNum and unlike
     x86); max(+0, -0) = +0, min(+0, -0) = -0; otherwise the larger / smaller operand. *)
  Definition neon_fmax (a b : bf) : bf :=
    if f_is_nan a || f_is_nan b then B754_nan
    else if f_lt a b then b else if f_lt b a then a
    else match a, b with B754_zero sa, B754_zero sb => B754_zero (sa && sb) | _, _ => a end.
  Definition neon_fmin (a b : bf) : bf :=
    if f_is_nan a || f_is_nan b then B754_nan
    else if f_lt a b then a else if f_lt b a then b
    else match a, b with B754_zero sa, B754_zero sb => B754_zero (sa || sb) | _, _ => a end.
  (* FMLA (stdarch vfmaq(a, b, c) = simd_fma(b, c, a)): a + b * c with one rounding *)
  Definition vfmla (a b c : list bf) : list bf := map3 (fun x y z => f_fma y z x) a b c.
  (* FADDV/FADDP, FMAXV/FMAXP, FMINV/FMINP across a vector (Arm ARM Reduce()): recursive halving,
     op(Reduce(low half), Reduce(high half)): 4 lanes (a0 . a1) . (a2 . a3), 2 lanes a0 . a1 *)
  Definition neon_reduce (op : bf -> bf -> bf) (a : list bf) : bf :=
    match a with
    | [a0; a1] => op a0 a1
    | [a0; a1; a2; a3] => op (op a0 a1) (op a2 a3)
    | _ => fnth 0 a
    end.
End FloatFamilies.

(** * One definition per intrinsic name *)

(** ** x86, 256-bit integer (AVX2) *)
Definition mm256_add_epi8 := vadd 8.       Definition mm256_add_epi16 := vadd 16.
Definition mm256_add_epi32 := vadd 32.     Definition mm256_add_epi64 := vadd 64.
Definition mm256_sub_epi8 := vsub 8.       Definition mm256_sub_epi16 := vsub 16.
Definition mm256_sub_epi32 := vsub 32.     Definition mm256_sub_epi64 := vsub 64.
Definition mm256_adds_epi8 := vadds true 8.   Definition mm256_adds_epi16 := vadds true 16.
Definition mm256_adds_epu8 := vadds false 8.  Definition mm256_adds_epu16 := vadds false 16.
Definition mm256_subs_epi8 := vsubs true 8.   Definition mm256_subs_epi16 := vsubs true 16.
Definition mm256_subs_epu8 := vsubs false 8.  Definition mm256_subs_epu16 := vsubs false 16.
Definition mm256_mullo_epi16 := vmullo 16. Definition mm256_mullo_epi32 := vmullo 32.
Definition mm256_mulhi_epi16 := vmulhi_s 16.
Definition mm256_mul_epu32 := vmul_epu32.
Definition mm256_max_epi8 := vmax_s 8.     Definition mm256_max_epi16 := vmax_s 16.   Definition mm256_max_epi32 := vmax_s 32.
Definition mm256_max_epu8 := vmax_u 8.     Definition mm256_max_epu16 := vmax_u 16.   Definition mm256_max_epu32 := vmax_u 32.
Definition mm256_min_epi8 := vmin_s 8.     Definition mm256_min_epi16 := vmin_s 16.   Definition mm256_min_epi32 := vmin_s 32.
Definition mm256_min_epu8 := vmin_u 8.     Definition mm256_min_epu16 := vmin_u 16.   Definition mm256_min_epu32 := vmin_u 32.
Definition mm256_srai_epi16 (k : Z) := vsrai 16 k.   Definition mm256_srai_epi32 (k : Z) := vsrai 32 k.
Definition mm256_slli_epi16 (k : Z) := vslli 16 k.   Definition mm256_slli_epi32 (k : Z) := vslli 32 k.
Definition mm256_slli_epi64 (k : Z) := vslli 64 k.
Definition mm256_srli_epi16 (k : Z) := vsrli 16 k.   Definition mm256_srli_epi32 (k : Z) := vsrli 32 k.
Definition mm256_srli_epi64 (k : Z) := vsrli 64 k.
Definition mm256_shuffle_epi32 (imm : Z) := vshuffle_epi32 imm.
Definition mm256_cmpgt_epi8 := vcmpgt 8.   Definition mm256_cmpgt_epi16 := vcmpgt 16.
Definition mm256_cmpgt_epi32 := vcmpgt 32. Definition mm256_cmpgt_epi64 := vcmpgt 64.
Definition mm256_blendv_epi8 := vblendv_epi8.
Definition mm256_and_si256 := vand.        Definition mm256_or_si256 := vor.
Definition mm256_xor_si256 := vxor.        Definition mm256_andnot_si256 := vandnot.
Definition mm256_set1_epi8 := vset1 8 32.  Definition mm256_set1_epi16 := vset1 16 16.
Definition mm256_set1_epi32 := vset1 32 8. Definition mm256_set1_epi64x := vset1 64 4.
Definition mm256_setzero_si256 := vsetzero 32.
Definition mm256_extracti128_si256 (i : Z) (a : list Z) : list Z := vextract 16 i a.
Definition mm256_castsi256_si128 (a : list Z) : list Z := vlow 16 a.

(** ** x86, 128-bit integer (the halves inside the AVX2 folds) *)
Definition mm_add_epi8 := vadd 8.   Definition mm_add_epi16 := vadd 16.
Definition mm_add_epi32 := vadd 32. Definition mm_add_epi64 := vadd 64.
Definition mm_max_epi8 := vmax_s 8. Definition mm_max_epi16 := vmax_s 16. Definition mm_max_epi32 := vmax_s 32.
Definition mm_max_epu8 := vmax_u 8. Definition mm_max_epu16 := vmax_u 16. Definition mm_max_epu32 := vmax_u 32.
Definition mm_min_epi8 := vmin_s 8. Definition mm_min_epi16 := vmin_s 16. Definition mm_min_epi32 := vmin_s 32.
Definition mm_min_epu8 := vmin_u 8. Definition mm_min_epu16 := vmin_u 16. Definition mm_min_epu32 := vmin_u 32.
Definition mm_cmpgt_epi64 := vcmpgt 64.
Definition mm_blendv_epi8 := vblendv_epi8.
Definition mm_xor_si128 := vxor.
Definition mm_set1_epi64x := vset1 64 2.

(** ** x86, 512-bit integer (AVX-512) *)
Definition mm512_add_epi8 := vadd 8.       Definition mm512_add_epi16 := vadd 16.
Definition mm512_add_epi32 := vadd 32.     Definition mm512_add_epi64 := vadd 64.
Definition mm512_sub_epi8 := vsub 8.       Definition mm512_sub_epi16 := vsub 16.
Definition mm512_sub_epi32 := vsub 32.     Definition mm512_sub_epi64 := vsub 64.
Definition mm512_adds_epi8 := vadds true 8.   Definition mm512_adds_epi16 := vadds true 16.
Definition mm512_adds_epu8 := vadds false 8.  Definition mm512_adds_epu16 := vadds false 16.
Definition mm512_subs_epi8 := vsubs true 8.   Definition mm512_subs_epi16 := vsubs true 16.
Definition mm512_subs_epu8 := vsubs false 8.  Definition mm512_subs_epu16 := vsubs false 16.
Definition mm512_mullo_epi16 := vmullo 16. Definition mm512_mullo_epi32 := vmullo 32.
Definition mm512_mullox_epi64 := vmullo 64.      (* stdarch: simd_mul on i64x8 *)
Definition mm512_max_epi8 := vmax_s 8.     Definition mm512_max_epi16 := vmax_s 16.
Definition mm512_max_epi32 := vmax_s 32.   Definition mm512_max_epi64 := vmax_s 64.
Definition mm512_max_epu8 := vmax_u 8.     Definition mm512_max_epu16 := vmax_u 16.
Definition mm512_max_epu32 := vmax_u 32.   Definition mm512_max_epu64 := vmax_u 64.
Definition mm512_min_epi8 := vmin_s 8.     Definition mm512_min_epi16 := vmin_s 16.
Definition mm512_min_epi32 := vmin_s 32.   Definition mm512_min_epi64 := vmin_s 64.
Definition mm512_min_epu8 := vmin_u 8.     Definition mm512_min_epu16 := vmin_u 16.
Definition mm512_min_epu32 := vmin_u 32.   Definition mm512_min_epu64 := vmin_u 64.
Definition mm512_srai_epi16 (k : Z) := vsrai 16 k.
Definition mm512_slli_epi16 (k : Z) := vslli 16 k.
Definition mm512_srli_epi16 (k : Z) := vsrli 16 k.
Definition mm512_mask_blend_epi8 := vmask_blend_epi8.
Definition mm512_set1_epi8 := vset1 8 64.  Definition mm512_set1_epi16 := vset1 16 32.
Definition mm512_set1_epi32 := vset1 32 16. Definition mm512_set1_epi64 := vset1 64 8.
Definition mm512_setzero_si512 := vsetzero 64.
Definition mm512_shuffle_i64x2 (imm : Z) := vshuffle_i64x2 imm.
Definition mm512_castsi512_si256 (a : list Z) : list Z := vlow 32 a.
Definition mm512_reduce_add_epi32 := vreduce_add 32.       Definition mm512_reduce_add_epi64 := vreduce_add 64.
Definition mm512_reduce_max_epi32 := vreduce_max true 32.  Definition mm512_reduce_max_epi64 := vreduce_max true 64.
Definition mm512_reduce_max_epu32 := vreduce_max false 32. Definition mm512_reduce_max_epu64 := vreduce_max false 64.
Definition mm512_reduce_min_epi32 := vreduce_min true 32.  Definition mm512_reduce_min_epi64 := vreduce_min true 64.
Definition mm512_reduce_min_epu32 := vreduce_min false 32. Definition mm512_reduce_min_epu64 := vreduce_min false 64.

(** ** x86 floats *)
Definition mm256_add_ps : list f32 -> list f32 -> list f32 := vfadd.   Definition mm256_add_pd : list f64 -> list f64 -> list f64 := vfadd.
Definition mm256_sub_ps : list f32 -> list f32 -> list f32 := vfsub.   Definition mm256_sub_pd : list f64 -> list f64 -> list f64 := vfsub.
Definition mm256_mul_ps : list f32 -> list f32 -> list f32 := vfmul.   Definition mm256_mul_pd : list f64 -> list f64 -> list f64 := vfmul.
Definition mm256_div_ps : list f32 -> list f32 -> list f32 := vfdiv.   Definition mm256_div_pd : list f64 -> list f64 -> list f64 := vfdiv.
Definition mm256_max_ps : list f32 -> list f32 -> list f32 := vfmax_x86.   Definition mm256_max_pd : list f64 -> list f64 -> list f64 := vfmax_x86.
Definition mm256_min_ps : list f32 -> list f32 -> list f32 := vfmin_x86.   Definition mm256_min_pd : list f64 -> list f64 -> list f64 := vfmin_x86.
Definition mm256_fmadd_ps : list f32 -> list f32 -> list f32 -> list f32 := vffma.
Definition mm256_fmadd_pd : list f64 -> list f64 -> list f64 -> list f64 := vffma.
Definition mm256_set1_ps : f32 -> list f32 := vfset1 8.   Definition mm256_set1_pd : f64 -> list f64 := vfset1 4.
Definition mm256_setzero_ps : list f32 := vfsetzero 8.    Definition mm256_setzero_pd : list f64 := vfsetzero 4.
Definition mm256_extractf128_ps (i : Z) (a : list f32) : list f32 := vextract 4 i a.
Definition mm256_extractf128_pd (i : Z) (a : list f64) : list f64 := vextract 2 i a.
Definition mm256_castps256_ps128 (a : list f32) : list f32 := vlow 4 a.
Definition mm256_castpd256_pd128 (a : list f64) : list f64 := vlow 2 a.
Definition mm_add_ps : list f32 -> list f32 -> list f32 := vfadd.   Definition mm_add_pd : list f64 -> list f64 -> list f64 := vfadd.
Definition mm_max_ps : list f32 -> list f32 -> list f32 := vfmax_x86.   Definition mm_max_pd : list f64 -> list f64 -> list f64 := vfmax_x86.
Definition mm_min_ps : list f32 -> list f32 -> list f32 := vfmin_x86.   Definition mm_min_pd : list f64 -> list f64 -> list f64 := vfmin_x86.
Definition mm_movehl_ps : list f32 -> list f32 -> list f32 := vmovehl.
Definition mm_shuffle_ps (imm : Z) : list f32 -> list f32 -> list f32 := vshuffle_ps imm.
Definition mm_add_ss : list f32 -> list f32 -> list f32 := vfadd_scalar.
Definition mm_add_sd : list f64 -> list f64 -> list f64 := vfadd_scalar.
Definition mm_cvtss_f32 : list f32 -> f32 := vcvt_first.
Definition mm_cvtsd_f64 : list f64 -> f64 := vcvt_first.

Definition mm512_add_ps : list f32 -> list f32 -> list f32 := vfadd.   Definition mm512_add_pd : list f64 -> list f64 -> list f64 := vfadd.
Definition mm512_sub_ps : list f32 -> list f32 -> list f32 := vfsub.   Definition mm512_sub_pd : list f64 -> list f64 -> list f64 := vfsub.
Definition mm512_mul_ps : list f32 -> list f32 -> list f32 := vfmul.   Definition mm512_mul_pd : list f64 -> list f64 -> list f64 := vfmul.
Definition mm512_div_ps : list f32 -> list f32 -> list f32 := vfdiv.   Definition mm512_div_pd : list f64 -> list f64 -> list f64 := vfdiv.
Definition mm512_max_ps : list f32 -> list f32 -> list f32 := vfmax_x86.   Definition mm512_max_pd : list f64 -> list f64 -> list f64 := vfmax_x86.
Definition mm512_min_ps : list f32 -> list f32 -> list f32 := vfmin_x86.   Definition mm512_min_pd : list f64 -> list f64 -> list f64 := vfmin_x86.
Definition mm512_fmadd_ps : list f32 -> list f32 -> list f32 -> list f32 := vffma.
Definition mm512_fmadd_pd : list f64 -> list f64 -> list f64 -> list f64 := vffma.
Definition mm512_set1_ps : f32 -> list f32 := vfset1 16.  Definition mm512_set1_pd : f64 -> list f64 := vfset1 8.
Definition mm512_setzero_ps : list f32 := vfsetzero 16.   Definition mm512_setzero_pd : list f64 := vfsetzero 8.
Definition mm512_reduce_add_ps : list f32 -> f32 := vreduce_ps512 f_add.
Definition mm512_reduce_max_ps : list f32 -> f32 := vreduce_ps512 x86_max.
Definition mm512_reduce_min_ps : list f32 -> f32 := vreduce_ps512 x86_min.
Definition mm512_reduce_add_pd : list f64 -> f64 := vreduce_pd512 f_add.
Definition mm512_reduce_max_pd : list f64 -> f64 := vreduce_pd512 x86_max.
Definition mm512_reduce_min_pd : list f64 -> f64 := vreduce_pd512 x86_min.

(** ** NEON (aarch64), 128-bit *)
Definition vaddq_s8 := vadd 8.   Definition vaddq_s16 := vadd 16.   Definition vaddq_s32 := vadd 32.   Definition vaddq_s64 := vadd 64.
Definition vaddq_u8 := vadd 8.   Definition vaddq_u16 := vadd 16.   Definition vaddq_u32 := vadd 32.   Definition vaddq_u64 := vadd 64.
Definition vsubq_s8 := vsub 8.   Definition vsubq_s16 := vsub 16.   Definition vsubq_s32 := vsub 32.   Definition vsubq_s64 := vsub 64.
Definition vsubq_u8 := vsub 8.   Definition vsubq_u16 := vsub 16.   Definition vsubq_u32 := vsub 32.   Definition vsubq_u64 := vsub 64.
Definition vmulq_s8 := vmullo 8. Definition vmulq_s16 := vmullo 16. Definition vmulq_s32 := vmullo 32.
Definition vmulq_u8 := vmullo 8. Definition vmulq_u16 := vmullo 16. Definition vmulq_u32 := vmullo 32.
Definition vqaddq_s8 := vadds true 8.   Definition vqaddq_u8 := vadds false 8.
Definition vqaddq_s16 := vadds true 16. Definition vqaddq_u16 := vadds false 16.
Definition vmaxq_s8 := vmax_s 8. Definition vmaxq_s16 := vmax_s 16. Definition vmaxq_s32 := vmax_s 32.
Definition vmaxq_u8 := vmax_u 8. Definition vmaxq_u16 := vmax_u 16. Definition vmaxq_u32 := vmax_u 32.
Definition vminq_s8 := vmin_s 8. Definition vminq_s16 := vmin_s 16. Definition vminq_s32 := vmin_s 32.
Definition vminq_u8 := vmin_u 8. Definition vminq_u16 := vmin_u 16. Definition vminq_u32 := vmin_u 32.
Definition vdupq_n_s8 := vset1 8 16.  Definition vdupq_n_s16 := vset1 16 8.  Definition vdupq_n_s32 := vset1 32 4.  Definition vdupq_n_s64 := vset1 64 2.
Definition vdupq_n_u8 := vset1 8 16.  Definition vdupq_n_u16 := vset1 16 8.  Definition vdupq_n_u32 := vset1 32 4.  Definition vdupq_n_u64 := vset1 64 2.
Definition vaddvq_s8 := vreduce_add 8.   Definition vaddvq_s16 := vreduce_add 16.  Definition vaddvq_s32 := vreduce_add 32.  Definition vaddvq_s64 := vreduce_add 64.
Definition vaddvq_u8 := vreduce_add 8.   Definition vaddvq_u16 := vreduce_add 16.  Definition vaddvq_u32 := vreduce_add 32.  Definition vaddvq_u64 := vreduce_add 64.
Definition vmaxvq_s8 := vreduce_max true 8.   Definition vmaxvq_s16 := vreduce_max true 16.   Definition vmaxvq_s32 := vreduce_max true 32.
Definition vmaxvq_u8 := vreduce_max false 8.  Definition vmaxvq_u16 := vreduce_max false 16.  Definition vmaxvq_u32 := vreduce_max false 32.
Definition vminvq_s8 := vreduce_min true 8.   Definition vminvq_s16 := vreduce_min true 16.   Definition vminvq_s32 := vreduce_min true 32.
Definition vminvq_u8 := vreduce_min false 8.  Definition vminvq_u16 := vreduce_min false 16.  Definition vminvq_u32 := vreduce_min false 32.

Definition vaddq_f32 : list f32 -> list f32 -> list f32 := vfadd.   Definition vaddq_f64 : list f64 -> list f64 -> list f64 := vfadd.
Definition vsubq_f32 : list f32 -> list f32 -> list f32 := vfsub.   Definition vsubq_f64 : list f64 -> list f64 -> list f64 := vfsub.
Definition vmulq_f32 : list f32 -> list f32 -> list f32 := vfmul.   Definition vmulq_f64 : list f64 -> list f64 -> list f64 := vfmul.
Definition vdivq_f32 : list f32 -> list f32 -> list f32 := vfdiv.   Definition vdivq_f64 : list f64 -> list f64 -> list f64 := vfdiv.
Definition vfmaq_f32 : list f32 -> list f32 -> list f32 -> list f32 := vfmla.
Definition vfmaq_f64 : list f64 -> list f64 -> list f64 -> list f64 := vfmla.
Definition vmaxq_f32 : list f32 -> list f32 -> list f32 := map2 neon_fmax.   Definition vmaxq_f64 : list f64 -> list f64 -> list f64 := map2 neon_fmax.
Definition vminq_f32 : list f32 -> list f32 -> list f32 := map2 neon_fmin.   Definition vminq_f64 : list f64 -> list f64 -> list f64 := map2 neon_fmin.
Definition vdupq_n_f32 : f32 -> list f32 := vfset1 4.   Definition vdupq_n_f64 : f64 -> list f64 := vfset1 2.
Definition vaddvq_f32 : list f32 -> f32 := neon_reduce f_add.      Definition vaddvq_f64 : list f64 -> f64 := neon_reduce f_add.
Definition vmaxvq_f32 : list f32 -> f32 := neon_reduce neon_fmax.  Definition vmaxvq_f64 : list f64 -> f64 := neon_reduce neon_fmax.
Definition vminvq_f32 : list f32 -> f32 := neon_reduce neon_fmin.  Definition vminvq_f64 : list f64 -> f64 := neon_reduce neon_fmin.

(** * Rust integer expression primitives of the constant arguments (`(z << 6) | (y << 4)`, `x as i32`) *)
Definition rs_shl (a k : Z) : Z := Z.shiftl a k.
Definition rs_shr (a k : Z) : Z := Z.shiftr a k.
Definition rs_or (a b : Z) : Z := Z.lor a b.
Definition rs_and (a b : Z) : Z := Z.land a b.
Definition rs_xor (a b : Z) : Z := Z.lxor a b.
(* `e as T`: from (sg, w) to width w': truncation, or sign-/zero-extension of the value re-wrapped *)
Definition rs_cast (sg : bool) (w w' v : Z) : Z := wrap w' (ival sg w v).
