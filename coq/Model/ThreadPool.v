(* Model of cfavml-utils/src/threadpool.rs and pinning.rs (C17).  Executable definitions only; proofs live in
   Proofs/ThreadPoolProofs.v.

   The model mirrors the Rust line by line and is parametric in the literals and one-line decisions of the source
   (Gen/GenConstsUtils.v, regenerated from /repo by tools/translate_utils.py on every run): TRUE_VALUES, the variable
   names, whether the requested count is min(cfg, P) / max(cfg, P) / `match cfg { 0 => P, n => min(n, P) }`, the polarity
   of the pinning and cache flags, and whether an out-of-range pin index panics under cfg!(debug_assertions).

   ORACLES (contracts recorded here, observed by the correspondence of checks/c17.py, not proved):
     * std::env::var            Err for an absent or non-unicode value;
     * usize::from_str          [parse_usize] (core::num::from_ascii_radix: optional '+', at least one ASCII digit, value < 2^64);
     * num_cpus::get_physical   the number P >= 1, independent of the affinity mask (it parses /proc/cpuinfo);
     * core_affinity            get_core_ids() = the CPUs of the calling thread's affinity mask, in increasing order
                                ([allowed], A = its length); set_for_current succeeds for a CPU of that mask;
     * rayon                    ThreadPoolBuilder::num_threads(n): n > 0 -> n threads; n = 0 -> RAYON_NUM_THREADS if it
                                parses to a positive number, else (deprecated) RAYON_RS_NUM_CPUS likewise, else
                                std::thread::available_parallelism() ([avail]); everything capped at 65535; workers are
                                spawned by the building thread (and inherit its affinity), each runs start_handler(index)
                                before taking work; a panic in the start handler ABORTS the process (no panic_handler);
     * OnceLock::get_or_init    at most one initialiser runs; callers arriving meanwhile block; everyone sees its value. *)
From Coq Require Import ZArith List Bool String Ascii.
From CF Require Import Gen.GenConstsUtils Model.AlignedBuf.
Import ListNotations.
Open Scope Z_scope.

(* ---------------------------------------------------------------------------------------------- *)
(* environment                                                                                    *)
(* ---------------------------------------------------------------------------------------------- *)

Inductive env_val := EAbsent | ENotUnicode | EVal (s : string).
Definition env := string -> env_val.

(* std::env::var(name).ok() *)
Definition env_var (e : env) (name : string) : option string :=
  match e name with EVal s => Some s | _ => None end.

Fixpoint env_of (l : list (string * env_val)) : env :=
  fun n => match l with
           | [] => EAbsent
           | (k, v) :: r => if String.eqb k n then v else env_of r n
           end.

(* ---------------------------------------------------------------------------------------------- *)
(* usize::from_str (radix 10)                                                                     *)
(* ---------------------------------------------------------------------------------------------- *)

Definition digit_of (c : ascii) : option Z :=
  let n := Z.of_N (N_of_ascii c) in
  if (48 <=? n) && (n <=? 57) then Some (n - 48) else None.

(* the digit loop: InvalidDigit on a non-digit, PosOverflow when the value leaves usize *)
Fixpoint parse_digits (acc : Z) (s : string) : option Z :=
  match s with
  | EmptyString => Some acc
  | String c r =>
      match digit_of c with
      | None => None
      | Some d => let acc' := acc * 10 + d in if acc' <? USIZE then parse_digits acc' r else None
      end
  end.

(* match src { [] => Empty, [b'+' | b'-'] => InvalidDigit, [b'+', rest @ ..] => rest,
               [b'-', rest @ ..] if is_signed_ty => .., _ => src }   (usize is unsigned: a leading '-' is a bad digit) *)
Definition parse_usize (s : string) : option Z :=
  match s with
  | EmptyString => None
  | String c r =>
      if (Ascii.eqb c "+" || Ascii.eqb c "-")%bool && (match r with EmptyString => true | _ => false end) then None
      else if Ascii.eqb c "+" then parse_digits 0 r
      else parse_digits 0 s
  end.

(* SPECIFICATION of the accepted syntax, independent of the digit loop above: an optional '+', then at least one
   character, all of them ASCII digits, whose (unbounded) decimal value is below 2^64.
   Proofs/ThreadPoolProofs.v [parse_usize_spec] proves that [parse_usize] is exactly this. *)
Fixpoint digits_val (acc : Z) (s : string) : option Z :=
  match s with
  | EmptyString => Some acc
  | String c r => match digit_of c with None => None | Some d => digits_val (acc * 10 + d) r end
  end.

Definition spec_parse_usize (s : string) : option Z :=
  let body := match s with String c r => if Ascii.eqb c "+" then r else s | EmptyString => s end in
  match body with
  | EmptyString => None
  | _ => match digits_val 0 body with Some v => if v <? USIZE then Some v else None | None => None end
  end.

(* ---------------------------------------------------------------------------------------------- *)
(* configuration                                                                                  *)
(* ---------------------------------------------------------------------------------------------- *)

Record tp_params := {
  TRUEV : list string;          (* TRUE_VALUES *)
  V_NUM : string;               (* "CFAVML_NUM_THREADS" *)
  V_NOPIN : string;             (* "CFAVML_NO_PINNING" *)
  V_NOCACHE : string;           (* "CFAVML_NO_CACHE_THREADPOOL" *)
  V_COMPAT : list string;       (* OMP_NUM_THREADS, OPENBLAS_NUM_THREADS (feature env-var-compat) *)
  COMPAT : bool;                (* feature env-var-compat enabled *)
  COMBINE_MIN : bool;           (* std::cmp::min (true) / std::cmp::max (false) *)
  ZERO_DEFAULT : bool;          (* a configured 0 is replaced by P before combining *)
  PIN_NEG : bool;               (* if !no_pinning { pin_current(..) } *)
  NOCACHE_DISABLES : bool;      (* if no_cache { None } else { Some(create_pool()) } *)
  OOB_PANIC : bool              (* pin_current: panic!(..) under cfg!(debug_assertions) when the index is out of range *)
}.

Definition gen_tp_params (compat : bool) : tp_params :=
  {| TRUEV := tp_true_values; V_NUM := tp_var_num_threads; V_NOPIN := tp_var_no_pinning; V_NOCACHE := tp_var_no_cache;
     V_COMPAT := tp_compat_vars; COMPAT := compat; COMBINE_MIN := tp_combine_is_min; ZERO_DEFAULT := tp_zero_is_default;
     PIN_NEG := tp_pin_when_not_flag; NOCACHE_DISABLES := tp_nocache_disables; OOB_PANIC := pin_oob_debug_panics |}.

(* TRUE_VALUES.contains(&value) *)
Definition cast_bool (tp : tp_params) (v : string) : bool := existsb (String.eqb v) (TRUEV tp).

(* std::env::var(env).map(|v| cast_bool(&v)).unwrap_or_default() *)
Definition config_bool (tp : tp_params) (e : env) (name : string) : bool :=
  match env_var e name with Some v => cast_bool tp v | None => false end.

(* value.parse().unwrap_or_else(|_| num_cpus::get_physical()) *)
Definition parse_or (P : Z) (v : string) : Z :=
  match parse_usize v with Some n => n | None => P end.

(* the first variable that is set decides (even when its value does not parse) *)
Fixpoint first_var (e : env) (names : list string) : option string :=
  match names with
  | [] => None
  | n :: r => match env_var e n with Some v => Some v | None => first_var e r end
  end.

Definition config_vars (tp : tp_params) : list string :=
  V_NUM tp :: (if COMPAT tp then V_COMPAT tp else []).

Definition config_num_threads (tp : tp_params) (e : env) (P : Z) : Z :=
  match first_var e (config_vars tp) with Some v => parse_or P v | None => P end.

(* let num_threads = ...  in create_pool *)
Definition requested (tp : tp_params) (cfg P : Z) : Z :=
  let comb := if COMBINE_MIN tp then Z.min cfg P else Z.max cfg P in
  if ZERO_DEFAULT tp then (if cfg =? 0 then P else comb) else comb.

(* ---------------------------------------------------------------------------------------------- *)
(* rayon (oracle)                                                                                 *)
(* ---------------------------------------------------------------------------------------------- *)

Definition RAYON_MAX : Z := 65535.

Definition env_usize (e : env) (name : string) : option Z :=
  match env_var e name with Some v => parse_usize v | None => None end.

Definition rayon_default (e : env) (avail : Z) : Z :=
  match env_usize e "RAYON_NUM_THREADS" with
  | Some x => if 0 <? x then x else avail
  | None => match env_usize e "RAYON_RS_NUM_CPUS" with
            | Some x => if 0 <? x then x else avail
            | None => avail
            end
  end.

Definition rayon_threads (e : env) (avail n : Z) : Z :=
  Z.min (if 0 <? n then n else rayon_default e avail) RAYON_MAX.

Definition pool_threads (tp : tp_params) (e : env) (P avail : Z) : Z :=
  rayon_threads e avail (requested tp (config_num_threads tp e P) P).

(* ---------------------------------------------------------------------------------------------- *)
(* pinning                                                                                        *)
(* ---------------------------------------------------------------------------------------------- *)

Inductive pin_result := PinOk (core : Z) | PinFalse | PinPanic.

Definition pin_current (tp : tp_params) (prof : profile) (allowed : list Z) (i : Z) : pin_result :=
  let A := Z.of_nat (List.length allowed) in
  if A =? 0 then PinFalse
  else if A <=? i then (if OOB_PANIC tp && is_debug prof then PinPanic else PinFalse)
  else PinOk (nth (Z.to_nat i) allowed (-1)).

Definition is_panic (r : pin_result) : bool := match r with PinPanic => true | _ => false end.

(* affinity of a worker after its start handler: pinned to one core, or the mask it inherited *)
Definition aff_of (r : pin_result) : option Z := match r with PinOk c => Some c | _ => None end.

Definition workers (t : Z) : list Z := map Z.of_nat (seq 0 (Z.to_nat t)).

Definition pinning_on (tp : tp_params) (e : env) : bool :=
  let flag := config_bool tp e (V_NOPIN tp) in if PIN_NEG tp then negb flag else flag.

Inductive pool_outcome := PoolOk (threads : Z) (aff : list (option Z)) | PoolAbort.

(* create_pool: the process aborts iff some worker's start handler panics *)
Definition create_pool (tp : tp_params) (prof : profile) (e : env) (P avail : Z) (allowed : list Z) : pool_outcome :=
  let t := pool_threads tp e P avail in
  if pinning_on tp e then
    let rs := map (pin_current tp prof allowed) (workers t) in
    if existsb is_panic rs then PoolAbort else PoolOk t (map aff_of rs)
  else PoolOk t (map (fun _ => None) (workers t)).

Definition pool_ok (o : pool_outcome) : bool := match o with PoolOk _ _ => true | PoolAbort => false end.

(* ---------------------------------------------------------------------------------------------- *)
(* get_or_init_pool as a small-step machine over the OnceLock cell, any number of callers          *)
(* ---------------------------------------------------------------------------------------------- *)

Inductive cell := CEmpty | CRunning (tid : nat) | CDone (v : option nat).    (* Option<rayon::ThreadPool>, pools by id *)

Inductive pc :=
| PStart                      (* about to call SHARED_THREADPOOL.get_or_init(..) *)
| PInit                       (* inside the initialiser closure *)
| PAfter (v : option nat)     (* get_or_init returned .as_ref() = v; about to `match global_pool` *)
| PRet (owned : bool) (id : nat).   (* returned MaybeBorrowedPool::{Owned, Borrowed}(pool id) *)

Record mstate := { m_cell : cell; m_next : nat; m_pc : nat -> pc; m_abort : bool }.

Definition upd (f : nat -> pc) (t : nat) (x : pc) : nat -> pc := fun t' => if Nat.eqb t' t then x else f t'.

Definition init_state : mstate := {| m_cell := CEmpty; m_next := O; m_pc := fun _ => PStart; m_abort := false |}.

(* one step of caller t.  [nocache]: the initialiser stores None; [create_ok]: create_pool() returns (else the process aborts).
   A caller that finds the cell Running is blocked (its step is a no-op); a finished caller does nothing. *)
Definition step (nocache create_ok : bool) (s : mstate) (t : nat) : mstate :=
  if m_abort s then s
  else
    match m_pc s t with
    | PStart =>
        match m_cell s with
        | CDone v => {| m_cell := m_cell s; m_next := m_next s; m_pc := upd (m_pc s) t (PAfter v); m_abort := false |}
        | CEmpty => {| m_cell := CRunning t; m_next := m_next s; m_pc := upd (m_pc s) t PInit; m_abort := false |}
        | CRunning _ => s
        end
    | PInit =>
        if nocache then
          {| m_cell := CDone None; m_next := m_next s; m_pc := upd (m_pc s) t (PAfter None); m_abort := false |}
        else if create_ok then
          {| m_cell := CDone (Some (m_next s)); m_next := S (m_next s);
             m_pc := upd (m_pc s) t (PAfter (Some (m_next s))); m_abort := false |}
        else {| m_cell := m_cell s; m_next := m_next s; m_pc := m_pc s; m_abort := true |}
    | PAfter None =>
        if create_ok then
          {| m_cell := m_cell s; m_next := S (m_next s); m_pc := upd (m_pc s) t (PRet true (m_next s)); m_abort := false |}
        else {| m_cell := m_cell s; m_next := m_next s; m_pc := m_pc s; m_abort := true |}
    | PAfter (Some p) =>
        {| m_cell := m_cell s; m_next := m_next s; m_pc := upd (m_pc s) t (PRet false p); m_abort := false |}
    | PRet _ _ => s
    end.

Definition run (nocache create_ok : bool) (sched : list nat) : mstate :=
  fold_left (step nocache create_ok) sched init_state.

(* does the flag variable disable the cache in the current source? *)
Definition nocache_of (tp : tp_params) (e : env) : bool :=
  let flag := config_bool tp e (V_NOCACHE tp) in if NOCACHE_DISABLES tp then flag else negb flag.

(* ---------------------------------------------------------------------------------------------- *)
(* The specification of C17, as decidable predicates on what the probe observes of the REAL code.  *)
(* ---------------------------------------------------------------------------------------------- *)

(* documented spellings (README: `true`/`1`; the source has always had the upper-case form as well) *)
Definition spec_true_values : list string := ["1"; "true"; "TRUE"]%string.

Definition spec_flag (v : env_val) : bool :=
  match v with EVal s => existsb (String.eqb s) spec_true_values | _ => false end.

(* at least one and at most P threads; exactly min(n, P) for a valid positive request *)
Definition spec_threads_ok (num : env_val) (P t : Z) : bool :=
  (1 <=? t) && (t <=? P)
  && match num with
     | EVal s => match parse_usize s with
                 | Some n => if 0 <? n then t =? Z.min n P else true
                 | None => true
                 end
     | _ => true
     end.

(* ---------------------------------------------------------------------------------------------- *)
(* Observation functions run by the correspondence; every output is a Z.                           *)
(* ---------------------------------------------------------------------------------------------- *)

Definition pc_code (p : pc) : list Z :=
  match p with
  | PStart => [0] | PInit => [1] | PAfter _ => [2]
  | PRet o i => [3; (if o then 1 else 0); Z.of_nat i]
  end.

(* a fresh process: create_pool outcome, then two sequential calls of get_or_init_pool.
   [abort] or [0; threads; owned1; owned2; same pool; spec verdict on the model's own count; affinity of each worker (-1: inherited)] *)
Definition obs_probe (tp : tp_params) (prof : profile) (e : env) (P avail : Z) (allowed : list Z) : list Z :=
  match create_pool tp prof e P avail allowed with
  | PoolAbort => [1]
  | PoolOk t aff =>
      let s := run (nocache_of tp e) true [0; 0; 0; 0; 1; 1; 1; 1]%nat in
      match m_pc s 0%nat, m_pc s 1%nat with
      | PRet o1 i1, PRet o2 i2 =>
          [0; t; (if o1 then 1 else 0); (if o2 then 1 else 0); (if Nat.eqb i1 i2 then 1 else 0);
           (if spec_threads_ok (e (V_NUM tp)) P t then 1 else 0)]
          ++ map (fun a => match a with Some c => c | None => -1 end) aff
      | _, _ => [2]
      end
  end.

(* k callers under a given schedule: the program counter of each *)
Definition obs_race (tp : tp_params) (e : env) (k : nat) (sched : list nat) : list (list Z) :=
  let s := run (nocache_of tp e) true sched in map (fun t => pc_code (m_pc s t)) (seq 0 k).
