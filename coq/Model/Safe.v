(* Semantics of a safe wrapper (safe_*.rs): evaluate the generated assert list, let the dispatch chain
   select a slot, run the export handed to that slot. *)
From Coq Require Import ZArith List Bool String.
From CF Require Import Base.Mem Model.Tables Model.TableSem Model.Prim Model.SimdApi Model.Kernels Model.Regs
     Model.Exports.
Import ListNotations.

Definition supplied_of (sf : safe_fn) : supplied :=
  let has x := existsb (fun d => slot_eqb (ds_slot d) x) (sf_dispatch sf) in
  {| s_avx512 := has SAvx512; s_avx2fma := has SAvx2Fma; s_avx2 := has SAvx2; s_neon := has SNeon |}.

(* Everything [run_safe] needs to know about one (entry, form), with the routine names already resolved to
   (type, register, kernel) keys. *)
Record safe_core := {
  sc_asserts : list (lenexp * lenexp);
  sc_debug_asserts : list (lenexp * lenexp);
  sc_supplied : supplied;
  sc_slot_key : list (slot * option (ty * reg * kernel))
}.

Definition core_of (es : list export) (ms : list safe_macro) (s : safe_entry) (f : form) : option safe_core :=
  match find_safe_macro ms (s_macro s) with
  | None => None
  | Some m =>
      match safe_fn_of m f with
      | None => None
      | Some sf =>
          Some {| sc_asserts := sf_asserts sf; sc_debug_asserts := sf_debug_asserts sf;
                  sc_supplied := supplied_of sf;
                  sc_slot_key := map (fun x => (x, match slot_export es m s f x with
                                                   | Some e => Some (e_ty e, e_reg e, e_op e)
                                                   | None => None
                                                   end)) all_slots |}
      end
  end.

Definition key_export (k : ty * reg * kernel) : export :=
  let '(t, r, op) := k in
  {| e_macro := EmptyString; e_module := EmptyString; e_modcfg := EmptyString; e_ty := t; e_reg := r;
     e_op := op; e_xconst := EmptyString; e_xany := EmptyString; e_feats := [] |}.

Section Run.
  Variable chain : list chain_entry.
  Context {T : Type}.
  Variable run_export : export -> form -> bool -> nat -> T -> list T -> list T -> list T -> xoutcome T.

  Definition run_safe_core (c : safe_core) (f : form) (bc : buildcfg) (p : pouts) (debug : bool)
             (DIMS : nat) (v : T) (a b res : list T) : xoutcome T :=
    let l := {| len_a := List.length a; len_b := List.length b; len_r := List.length res; len_dims := DIMS |} in
    if negb (asserts_pass l (sc_asserts c)) then XPanicAssert
    else if debug && negb (asserts_pass l (sc_debug_asserts c)) then XPanicAssert
    else match select_chain chain bc p (sc_supplied c) with
         | None => XNoModel
         | Some x =>
             match find (fun q => slot_eqb (fst q) x) (sc_slot_key c) with
             | Some (_, Some k) => run_export (key_export k) f debug DIMS v a b res
             | _ => XNoModel
             end
         end.

  Definition run_safe (es : list export) (ms : list safe_macro) (s : safe_entry) (f : form) :=
    match core_of es ms s f with
    | Some c => run_safe_core c f
    | None => fun _ _ _ _ _ _ _ _ => XNoModel
    end.
End Run.
