(* What the MEMORY intrinsics touch (TRUSTED, hand-written, deliberately tiny; the other half of the trusted base of
   the "memory" tie is tools/translate_mem.py).

   The register back ends (impl_avx2.rs, impl_avx512.rs, impl_neon.rs, impl_fallback.rs) implement
   `SimdRegister::load(mem)` / `SimdRegister::write(mem, reg)` as ONE call of a load / store intrinsic (or of a
   `ptr::read` / `ptr::write` method for Fallback) on the pointer they are given.  This file says, per intrinsic NAME:

     ms_kind     load or store;
     ms_bytes    how many bytes, starting AT the pointer, the call reads / writes
                 ([Bytes n]: a fixed number; [OfPointee]: size_of of the pointee type, for `ptr::read::<T>` ...);
     ms_align    the alignment the pointer must have for the call to be defined ([Bytes 1]: none;
                 [OfPointee]: align_of the pointee, which for the ten primitive element types is their size);
     ms_pointee  the pointee type of the intrinsic's pointer parameter in the pinned stdarch (only compared with the
                 element type when the source passes the pointer WITHOUT a cast: a consistency check of this table).

   Sources.  x86: Intel Intrinsics Guide (`loadu`/`storeu`: "mem_addr does not need to be aligned on any particular
   boundary"; `load`/`store`/`stream`: "mem_addr must be aligned on a 32-byte (64-byte) boundary or a
   general-protection exception may be generated"), and the pinned nightly stdarch, which writes them in Rust:
   `_mm512_loadu_pd = ptr::read_unaligned(mem_addr as *const __m512d)`, `_mm256_load_ps = *(mem_addr as *const
   __m256)`, `_mm256_storeu_si256 = mem_addr.write_unaligned(a)` (tools/translate_mem.py re-reads those bodies on
   every run and refuses a row whose alignment class disagrees with them).  NEON (AArch64 only: the crate gates
   impl_neon.rs on target_arch = "aarch64"): `vld1q_* = ptr::read_unaligned(ptr.cast())`, `vst1q_* =
   ptr::write_unaligned(ptr.cast(), a)` in aarch64/neon/generated.rs; LD1/ST1 of one Q (128-bit) or D (64-bit)
   register, no alignment requirement (Arm ARM, unaligned accesses to Normal memory).  `ptr::read` / `ptr::write`
   (core::ptr): size_of::<T>() bytes, "src must be properly aligned", i.e. align_of::<T>().
   The aligned / non-temporal / half-width names are listed so that a change of the source TO one of them is judged
   by a theorem (Props/C07Mem.v), not only refused by the translator.  No proofs here (Proofs/GenMemSpec.v). *)
From Coq Require Import String List Arith Bool.
From CF Require Import Model.Tables Model.RegTable.
Import ListNotations.
Open Scope string_scope.

Inductive mem_kind := KLoad | KStore.
Inductive size_spec := Bytes (n : nat) | OfPointee.
Inductive pointee :=
| PF32 | PF64
| PInt (signed : bool) (bits : nat)
| PVec (name : string)          (* pointer to a whole vector type: always reached through a cast *)
| PElem.                        (* generic `*const T` (core::ptr functions) *)

Record mem_sem := { ms_kind : mem_kind; ms_bytes : size_spec; ms_align : size_spec; ms_pointee : pointee }.

Definition ld (name : string) (bytes align : nat) (p : pointee) : string * mem_sem :=
  (name, {| ms_kind := KLoad; ms_bytes := Bytes bytes; ms_align := Bytes align; ms_pointee := p |}).
Definition st (name : string) (bytes align : nat) (p : pointee) : string * mem_sem :=
  (name, {| ms_kind := KStore; ms_bytes := Bytes bytes; ms_align := Bytes align; ms_pointee := p |}).

Definition mem_intrinsics : list (string * mem_sem) := [
  (* ---- AVX / AVX2, 256-bit: unaligned (what the source uses) ---- *)
  ld "_mm256_loadu_ps" 32 1 PF32;  ld "_mm256_loadu_pd" 32 1 PF64;  ld "_mm256_loadu_si256" 32 1 (PVec "__m256i");
  st "_mm256_storeu_ps" 32 1 PF32; st "_mm256_storeu_pd" 32 1 PF64; st "_mm256_storeu_si256" 32 1 (PVec "__m256i");
  (* aligned and non-temporal forms: 32-byte alignment REQUIRED *)
  ld "_mm256_load_ps" 32 32 PF32;  ld "_mm256_load_pd" 32 32 PF64;  ld "_mm256_load_si256" 32 32 (PVec "__m256i");
  st "_mm256_store_ps" 32 32 PF32; st "_mm256_store_pd" 32 32 PF64; st "_mm256_store_si256" 32 32 (PVec "__m256i");
  st "_mm256_stream_ps" 32 32 PF32; st "_mm256_stream_pd" 32 32 PF64; st "_mm256_stream_si256" 32 32 (PVec "__m256i");
  ld "_mm256_stream_load_si256" 32 32 (PVec "__m256i");
  (* ---- SSE, 128-bit (half of an AVX2 register) ---- *)
  ld "_mm_loadu_ps" 16 1 PF32;  ld "_mm_loadu_pd" 16 1 PF64;  ld "_mm_loadu_si128" 16 1 (PVec "__m128i");
  st "_mm_storeu_ps" 16 1 PF32; st "_mm_storeu_pd" 16 1 PF64; st "_mm_storeu_si128" 16 1 (PVec "__m128i");
  (* ---- AVX-512, 512-bit: unaligned (what the source uses) ---- *)
  ld "_mm512_loadu_ps" 64 1 PF32;  ld "_mm512_loadu_pd" 64 1 PF64;  ld "_mm512_loadu_si512" 64 1 (PVec "__m512i");
  st "_mm512_storeu_ps" 64 1 PF32; st "_mm512_storeu_pd" 64 1 PF64; st "_mm512_storeu_si512" 64 1 (PVec "__m512i");
  (* aligned and non-temporal forms: 64-byte alignment REQUIRED *)
  ld "_mm512_load_ps" 64 64 PF32;  ld "_mm512_load_pd" 64 64 PF64;  ld "_mm512_load_si512" 64 64 (PVec "__m512i");
  st "_mm512_store_ps" 64 64 PF32; st "_mm512_store_pd" 64 64 PF64; st "_mm512_store_si512" 64 64 (PVec "__m512i");
  st "_mm512_stream_ps" 64 64 PF32; st "_mm512_stream_pd" 64 64 PF64; st "_mm512_stream_si512" 64 64 (PVec "__m512i");
  (* ---- NEON (AArch64), one Q register = 128 bits (what the source uses) ---- *)
  ld "vld1q_f32" 16 1 PF32; ld "vld1q_f64" 16 1 PF64;
  ld "vld1q_s8" 16 1 (PInt true 8);  ld "vld1q_s16" 16 1 (PInt true 16);
  ld "vld1q_s32" 16 1 (PInt true 32); ld "vld1q_s64" 16 1 (PInt true 64);
  ld "vld1q_u8" 16 1 (PInt false 8);  ld "vld1q_u16" 16 1 (PInt false 16);
  ld "vld1q_u32" 16 1 (PInt false 32); ld "vld1q_u64" 16 1 (PInt false 64);
  st "vst1q_f32" 16 1 PF32; st "vst1q_f64" 16 1 PF64;
  st "vst1q_s8" 16 1 (PInt true 8);  st "vst1q_s16" 16 1 (PInt true 16);
  st "vst1q_s32" 16 1 (PInt true 32); st "vst1q_s64" 16 1 (PInt true 64);
  st "vst1q_u8" 16 1 (PInt false 8);  st "vst1q_u16" 16 1 (PInt false 16);
  st "vst1q_u32" 16 1 (PInt false 32); st "vst1q_u64" 16 1 (PInt false 64);
  (* one D register = 64 bits (half of a Q register) *)
  ld "vld1_f32" 8 1 PF32; ld "vld1_f64" 8 1 PF64;
  ld "vld1_s8" 8 1 (PInt true 8);  ld "vld1_s16" 8 1 (PInt true 16);
  ld "vld1_s32" 8 1 (PInt true 32); ld "vld1_s64" 8 1 (PInt true 64);
  ld "vld1_u8" 8 1 (PInt false 8);  ld "vld1_u16" 8 1 (PInt false 16);
  ld "vld1_u32" 8 1 (PInt false 32); ld "vld1_u64" 8 1 (PInt false 64);
  st "vst1_f32" 8 1 PF32; st "vst1_f64" 8 1 PF64;
  st "vst1_s8" 8 1 (PInt true 8);  st "vst1_s16" 8 1 (PInt true 16);
  st "vst1_s32" 8 1 (PInt true 32); st "vst1_s64" 8 1 (PInt true 64);
  st "vst1_u8" 8 1 (PInt false 8);  st "vst1_u16" 8 1 (PInt false 16);
  st "vst1_u32" 8 1 (PInt false 32); st "vst1_u64" 8 1 (PInt false 64);
  (* ---- core::ptr (Fallback: Register = T): `mem.read()` / `*mem`, `mem.write(v)` / `*mem = v` ---- *)
  ("ptr::read", {| ms_kind := KLoad; ms_bytes := OfPointee; ms_align := OfPointee; ms_pointee := PElem |});
  ("ptr::write", {| ms_kind := KStore; ms_bytes := OfPointee; ms_align := OfPointee; ms_pointee := PElem |});
  ("ptr::read_unaligned", {| ms_kind := KLoad; ms_bytes := OfPointee; ms_align := Bytes 1; ms_pointee := PElem |});
  ("ptr::write_unaligned", {| ms_kind := KStore; ms_bytes := OfPointee; ms_align := Bytes 1; ms_pointee := PElem |})
].

Fixpoint assoc {A} (k : string) (l : list (string * A)) : option A :=
  match l with
  | [] => None
  | (k', v) :: r => if String.eqb k k' then Some v else assoc k r
  end.

Definition mem_intrinsic (name : string) : option mem_sem := assoc name mem_intrinsics.

(* size_of of the vector types that occur as `type Register = ..;` (core::arch: the name says the width) *)
Definition vec_types : list (string * nat) := [
  ("__m128", 16); ("__m128d", 16); ("__m128i", 16);
  ("__m256", 32); ("__m256d", 32); ("__m256i", 32);
  ("__m512", 64); ("__m512d", 64); ("__m512i", 64);
  ("float32x4_t", 16); ("float64x2_t", 16);
  ("int8x16_t", 16); ("int16x8_t", 16); ("int32x4_t", 16); ("int64x2_t", 16);
  ("uint8x16_t", 16); ("uint16x8_t", 16); ("uint32x4_t", 16); ("uint64x2_t", 16);
  ("float32x2_t", 8); ("float64x1_t", 8);
  ("int8x8_t", 8); ("int16x4_t", 8); ("int32x2_t", 8); ("int64x1_t", 8);
  ("uint8x8_t", 8); ("uint16x4_t", 8); ("uint32x2_t", 8); ("uint64x1_t", 8)
].

(* size_of = align_of of the ten element types *)
Definition ty_bytes (t : ty) : nat :=
  match t with I8 | U8 => 1 | I16 | U16 => 2 | I32 | U32 | F32 => 4 | I64 | U64 | F64 => 8 end.

(** * The table the translator emits (Gen/GenSimdApi.gen_mem_table): one entry per `load` / `write` of every
      `impl SimdRegister<..> for ..`, purely what the SOURCE says; its meaning is looked up above. *)
Inductive reg_type :=
| RT_elem                   (* `type Register = T;` — the element type itself (Fallback) *)
| RT_vec (name : string).   (* `type Register = __m256i;` ... *)

Record mem_entry := {
  me_reg : reg;
  me_ty : option ty;        (* None: the generic `impl<T> SimdRegister<T> for ..` (every element type) *)
  me_meth : rmeth;          (* MLoad or MWrite *)
  me_intrinsic : string;    (* the ONE access the body performs, on the `mem` parameter itself *)
  me_cast : bool;           (* the pointer goes through `mem.cast()` / `mem as *const _` *)
  me_regty : reg_type;      (* the impl's associated `type Register` *)
  me_via : list string      (* delegation chain, e.g. ["Avx2::load"]: whose body the intrinsic was found in *)
}.
