(* Poison-lane model of the one horizontal fold of the source that mentions an UNDEFINED register:
   `<Avx2 as SimdRegister<f64>>::sum_to_value` (cfavml/src/danger/impl_avx2.rs), the only user of
   `_mm_undefined_ps` (checks/c08.py greps the source for `_mm*_undefined_*` on every run and compares the
   intrinsic sequence of that function with the one modelled here).

   Registers carry OPTION-valued lanes: None = undefined (poison).  A `pd` register is a list of 64-bit lanes
   (`option V`), a `ps` register a list of 32-bit words (`option W`); the casts between the two views split a
   lane into its low/high word ([lo], [hi]) and join two words into a lane ([join]); a lane one of whose words
   is undefined is undefined.  Every lane operation is strict: an undefined operand gives an undefined result.
   No proofs here (Proofs/PoisonProofs.v). *)
From Coq Require Import List.
Import ListNotations.

Section Poison.
  Variables V W : Type.
  Variable lo hi : V -> W.
  Variable join : W -> W -> V.
  Variable add : V -> V -> V.

  Definition pd := list (option V).
  Definition ps := list (option W).

  Definition lane (r : pd) (k : nat) : option V := nth k r None.
  Definition word (r : ps) (k : nat) : option W := nth k r None.
  Definition lift2 (f : V -> V -> V) (x y : option V) : option V :=
    match x, y with Some a, Some b => Some (f a b) | _, _ => None end.

  (* _mm256_extractf128_pd::<1>(reg): lanes 2,3 *)
  Definition mm256_extractf128_pd_1 (r : pd) : pd := [lane r 2; lane r 3].
  (* _mm256_castpd256_pd128(reg): lanes 0,1 *)
  Definition mm256_castpd256_pd128 (r : pd) : pd := [lane r 0; lane r 1].
  (* _mm_add_pd(a, b) *)
  Definition mm_add_pd (a b : pd) : pd := [lift2 add (lane a 0) (lane b 0); lift2 add (lane a 1) (lane b 1)].
  (* _mm_undefined_ps(): four undefined words *)
  Definition mm_undefined_ps : ps := [None; None; None; None].
  (* _mm_castpd_ps(a): words (lo, hi) of each lane *)
  Definition split (x : option V) : list (option W) :=
    match x with Some v => [Some (lo v); Some (hi v)] | None => [None; None] end.
  Definition mm_castpd_ps (a : pd) : ps := split (lane a 0) ++ split (lane a 1).
  (* _mm_castps_pd(a) *)
  Definition joinw (x y : option W) : option V :=
    match x, y with Some a, Some b => Some (join a b) | _, _ => None end.
  Definition mm_castps_pd (a : ps) : pd := [joinw (word a 0) (word a 1); joinw (word a 2) (word a 3)].
  (* _mm_movehl_ps(a, b): [b2, b3, a2, a3] *)
  Definition mm_movehl_ps (a b : ps) : ps := [word b 2; word b 3; word a 2; word a 3].
  (* _mm_add_sd(a, b): lane 0 = a0 + b0, lane 1 = a1 *)
  Definition mm_add_sd (a b : pd) : pd := [lift2 add (lane a 0) (lane b 0); lane a 1].
  (* _mm_cvtsd_f64(a): lane 0 *)
  Definition mm_cvtsd_f64 (a : pd) : option V := lane a 0.

  (* unsafe fn sum_to_value(reg: __m256d) -> f64, line by line; [undef] is what `_mm_undefined_ps()` returned *)
  Definition avx2_f64_sum_to_value_with (undef : ps) (reg : pd) : option V :=
    let left_half := mm256_extractf128_pd_1 reg in
    let right_half := mm256_castpd256_pd128 reg in
    let sum_duo := mm_add_pd left_half right_half in
    let shuffle_tmp := mm_movehl_ps undef (mm_castpd_ps sum_duo) in
    let shuffle := mm_castps_pd shuffle_tmp in
    mm_cvtsd_f64 (mm_add_sd sum_duo shuffle).

  Definition avx2_f64_sum_to_value (reg : pd) : option V := avx2_f64_sum_to_value_with mm_undefined_ps reg.
End Poison.
