(* C10 — instruction-set features: the lattice, the generated call graph's types and semantics.

   Executable definitions only (no proofs).  Everything is parametric in the generated tables
   (Gen/GenFeatures.v, GenExports.v, GenSafe.v, GenMacros.v, GenDispatch.v), so it keeps evaluating whatever
   the repository currently contains.

   A feature set is a list of rustc target-feature names.  The names flow unchanged from the source
   (`features = "avx2"`, `cfg!(target_feature = "avx512f")`, `is_x86_feature_detected!("fma")`) and from
   stdarch (`#[target_feature(enable = "avx512bw")]`) into the tables. *)
From Coq Require Import String List Bool Arith.
From CF Require Import Model.Tables Model.TableSem.
Import ListNotations.
Open Scope string_scope.
Open Scope list_scope.

(** * Feature sets *)

Definition fset := list string.
Definition fsubset (a b : fset) : bool := forallb (fun x => mem_string x b) a.
Fixpoint dedup (l : fset) : fset :=
  match l with
  | [] => []
  | x :: r => if mem_string x r then dedup r else x :: dedup r
  end.
Definition inter (a b : fset) : fset := filter (fun x => mem_string x b) a.

(** * rustc's implication table (rustc_target::target_features, x86 family)

   `#[target_feature(enable = "f")]` enables f and, transitively, everything listed for f here.  The table is
   cross-checked on every run against what the installed rustc (stable and nightly) itself emits: checks/c10.py
   compiles one probe function per key and compares its LLVM "target-features" with [llvm_features [key]].
   A feature that is not a key has no implications in the model; the same comparison exposes it if rustc
   thinks otherwise and the source uses it. *)
Definition implies_tbl : list (string * list string) := [
  ("sse", []); ("sse2", ["sse"]); ("sse3", ["sse2"]); ("ssse3", ["sse3"]);
  ("sse4.1", ["ssse3"]); ("sse4.2", ["sse4.1"]); ("sse4a", ["sse3"]);
  ("avx", ["sse4.2"]); ("avx2", ["avx"]); ("fma", ["avx"]); ("f16c", ["avx"]);
  ("avx512f", ["avx2"; "fma"; "f16c"]);
  ("avx512bw", ["avx512f"]); ("avx512cd", ["avx512f"]); ("avx512dq", ["avx512f"]); ("avx512vl", ["avx512f"]);
  ("avx512ifma", ["avx512f"]); ("avx512vnni", ["avx512f"]); ("avx512vpopcntdq", ["avx512f"]);
  ("avx512vp2intersect", ["avx512f"]);
  ("avx512vbmi", ["avx512bw"]); ("avx512vbmi2", ["avx512bw"]); ("avx512bitalg", ["avx512bw"]);
  ("avx512bf16", ["avx512bw"]); ("avx512fp16", ["avx512bw"]);
  ("aes", ["sse2"]); ("pclmulqdq", ["sse2"]); ("sha", ["sse2"]); ("gfni", ["sse2"]);
  ("vaes", ["avx2"; "aes"]); ("vpclmulqdq", ["avx"; "pclmulqdq"]);
  ("bmi1", []); ("bmi2", []); ("lzcnt", []); ("popcnt", []); ("adx", []); ("movbe", []);
  ("fxsr", []); ("xsave", []); ("xsavec", ["xsave"]); ("xsaveopt", ["xsave"]); ("xsaves", ["xsave"]);
  ("rdrand", []); ("rdseed", []); ("cmpxchg16b", [])
].

Definition direct (f : string) : list string :=
  match find (fun p => String.eqb (fst p) f) implies_tbl with
  | Some p => snd p
  | None => []
  end.

Fixpoint close_n (n : nat) (s : fset) : fset :=
  match n with
  | O => s
  | S k => close_n k (s ++ filter (fun x => negb (mem_string x s)) (dedup (flat_map direct s)))
  end.
(* 16 rounds: the longest implication chain of the table has 10 links; that the result IS closed is
   checked (by evaluation) wherever it matters, see [closedb]. *)
Definition closure (s : fset) : fset := close_n 16 (dedup s).

Definition closedb (l : fset) : bool :=
  forallb (fun p => negb (mem_string (fst p) l) || fsubset (snd p) l) implies_tbl.

(* A CPU's feature set, as std's detection macro and the hardware see it: a predicate on names, closed under
   the implications (a CPU with AVX2 has AVX, ...). *)
Definition closed (avail : string -> bool) : Prop :=
  forall f g, In g (direct f) -> avail f = true -> avail g = true.

(* What every CPU of the compilation target has (x86_64-unknown-*: SSE, SSE2; aarch64-unknown-*: NEON). *)
Definition baseline_of (a : arch) : fset :=
  match a with
  | X86_64 => ["sse"; "sse2"]
  | Aarch64 => ["neon"]
  | X86 | OtherArch => []
  end.
Definition baseline : fset := baseline_of X86_64.
Definition all_archs : list arch := [X86; X86_64; Aarch64; OtherArch].

(* rustc -> LLVM feature names (rustc_codegen_llvm::llvm_util::to_llvm_features), used only to predict the
   "target-features" attribute of the emitted IR. *)
Definition llvm_names (f : string) : list string :=
  if String.eqb f "sse4.2" then ["sse4.2"; "crc32"]
  else if String.eqb f "pclmulqdq" then ["pclmul"]
  else if String.eqb f "rdrand" then ["rdrnd"]
  else if String.eqb f "bmi1" then ["bmi"]
  else if String.eqb f "cmpxchg16b" then ["cx16"]
  else [f].
Definition llvm_features (declared : fset) : fset := dedup (flat_map llvm_names (closure declared)).

(** * The generated call graph *)

(* A reference to a SimdRegister method from inside a body.  [None] = `Self` / the caller's own register
   parameter, resp. the enclosing instance's own element type. *)
Record mcall := { mc_reg : option reg; mc_ty : option ty; mc_name : string }.

Record fbody := {
  fb_feats : list string;      (* the function's own #[target_feature(enable = ..)] list *)
  fb_intr : list string;       (* core::arch intrinsics mentioned *)
  fb_mcalls : list mcall;      (* SimdRegister methods mentioned *)
  fb_math : list string;       (* Math methods mentioned (M::, AutoMath::) *)
  fb_fns : list string         (* crate-level free functions mentioned *)
}.

(* `impl SimdRegister<ty> for reg { fn name .. }`; [im_ty = None]: a blanket `impl<T>` (Fallback). *)
Record impl_method := { im_reg : reg; im_ty : option ty; im_name : string; im_body : fbody }.

Record graph := {
  g_intr : list (string * list string);           (* intrinsic -> stdarch requirement *)
  g_trait_methods : list string;
  g_defaults : list (string * fbody);              (* default bodies of trait SimdRegister *)
  g_impls : list impl_method;
  g_fns : list (string * fbody);                   (* generic_* kernels and helpers *)
  g_math : fbody;                                  (* the scalar Math layer, all of it *)
  g_pred_feats : list (pred * list string);        (* #[target_feature] on is_*_available *)
  g_safe_feats : list (string * string * list string)   (* (macro, fn variable, #[target_feature]) *)
}.

Definition reg_rust_name (r : reg) : string :=
  match r with
  | Fallback => "Fallback" | Avx2 => "Avx2" | Avx2Fma => "Avx2Fma" | Avx512 => "Avx512" | Neon => "Neon"
  end.

(* A node of the graph below the exports: a method of a concrete (register, element type) instance, a free
   function instantiated at one, or the Math layer. *)
Inductive callee :=
| CMethod (r : reg) (t : ty) (m : string)
| CFn (r : reg) (t : ty) (n : string)
| CMath.

Definition callee_name (c : callee) : string :=
  match c with
  | CMethod r t m => ("<" ++ reg_rust_name r ++ " as SimdRegister<" ++ ty_name t ++ ">>::" ++ m)%string
  | CFn r t n => (n ++ "::<" ++ ty_name t ++ ", " ++ reg_rust_name r ++ ", AutoMath>")%string
  | CMath => "AutoMath::*"
  end.

Definition ty_matches (o : option ty) (t : ty) : bool :=
  match o with None => true | Some u => ty_eqb u t end.

Definition has_impl (g : graph) (r : reg) (t : ty) : bool :=
  existsb (fun im => if reg_eqb (im_reg im) r then ty_matches (im_ty im) t else false) (g_impls g).

(* Method resolution: the impl's own definition, else the trait's default body (only for pairs that have an
   impl at all). *)
Definition lookup_method (g : graph) (r : reg) (t : ty) (m : string) : option fbody :=
  (* nested `if`, not `&&`: under vm_compute's call-by-value `&&` would compare the names on every row *)
  match find (fun im => if reg_eqb (im_reg im) r
                        then if ty_matches (im_ty im) t then String.eqb (im_name im) m else false
                        else false)
             (g_impls g) with
  | Some im => Some (im_body im)
  | None =>
      if has_impl g r t
      then match find (fun d => String.eqb (fst d) m) (g_defaults g) with
           | Some d => Some (snd d)
           | None => None
           end
      else None
  end.

Definition empty_body : fbody :=
  {| fb_feats := []; fb_intr := []; fb_mcalls := []; fb_math := []; fb_fns := [] |}.

(* The body of a node, with the (register, type) its `Self`/`R`/`T` stand for. *)
Definition body_of (g : graph) (c : callee) : option (reg * ty * fbody) :=
  match c with
  | CMethod r t m => match lookup_method g r t m with Some b => Some (r, t, b) | None => None end
  | CFn r t n =>
      match find (fun d => String.eqb (fst d) n) (g_fns g) with
      | Some d => Some (r, t, snd d)
      | None => None
      end
  | CMath => Some (Fallback, I8, {| fb_feats := fb_feats (g_math g); fb_intr := fb_intr (g_math g);
                                   fb_mcalls := []; fb_math := []; fb_fns := [] |})
  end.

Definition callees (r : reg) (t : ty) (b : fbody) : list callee :=
  map (fun mc => CMethod (match mc_reg mc with Some x => x | None => r end)
                         (match mc_ty mc with Some x => x | None => t end) (mc_name mc)) (fb_mcalls b)
  ++ map (fun n => CFn r t n) (fb_fns b)
  ++ (match fb_math b with [] => [] | _ => [CMath] end).

Definition poison (s : string) : string := ("<unresolved: " ++ s ++ ">")%string.

Definition intr_req (g : graph) (i : string) : list string :=
  match find (fun p => String.eqb (fst p) i) (g_intr g) with
  | Some p => snd p
  | None => [poison i]
  end.

(* Fuelled reachability.  Running out of fuel or meeting something the tables do not define yields a poison
   string, which is in no closure: every checker below then answers false. *)
Section Collect.
  Variable g : graph.
  Variable leaf : fbody -> list string.

  Fixpoint collect (fuel : nat) (c : callee) : list string :=
    match fuel with
    | O => [poison "out of fuel"]
    | S k =>
        match body_of g c with
        | None => [poison (callee_name c)]
        | Some (r, t, b) => leaf b ++ flat_map (collect k) (callees r t b)
        end
    end.
End Collect.

Definition reach_fuel : nat := 16.

Definition body_feats (g : graph) (b : fbody) : list string :=
  dedup (fb_feats b ++ flat_map (intr_req g) (fb_intr b)).

(* Features required below a node: own attributes and intrinsic requirements of everything reachable. *)
Definition need_raw (g : graph) (c : callee) : list string := collect g (body_feats g) reach_fuel c.
(* Intrinsics reachable from a node. *)
Definition reach_intr (g : graph) (c : callee) : list string := collect g fb_intr reach_fuel c.

Definition export_callee (e : export) : callee := CFn (e_reg e) (e_ty e) (kernel_rust_name (e_op e)).

(* need(export) = closure (declared ∪ needs of everything reachable): LLVM may use, anywhere inside a
   function, every instruction of the closure of that function's enabled features, and an intrinsic that is
   not inlined keeps its own. *)
Definition need_export (g : graph) (e : export) : fset :=
  closure (dedup (e_feats e ++ need_raw g (export_callee e))).
Definition reach_intr_export (g : graph) (e : export) : list string :=
  dedup (reach_intr g (export_callee e)).

(* First path from a node to an intrinsic satisfying [bad] (for replays). *)
Fixpoint first_some {A} (l : list (option A)) : option A :=
  match l with [] => None | Some x :: _ => Some x | None :: r => first_some r end.
Definition join (sep : string) (l : list string) : string :=
  match l with
  | [] => ""
  | x :: r => fold_left (fun acc y => (acc ++ sep ++ y)%string) r x
  end.
Fixpoint find_path (g : graph) (bad : string -> bool) (fuel : nat) (c : callee) : option (list string) :=
  match fuel with
  | O => None
  | S k =>
      match body_of g c with
      | None => Some [poison (callee_name c)]
      | Some (r, t, b) =>
          match find bad (fb_intr b) with
          | Some i => Some [callee_name c; (i ++ " [" ++ join "," (intr_req g i) ++ "]")%string]
          | None =>
              match first_some (map (find_path g bad k) (callees r t b)) with
              | Some p => Some (callee_name c :: p)
              | None => None
              end
          end
      end
  end.

(** * What a dispatch guard establishes *)

(* Features whose presence follows from a compile-time condition being true. *)
Definition cfg_established (c : cfgexp) : fset :=
  match c with
  | CTargetFeature f => [f]
  | CAll l => flat_map (fun x => match x with CTargetFeature f => [f] | _ => [] end) l
  | _ => []
  end.
(* Features f such that the condition can only be true when f is available: at run time on the CPU
   (`is_*_feature_detected!`) or because the whole build enabled it (`cfg!(target_feature = ..)`). *)
Fixpoint pexp_established (e : pexp) : fset :=
  match e with
  | PxCt c => cfg_established c
  | PxRt _ f => [f]
  | PxAnd a b => pexp_established a ++ pexp_established b
  | PxOr a b => inter (pexp_established a) (pexp_established b)
  | PxNot _ => []
  | PxLit _ => []
  end.
(* `is_X_available()` returned true: one of its early returns fired; what holds whichever it was. *)
Definition tested_def (d : pred_def) : fset :=
  if pd_default d then []
  else match map (fun a => pexp_established (snd a)) (pd_arms d) with
       | [] => []
       | x :: r => fold_left inter r x
       end.
Definition tested_pred (defs : list pred_def) (x : pred) : fset :=
  match find (fun d => pred_eqb (pd_pred d) x) defs with
  | Some d => tested_def d
  | None => []
  end.
Definition tested_entry (defs : list pred_def) (c : chain_entry) : fset :=
  flat_map (tested_pred defs) (ce_guard c).
(* The features the dispatcher has verified when it invokes the routine in a slot. *)
Definition tested_slot (defs : list pred_def) (chain : list chain_entry) (s : slot) : fset :=
  match find (fun c => slot_eqb (ce_slot c) s) chain with
  | Some c => tested_entry defs c
  | None => []
  end.

(* Conversely: run-time features that make a condition true when they are all detected. *)
Fixpoint rt_sufficient (e : pexp) : option fset :=
  match e with
  | PxRt _ f => Some [f]
  | PxAnd a b =>
      match rt_sufficient a, rt_sufficient b with
      | Some x, Some y => Some (x ++ y)
      | _, _ => None
      end
  | _ => None
  end.
(* ... for a predicate in a std build: its first arm that is purely run-time and compiled under `std`. *)
Definition cfg_is_std_or_true (c : cfgexp) : bool :=
  match c with CTrue => true | CFeature f => String.eqb f "std" | _ => false end.
Definition rt_sufficient_def (d : pred_def) : option fset :=
  first_some (map (fun a => if cfg_is_std_or_true (fst a) then rt_sufficient (snd a) else None) (pd_arms d)).

(** * Exports of a back end, routines of a slot *)

Definition reg_in_slot (r : reg) (s : slot) : bool :=
  existsb (fun t => reg_eqb r (allowed_backend s t)) all_tys.
Definition slot_exports (es : list export) (s : slot) : list export :=
  filter (fun e => reg_in_slot (e_reg e) s) es.
(* Everything the routines behind a slot need, all element types together (one guard protects them all). *)
Definition funion (a b : fset) : fset := a ++ filter (fun x => negb (mem_string x a)) b.
Definition need_slot (g : graph) (es : list export) (s : slot) : fset :=
  fold_left (fun acc e => funion acc (need_export g e)) (slot_exports es s) [].

(** * Safe wrappers and predicates: what runs outside every guard *)

Definition need_pred (g : graph) (x : pred) : fset :=
  match find (fun p => pred_eqb (fst p) x) (g_pred_feats g) with
  | Some p => closure (snd p)
  | None => [poison "predicate"]
  end.
Definition safe_feats (g : graph) (macro fnvar : string) : fset :=
  match find (fun p => String.eqb (fst (fst p)) macro && String.eqb (snd (fst p)) fnvar) (g_safe_feats g) with
  | Some p => snd p
  | None => [poison (macro ++ ":" ++ fnvar)%string]
  end.
Definition unguarded (chain : list chain_entry) (s : slot) : bool :=
  match find (fun c => slot_eqb (ce_slot c) s) chain with
  | Some c => match ce_guard c with [] => true | _ => false end
  | None => false
  end.
(* A safe routine itself: its own attributes, the predicates it evaluates, and every routine it calls without
   a guard in front (the fallback). *)
Definition need_safe (g : graph) (chain : list chain_entry) (es : list export) (m : safe_macro)
           (s : safe_entry) (f : form) : fset :=
  match safe_fn_of m f with
  | None => [poison "safe fn"]
  | Some sf =>
      closure (dedup (
        safe_feats g (sm_name m) (sf_namevar sf)
        ++ flat_map (fun c => flat_map (need_pred g) (ce_guard c)) chain
        ++ flat_map (fun d =>
             if unguarded chain (ds_slot d)
             then match slot_export es m s f (ds_slot d) with
                  | Some e => need_export g e
                  | None => [poison "slot"]
                  end
             else []) (sf_dispatch sf)))
  end.

(** * Checkers (reflected in Proofs/FeatureProofs.v) *)

Definition exports_of (es : list export) (r : reg) : list export := filter (fun e => reg_eqb (e_reg e) r) es.

Definition reg_need_ok (g : graph) (es : list export) (r : reg) (allowed : fset) : bool :=
  forallb (fun e => fsubset (need_export g e) allowed) (exports_of es r).

Definition nofma_ok (g : graph) (es : list export) : bool :=
  forallb (fun e => forallb (fun i => negb (mem_string "fma" (closure (intr_req g i)))) (reach_intr_export g e))
          (exports_of es Avx2).

Definition safe_need_ok (g : graph) (chain : list chain_entry) (es : list export) (ms : list safe_macro)
           (s : safe_entry) : bool :=
  match find_safe_macro ms (s_macro s) with
  | None => false
  | Some m => fsubset (need_safe g chain es m s Const) baseline && fsubset (need_safe g chain es m s Any) baseline
  end.

(* For every export, every chain link whose slot it can sit in, every architecture: what the export needs is
   implied by what that link's guard tested together with the target's baseline. *)
Definition allowed_in (defs : list pred_def) (c : chain_entry) : slot * list fset :=
  (ce_slot c, map (fun a => closure (tested_entry defs c ++ baseline_of a)) all_archs).
Definition dispatch_ok (g : graph) (defs : list pred_def) (chain : list chain_entry) (es : list export) : bool :=
  let allowed := map (allowed_in defs) chain in
  forallb (fun e =>
    let n := need_export g e in
    forallb (fun ca => if reg_in_slot (e_reg e) (fst ca) then forallb (fsubset n) (snd ca) else true) allowed) es.

(* [tested_slot] and the chain agree: each slot occurs once. *)
Definition chain_slots_unique (chain : list chain_entry) : bool :=
  forallb (fun c => Nat.eqb (length (filter (fun d => slot_eqb (ce_slot d) (ce_slot c)) chain)) 1) chain.

(* What all routines behind each chain link need is implied by what the link's guard tested (+ baseline). *)
Definition slots_need_ok (g : graph) (defs : list pred_def) (chain : list chain_entry) (es : list export) : bool :=
  forallb (fun c =>
    let n := need_slot g es (ce_slot c) in
    forallb (fun a => fsubset n (closure (tested_entry defs c ++ baseline_of a))) all_archs) chain.
(* Conversely (std builds): each predicate of a link's guard has a purely run-time arm whose detected features
   are all among what the routines behind the link need. *)
Definition slots_need_complete (g : graph) (defs : list pred_def) (chain : list chain_entry) (es : list export) : bool :=
  forallb (fun c =>
    let n := need_slot g es (ce_slot c) in
    forallb (fun x =>
      match find (fun d => pred_eqb (pd_pred d) x) defs with
      | Some d => match rt_sufficient_def d with Some l => fsubset l n | None => false end
      | None => false
      end) (ce_guard c)) chain.

Definition all_pouts : list pouts :=
  flat_map (fun a => flat_map (fun b => flat_map (fun c => map (fun d =>
    {| o_avx512 := a; o_avx2 := b; o_fma := c; o_neon := d |}) [true; false]) [true; false]) [true; false])
    [true; false].
(* The guard each chain link evaluates is the one the specification names for its slot. *)
Definition chain_guards_spec_ok (chain : list chain_entry) : bool :=
  forallb (fun c => forallb (fun p => Bool.eqb (guard_spec (ce_slot c) p) (forallb (pout p) (ce_guard c))) all_pouts)
          chain.
