"""Builds of the correspondence harnesses (Rust, from /repo's working tree) and of the model driver
(Coq extraction -> OCaml).  All products under /verif/.build; every step under the build lock."""
import os
import shutil
import sys
import time

import lib

CFH = os.path.join(lib.VERIF, "harness", "cfh")
HOOK_FLAGS = "--cfg cfavml_verif"

CONFIGS = {
    # name: (toolchain, cargo args, target dir, binary path)
    "stable": ("", ["--release"], "target-stable", "release"),
    "debug": ("", [], "target-debug", "debug"),
    "nightly": ("+nightly", ["--release", "--features", "nightly"], "target-nightly", "release"),
}


def hook_present():
    """The harness calls the hook only when the hook commit is present in /repo's working tree."""
    try:
        src = open(os.path.join(lib.REPO, "cfavml", "src", "dispatch.rs")).read()
    except OSError:
        return ""
    return " --cfg cfavml_verif_hook_present" if "verif_hook" in src else ""


# build-flag variants of a configuration (same sources, own target dir): what `-C target-feature=...` declares at compile time
VARIANTS = {"fma": "-C target-feature=+avx2,+fma"}


def cfh_bin(config, variant=None):
    _, _, tdir, prof = CONFIGS[config]
    return os.path.join(lib.BUILD, tdir + ("-" + variant if variant else ""), prof, "cfh")


def build_cfh(config, verbose=False, variant=None):
    """(Re)build the harness in one configuration; cargo decides what is stale.  Returns (ok, log)."""
    tc, args, tdir, _ = CONFIGS[config]
    if variant:
        tdir = tdir + "-" + variant
    with lib.build_lock("lock-cargo-" + config + ("-" + variant if variant else "")):
        try:
            import gen_glue
            gen_glue.write(config)
        except ImportError:
            pass
        lib.point_manifest(CFH)
        lock_src = os.path.join(lib.REPO, "Cargo.lock")
        if os.path.exists(lock_src) and not os.path.exists(os.path.join(CFH, "Cargo.lock")):
            shutil.copy(lock_src, os.path.join(CFH, "Cargo.lock"))
        cmd = "cargo %s build --offline %s" % (tc, " ".join(args))
        env = {"CARGO_TARGET_DIR": os.path.join(lib.BUILD, tdir), "RUSTFLAGS": HOOK_FLAGS + " -Awarnings --cfg cfh_%s%s" % (config, hook_present())
               + ((" " + VARIANTS[variant]) if variant else ""),
               "CFH_CONFIG": config}
        t = time.time()
        rc, out = lib.sh(cmd, cwd=CFH, env=env, timeout=3000)
        if verbose:
            print("harness build [%s] rc=%d %.0fs" % (config, rc, time.time() - t), flush=True)
            if rc != 0:
                print(out[-3000:])
    return rc == 0, out


def driver_bin():
    return os.path.join(lib.BUILD, "ocaml", "driver")


def build_driver(verbose=False):
    ok, log = lib.coq_make(["Extract/Extract.vo"], timeout=2400)
    if not ok:
        return False, log
    with lib.build_lock("lock-ocaml"):
        d = os.path.join(lib.BUILD, "ocaml")
        os.makedirs(d, exist_ok=True)
        srcs = sorted(f for f in os.listdir(os.path.join(lib.VERIF, "ocaml")) if f.endswith(".ml"))
        newest = max([os.path.getmtime(os.path.join(lib.VERIF, "ocaml", f)) for f in srcs]
                     + [os.path.getmtime(os.path.join(d, "model.ml"))])
        if os.path.exists(driver_bin()) and os.path.getmtime(driver_bin()) >= newest:
            return True, "up to date"
        for f in srcs:
            shutil.copy(os.path.join(lib.VERIF, "ocaml", f), d)
        first = ["driver_common.ml", "driver_sym.ml", "driver_exp.ml"]
        order = first + [f for f in srcs if f not in first + ["driver.ml"]] + ["driver.ml"]
        t = time.time()
        rc, out = lib.sh("ocamlfind ocamlopt -O3 -unboxed-types 2>/dev/null; ocamlfind ocamlopt -w -a -o driver model.mli model.ml "
                         + " ".join(order), cwd=d, timeout=1200)
        if verbose:
            print("driver build rc=%d %.0fs" % (rc, time.time() - t), flush=True)
            if rc != 0:
                print(out[-3000:])
    return rc == 0, out


def build_all(verbose=False):
    ok = True
    for c in CONFIGS:
        o, _ = build_cfh(c, verbose)
        ok = ok and o
    o, _ = build_driver(verbose)
    return ok and o


if __name__ == "__main__":
    sys.exit(0 if build_all(True) else 1)
