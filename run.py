#!/usr/bin/env python3
"""run.py — entry point of every registered check.

  python3 run.py <ID> [--tier quick|thorough]     run one property's check (exit 0 / exit 1 + VIOLATION line)
  python3 run.py --setup                           build everything from files on disk (MANIFEST.setup_cmd)
  python3 run.py --replay <path>                   re-run the case recorded in a replay file
  python3 run.py --all [--tier ...]                run every check in sequence (convenience)
"""
import argparse
import importlib
import json
import os
import sys
import time

sys.path.insert(0, os.path.dirname(os.path.abspath(__file__)))
import lib  # noqa: E402

IDS = ["C%02d" % i for i in range(1, 19)]


def run_check(pid, tier, seed):
    ctx = lib.Ctx(pid, tier, seed)
    try:
        mod = importlib.import_module("checks.%s" % pid.lower())
    except ImportError as ex:
        print("no check module for %s: %s" % (pid, ex))
        return 2
    try:
        mod.run(ctx)
    except Exception as ex:  # a crash of the machinery is a broken check, reported as such
        import traceback
        traceback.print_exc()
        ctx.broke("correspondence", "check crashed", repr(ex))
    return ctx.finish(level=getattr(mod, "LEVEL", "proof"))


def setup():
    t0 = time.time()
    facts, errors = lib.translate()
    for e in errors:
        print("setup: translator: %s: %s" % (e["step"], e["error"]))
    ok, log = lib.coq_make([], timeout=3000, keep_going=True)
    print("setup: coq build %s (%.0fs)" % ("ok" if ok else "had failures (reported per property)", time.time() - t0))
    if not ok:
        err = lib.coq_first_error(log)
        print("setup: first coq error:", err)
    try:
        import harness_build
        harness_build.build_all(verbose=True)
    except ImportError:
        pass
    print("setup: done in %.0fs" % (time.time() - t0))
    return 0


def main():
    ap = argparse.ArgumentParser()
    ap.add_argument("id", nargs="?")
    ap.add_argument("--tier", default=os.environ.get("VERIF_TIER", "quick"), choices=["quick", "thorough"])
    ap.add_argument("--setup", action="store_true")
    ap.add_argument("--all", action="store_true")
    ap.add_argument("--replay")
    a = ap.parse_args()
    seed = int(os.environ.get("VERIF_SEED", "20260926"))
    if a.setup:
        return setup()
    if a.replay:
        with open(a.replay) as f:
            r = json.load(f)
        os.environ["VERIF_REPLAY"] = a.replay
        return run_check(r["property"], a.tier, seed)
    if a.all:
        rc = 0
        for pid in IDS:
            if os.path.exists(os.path.join(lib.VERIF, "checks", pid.lower() + ".py")):
                rc |= run_check(pid, a.tier, seed)
        return rc
    if not a.id:
        ap.error("property id required")
    return run_check(a.id.upper(), a.tier, seed)


if __name__ == "__main__":
    sys.exit(main())
