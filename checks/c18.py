"""C18 — the scalar math layer (trait Math<T>: StdMath, and FastMath under the `nightly` feature) agrees with the
primitive types it wraps.

1. translator  tools/translate_more.py step "math": math/default.rs + math/fast_math.rs -> coq/Gen/GenMath.v (every run)
2. theorems    coq/Props/C18.v about the regenerated definitions (all operands, 2 variants x 10 types x 13 methods)
3. correspondence  harness/mathh calls the REAL `<StdMath|FastMath as Math<T>>::method` on operands given as bit
   patterns; the generated Coq definitions are evaluated on the same operands with `Eval vm_compute` (operands and
   results travel as primitive-integer halves: parsing/printing 64-bit Z literals costs milliseconds each);
   the specification (Regs.int_math / Regs.float_math) is evaluated alongside whenever the theorems that equate it
   with the generated definitions did not check.
   A real result that contradicts the specification on an input the property speaks about is a VIOLATION with the
   operands as replay; any other disagreement with the generated definitions is a broken correspondence.
"""
import os
import re
import shutil
import struct
import time
from concurrent.futures import ThreadPoolExecutor

import lib
from checks import runner

LEVEL = "proof"

MATHH = os.path.join(lib.VERIF, "harness", "mathh")
CONFIGS = {
    # name: (toolchain, cargo args, target dir)
    "stable": ("", ["--release"], "target-mathh-stable"),
    "nightly": ("+nightly", ["--release", "--features", "nightly"], "target-mathh-nightly"),
}
INT_TYS = {"i8": (True, 8), "i16": (True, 16), "i32": (True, 32), "i64": (True, 64),
           "u8": (False, 8), "u16": (False, 16), "u32": (False, 32), "u64": (False, 64)}
FLOAT_TYS = {"f32": 32, "f64": 64}
ALL_TYS = list(INT_TYS) + list(FLOAT_TYS)
NULLARY = ["zero", "one", "max", "min"]
UNARY = ["sqrt", "abs"]
BINARY = ["add", "sub", "mul", "div", "cmp_min", "cmp_max", "cmp_eq"]
FIELD = {m: "m_" + m for m in NULLARY + UNARY + BINARY}


# ------------------------------------------------------------------------------------------------
# builds
# ------------------------------------------------------------------------------------------------

def mathh_bin(config):
    return os.path.join(lib.BUILD, CONFIGS[config][2], "release", "mathh")


def build_mathh(config):
    tc, args, tdir = CONFIGS[config]
    with lib.build_lock("lock-cargo-mathh-" + config):
        lib.point_manifest(MATHH)
        lock_src = os.path.join(lib.REPO, "Cargo.lock")
        if os.path.exists(lock_src) and not os.path.exists(os.path.join(MATHH, "Cargo.lock")):
            shutil.copy(lock_src, os.path.join(MATHH, "Cargo.lock"))
        cmd = "cargo %s build --offline %s" % (tc, " ".join(args))
        rc, out = lib.sh(cmd, cwd=MATHH, env={"CARGO_TARGET_DIR": os.path.join(lib.BUILD, tdir), "RUSTFLAGS": "-Awarnings"},
                         timeout=3000)
    return rc == 0, out


# ------------------------------------------------------------------------------------------------
# operands
# ------------------------------------------------------------------------------------------------

def int_boundaries(w, thorough):
    m = (1 << w) - 1
    vals = {0, 1, 2, 3, m, m - 1, m - 2, 1 << (w - 1), (1 << (w - 1)) - 1, (1 << (w - 1)) + 1, (1 << (w - 1)) + 2,
            (1 << (w - 1)) - 2}
    ks = range(1, w) if (thorough and w <= 32) else (range(1, w, 3) if thorough else
                                                      sorted({1, 2, 3, w // 2 - 1, w // 2, w // 2 + 1, w - 3, w - 2}))
    for k in ks:
        if 0 < k < w:
            for d in (-1, 0, 1):
                vals.add(((1 << k) + d) & m)
                vals.add((-((1 << k) + d)) & m)          # the negative counterparts (two's complement)
    if w == 64:
        vals |= {(1 << 52) - 1, 1 << 52, (1 << 52) + 1, (1 << 53) - 1, 1 << 53, (1 << 53) + 1, (1 << 26) ** 2 - 1}
    return sorted(vals)


def f32b(x):
    return struct.unpack("<I", struct.pack("<f", x))[0]


def f64b(x):
    return struct.unpack("<Q", struct.pack("<d", x))[0]


def float_boundaries(bits, thorough):
    if bits == 32:
        sign, mant, ebias, conv = 1 << 31, 23, 127, f32b
        emask = 0x7f800000
    else:
        sign, mant, ebias, conv = 1 << 63, 52, 1023, f64b
        emask = 0x7ff0000000000000
    one = ebias << mant
    pos = [0, 1, 2, (1 << mant) - 1,                     # +0, min / 2nd / max subnormal
           1 << mant, (1 << mant) + 1,                   # min normal (+ulp)
           emask - 1, emask - 2,                         # max normal, its predecessor
           emask,                                        # +inf
           one, one + 1, one - 1, one + 2,               # 1, 1+ulp, 1-ulp/2, 1+2ulp
           conv(2.0), conv(3.0), conv(0.5), conv(1.5), conv(0.1), conv(10.0), conv(1.0 / 3.0),
           (ebias - mant - 1) << mant,                   # 2^-(p): half an ulp of 1 (ties in 1 + x)
           ((ebias - mant - 1) << mant) + 1,             # just above the tie
           ((ebias - mant - 1) << mant) - 1,             # just below the tie
           (ebias - mant) << mant,                       # ulp of 1
           ((ebias - mant - 1) << mant) | (1 << (mant - 1)),   # 1.5 * 2^-p
           (ebias + mant + 1) << mant,                   # 2^p
           ((ebias + mant + 1) << mant) + 1,             # 2^p + 2
           (2 * ebias) << mant,                          # 2^emax-1 (products overflow)
           ((ebias // 2) << mant) | 12345,               # a small number whose square underflows
           conv(4.0), conv(9.0), conv(2.25), conv(1e-3)]
    if thorough:
        pos += [conv(7.0), conv(1e10), conv(123456.789), 3, (1 << mant) - 2, one + 3, conv(0.75), conv(5.0)]
    nans = [emask | (1 << (mant - 1)), emask | 1, sign | emask | (1 << (mant - 1))]
    vals = set(nans)
    for p in pos:
        vals.add(p)
        vals.add(p | sign)
    return sorted(vals)


def rand_ints(rng, w, n):
    m = (1 << w) - 1
    out = []
    for i in range(n):
        r = rng.next()
        k = i % 4
        if k == 0:
            a, b = rng.next() & m, rng.next() & m
        elif k == 1:                                       # small magnitude, either sign
            s = 1 + rng.below(w)
            a = (rng.next() & ((1 << s) - 1)) * (1 if r & 1 else -1) & m
            b = (rng.next() & ((1 << (1 + rng.below(w))) - 1)) * (1 if r & 2 else -1) & m
        elif k == 2:                                       # near the sign boundary / the ends
            a = ((1 << (w - 1)) + rng.below(33) - 16) & m
            b = (rng.below(33) - 16) & m
        else:                                              # sparse bit patterns
            a = (1 << rng.below(w)) | (1 << rng.below(w))
            b = ((1 << rng.below(w)) - (1 << rng.below(w))) & m
        out.append((a, b))
    return out


def rand_floats(rng, bits, n):
    mant = 23 if bits == 32 else 52
    m = (1 << bits) - 1
    emax = 0xff if bits == 32 else 0x7ff
    out = []
    for i in range(n):
        k = i % 4
        if k == 0:                                          # uniform patterns: every exponent, NaNs now and then
            a, b = rng.next() & m, rng.next() & m
        elif k == 1:                                        # same or neighbouring exponent: cancellation, ties
            e = 1 + rng.below(emax - 2)
            a = (rng.below(2) << (bits - 1)) | (e << mant) | (rng.next() & ((1 << mant) - 1))
            e2 = min(emax - 1, max(0, e + rng.below(3) - 1))
            b = (rng.below(2) << (bits - 1)) | (e2 << mant) | (rng.next() & ((1 << mant) - 1))
        elif k == 2:                                        # moderate magnitudes with few mantissa bits (exact cases, ties)
            bias = (emax >> 1)
            a = ((bias + rng.below(41) - 20) << mant) | ((rng.next() & 0xff) << (mant - 8)) | (rng.below(2) << (bits - 1))
            b = ((bias + rng.below(41) - 20) << mant) | ((rng.next() & 0xff) << (mant - 8)) | (rng.below(2) << (bits - 1))
        else:                                               # subnormals and the underflow range against normals
            a = (rng.next() & ((1 << (mant + 2)) - 1)) | (rng.below(2) << (bits - 1))
            b = ((rng.below(emax)) << mant) | (rng.next() & ((1 << mant) - 1)) | (rng.below(2) << (bits - 1))
        out.append((a, b))
    return out


# ------------------------------------------------------------------------------------------------
# the model side: Coq scratch files
# ------------------------------------------------------------------------------------------------

COQ_HDR = """From Coq Require Import ZArith List Uint63.
From CF Require Import Model.Tables Model.Prim Model.SimdApi Model.PrimMore Model.Regs Gen.GenMath.
Import ListNotations.
Definition Zof (hi lo : int) : Z := (to_Z hi * 4294967296 + to_Z lo)%Z.
Definition out (z : Z) : list int := [0%uint63; of_Z (z / 4294967296)%Z; of_Z (z mod 4294967296)%Z].
Definition outo (z : option Z) : list int := match z with Some z => out z | None => [1; 0; 0]%uint63 end.
Definition outb (b : bool) : list int := [0; 0; if b then 1 else 0]%uint63.
Definition outf32 (x : f32) : list int := match bits_of_f32 x with Some z => out z | None => [2; 0; 0]%uint63 end.
Definition outf64 (x : f64) : list int := match bits_of_f64 x with Some z => out z | None => [2; 0; 0]%uint63 end.
Definition outof32 (x : option f32) : list int := match x with Some q => outf32 q | None => [1; 0; 0]%uint63 end.
Definition outof64 (x : option f64) : list int := match x with Some q => outf64 q | None => [1; 0; 0]%uint63 end.
Definition enc1 (z : Z) : int := of_Z z.
Definition enc1o (z : option Z) : int := match z with Some z => of_Z z | None => 65536%uint63 end.
Definition enc1b (b : bool) : int := if b then 1%uint63 else 0%uint63.
Definition upto (n : nat) : list int := map (fun k => of_Z (Z.of_nat k)) (seq 0 n).
Definition from (s : Z) (n : nat) : list int := map (fun k => of_Z (s + Z.of_nat k)%Z) (seq 0 n).
Open Scope uint63_scope.
"""


def record(variant, ty, spec):
    if not spec:
        return "%s_%s" % (variant, ty)
    if ty in INT_TYS:
        sg, w = INT_TYS[ty]
        return "(int_math %s %d)" % ("true" if sg else "false", w)
    return "(float_math : MathOps %s)" % ty


def case_expr(variant, ty, method, spec):
    """Coq function body over ah al bh bl (primitive-int halves of the operand patterns) -> list int"""
    R = record(variant, ty, spec)
    if ty in INT_TYS:
        a, b = "(Zof ah al)", "(Zof bh bl)"
        o, od = "out", "outo"
    else:
        a, b = "(%s_of_bits (Zof ah al))" % ty, "(%s_of_bits (Zof bh bl))" % ty
        o, od = "out" + ty, "outo" + ty
    f = FIELD[method]
    if method in NULLARY:
        return "%s (%s %s)" % (o, f, R)
    if method in UNARY:
        return "%s (%s %s %s)" % (o, f, R, a)
    if method == "cmp_eq":
        return "outb (%s %s %s %s)" % (f, R, a, b)
    if method == "div":
        return "%s (%s %s %s %s)" % (od, f, R, a, b)
    return "%s (%s %s %s %s)" % (o, f, R, a, b)


def halves(x):
    return "%d, %d" % (x >> 32, x & 0xffffffff)


def group_cost(ty, method):
    if ty in FLOAT_TYS:
        return 0.002 if method in ("cmp_eq", "cmp_min", "cmp_max", "abs") + tuple(NULLARY) else (0.004 if ty == "f32" else 0.007)
    if method == "sqrt":
        return 0.006
    return 0.0004


class ModelJobs:
    """collects (key -> list of operand pairs), emits balanced Coq scratch files, runs them in parallel"""

    def __init__(self):
        self.items = []          # (cost, text, sink list, count of result triples, triple?)

    def add_cases(self, variant, ty, method, spec, ops, sink):
        """ops: list of (a, b) patterns; sink: list to extend with canonical result strings, in order"""
        CH = 400
        for i in range(0, len(ops), CH):
            chunk = ops[i:i + CH]
            text = "Eval vm_compute in (flat_map (fun c : int * int * int * int => let '(ah, al, bh, bl) := c in %s) [%s]).\n" % (
                case_expr(variant, ty, method, spec), "; ".join("(%s, %s)" % (halves(a), halves(b)) for a, b in chunk))
            part = []
            sink.append(part)
            self.items.append((0.02 + len(chunk) * group_cost(ty, method), text, part, ("triples", ty, method)))

    def add_table2(self, variant, ty, method, spec, sink):
        """all 2^16 pairs of an 8-bit type, a outer / b inner, 16 rows per command"""
        R = record(variant, ty, spec)
        enc = {"div": "enc1o", "cmp_eq": "enc1b"}.get(method, "enc1")
        for r0 in range(0, 256, 16):
            text = ("Eval vm_compute in (flat_map (fun a => map (fun b => %s (%s %s (to_Z a) (to_Z b))) (upto 256)) (from %d 16)).\n"
                    % (enc, FIELD[method], R, r0))
            part = []
            sink.append(part)
            self.items.append((0.05 + 4096 * 0.0003, text, part, ("singles", ty, method)))

    def add_table1(self, variant, ty, method, spec, sink):
        R = record(variant, ty, spec)
        w = INT_TYS[ty][1]
        step = 2048 if method == "sqrt" else 4096
        for s in range(0, 1 << w, step):
            n = min(step, (1 << w) - s)
            text = "Eval vm_compute in (map (fun a => enc1 (%s %s (to_Z a))) (from %d %d)).\n" % (FIELD[method], R, s, n)
            part = []
            sink.append(part)
            self.items.append((0.05 + n * group_cost(ty, method), text, part, ("singles", ty, method)))

    def run(self, ctx, nproc=None):
        nproc = nproc or max(2, lib.NCPU - 2)
        total = sum(i[0] for i in self.items)
        target = max(4.0, total / (nproc * 3.0))
        # greedy packing of the commands, in order of decreasing cost, into jobs of about `target` seconds
        order = sorted(range(len(self.items)), key=lambda k: -self.items[k][0])
        jobs = []
        for k in order:
            placed = False
            for j in jobs:
                if j[0] + self.items[k][0] <= target:
                    j[0] += self.items[k][0]
                    j[1].append(k)
                    placed = True
                    break
            if not placed:
                jobs.append([self.items[k][0], [k]])
        fails = []

        def work(jn):
            cost, ks = jobs[jn]
            body = COQ_HDR + "".join(self.items[k][1] for k in ks)
            rc, out = lib.coq_eval(body, timeout=3000, name="c18_%d" % jn)
            if rc != 0:
                return jn, "coqc rc=%d: %s" % (rc, out[-600:])
            blocks = re.findall(r"=\s*\[(.*?)\]\s*:\s*list int", out, flags=re.S)
            if len(blocks) != len(ks):
                return jn, "expected %d result lists, found %d: %s" % (len(ks), len(blocks), out[-400:])
            for k, blk in zip(ks, blocks):
                nums = [int(x) for x in re.findall(r"\d+", blk)]
                kind, ty, method = self.items[k][3]
                self.items[k][2].extend(decode(kind, ty, method, nums))
            return jn, None

        t = time.time()
        with ThreadPoolExecutor(max_workers=nproc) as ex:
            for jn, err in ex.map(work, range(len(jobs))):
                if err:
                    fails.append(err)
        ctx.note("model: %d coqc jobs (%d commands, est. %.0f cpu-s) in %.1fs" % (len(jobs), len(self.items), total, time.time() - t))
        return fails


def decode(kind, ty, method, nums):
    """Coq output integers -> canonical strings as printed by the harness"""
    out = []
    if kind == "triples":
        for i in range(0, len(nums) - 2, 3):
            flag, hi, lo = nums[i:i + 3]
            if flag == 1:
                out.append("panic")
            elif flag == 2:
                out.append("nan")
            elif method == "cmp_eq":
                out.append("true" if lo else "false")
            else:
                out.append("%x" % ((hi << 32) | lo))
    else:
        for n in nums:
            if method == "cmp_eq":
                out.append("true" if n else "false")
            elif n == 65536:
                out.append("panic")
            else:
                out.append("%x" % n)
    return out


def flat(parts):
    return [x for p in parts for x in p]


# ------------------------------------------------------------------------------------------------
# comparison
# ------------------------------------------------------------------------------------------------

def is_nan_bits(ty, x):
    if ty == "f32":
        return (x & 0x7f800000) == 0x7f800000 and (x & 0x7fffff) != 0
    return (x & 0x7ff0000000000000) == 0x7ff0000000000000 and (x & 0xfffffffffffff) != 0


def is_zero_bits(ty, x):
    return (x & ((1 << (FLOAT_TYS[ty] - 1)) - 1)) == 0


def ordered(ty, x):
    """monotone integer image of a non-NaN float pattern (ulp distance = difference)"""
    s = 1 << (FLOAT_TYS[ty] - 1)
    return -(x & (s - 1)) if x & s else (x & (s - 1))


def agree(variant, ty, method, a, b, real, model):
    """does the real result agree with a model/specification result, under the property's tolerances?"""
    if real == model:
        return True
    if ty not in FLOAT_TYS:
        return False
    if real in ("nan", "panic", "unsupported", "unrun") or model in ("nan", "panic") or real.startswith("signal"):
        return False
    try:
        r, m = int(real, 16), int(model, 16)
    except ValueError:
        return False
    if method in ("cmp_min", "cmp_max"):
        # equal-valued operands (+0 / -0): either may be returned
        return is_zero_bits(ty, a) and is_zero_bits(ty, b) and is_zero_bits(ty, r) and is_zero_bits(ty, m)
    if method == "div" and variant == "fast":
        return abs(ordered(ty, r) - ordered(ty, m)) <= 2
    return False


def in_domain(ty, method, a, b):
    """is this case one the property's text speaks about?"""
    if ty in INT_TYS:
        if method == "sqrt":
            sg, w = INT_TYS[ty]
            if sg and a >> (w - 1):
                return False
            return a < (1 << 52)
        return True
    if method in ("cmp_min", "cmp_max"):
        return not (is_nan_bits(ty, a) or is_nan_bits(ty, b))
    return True


def describe(ty, x):
    if ty in INT_TYS:
        sg, w = INT_TYS[ty]
        v = x - (1 << w) if sg and x >> (w - 1) else x
        return "%d (0x%x)" % (v, x)
    if is_nan_bits(ty, x):
        return "NaN (0x%x)" % x
    v = struct.unpack("<f", struct.pack("<I", x))[0] if ty == "f32" else struct.unpack("<d", struct.pack("<Q", x))[0]
    return "%r (0x%x)" % (v, x)


SPEC_TEXT = {
    "zero": "the additive identity 0", "one": "the multiplicative identity 1", "max": "the type's MAX (+inf for floats)",
    "min": "the type's MIN (-inf for floats)",
    "sqrt": "the floor of the square root (integers below 2^52) / the correctly rounded root (floats, std build)",
    "abs": "the primitive abs", "cmp_eq": "primitive equality", "cmp_min": "the smaller argument",
    "cmp_max": "the larger argument", "add": "the wrapping (integers) / correctly rounded IEEE (floats) sum",
    "sub": "the wrapping / correctly rounded difference", "mul": "the wrapping / correctly rounded product",
    "div": "the wrapping truncated quotient, panic on a zero divisor (integers) / the IEEE quotient (floats; FastMath within 2 ulp)",
}


# ------------------------------------------------------------------------------------------------
# the check
# ------------------------------------------------------------------------------------------------

def run(ctx):
    thorough = ctx.tier == "thorough"
    facts = ctx.translate(steps=("math",))
    mf = (facts or {}).get("math") or {}
    ctx.trusted += ["Coq 8.16.1 kernel + vm_compute; Flocq 4 (BinarySingleNaN)",
                    "coq/Model/Prim.v + PrimMore.v: the meaning of Rust's primitives (wrapping_*, Ord::min/max, ==, `as` casts, "
                    "IEEE + - * / sqrt min max) — tied to rustc's behaviour by the correspondence below, not proved",
                    "tools/translate_more.py (typed translation of the one-line method bodies; macro arms expanded)",
                    "harness/mathh (calls the real trait methods; release builds, stable and nightly --features nightly)"]
    ctx.assumptions += [
        "core::intrinsics::f*_algebraic on two run-time operands is the IEEE operation (recorded contract, PrimMore.v): measured "
        "bit-exact for add/sub/mul on the nightly build, division allowed the property's 2 ulp",
        "std build (feature `std`): the no_std bit-trick sqrt/abs (f32_sqrt_fast, f32_abs_fast) is outside the property",
        "`a.abs()` on signed integers has release semantics (MIN.abs() = MIN); a debug build panics there",
        "float cmp_min/cmp_max on +0/-0 may return either zero (compared modulo the sign of zero)"]
    ctx.extra["translated"] = {v: sorted(d) for v, d in mf.get("variants", {}).items()}
    ctx.extra["automath"] = mf.get("automath")
    ctx.extra["build_flags"] = mf.get("flags")
    proved = ctx.prove("Props/C18.v")
    need_spec = not proved

    configs = ["stable", "nightly"]
    built = {}
    for c in configs:
        ok, log = build_mathh(c)
        built[c] = ok
        if not ok:
            ctx.broke("correspondence", "harness build [%s]" % c, log[-1500:])
    # make sure the model side is compiled even when a proof is broken
    ok, log = lib.coq_make(["Gen/GenMath.vo", "Model/Regs.vo"])
    if not ok:
        ctx.broke("correspondence", "model build", (lib.coq_first_error(log) or {}).get("message", log[-600:]))
        return

    rng = lib.SplitMix(ctx.seed ^ 0xC18)
    n_rand_int = 4000 if thorough else 600
    n_rand_f = 3000 if thorough else 400
    n_rand_sqrt = 1500 if thorough else 150

    # ---- cases: (variant, ty, method) -> list of (a, b) -------------------------------------------
    groups = {}
    for ty in ALL_TYS:
        if ty in INT_TYS:
            sg, w = INT_TYS[ty]
            bnd = int_boundaries(w, thorough)
            pairs = [(a, b) for a in bnd for b in bnd] + rand_ints(rng, w, n_rand_int)
            un = [(a, 0) for a in bnd] + [(a, 0) for a, _ in rand_ints(rng, w, n_rand_sqrt)]
            # the square-root domain of the property: below 2^52, perfect squares and their neighbours
            for _ in range(n_rand_sqrt):
                k = rng.below(min(1 << 26, 1 << ((w - (1 if sg else 0)) // 2)) or 1)
                for d in (-1, 0, 1):
                    v = k * k + d
                    if 0 <= v < (1 << (w - (1 if sg else 0))) and v < (1 << 52):
                        un.append((v, 0))
        else:
            bits = FLOAT_TYS[ty]
            bnd = float_boundaries(bits, thorough)
            pairs = [(a, b) for a in bnd for b in bnd] + rand_floats(rng, bits, n_rand_f)
            un = [(a, 0) for a in bnd] + [(a, 0) for a, _ in rand_floats(rng, bits, n_rand_f)]
        for variant in ("std", "fast"):
            for m in NULLARY:
                groups[(variant, ty, m)] = [(0, 0)]
            for m in UNARY:
                groups[(variant, ty, m)] = un
            for m in BINARY:
                groups[(variant, ty, m)] = pairs

    # ---- model ------------------------------------------------------------------------------------
    jobs = ModelJobs()
    gen_out, spec_out = {}, {}
    for key, ops in groups.items():
        gen_out[key] = []
        jobs.add_cases(key[0], key[1], key[2], False, ops, gen_out[key])
        if need_spec:
            spec_out[key] = []
            jobs.add_cases(key[0], key[1], key[2], True, ops, spec_out[key])
    tab_gen, tab_spec = {}, {}
    if thorough:
        for variant in ("std", "fast"):
            for ty in ("i8", "u8"):
                for m in BINARY:
                    k = (variant, ty, m, "table2")
                    tab_gen[k] = []
                    jobs.add_table2(variant, ty, m, False, tab_gen[k])
                    if need_spec:
                        tab_spec[k] = []
                        jobs.add_table2(variant, ty, m, True, tab_spec[k])
            for ty in ("i8", "u8", "i16", "u16"):
                for m in UNARY:
                    k = (variant, ty, m, "table1")
                    tab_gen[k] = []
                    jobs.add_table1(variant, ty, m, False, tab_gen[k])
                    if need_spec:
                        tab_spec[k] = []
                        jobs.add_table1(variant, ty, m, True, tab_spec[k])
    fails = jobs.run(ctx)
    for f in fails[:5]:
        ctx.broke("correspondence", "model evaluation (coqc)", f)
    if fails:
        return

    # ---- implementation -------------------------------------------------------------------------
    n_eval = 0
    distinct = set()
    dist = {}
    samples = []
    disagreements = {}

    def judge(config, variant, ty, m, a, b, real, gen, spec):
        key = "%s:%s:%s" % (variant, ty, m)
        line = "%s %s %s %x %x" % (variant, ty, m, a, b)
        if in_domain(ty, m, a, b) and not agree(variant, ty, m, a, b, real, spec):
            opnds = {"zero": "", "one": "", "max": "", "min": ""}.get(
                m, "(%s)" % describe(ty, a) if m in UNARY else "(%s, %s)" % (describe(ty, a), describe(ty, b)))
            ctx.violation("math:" + key,
                          "<%sMath as Math<%s>>::%s%s returns %s in the %s build; the primitive type gives %s (%s)" % (
                              "Std" if variant == "std" else "Fast", ty, m, opnds,
                              real if real in ("panic", "nan", "true", "false") else describe(ty, int(real, 16)) if re.fullmatch(r"[0-9a-f]+", real) else real,
                              config,
                              spec if spec in ("panic", "nan", "true", "false") else describe(ty, int(spec, 16)),
                              SPEC_TEXT[m]),
                          {"kind": "input", "harness": "harness/mathh (cargo build --release%s)" % (" +nightly --features nightly" if config == "nightly" else ""),
                           "stdin_line": line, "build": config, "observed": real, "expected": spec,
                           "source": (mf.get("variants", {}).get(variant, {}).get(ty, {}).get("methods", {}).get(m, {}) or {}).get("rust")})
            return
        if not agree(variant, ty, m, a, b, real, gen):
            d = disagreements.setdefault(key + ":" + config, {"count": 0, "first": None})
            d["count"] += 1
            if d["first"] is None:
                d["first"] = "%s -> real %s, generated definition %s%s" % (
                    line, real, gen, "" if in_domain(ty, m, a, b) else " (input outside the property's domain)")

    for config in configs:
        if not built.get(config):
            continue
        variants = ["std"] if config == "stable" else ["std", "fast"]
        lines, meta = [], []
        for key, ops in groups.items():
            variant, ty, m = key
            if variant not in variants:
                continue
            g = flat(gen_out[key])
            s = flat(spec_out[key]) if need_spec else g
            if len(g) != len(ops) or len(s) != len(ops):
                ctx.broke("correspondence", "model evaluation", "%s: %d results for %d cases" % (key, len(g), len(ops)))
                continue
            for (a, b), gv, sv in zip(ops, g, s):
                if m in NULLARY:
                    lines.append("%s %s %s" % (variant, ty, m))
                elif m in UNARY:
                    lines.append("%s %s %s %x" % (variant, ty, m, a))
                else:
                    lines.append("%s %s %s %x %x" % (variant, ty, m, a, b))
                meta.append((variant, ty, m, a, b, gv, sv))
        t = time.time()
        outs = runner.run_lines([mathh_bin(config)], lines, nshards=lib.NCPU)
        ctx.note("implementation [%s]: %d cases in %.1fs" % (config, len(lines), time.time() - t))
        for (variant, ty, m, a, b, gv, sv), real in zip(meta, outs):
            n_eval += 1
            judge(config, variant, ty, m, a, b, real if real is not None else "unrun", gv, sv)
            distinct.add((variant, ty, m, a, b))
            dist["%s/%s" % (config, variant)] = dist.get("%s/%s" % (config, variant), 0) + 1
            if len(samples) < 10 and (n_eval % 9973 == 1):
                samples.append("%s: %s %s %s %x %x -> %s" % (config, variant, ty, m, a, b, real))
        # exhaustive tables (thorough)
        for k, parts in tab_gen.items():
            variant, ty, m, kind = k
            if variant not in variants:
                continue
            g = flat(parts)
            s = flat(tab_spec[k]) if need_spec else g
            rc, out = lib.sh([mathh_bin(config)], input_="%s %s %s %s\n" % (kind, variant, ty, m), timeout=600)
            real = out.split()
            w = INT_TYS[ty][1]
            n = (1 << 16) if kind == "table2" else (1 << w)
            if len(real) != n or len(g) != n or len(s) != n:
                ctx.broke("correspondence", "exhaustive table %s" % (k,), "sizes real=%d model=%d expected=%d" % (len(real), len(g), n))
                continue
            for i in range(n):
                a, b = (i >> 8, i & 0xff) if kind == "table2" else (i, 0)
                if real[i] != g[i] or real[i] != s[i]:
                    judge(config, variant, ty, m, a, b, real[i], g[i], s[i])
            n_eval += n
            distinct.add(k)
            dist["%s/%s exhaustive" % (config, variant)] = dist.get("%s/%s exhaustive" % (config, variant), 0) + n
        # all 2^32 pairs of the 16-bit types on the implementation against the primitive operators (thorough)
        if thorough:
            sweeps = [(v, ty) for v in variants for ty in ("i16", "u16")]

            def sw(vt):
                rc, out = lib.sh([mathh_bin(config)], input_="sweep16 %s %s\n" % vt, timeout=3000)
                return vt, out.strip()
            with ThreadPoolExecutor(max_workers=len(sweeps)) as ex:
                for (v, ty), res in ex.map(sw, sweeps):
                    if res.startswith("ok"):
                        ctx.extra.setdefault("sweep16", {})["%s/%s/%s" % (config, v, ty)] = res
                    else:
                        ctx.violation("math:%s:%s:sweep16" % (v, ty),
                                      "%s Math<%s> differs from the primitive operators in the %s build: %s" % (v, ty, config, res),
                                      {"kind": "input", "stdin_line": "sweep16 %s %s" % (v, ty), "build": config, "observed": res,
                                       "expected": "ok"})
    for key, d in sorted(disagreements.items()):
        ctx.broke("correspondence", "math layer vs generated definition " + key,
                  "%d case(s); first: %s" % (d["count"], d["first"]))
    ctx.cover(n_eval, distinct_keys=distinct, samples=samples,
              rule="real <StdMath|FastMath as Math<T>>::method (release; stable and nightly --features nightly) == generated Coq "
                   "definition (vm_compute) on the same bit patterns: bit-exact, NaN as one token; float min/max on +0/-0 modulo "
                   "the sign of zero; FastMath float division within 2 ulp"
                   + ("; all 2^16 pairs (binary) and all values (unary) of the 8-bit types, all values of the 16-bit types for "
                      "sqrt/abs, and all 2^32 pairs of the 16-bit types against the primitive operators" if thorough else ""),
              dist=dist)
    ctx.extra["spec_evaluated"] = need_spec
