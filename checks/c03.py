"""C03 — integer sum/dot/squared-norm/squared-Euclidean are exact modulo 2^bits."""
from checks import exprun, saferun, symrun

LEVEL = "proof"
OPS = ["generic_sum", "generic_dot_product", "generic_squared_norm", "generic_euclidean"]
INTS = ["i8", "i16", "i32", "i64", "u8", "u16", "u32", "u64"]


def run(ctx):
    facts = ctx.translate(steps=("tables", "dispatch"))
    ctx.trusted += ["Coq 8.16.1 kernel", "hand models Model/Kernels.v, Model/Regs.v (tied by correspondences A and C)",
                    "Model/Prim.v (meaning of wrapping_* primitives)", "harness/cfh, OCaml driver, extraction (ExtrOcamlBasic only)"]
    ctx.assumptions += ["intrinsic semantics in Model/Regs.v are ours (validated by correspondence C, bit for bit)"]
    ctx.prove("Props/C03.v")
    # tie 1 (translator): the kernels this property speaks about, regenerated from op_*.rs, ARE the model (Props/C03Gen.v);
    # a difference is reported as broken and the correspondence runs below search for the concrete input
    ctx.translate(steps=("kernels",))
    ctx.prove("Props/C03Gen.v")

    symrun.run(ctx, kernels=["KSum", "KDot", "KNorm", "KEuclid"])
    thorough = ctx.tier == "thorough"
    exprun.run_property(ctx, "C:int-reductions", "C03", ops=OPS, tys=INTS,
                        classes=("random", "boundary", "small"),
                        lens_fn=exprun.full_lens if thorough else exprun.quick_lens,
                        places=("R", "L", "3") if thorough else ("R",))
    # the safe API under dispatch masks (every back end the host can reach; the property's "safe API under each mask"): the
    # regenerated model of the wrapper AND the specification of the operation the routine's name announces
    entries = [(i, s) for i, s in enumerate(facts.get("safe_entries", []))
               if s["ty"] in INTS and s["any"].split("_", 2)[2] in ("sum", "dot", "squared_norm", "squared_euclidean")]
    lens = [0, 3, 17, 65] if not thorough else [0, 1, 3, 8, 17, 33, 65, 130]
    for config, masks in ((("stable", [0, 2, 6]), ("nightly", [0])) if not thorough else
                          (("stable", [0, 2, 4, 6]), ("debug", [0, 6]), ("nightly", [0, 1, 3, 7]))):
        cases, meta = saferun.gen_safe_cases(ctx, facts, config, entries, lens, [(0, 0, 0, 0)], masks, seed_tag=33,
                                             cls="boundary" if thorough else "random")
        saferun.compare_safe(ctx, config, cases, meta, "D:safe-int-reductions", spec_pid="C03")
