"""C03 — integer sum/dot/squared-norm/squared-Euclidean are exact modulo 2^bits."""
from checks import exprun, symrun

LEVEL = "proof"
OPS = ["generic_sum", "generic_dot_product", "generic_squared_norm", "generic_euclidean"]
INTS = ["i8", "i16", "i32", "i64", "u8", "u16", "u32", "u64"]


def run(ctx):
    ctx.trusted += ["Coq 8.16.1 kernel", "hand models Model/Kernels.v, Model/Regs.v (tied by correspondences A and C)",
                    "Model/Prim.v (meaning of wrapping_* primitives)", "harness/cfh, OCaml driver, extraction (ExtrOcamlBasic only)"]
    ctx.assumptions += ["intrinsic semantics in Model/Regs.v are ours (validated by correspondence C, bit for bit)"]
    ctx.prove("Props/C03.v")
    # tie 1 (translator): the kernels this property speaks about, regenerated from op_*.rs, ARE the model (Props/C03Gen.v);
    # a difference is reported as broken and the correspondence runs below search for the concrete input
    ctx.translate(steps=("kernels",))
    ctx.prove("Props/C03Gen.v")

    symrun.run(ctx, kernels=["KSum", "KDot", "KNorm", "KEuclid"])
    thorough = ctx.tier == "thorough"
    exprun.run_property(ctx, "C:int-reductions", "C03", ops=OPS, tys=INTS,
                        classes=("random", "boundary", "small"),
                        lens_fn=exprun.full_lens if thorough else exprun.quick_lens,
                        places=("R", "L", "3") if thorough else ("R",))
