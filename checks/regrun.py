"""Correspondence (B): every method of every executable SimdRegister<T> impl vs the register models
(DESIGN §2.4 B).  8-bit lanes: all 2^16 operand pairs at every lane position in the thorough tier."""
import harness_build
import lib
from checks import exprun, runner

TYS = ["i8", "u8", "i16", "u16", "i32", "u32", "i64", "u64", "f32", "f64"]
BITS = {"Fallback": None, "Avx2": 256, "Avx2Fma": 256, "Avx512": 512}
BIN = ["add", "sub", "mul", "div", "max", "min"]
FOLDS = ["sum_to_value", "max_to_value", "min_to_value"]
DENSE_BIN = ["add_dense", "sub_dense", "mul_dense", "div_dense", "max_dense", "min_dense"]
ROLL = ["sum_to_register", "max_to_register", "min_to_register"]


def lanes(backend, ty):
    b = BITS[backend]
    return 1 if b is None else b // exprun.WIDTH[ty]


def backends_for(config, ty):
    if config == "nightly":
        return ["Avx512"]
    out = ["Fallback", "Avx2"]
    if ty in ("f32", "f64"):
        out.append("Avx2Fma")
    return out


def boundary(ty):
    if ty == "f32":
        return exprun.F32_SPECIAL + [0x7fc00000]
    if ty == "f64":
        return exprun.F64_SPECIAL + [0x7ff8000000000000]
    return exprun.INT_BOUNDARY(exprun.WIDTH[ty])


def pair_stream(ctx, g, ty, thorough):
    """Operand pairs for lane-wise binary methods."""
    w = exprun.WIDTH[ty]
    if w == 8 and thorough:
        return [(x, y) for x in range(256) for y in range(256)], True
    bs = boundary(ty)
    pairs = [(x, y) for x in bs for y in bs]
    n = 4096 if w == 8 else (8192 if thorough else 1024)
    for _ in range(n):
        if ty[0] == "f":
            pairs.append((g.float_val(ty, "random"), g.float_val(ty, g.r.choice(["random", "special", "small"]))))
        else:
            pairs.append((g.r.next() % (1 << w), g.r.next() % (1 << w)))
    return pairs, False


def regs_from_pairs(pairs, L, rotations):
    """Registers whose lane i (rotation r) holds pair[(j*L + i + r) mod N]: every pair meets every lane position."""
    N = len(pairs)
    out = []
    for r in rotations:
        nreg = (N + L - 1) // L
        for j in range(nreg):
            xs = [pairs[(j * L + i + r) % N] for i in range(L)]
            out.append(xs)
    return out


def line(backend, ty, method, per, vals):
    return "%s %s %s %d %s" % (backend, ty, method, per, " ".join(exprun.fmt(ty, v) for v in vals))


def canon(ty, method, ln):
    if ln is None:
        return None
    if ty[0] == "f" and ("max" in method or "min" in method):
        neg0 = "80000000" if ty == "f32" else "8000000000000000"
        return " ".join(("0" * len(neg0)) if t == neg0 else t for t in ln.split(" "))
    return ln


def run(ctx, configs=("stable", "nightly"), tys=None, methods=None):
    thorough = ctx.tier == "thorough"
    g = exprun.Gen(ctx.seed * 104729 + 5)
    okd, log = harness_build.build_driver()
    if not okd:
        ctx.broke("correspondence", "B: model driver build", log[-1200:])
        return
    for config in configs:
        ok, log = harness_build.build_cfh(config)
        if not ok:
            ctx.broke("correspondence", "B: harness build (%s)" % config, log[-1200:])
            continue
        cases, meta = [], []
        exhaustive8 = False
        for ty in (tys or TYS):
            for backend in backends_for(config, ty):
                L = lanes(backend, ty)
                pairs, ex = pair_stream(ctx, g, ty, thorough)
                exhaustive8 = exhaustive8 or ex
                rots = list(range(L)) if (thorough or L <= 8) else sorted({0, 1, L // 2, L - 1, 3 % L})
                if not ex and exprun.WIDTH[ty] == 8:
                    rots = list(range(L))
                regs = regs_from_pairs(pairs, L, rots)

                def add(method, per, vals):
                    if methods and method not in methods:
                        return
                    cases.append(line(backend, ty, method, per, vals))
                    meta.append((backend, ty, method))
                for xs in regs:
                    a = [p[0] for p in xs]
                    b = [p[1] for p in xs]
                    for m in BIN:
                        bb = b
                        if m == "div" and ty[0] != "f" and g.r.below(4) != 0:
                            bb = [v if v != 0 else 1 for v in b]
                        add(m, L, a + bb)
                # fmadd triples, folds, broadcast, dense forms and roll-ups on seeded / boundary registers
                nfold = 400 if thorough else 60
                bs = boundary(ty)
                for k in range(nfold):
                    cls = ["random", "boundary", "small"][k % 3] if ty[0] != "f" else ["random", "special", "small", "unit"][k % 4]
                    a = g.vec(ty, L, cls)
                    b = g.vec(ty, L, cls)
                    c = g.vec(ty, L, "random")
                    if k % 5 == 0:      # an extreme value walking over every lane position
                        a = [bs[(k // 5) % len(bs)]] * L
                        a[(k // 5) % L] = bs[(k // 5 + 3) % len(bs)]
                    add("fmadd", L, a + b + c)
                    for m in FOLDS:
                        add(m, L, a)
                    add("roundtrip", L, a)
                    add("filled", 1, [a[0]])
                add("zeroed", 1, [0])
                add("lanes", 1, [0])
                ndense = 60 if thorough else 8
                for k in range(ndense):
                    cls = ["random", "boundary"][k % 2] if ty[0] != "f" else ["random", "special"][k % 2]
                    a = g.vec(ty, 8 * L, cls)
                    b = g.vec(ty, 8 * L, cls, nonzero=(k % 3 != 0))
                    c = g.vec(ty, 8 * L, "random")
                    for m in DENSE_BIN:
                        add(m, 8 * L, a + b)
                    add("fmadd_dense", 8 * L, a + b + c)
                    for m in ROLL:
                        add(m, 8 * L, a)
                    add("roundtrip_dense", 8 * L, a)
                    add("filled_dense", 1, [a[0]])
                add("zeroed_dense", 1, [0])
        imp = runner.impl("reg", cases, config=config)
        mod = runner.model("reg", cases)
        bad = 0
        dist = {}
        for c, m, x, y in zip(cases, meta, imp, mod):
            backend, ty, method = m
            dist["%s_%s" % (backend, method)] = dist.get("%s_%s" % (backend, method), 0) + 1
            if canon(ty, method, x) != canon(ty, method, y):
                bad += 1
                ctx.violation("reg:%s:%s:%s" % (backend, ty, method),
                              "<%s as SimdRegister<%s>>::%s differs from the lane-wise scalar semantics of the model (%s build)" % (
                                  backend, ty, method, config),
                              {"kind": "input", "case": "reg " + c[:3000], "build": config, "observed": (x or "<crashed>")[:1500],
                               "expected": (y or "")[:1500]})
        ctx.cover(len(cases), distinct_keys=["reg|%s|%d" % (config, hash(c)) for c in cases],
                  samples=[{"case": cases[7][:200], "impl": (imp[7] or "")[:120], "model": (mod[7] or "")[:120]}],
                  rule="(B) %s build: every trait method (27 incl. dense forms, roll-ups, load/store round trip) of every executable "
                       "SimdRegister<T> impl on registers built so that every operand pair meets every lane position; 8-bit pairs %s; "
                       "boundary cross products + seeded operands otherwise; float folds bit-for-bit" % (
                           config, "EXHAUSTIVE (all 2^16 pairs x all positions)" if exhaustive8 else "boundary^2 + 4096 seeded at every position"),
                  dist=dist)
        ctx.extra.setdefault("correspondence_B", {})[config] = {"cases": len(cases), "disagreements": bad, "exhaustive_8bit": exhaustive8}
