"""C13 — the register abstraction is lane-wise faithful.

Two ties of the register models to the code, both exercised on every run:
 (1) TRANSLATOR + THEOREMS (Props/C13Gen.v): tools/translate_regs.py regenerates an instruction-level model of every
     straight-line SimdRegister<T> method (impl_*.rs and the trait defaults) over the intrinsic vocabulary of
     Model/Intrinsics.v, and of the scalar loops over the transmuted lanes (integer div, NEON i64/u64 mul/max/min) over
     the loop / array-store / panic vocabulary of Model/RustLoops.v; Coq proves that every generated definition, on the
     byte/lane encoding of arbitrary registers, computes what the lane-level model (Model/Regs.v; NEON: the lane-wise
     scalar specification) says — for the option-valued (may-panic) ones: panics exactly when the model does.
 (2) CORRESPONDENCE (B) (checks/regrun.py): every method of every executable back end against the lane-level models on
     the hardware.
Props/C13.v says the lane-level models are the lane-wise scalar operations for ALL register contents."""
import re

from checks import regrun

LEVEL = "proof"

_GEN_LEMMA = re.compile(r"gen_(Fallback|Avx2Fma|Avx2|Avx512|Neon)_(?:([iuf](?:8|16|32|64))_)?(\w+?)(?:_ok)?$")


def _restricted_b(ctx, backend, ty, method, why):
    """Correspondence (B) on one (back end, type, method): a real divergence becomes a violation with the operands."""
    info = {"backend": backend, "ty": ty, "method": method, "why": why[:300]}
    if backend == "Neon":
        info["search"] = "not executable on this host"
        return info
    tys = [ty] if ty in regrun.TYS else None
    config = "nightly" if backend == "Avx512" else "stable"
    before = len(ctx.violations)
    regrun.run(ctx, configs=(config,), tys=tys, methods=[method])
    found = [v["key"] for v in ctx.violations[before:]]
    info["search"] = ("divergence found: " + ", ".join(found)) if found else "no-failing-input-found"
    return info


def run(ctx):
    ctx.trusted += ["Coq 8.16.1 kernel (+ vm_compute for the shape facts and the non-vacuity examples)",
                    "Model/Intrinsics.v: the meaning of the ~330 core::arch intrinsic names (x86 from the Intel pseudo-code, the "
                    "stdarch-implemented ones and NEON from the installed rust-src, Arm ARM for FMAX/FMIN/Reduce), integer vectors "
                    "as byte lists; Model/RustLoops.v: the scalar-loop fragment (`for (idx, (x, y)) in zip(A, B).enumerate()`, "
                    "`a[i] = v` with its bounds check, `[v; N]`, panic = None sequenced by obind); tools/translate_regs.py: Rust "
                    "method bodies of that fragment -> Gallina over these vocabularies (incl. `AutoMath::m` at a concrete integer "
                    "type read as the StdMath record of Gen/GenMath.v, checked equal to FastMath's field)",
                    "Model/Regs.v: lane-level register models (tied to the generated instruction-level model by the theorems of "
                    "Props/C13Gen.v, and to the hardware by correspondence B, bit for bit)",
                    "Model/Prim.v: meaning of the scalar primitives (wrapping_*, Flocq IEEE operations)",
                    "harness/cfh reg mode (#[target_feature] wrappers around every trait method), ocaml/driver_reg.ml, "
                    "extraction with ExtrOcamlBasic only"]
    ctx.assumptions += ["NEON is not executable here: its methods are tied by the generated model only (Props/C13Gen.v: against the "
                        "lane-wise scalar specification), never run",
                        "methods outside the translated fragment — load / write / load_dense / write_dense (raw pointers; footprints "
                        "are tied by Props/C07Mem.v), the AVX2 / AVX2+FMA f64 sum_to_value (poison register + bit-casts between float "
                        "vector types; hand model Model/Poison.v, C08), Fallback elements_per_lane / elements_per_dense (mem::size_of "
                        "of the generic type) — are listed in evidence extra.generated_model.untranslated and stay tied by "
                        "correspondence B only (NEON load / write: by reading only)",
                        "load/write are modelled at index level (firstn/skipn/splice); addresses and alignment are observed "
                        "by the guard-page runs of C01/C07, not proved"]
    facts = ctx.translate(steps=("regs",))
    regs = (facts or {}).get("regs") or {}
    gm = {"triples": regs.get("triples"), "translated_and_proved": 0, "translated": regs.get("translated"),
          "may_panic_option_valued": len(regs.get("may_panic", [])), "untranslated_total": len(regs.get("untranslated", [])),
          "untranslated": [], "restricted_searches": []}
    by_reg = {}
    for k in regs.get("translated_list", []):
        by_reg[k.split(" ")[0]] = by_reg.get(k.split(" ")[0], 0) + 1
    gm["translated_by_register"] = by_reg
    by_reason = {}
    for u in regs.get("untranslated", []):
        by_reason.setdefault(u.get("category") or u["reason"], []).append("%s/%s/%s" % (u["reg"], u["ty"], u["method"]))
    gm["untranslated"] = [{"reason": r, "n": len(v), "methods": v} for r, v in sorted(by_reason.items(), key=lambda kv: -len(kv[1]))]
    for f in regs.get("failed", []):
        gm["restricted_searches"].append(_restricted_b(ctx, f["reg"], f["ty"], f["method"], "translator: " + f["error"]))
    ctx.prove("Props/C13.v")
    nb = len(ctx.broken)
    if ctx.prove("Props/C13Gen.v"):
        gm["translated_and_proved"] = regs.get("translated")
    else:
        for b in ctx.broken[nb:]:
            m = _GEN_LEMMA.search((b.get("name") or "").split(" ")[0])
            if b.get("kind") == "theorem" and m:
                backend, ty, method = m.group(1), m.group(2) or "T", m.group(3)
                b["detail"] = ("generated model of <%s as SimdRegister<%s>>::%s no longer refines the lane-level model: " % (
                    backend, ty, method)) + (b.get("detail") or "")
                gm["restricted_searches"].append(_restricted_b(ctx, backend, ty, method, b["detail"]))
    ctx.extra["generated_model"] = gm
    regrun.run(ctx, configs=("stable", "nightly"))
