"""C13 — the register abstraction is lane-wise faithful (every SimdRegister<T> method of every executable back end
against the register models of Model/Regs.v; the theorems of Props/C13.v say those models are the lane-wise scalar
operations for ALL register contents)."""
from checks import regrun

LEVEL = "proof"


def run(ctx):
    ctx.trusted += ["Coq 8.16.1 kernel (+ vm_compute for the shape facts and the non-vacuity example)",
                    "Model/Regs.v: register models written from impl_*.rs, intrinsic lane semantics are ours "
                    "(validated by correspondence B against the hardware, bit for bit)",
                    "Model/Prim.v: meaning of the scalar primitives (wrapping_*, Flocq IEEE operations)",
                    "harness/cfh reg mode (#[target_feature] wrappers around every trait method), ocaml/driver_reg.ml, "
                    "extraction with ExtrOcamlBasic only"]
    ctx.assumptions += ["NEON is not executable here: no model, covered at table/source level by C10/C11 only",
                        "load/write are modelled at index level (firstn/skipn/splice); addresses and alignment are observed "
                        "by the guard-page runs of C01/C07, not proved"]
    ctx.prove("Props/C13.v")
    regrun.run(ctx, configs=("stable", "nightly"))
