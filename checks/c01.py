"""C01 — the safe API never reads or writes outside the slices it is given; every mismatch panics."""
from checks import exprun, saferun, tablesearch

LEVEL = "proof"

MISMATCHES = [(0, 0, 0, 0), (1, 0, 0, 0), (-1, 0, 0, 0), (0, 1, 0, 0), (0, -1, 0, 0), (0, 0, 1, 0), (0, 0, -1, 0),
              (2, 2, 2, 0), (1, 1, 0, 0), (1, 0, 1, 0),
              # const dimension differing from matching slices (pairs inside the instantiated DIMS set)
              (0, 0, 0, -2), (0, 0, 0, 2), (0, 0, 0, 5), (0, 0, 0, -5), (0, 0, 0, -7), (0, 0, 0, 14), (0, 0, 0, -16),
              (0, 0, 0, 32), (0, 0, 0, -32), (0, 0, 0, 65), (0, 0, 0, -65)]


def mismatch_matters(kind, form, delta):
    da, db, dr, dD = delta
    if form == "c" and (dD != 0 or da != 0):
        return True if form == "c" else False
    if kind in ("Dist", "Vert") and db != da:
        return True
    if kind in ("Vert", "Value") and dr != da:
        return True
    if form == "c" and da != 0:
        return True
    return False


def run(ctx):
    facts = ctx.translate(steps=("tables", "dispatch"))
    ctx.trusted += ["Coq 8.16.1 kernel + vm_compute", "tools/translate.py (assert lists, slot lists of the 8 safe macros)",
                    "Model/Safe.v run_safe + Model/Kernels.v (hand model, tied by correspondences A, C, D)",
                    "harness/cfh (guard pages via mmap/mprotect, catch_unwind), dispatch hook --cfg cfavml_verif"]
    ctx.assumptions += ["placements relative to unmapped memory are observed (guard pages flush against both ends), not proved: "
                        "the model has indices, not addresses"]
    ctx.prove("Props/C01.v")
    res, out = tablesearch.failing({
        "ASRT": "map sm_name (filter (fun m => negb (safe_macro_asserts_ok m)) safe_macros)"})
    bad_macros = res.get("ASRT")
    if bad_macros is None:
        ctx.broke("correspondence", "row-level evaluation of safe_macro_asserts_ok", out[-600:])
        bad_macros = []

    # what the kernels behind an ACCEPTED call touch: the symbolic run of the REAL generic kernels (every lane count, every
    # length residue; correspondence A), read for accesses outside the slices only - a merely different structure is C07's
    # business, an out-of-slice access is a concrete failing input of this property too
    from checks import symrun
    symrun.run(ctx, bounds_only=True)

    entries = list(enumerate(facts.get("safe_entries", [])))
    lens = [0, 3, 17] if ctx.tier == "quick" else [0, 1, 3, 8, 17, 33, 65, 130]
    configs = [("stable", [0, 2, 4]), ("debug", [0]), ("nightly", [0])] if ctx.tier == "quick" else \
              [("stable", [0, 2, 4, 6]), ("debug", [0, 2, 4, 6]), ("nightly", [0, 1, 3, 7])]
    for config, masks in configs:
        cases, meta = saferun.gen_safe_cases(ctx, facts, config, entries, lens, MISMATCHES, masks)
        state = {"n": 0}

        def on_diff(ctx, c, m, a, b, cfg):
            # a disagreement is classified below by the spec; do not report it twice
            return True

        saferun.compare_safe(ctx, config, cases, meta, "D:safe-bounds", on_diff=None, shape_only=True)
        # the specification, applied to the IMPLEMENTATION's output on every case (not only on disagreements):
        # a documented-call mismatch must be reported by a panic; nothing may crash or touch foreign memory.
        from checks import runner
        imp = runner.impl("safe", cases, config=config)
        for c, m, a in zip(cases, meta, imp):
            sidx, s, form, n, delta, mask = m
            kind = saferun.SAFE_KIND[s["macro"]]
            name = s["const"] if form == "c" else s["any"]
            arm = "%s:%s" % (s["macro"], "const" if form == "c" else "any")
            if a == "unrun":
                ctx.broke("correspondence", "D:safe-bounds harness", "case not run: " + c[:200])
                continue
            if a is None or a.startswith("signal") or "CANARY" in a or "INPUT-MODIFIED" in a:
                ctx.violation("safe-oob:" + arm,
                              "safe routine %s (macro arm %s) called with lengths a=%d+%d b%+d r%+d DIMS%+d, mask %d, %s build: %s" % (
                                  name, arm, n, delta[0], delta[1], delta[2], delta[3], mask, config,
                                  ("did not return within the harness watchdog (a loop that does not terminate)" if (a and "timeout" in a) else "crashed on a guard page (out-of-bounds access)") if (a is None or a.startswith("signal"))
                                  else "touched memory outside its slices"),
                              {"kind": "input", "case": "safe " + c[:4000], "build": config, "observed": a,
                               "expected": "panic (assertion) or a result computed inside the slices"})
            elif is_mismatch(kind, form, delta) and not a.startswith("panic"):
                ctx.violation("safe-mismatch-silent:" + arm,
                              "safe routine %s (macro arm %s) accepted mismatched lengths a=%d%+d b%+d r%+d DIMS%+d (mask %d, %s build) "
                              "and computed over a different number of elements instead of panicking" % (
                                  name, arm, n, delta[0], delta[1], delta[2], delta[3], mask, config),
                              {"kind": "input", "case": "safe " + c[:4000], "build": config, "observed": a[:500],
                               "expected": "panic assert"})
        # earlier calls: the documented calls again, in REVERSED order and few long-lived processes (DIMS descending): a routine
        # that remembers anything about an earlier call with a larger DIMS / length walks off a shorter, guard-paged slice
        doc = [(c, m) for c, m in zip(cases, meta) if m[4] == (0, 0, 0, 0)][::-1]
        imp2 = runner.impl("safe", [c for c, _ in doc], config=config, nshards=2)
        nrev = 0
        for (c, m), a in zip(doc, imp2):
            sidx, s, form, n, delta, mask = m
            if a is None or a.startswith("signal") or "CANARY" in a or "INPUT-MODIFIED" in a:
                nrev += 1
                if nrev > 3:
                    continue
                name = s["const"] if form == "c" else s["any"]
                arm = "%s:%s" % (s["macro"], "const" if form == "c" else "any")
                ctx.violation("safe-oob-after-earlier-calls:" + arm,
                              "safe routine %s (macro arm %s), documented call with n=%d, mask %d, %s build, issued after other documented "
                              "calls (lengths descending) in the same process: %s" % (
                                  name, arm, n, mask, config, ("did not return within the harness watchdog" if (a and "timeout" in a) else
                                                               "crashed on a guard page (out-of-bounds access)")
                                  if (a is None or a.startswith("signal")) else "touched memory outside its slices"),
                              {"kind": "history", "case": "safe " + c[:4000], "build": config, "observed": a,
                               "sequence": "the documented calls of this run in reversed order, two processes (stride 2)"})
        ctx.cover(len(doc), distinct_keys=["rev|%s|%d" % (config, hash(c)) for c, _ in doc],
                  rule="documented safe calls re-issued in reversed order (lengths / DIMS descending) in two long-lived processes, %s build: "
                       "no crash, no canary damage" % config, dist={"reversed_" + config: len(doc)})
    # which broken proof obligations do the concrete findings explain?
    keys = {v["key"] for v in ctx.violations}
    for b in ctx.broken:
        if b["kind"] == "theorem" and bad_macros and any(k.split(":")[1] in bad_macros for k in keys if ":" in k):
            b["explained_by"] = sorted(keys)[0]


def is_mismatch(kind, form, delta):
    da, db, dr, dD = delta
    if form == "c" and dD != da:      # DIMS vs len a  (DIMS = n + dD, len a = n + da)
        return True
    if kind in ("Dist", "Vert") and db != da:
        return True
    if kind in ("Vert", "Value") and dr != da:
        return True
    return False
