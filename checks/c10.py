"""C10 — no code path needs an instruction-set extension the dispatcher did not verify.

Deciding artefact: the theorems of coq/Props/C10.v over the call graph regenerated from /repo and rust-src
(tools/translate_feat.py -> Gen/GenFeatures.v) and the tables of GenExports/GenSafe/GenMacros/GenDispatch.
When they stop compiling, the same checkers are evaluated row by row (`lib.coq_eval`) to produce the concrete
static replay (feature set, entry point, call path); a refutation of C10_dispatch is certified by coqc
(`cex_ok ... = true` by vm_compute + the proved `cex_sound`).
Tie beyond the translator: checks/c10_ir.py compares rustc's optimised LLVM IR (stable and nightly) with the
model's predictions — "target-features" of every defined function, every call edge.
"""
import json
import os
import re

import lib

LEVEL = "proof"

HDR = """From Coq Require Import String List Bool.
From CF Require Import Model.Tables Model.TableSem Model.Features Proofs.FeatureLemmas.
From CF Require Import Gen.GenExports Gen.GenSafe Gen.GenMacros Gen.GenDispatch Gen.GenFeatures.
Import ListNotations.
Open Scope string_scope.
Open Scope list_scope.
Definition g := feature_graph.
Definition slot_str (s : slot) : string :=
  match s with SAvx512 => "avx512" | SAvx2Fma => "avx2fma" | SAvx2 => "avx2" | SNeon => "neon" | SFallback => "fallback" end.
Definition allowed_reg (r : reg) : fset :=
  match r with
  | Avx2 => closure ["avx2"] | Avx2Fma => closure ["avx2"; "fma"]
  | Avx512 => closure (tested_slot pred_defs dispatch_chain SAvx512)
  | Neon => closure (tested_slot pred_defs dispatch_chain SNeon)
  | Fallback => baseline
  end.
Definition path_to (miss : fset) (e : export) : string :=
  if existsb (fun x => mem_string x miss) (closure (e_feats e))
  then ("the export's own features = list [" ++ join "," (e_feats e) ++ "]")%string
  else match find_path g (fun i => existsb (fun x => mem_string x miss) (closure (intr_req g i))) reach_fuel (export_callee e) with
       | Some p => join " -> " p
       | None => "?"
       end.
Definition row_report (e : export) : list string :=
  let n := need_export g e in
  let miss := filter (fun x => negb (mem_string x (allowed_reg (e_reg e)))) n in
  match miss with
  | [] => []
  | _ => [join "|" [e_xany e; reg_rust_name (e_reg e); join "," miss; path_to miss e]]
  end.
Definition nofma_report (e : export) : list string :=
  flat_map (fun i => if mem_string "fma" (closure (intr_req g i))
                     then [join "|" [e_xany e; i; path_to ["fma"] e]] else [])
           (reach_intr_export g e).
Definition bc0 : buildcfg := {| bc_arch := X86_64; bc_nightly := true; bc_std := true; bc_tf := [] |}.
Definition sup_all : supplied := {| s_avx512 := true; s_avx2fma := true; s_avx2 := true; s_neon := true |}.
Definition form_str (f : form) : string := match f with Const => "const" | Any => "any" end.
(* machine = closure (what link c's guard tested ++ baseline): is the routine the chain then selects satisfied? *)
Definition witness (s : safe_entry) (f : form) (c : chain_entry) : list string :=
  match find_safe_macro safe_macros (s_macro s) with
  | None => [join "|" [s_name f s; form_str f; slot_str (ce_slot c); "?"; ""; "<no such macro>"; ""]]
  | Some m =>
      let av := closure (tested_entry pred_defs c ++ baseline) in
      match select_chain dispatch_chain bc0 (eval_pouts pred_defs bc0 (fun x => mem_string x av)) sup_all with
      | Some x =>
          match slot_export exports m s f x with
          | Some e =>
              let miss := filter (fun y => negb (mem_string y av)) (need_export g e) in
              match miss with
              | [] => []
              | _ => [join "|" [s_name f s; form_str f; slot_str x; e_name f e; join "," av; join "," miss; path_to miss e]]
              end
          | None => []
          end
      | None => []
      end
  end.
"""


def _strings(out, tag):
    m = re.search(r"@@%s(.*?)@@END" % tag, out, flags=re.S)
    if not m:
        return None
    return [s.replace('""', '"') for s in re.findall(r'"((?:[^"]|"")*)"', m.group(1))]


def coq_lists(exprs, name):
    body = HDR
    for tag, e in exprs.items():
        body += 'Goal True. idtac "@@%s". Abort.\nEval vm_compute in (%s).\nGoal True. idtac "@@END". Abort.\n' % (tag, e)
    rc, out = lib.coq_eval(body, name=name, timeout=900)
    if rc != 0:
        return None, out
    return {t: _strings(out, t) for t in exprs}, out


def certify_refutation(k, form, avail, feature):
    """Ask coqc to check `cex_ok k form bc0 avail sup_all feature = true` (vm_compute); with the proved lemma
    cex_sound this is a machine-checked refutation of C10_dispatch on the current tables."""
    body = HDR + """
Lemma C10_dispatch_refuted : cex_ok %d %s bc0 [%s] sup_all "%s" = true.
Proof. vm_compute. reflexivity. Qed.
Check (cex_sound _ _ _ _ _ _ C10_dispatch_refuted).
Print Assumptions C10_dispatch_refuted.
""" % (k, "Const" if form == "const" else "Any", "; ".join('"%s"' % a for a in avail), feature)
    rc, out = lib.coq_eval(body, name="c10_refuted", timeout=600)
    return rc == 0 and "Closed under the global context" in out, out[-600:]


def search(ctx, facts):
    """Row-level evaluation of the checkers.  Returns the list of violation keys it reported."""
    res, out = coq_lists({
        "ROWS": "flat_map row_report exports",
        "NOFMA": "flat_map nofma_report (exports_of exports Avx2)",
        "SAFE": "map s_any (filter (fun s => negb (safe_need_ok g dispatch_chain exports safe_macros s)) safe_entries)",
        "PREDS": "flat_map (fun p => if fsubset (need_pred g p) baseline then [] else [join \",\" (need_pred g p)]) [PAvx512; PAvx2; PFma; PNeon]",
        "WIT": "flat_map (fun s => flat_map (fun f => flat_map (witness s f) dispatch_chain) [Any; Const]) safe_entries",
        "TESTED": "map (fun s => join \"|\" [slot_str s; join \",\" (tested_slot pred_defs dispatch_chain s); join \",\" (need_slot g exports s)]) all_slots",
    }, "c10_search")
    if res is None or any(v is None for v in res.values()):
        ctx.broke("correspondence", "row-level evaluation of the C10 checkers", out[-800:])
        return []
    exports = {e["xany"]: e for e in facts.get("exports", [])}
    safe = facts.get("safe_entries", [])
    safe_idx = {}
    for i, s in enumerate(safe):
        safe_idx[s["any"]] = (i, s)
        safe_idx[s["const"]] = (i, s)
    tested = {}
    for t in res["TESTED"]:
        slot, tst, need = t.split("|")
        tested[slot] = {"tested_by_guard": [x for x in tst.split(",") if x], "needed_by_routines": [x for x in need.split(",") if x]}
    ctx.extra["slots"] = tested
    keys = []
    slot_of_reg = {"Avx512": "avx512", "Avx2": "avx2", "Avx2Fma": "avx2fma", "Neon": "neon", "Fallback": "fallback"}

    # (B) dispatch-level witnesses: the statement of C10_dispatch, refuted on a concrete machine
    groups = {}
    for w in res["WIT"]:
        name, form, slot, exp, av, miss, path = w.split("|")
        groups.setdefault((slot, miss), []).append({"entry": name, "form": form, "export": exp, "path": path, "avail": av})
    viol = {}
    for (slot, miss), ws in sorted(groups.items()):
        ws.sort(key=lambda x: (x["form"] != "any", x["entry"] != "i8_xany_add_vector", x["entry"]))
        w0 = ws[0]
        idx, srow = safe_idx.get(w0["entry"], (None, {}))
        cert, cert_log = (False, "")
        if idx is not None:
            cert, cert_log = certify_refutation(idx, w0["form"], w0["avail"].split(","), miss.split(",")[0])
        key = "gate:%s:%s" % (slot, miss)
        e = exports.get(w0["export"]) or next((x for x in exports.values() if x["xconst"] == w0["export"]), {})
        replay = {
            "kind": "static",
            "theorem": "C10_dispatch (and C10_%s)" % slot,
            "cpu_feature_set": w0["avail"].split(","),
            "cpu_feature_set_is": "closure of what the guard of the `%s` slot tested + x86-64 baseline; implication-closed" % slot,
            "build": "x86_64, --features nightly, std, no compile-time target features",
            "entry": w0["entry"], "form": w0["form"], "entry_source": "%s:%s" % (srow.get("file"), srow.get("line")),
            "selected_slot": slot, "selected_export": w0["export"],
            "export_source": "%s:%s" % (e.get("file"), e.get("line")),
            "missing_features": miss.split(","),
            "call_path": [w0["entry"] + " (safe)", w0["export"]] + w0["path"].split(" -> "),
            "refutation_certified_by_coqc": cert,
            "refutation_lemma": "cex_ok %s %s bc0 [..] sup_all \"%s\" = true  (vm_compute)  +  cex_sound" % (idx, w0["form"], miss.split(",")[0]),
            "affected_safe_routines": len(ws),
            "other_entries": [x["entry"] for x in ws[1:9]],
            "tested_by_guard": tested.get(slot, {}).get("tested_by_guard"),
            "needed_by_routines_of_slot": tested.get(slot, {}).get("needed_by_routines"),
            "execution": "static: cannot be made to fault on this host (its CPU has every extension involved and no "
                         "CPU emulator is installed); on a CPU with exactly cpu_feature_set the selected routine "
                         "executes an instruction of missing_features -> SIGILL",
        }
        if not cert:
            replay["refutation_log"] = cert_log
        what = ("safe %s on a CPU with {%s}: dispatcher selects the %s slot -> %s -> %s, which needs {%s} that the guard "
                "never tested" % (w0["entry"], w0["avail"], slot, w0["export"], w0["path"].split(" -> ")[-1], miss))
        ctx.violation(key, what, replay)
        viol[(slot, miss)] = replay
        keys.append(key)

    # (A) per-export rows
    rows = {}
    for r in res["ROWS"]:
        name, reg, miss, path = r.split("|")
        rows.setdefault((reg, miss), []).append({"export": name, "path": path})
    for (reg, miss), rs in sorted(rows.items()):
        rep = viol.get((slot_of_reg.get(reg), miss))
        if rep is not None:
            rep["affected_exports"] = len(rs) * 2
            rep["affected_export_rows"] = [x["export"] for x in rs[:12]]
            continue
        e = exports.get(rs[0]["export"], {})
        key = "row:%s:%s" % (reg, miss)
        ctx.violation(key, "export %s (register %s, %s:%s) needs {%s} beyond what its back end allows: %s" % (
            rs[0]["export"], reg, e.get("file"), e.get("line"), miss, rs[0]["path"]),
            {"kind": "static", "theorem": "C10_%s" % reg.lower(), "row": e, "missing_features": miss.split(","),
             "call_path": rs[0]["path"].split(" -> "), "affected_exports": len(rs) * 2,
             "affected_export_rows": [x["export"] for x in rs[:12]]})
        keys.append(key)

    for r in res["NOFMA"]:
        name, intr, path = r.split("|")
        e = exports.get(name, {})
        key = "nofma:" + intr
        ctx.violation(key, "AVX2 (nofma) routine %s reaches %s, which requires fma: %s" % (name, intr, path),
                      {"kind": "static", "theorem": "C10_nofma", "row": e, "intrinsic": intr, "call_path": path.split(" -> ")})
        keys.append(key)
    for name in res["SAFE"]:
        _, srow = safe_idx.get(name, (None, {}))
        key = "safe-baseline:" + name
        ctx.violation(key, "safe routine %s (or the fallback it calls unguarded, or a predicate) needs more than the baseline" % name,
                      {"kind": "static", "theorem": "C10_baseline", "row": srow})
        keys.append(key)
    for p in res["PREDS"]:
        ctx.violation("pred-baseline:" + p, "an is_*_available predicate itself requires {%s}" % p,
                      {"kind": "static", "theorem": "C10_baseline"})
        keys.append("pred-baseline:" + p)
    return keys


def run(ctx):
    facts = ctx.translate(steps=("tables", "dispatch", "features"))
    F = facts.get("features") or {}
    ctx.trusted += [
        "Coq 8.16.1 kernel + vm_compute (reflection over the generated call graph and tables)",
        "tools/translate.py + tools/translate_feat.py: token scan of impl_*.rs / core_simd_api.rs / op_*.rs / math / dispatch.rs "
        "(reading conventions at translate_feat.Scan.body) and the mining of #[target_feature] from rust-src stdarch",
        "Model/Features.v: implies_tbl / llvm_names (cross-checked against rustc's own expansion by the IR probe), "
        "baseline_of, the definition of need as closure(declared + reachable intrinsic requirements)",
        "checks/c10_ir.py + harness/irprobe (IR parser, symbol demangling through c++filt)",
    ]
    ctx.assumptions += [
        "rustc/LLVM: a function's \"target-features\" attribute bounds the instructions it may contain; an intrinsic "
        "executes instructions of its stdarch requirement only; std's feature detection is truthful",
        "nightly rust-src is the only stdarch source installed: requirements are mined from it and compared with the "
        "target-features of the out-of-line intrinsic instances in BOTH the stable and the nightly IR",
        "a binary built with -C target-feature=+X only runs on CPUs with X (machine_ok's third clause)",
        "machine code is not re-derived; NEON is covered at source level only (no aarch64 target installed)",
    ]
    # the general lemmas (incl. cex_sound) compile on any tree and are needed by the search
    ok, log = lib.coq_make(["Proofs/FeatureLemmas.vo"])
    if not ok:
        err = lib.coq_first_error(log) or {"file": "Proofs/FeatureLemmas.v", "line": 0, "lemma": None, "message": log[-800:]}
        ctx.broke("theorem", "%s (%s:%d)" % (err.get("lemma"), err["file"], err["line"]), err["message"])
    proved = ctx.prove("Props/C10.v")
    ex = facts.get("exports", [])
    safe = facts.get("safe_entries", [])
    if F:
        ctx.extra["graph"] = {
            "impl_methods": len(F["impl_methods"]), "trait_defaults": len(F["trait_defaults"]),
            "free_fns": len(F["free_fns"]), "intrinsics_used": len(F["intrinsic_reqs"]),
            "intrinsics_by_requirement": _count(",".join(r["feats"]) or "(none)" for r in F["intrinsic_reqs"]),
            "stdarch_resolved": F["stdarch_resolved"], "stdarch_root": F["stdarch_root"]}
    ctx.cover(len(ex) * 2 + len(safe) * 2 * 5,
              distinct_keys=["export:" + e["xany"] for e in ex] + ["export:" + e["xconst"] for e in ex]
              + ["safe:" + s["any"] for s in safe] + ["safe:" + s["const"] for s in safe],
              samples=[{"export": e["xany"], "register": e["reg"], "features": e["feats"]} for e in ex[:2]],
              rule="reflection: every export row x {xconst,xany} (need computed through the generated graph); every safe "
                   "routine x form x chain link; forall build cfgs / closed feature sets by the general lemmas",
              dist=_count("rows_" + e["reg"] for e in ex))
    keys = search(ctx, facts) if ok else []
    if keys:
        for b in ctx.broken:
            if b["kind"] == "theorem":
                b["explained_by"] = keys[0]
    try:
        from checks import c10_ir
    except ImportError as exn:
        ctx.broke("correspondence", "LLVM-IR tie unavailable", repr(exn))
        return
    c10_ir.check(ctx, facts, HDR)


def _count(it):
    d = {}
    for k in it:
        d[k] = d.get(k, 0) + 1
    return d
