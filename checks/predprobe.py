"""Correspondence (D)(iii) for C09: the REAL is_*_available predicates and the REAL dispatch! macro in builds WITHOUT std
and WITHOUT the verification hook, under `-C target-feature=+...` (compile-time dispatch: the documented contract of a
no-std build is that exactly the declared target features count as available).  For every variant the answers of the
implementation are compared with
  * the specification  Model/DispatchSpec.v  spec_pouts_nostd / select_spec      -> a difference is a VIOLATION (concrete
    build configuration in which a back end is selected whose features are not available, or a better one is skipped);
  * the regenerated model  eval_pouts pred_defs / select_chain dispatch_chain    -> a difference is a broken correspondence.
The hook-masked std builds (saferun.check_dispatch) exercise the run-time arms; this probe exercises the compile-time arms.
"""
import os
import platform
import re
from concurrent.futures import ThreadPoolExecutor

import lib

CRATE = os.path.join(lib.VERIF, "harness", "predprobe")
FEATS = ["avx2", "fma", "avx512f", "avx512bw"]
# (name, toolchain, cargo features, requested target features)
VARIANTS_QUICK = [
    ("stable-none", "", [], []),
    ("stable-avx2", "", [], ["avx2"]),
    ("stable-fma", "", [], ["fma"]),
    ("stable-avx2-fma", "", [], ["avx2", "fma"]),
    ("nightly-avx512f", "+nightly", ["nightly"], ["avx512f"]),
    ("nightly-avx512bw", "+nightly", ["nightly"], ["avx512bw"]),
    ("nightly-avx512f-avx512bw", "+nightly", ["nightly"], ["avx512f", "avx512bw"]),
]
VARIANTS_THOROUGH = VARIANTS_QUICK + [
    ("nightly-none", "+nightly", ["nightly"], []),
    ("nightly-avx2", "+nightly", ["nightly"], ["avx2"]),
    ("nightly-fma", "+nightly", ["nightly"], ["fma"]),
    ("nightly-avx2-fma", "+nightly", ["nightly"], ["avx2", "fma"]),
    ("stable-avx512f-avx512bw", "", [], ["avx512f", "avx512bw"]),
    ("nightly-avx2-avx512bw", "+nightly", ["nightly"], ["avx2", "avx512bw"]),
]
SLOTS = ["avx512", "avx2fma", "avx2", "neon", "fallback"]


def build_and_run(v):
    name, tc, feats, tf = v
    tdir = os.path.join(lib.BUILD, "target-predprobe", name)
    flags = "-Awarnings" + (" -C target-feature=" + ",".join("+" + f for f in tf) if tf else "")
    cmd = "cargo %s build --offline %s" % (tc, ("--features " + ",".join(feats)) if feats else "")
    with lib.build_lock("lock-cargo-predprobe-" + name):
        rc, out = lib.sh(cmd, cwd=CRATE, env={"CARGO_TARGET_DIR": tdir, "RUSTFLAGS": flags}, timeout=1800)
    full = "cd %s && CARGO_TARGET_DIR=%s RUSTFLAGS='%s' %s && %s/debug/predprobe" % (CRATE, tdir, flags, cmd, tdir)
    if rc != 0:
        return name, None, out[-1500:], full
    rc, out = lib.sh([os.path.join(tdir, "debug", "predprobe")], timeout=60)
    if rc != 0:
        return name, None, out[-1500:], full
    res = {"disp": {}}
    for line in out.splitlines():
        t = line.split()
        if not t:
            continue
        if t[0] in ("tf", "pred"):
            res[t[0]] = {k: int(x) for k, x in (p.split("=") for p in t[1:])}
        elif t[0] == "disp":
            res["disp"][int(t[1])] = t[2]
    return name, res, out, full


def coq_side(variants):
    """Per variant: closure of the requested features, model/spec predicate outcomes, model/spec selection per sup."""
    body = """From Coq Require Import String List Bool.
From CF Require Import Model.Tables Model.TableSem Model.Features Model.DispatchSpec Gen.GenDispatch.
Import ListNotations. Open Scope string_scope.
Definition sl (s : option slot) : string := match s with Some SAvx512 => "avx512" | Some SAvx2Fma => "avx2fma" | Some SAvx2 => "avx2"
  | Some SNeon => "neon" | Some SFallback => "fallback" | None => "none" end.
Definition bs (b : bool) : string := if b then "1" else "0".
Definition ps (p : pouts) : string := bs (o_avx512 p) ++ bs (o_avx2 p) ++ bs (o_fma p) ++ bs (o_neon p).
Definition sups : list supplied := map (fun n => {| s_avx512 := Nat.odd n; s_avx2fma := Nat.odd (Nat.div2 n);
  s_avx2 := Nat.odd (Nat.div2 (Nat.div2 n)); s_neon := Nat.odd (Nat.div2 (Nat.div2 (Nat.div2 n))) |}) (seq 0 16).
Definition row (nightly : bool) (req : list string) : list string :=
  let tf := closure req in
  let bc := {| bc_arch := X86_64; bc_nightly := nightly; bc_std := false; bc_tf := tf |} in
  let mp := eval_pouts pred_defs bc (fun _ => false) in
  let sp := spec_pouts_nostd bc in
  [ "tf:" ++ bs (mem_string "avx2" tf) ++ bs (mem_string "fma" tf) ++ bs (mem_string "avx512f" tf) ++ bs (mem_string "avx512bw" tf);
    "mp:" ++ ps mp; "sp:" ++ ps sp ]
  ++ map (fun s => "dm:" ++ sl (select_chain dispatch_chain bc mp s)) sups
  ++ map (fun s => "ds:" ++ sl (select_spec bc sp s)) sups.
"""
    for name, tc, feats, tf in variants:
        body += 'Goal True. idtac "@@%s". Abort.\nEval vm_compute in (row %s [%s]).\nGoal True. idtac "@@END". Abort.\n' % (
            name, "true" if "nightly" in feats else "false", "; ".join('"%s"' % f for f in tf))
    rc, out = lib.coq_eval(body, name="predprobe")
    if rc != 0:
        return None, out
    rows = {}
    for name, _, _, _ in variants:
        m = re.search(r"@@%s\b(.*?)@@END" % re.escape(name), out, flags=re.S)
        if not m:
            return None, out
        strs = re.findall(r'"((?:[^"]|"")*)"', m.group(1))
        rows[name] = {"tf": [s[3:] for s in strs if s.startswith("tf:")][0],
                      "mp": [s[3:] for s in strs if s.startswith("mp:")][0],
                      "sp": [s[3:] for s in strs if s.startswith("sp:")][0],
                      "dm": [s[3:] for s in strs if s.startswith("dm:")],
                      "ds": [s[3:] for s in strs if s.startswith("ds:")]}
    return rows, out


def check(ctx):
    if platform.machine() not in ("x86_64", "AMD64"):
        ctx.extra["correspondence_D_predicates"] = {"skipped": "host is not x86_64"}
        return
    variants = VARIANTS_THOROUGH if ctx.tier == "thorough" else VARIANTS_QUICK
    lib.point_manifest(CRATE)
    rows, out = coq_side(variants)
    if rows is None:
        ctx.broke("correspondence", "D(iii): evaluation of the predicate model/specification", out[-1200:])
        return
    with ThreadPoolExecutor(max_workers=8) as ex:
        results = list(ex.map(build_and_run, variants))
    n_eval, keys, dist = 0, [], {}
    for (name, res, log, cmd), v in zip(results, variants):
        _, tc, feats, req = v
        if res is None or "pred" not in res or "tf" not in res:
            ctx.broke("correspondence", "D(iii): predicate probe build/run (%s)" % name, {"cmd": cmd, "log": log})
            continue
        row = rows[name]
        nightly = "nightly" in feats
        flags = "+" + ",+".join(req) if req else "(none)"
        # (a) the compile-time feature set rustc reports vs the implication table of the model (the oracle's own premise)
        rep = "".join(str(res["tf"].get(f, 0)) for f in FEATS)
        if rep != row["tf"]:
            ctx.broke("correspondence", "D(iii): rustc's cfg(target_feature) under -C target-feature=%s vs Model/Features.v closure" % flags,
                      {"rustc(avx2,fma,avx512f,avx512bw)": rep, "model": row["tf"]})
            continue
        # (b) predicates
        order = [("avx512", 0), ("avx2", 1), ("fma", 2), ("neon", 3)]
        for pname, idx in order:
            got = res["pred"].get(pname, -1)
            if got < 0:
                got_b = "0"      # not compiled into this build: cannot fire
            else:
                got_b = str(got)
            n_eval += 1
            keys.append("pred:%s:%s" % (name, pname))
            if got_b != row["sp"][idx]:
                ctx.violation("dispatch-pred:nostd:%s:%s:%s" % ("nightly" if nightly else "stable", flags, pname),
                              "a build of cfavml WITHOUT std (%s toolchain%s) with RUSTFLAGS=-C target-feature=%s: is_%s_available() "
                              "answers %s, but the features it stands for are %s the features available to that build (compile-time "
                              "dispatch: exactly the declared target features and what they imply)" % (
                                  "nightly" if nightly else "stable", ", feature nightly" if nightly else "", flags, pname,
                                  "true" if got_b == "1" else "false", "NOT among" if got_b == "1" else "among"),
                              {"kind": "build+run", "cmd": cmd, "observed": res["pred"], "declared_target_features": res["tf"],
                               "expected_by_spec(avx512,avx2,fma,neon)": row["sp"], "spec": "Model/DispatchSpec.v spec_pred_nostd"})
            elif got_b != row["mp"][idx]:
                ctx.broke("correspondence", "D(iii): real is_%s_available() vs regenerated pred_defs (%s)" % (pname, name),
                          {"impl": got_b, "model": row["mp"][idx]})
        # (c) the macro
        nviol = 0
        for sup in range(16):
            got = res["disp"].get(sup)
            n_eval += 1
            keys.append("disp:%s:%d" % (name, sup))
            if got != row["ds"][sup]:
                nviol += 1
                if nviol > 2:
                    continue
                ctx.violation("dispatch-select:nostd:%s:%s:sup%d" % ("nightly" if nightly else "stable", flags, sup),
                              "a build of cfavml WITHOUT std (%s) with RUSTFLAGS=-C target-feature=%s: dispatch! with supplied slots "
                              "(bit0 avx512, bit1 avx2fma, bit2 avx2, bit3 neon) = %d invoked the '%s' candidate; with exactly the declared "
                              "features available the documented priority selects '%s'" % (
                                  "nightly" if nightly else "stable", flags, sup, got, row["ds"][sup]),
                              {"kind": "build+run", "cmd": cmd, "observed": got, "expected_by_spec": row["ds"][sup],
                               "declared_target_features": res["tf"], "predicates": res["pred"]})
            elif got != row["dm"][sup]:
                ctx.broke("correspondence", "D(iii): real dispatch! vs regenerated chain (%s, sup=%d)" % (name, sup),
                          {"impl": got, "model": row["dm"][sup]})
        dist["predprobe_" + name] = 20
    ctx.cover(n_eval, distinct_keys=keys,
              samples=[{"variant": results[1][0], "impl": results[1][1], "model_spec": rows.get(results[1][0])}] if len(results) > 1 else [],
              rule="(D)(iii) real predicates + dispatch! in no-std, hook-free builds under -C target-feature (4 predicates + 16 supplied-slot "
                   "sets per variant); variants: " + ", ".join(v[0] for v in variants), dist=dist)
    ctx.extra["correspondence_D_predicates"] = {"variants": [v[0] for v in variants], "evaluations": n_eval}


def model_witness(ctx):
    """When an availability theorem no longer checks: search the MODEL for a machine/build on which it fails
    (CPU feature sets this host cannot present, e.g. AVX without AVX2)."""
    body = """From Coq Require Import String List Bool.
From CF Require Import Model.Tables Model.TableSem Model.Features Model.DispatchSpec Gen.GenDispatch.
Import ListNotations. Open Scope string_scope.
Definition bs (b : bool) : string := if b then "1" else "0".
Definition join (l : list string) : string := fold_right (fun a b => a ++ "," ++ b) "" l.
Fixpoint subsets {A} (l : list A) : list (list A) := match l with [] => [[]] | x :: r => let s := subsets r in (s ++ map (cons x) s)%list end.
Definition pn (x : pred) : string := match x with PAvx512 => "is_avx512_available" | PAvx2 => "is_avx2_available" | PFma => "is_fma_available" | PNeon => "is_neon_available" end.
Definition sn (s : slot) : string := match s with SAvx512 => "avx512" | SAvx2Fma => "avx2fma" | SAvx2 => "avx2" | SNeon => "neon" | SFallback => "fallback" end.
Definition pcomp (bc : buildcfg) (x : pred) : bool := match x with PAvx512 => is_x86 bc && bc_nightly bc | PAvx2 | PFma => is_x86 bc
  | PNeon => match bc_arch bc with Aarch64 => true | _ => false end end.
Definition machines (a : arch) : list fset :=
  map (fun s : list string => closure (s ++ baseline_of a)%list) (subsets ["avx"; "avx2"; "fma"; "avx512f"; "avx512bw"; "neon"]).
Definition sup_all := {| s_avx512 := true; s_avx2fma := true; s_avx2 := true; s_neon := true |}.
Definition cat (l : list string) : string := fold_right append "" l.
Definition hdr_of (bc : buildcfg) (av : fset) : string :=
  cat ["arch="; arch_name (bc_arch bc); " nightly="; bs (bc_nightly bc); " std="; bs (bc_std bc); " compile_time_features={"; join (bc_tf bc); "} cpu={"; join av; "}: "].
Definition cex : list string :=
  flat_map (fun a : arch => flat_map (fun av : fset => flat_map (fun n : bool => flat_map (fun sd : bool => flat_map (fun tfall : bool =>
    let bc := {| bc_arch := a; bc_nightly := n; bc_std := sd; bc_tf := if tfall then av else baseline_of a |} in
    let avail := fun f => mem_string f av in
    let hdr := hdr_of bc av in
    (flat_map (fun x =>
       (if eval_pred pred_defs bc avail x && negb (pred_holds avail x) then [cat [hdr; pn x; "() = true although {"; join (pred_features x); "} is not available"]] else [])
       ++ (if sd && pcomp bc x && pred_holds avail x && negb (eval_pred pred_defs bc avail x) then [cat [hdr; pn x; "() = false although {"; join (pred_features x); "} is available"]] else []))%list all_preds)
    ++ match select_chain dispatch_chain bc (eval_pouts pred_defs bc avail) sup_all with
       | Some x => (if negb (slot_available avail x) then [cat [hdr; "dispatch! selects "; sn x; " whose features {"; join (slot_features x); "} are not all available"]] else [])
                   ++ (if sd then flat_map (fun y => if Nat.ltb (slot_rank y) (slot_rank x) && compiled bc y && slot_available avail y
                                                     then [cat [hdr; "dispatch! selects "; sn x; " although the better "; sn y; " is available"]] else []) all_slots else [])
       | None => [cat [hdr; "dispatch! selects nothing"]]
       end)%list
   [false; true]) [false; true]) [false; true]) (machines a)) [X86_64; Aarch64].
Goal True. idtac "@@CEX". Abort.
Eval vm_compute in (firstn 6 cex).
Goal True. idtac "@@END". Abort.
"""
    rc, out = lib.coq_eval(body, name="predwitness")
    if rc != 0:
        return None
    m = re.search(r"@@CEX(.*?)@@END", out, flags=re.S)
    if not m:
        return None
    return [re.sub(r"\s+", " ", x) for x in re.findall(r'"((?:[^"]|"")*)"', m.group(1))]
