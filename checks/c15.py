"""C15 — matrix transpose is an exact, in-bounds permutation for every shape and type.

Theorems: coq/Props/C15.v about the model coq/Model/Transpose.v.  The model is parametric in a configuration that
this check READS FROM THE CURRENT SOURCE on every run (form of the two shape checks; every line of the two
shuffle networks).  The compiled code is tied to the model by running the real `transpose_matrix::<T>` (harness/gemmh,
guard pages, catch_unwind, crash-prone cases in a child process) and the model's definitions (vm_compute) on the same
cases, in release and debug builds."""
import concurrent.futures
import json
import os
import re
import shutil
import time

import lib

LEVEL = "proof"

GEMMH = os.path.join(lib.VERIF, "harness", "gemmh")
MOD_RS = os.path.join(lib.REPO, "cfavml-gemm", "src", "transpose", "mod.rs")
AVX_RS = os.path.join(lib.REPO, "cfavml-gemm", "src", "transpose", "impl_avx2.rs")

TYPES = {  # name -> (size in bytes, model kind)
    "f32": (4, "K32"), "u32": (4, "K32"), "i32": (4, "KOther"),
    "f64": (8, "K64"), "u64": (8, "K64"), "i64": (8, "KOther"),
    "u8": (1, "KOther"), "u16": (2, "KOther"), "u128": (16, "KOther"), "s3": (3, "KOther"),
}
RUST_TY = {"s3": "[u8; 3]"}
TWO64 = 1 << 64
MODEL_MAX_CELLS = {"quick": 3100, "thorough": 9000}   # above: expected outcome from theorem C15_permutation only


# ------------------------------------------------------------------------------------------------
# 1. reading the configuration of the model from the source
# ------------------------------------------------------------------------------------------------

class Unrecognised(Exception):
    pass


def _nocomment(s):
    return re.sub(r"//[^\n]*", "", s)


def _norm(s):
    return re.sub(r"\s+", "", s)


def _between(src, start_pat, end_pat, what):
    m = re.search(start_pat, src)
    if not m:
        raise Unrecognised("%s: start not found" % what)
    e = re.search(end_pat, src[m.end():])
    if not e:
        raise Unrecognised("%s: end not found" % what)
    return src[m.start():m.end() + e.start()]


def shape_form(body, what):
    """Form of `assert_eq!(data.len(), <product>, "Input data shape missmatch")` + presence of the second assert."""
    body = _nocomment(body)
    m = re.search(r'(?<![\w])assert_eq!\(\s*data\.len\(\)\s*,(.*?),\s*"Input data shape missmatch"\s*,?\s*\)', body, flags=re.S)
    if not m:
        raise Unrecognised("%s: first shape assert not found" % what)
    first_stmt = body[:m.start()]
    if re.search(r"\b(get_unchecked|load_matrix|copy_from_slice|while|return)\b", first_stmt):
        raise Unrecognised("%s: code before the shape assert" % what)
    e = _norm(m.group(1))
    if e in ("width*height", "height*width"):
        form = "MulPlain"
    elif re.fullmatch(r'(width\.checked_mul\(height\)|height\.checked_mul\(width\))\.(expect\("[^"]*"\)|unwrap\(\))', e):
        form = "MulChecked"
    else:
        raise Unrecognised("%s: product expression `%s` is neither `width * height` nor `width.checked_mul(height).expect(..)`"
                           % (what, m.group(1).strip()))
    rest = body[m.end():]
    m2 = re.search(r'(?<![\w])assert_eq!\(\s*data\.len\(\)\s*,\s*result\.len\(\)\s*,\s*"[^"]*"\s*,?\s*\)', rest, flags=re.S)
    if not m2 or re.search(r"\b(get_unchecked|load_matrix|copy_from_slice|while|return)\b", rest[:m2.start()]):
        raise Unrecognised("%s: second assert (data.len() == result.len()) not found right after the first" % what)
    return form


OPS = {"_mm256_unpacklo_ps": ("UnpackLoPs", False), "_mm256_unpackhi_ps": ("UnpackHiPs", False),
       "_mm256_shuffle_ps": ("ShufflePs", True), "_mm256_permute2f128_ps": ("Permute2f128Ps", True),
       "_mm256_unpacklo_pd": ("UnpackLoPd", False), "_mm256_unpackhi_pd": ("UnpackHiPd", False),
       "_mm256_permute2f128_pd": ("Permute2f128Pd", True)}


def _imm(text, src):
    t = text.strip()
    if t.startswith("{") and t.endswith("}"):
        t = t[1:-1].strip()
    if re.fullmatch(r"0[xX][0-9a-fA-F_]+|\d+", t):
        return int(t.replace("_", ""), 0)
    m = re.fullmatch(r"_MM_SHUFFLE\(\s*(\d+)\s*,\s*(\d+)\s*,\s*(\d+)\s*,\s*(\d+)\s*\)", t)
    if m:
        d = re.search(r"const fn _MM_SHUFFLE\(z: u32, y: u32, x: u32, w: u32\) -> i32 \{(.*?)\}", src, flags=re.S)
        if not d or _norm(d.group(1)) != "((z<<6)|(y<<4)|(x<<2)|w)asi32":
            raise Unrecognised("_MM_SHUFFLE is not the expected formula")
        z, y, x, w = (int(g) for g in m.groups())
        return (z << 6) | (y << 4) | (x << 2) | w
    raise Unrecognised("immediate `%s` not understood" % text)


def _struct_literals(body, name):
    """[(binding or None, inner text)] of every `name { ... }` literal, brace-matched."""
    out = []
    for m in re.finditer(r"(?:let\s+(\w+)\s*=\s*)?\b%s\s*\{" % re.escape(name), body):
        depth, i = 1, m.end()
        while depth and i < len(body):
            depth += {"{": 1, "}": -1}.get(body[i], 0)
            i += 1
        if depth:
            raise Unrecognised("unbalanced braces in a %s literal" % name)
        out.append((m.group(1), body[m.end():i - 1]))
    return out


def network(src, elem, struct, lanes):
    impl = _between(src, r"impl TransposeMatrix<%s> for Avx2 \{" % elem, r"\n\}\n", "impl TransposeMatrix<%s>" % elem)
    impl = _nocomment(impl)
    # load_matrix / write_matrix strides (pins: row r at offset + width*r, written at offset + r*height)
    flat = _norm(impl)
    for r in range(lanes):
        fld = "abcdefgh"[r]
        ld = "%s:Self::load(data_ptr.add(offset%s))," % (fld, "" if r == 0 else "+(width*%d)" % r)
        wr = "Self::write(result_ptr.add(offset%s),matrix.%s);" % ("" if r == 0 else "+(%d*height)" % r, fld)
        if ld not in flat or wr not in flat:
            raise Unrecognised("load_matrix/write_matrix of %s: row %d is not at offset + width*%d / offset + %d*height" % (elem, r, r, r))
    if flat.count("Self::load(") != lanes or flat.count("Self::write(") != lanes:
        raise Unrecognised("load_matrix/write_matrix of %s: expected exactly %d loads and stores" % (elem, lanes))
    m = re.search(r"unsafe fn transpose_register_matrix\(\s*(\w+)\s*:\s*Self::RegisterMatrix\s*,?\s*\)\s*->\s*Self::RegisterMatrix\s*\{", impl)
    if not m:
        raise Unrecognised("transpose_register_matrix of %s not found" % elem)
    body = impl[m.end():]
    prev = m.group(1)
    stages = []
    lits = _struct_literals(body, struct)
    if not lits:
        raise Unrecognised("no %s literal in transpose_register_matrix of %s" % (struct, elem))
    for n, (binding, inner) in enumerate(lits):
        if (binding is None) != (n == len(lits) - 1):
            raise Unrecognised("%s network: only the last stage may be the returned value" % elem)
        fields = {}
        pos = 0
        pat = re.compile(r"\s*(\w+)\s*:\s*(_mm256_\w+)\s*(?:::<\s*(.*?)\s*>)?\s*\(\s*(\w+)\.(\w+)\s*,\s*(\w+)\.(\w+)\s*,?\s*\)\s*,?", re.S)
        while inner[pos:].strip():
            f = pat.match(inner, pos)
            if not f:
                raise Unrecognised("%s network, stage %d: cannot parse `%s`" % (elem, n, inner[pos:pos + 80].strip()))
            fld, intr, imm, s1, f1, s2, f2 = f.groups()
            if intr not in OPS:
                raise Unrecognised("%s network: unknown intrinsic %s" % (elem, intr))
            opname, has_imm = OPS[intr]
            if has_imm != (imm is not None):
                raise Unrecognised("%s network: %s immediate" % (elem, intr))
            if s1 != prev or s2 != prev:
                raise Unrecognised("%s network, stage %d: operand of `%s` is not a field of `%s`" % (elem, n, fld, prev))
            for x in (fld, f1, f2):
                if x not in "abcdefgh"[:lanes] or len(x) != 1:
                    raise Unrecognised("%s network: unknown field %s" % (elem, x))
            if fld in fields:
                raise Unrecognised("%s network: field %s twice" % (elem, fld))
            fields[fld] = (opname, _imm(imm, src) if has_imm else None, "abcdefgh".index(f1), "abcdefgh".index(f2))
            pos = f.end()
        if sorted(fields) != list("abcdefgh"[:lanes]):
            raise Unrecognised("%s network, stage %d: fields %s" % (elem, n, sorted(fields)))
        stages.append([fields[c] for c in "abcdefgh"[:lanes]])
        prev = binding
    return stages


def read_source():
    """-> dict(outer, inner, net32, net64) or raises Unrecognised."""
    mod = open(MOD_RS).read()
    avx = open(AVX_RS).read()
    outer_body = _between(mod, r"pub fn transpose_matrix<T>\(", r"\nunsafe fn generic_transpose<", "transpose_matrix")
    inner_body = _between(mod, r"unsafe fn generic_transpose<T, R>\(", r"\ntrait TransposeMatrix<", "generic_transpose")
    cfg = {"outer": shape_form(outer_body[outer_body.index("{"):], "transpose_matrix"),
           "inner": shape_form(inner_body[inner_body.index("{"):], "generic_transpose")}
    flat = _norm(_nocomment(inner_body))
    for pin in ("letsub_matrix_block_size=R::elements_per_lane()*2;", "letmatrix_offset_step=R::elements_per_lane();",
                "letwidth_remainder=width%sub_matrix_block_size;", "letheight_remainder=height%sub_matrix_block_size;"):
        if pin not in flat:
            raise Unrecognised("generic_transpose: `%s` not found (block geometry)" % pin)
    oflat = _norm(_nocomment(outer_body))
    for pin in ("ifwidth==0||height==0{return;}", "ifwidth==1||height==1{result.copy_from_slice(data);return;}",
                "TypeId::of::<T>()==TypeId::of::<f32>()||TypeId::of::<T>()==TypeId::of::<u32>()",
                "TypeId::of::<T>()==TypeId::of::<f64>()||TypeId::of::<T>()==TypeId::of::<u64>()",
                'ifis_x86_feature_detected!("avx2"){returnf32_xany_avx2_nofma_transpose(width,height,data,result);}',
                'ifis_x86_feature_detected!("avx2"){returnf64_xany_avx2_nofma_transpose(width,height,data,result);}'):
        if pin not in oflat:
            raise Unrecognised("transpose_matrix: `%s` not found (early returns / dispatch)" % pin)
    aflat = _norm(_nocomment(avx))
    for pin in ("generic_transpose::<f32,Avx2>(width,height,data,result)", "generic_transpose::<f64,Avx2>(width,height,data,result)"):
        if pin not in aflat:
            raise Unrecognised("impl_avx2.rs: `%s` not found" % pin)
    cfg["net32"] = network(avx, "f32", "DenseLane", 8)
    cfg["net64"] = network(avx, "f64", "Dense4x4Lane", 4)
    return cfg


def coq_network(stages):
    def ins(t):
        op, imm, a, b = t
        return "(%s, %d%%nat, %d%%nat)" % (op if imm is None else "%s %d" % (op, imm), a, b)
    return "[" + "; ".join("[" + "; ".join(ins(t) for t in st) + "]" for st in stages) + "]"


def coq_cfg(cfg):
    return "{| chk_outer := %s; chk_inner := %s; net32 := %s; net64 := %s |}" % (
        cfg["outer"], cfg["inner"], coq_network(cfg["net32"]), coq_network(cfg["net64"]))


PRELUDE = """From Coq Require Import List ZArith.
From CF Require Import Model.Transpose.
Import ListNotations.
Open Scope Z_scope.
Definition iota (n : Z) : list Z := map Z.of_nat (seq 0 (Z.to_nat n)).
Definition out (o : outcome (st Z)) : list Z :=
  match o with Ok s => 0 :: res s | PanicAssert => [1] | PanicOverflow => [2] | Fault => [3] | OutOfFuel => [4] end.
Definition CFG : tcfg := %s.
Definition tm (debug : bool) (k : kind) (avx2 : bool) (w h ld lr : Z) :=
  out (transpose_matrix CFG debug k avx2 w h (iota ld) (map (fun _ => -1) (iota lr))).
Definition a32 (debug : bool) (w h ld lr : Z) :=
  out (f32_xany_avx2_nofma_transpose CFG debug w h (iota ld) (map (fun _ => -1) (iota lr))).
Definition a64 (debug : bool) (w h ld lr : Z) :=
  out (f64_xany_avx2_nofma_transpose CFG debug w h (iota ld) (map (fun _ => -1) (iota lr))).
"""


def compare_networks(ctx, cfg):
    """Is the configuration read from the source the one the theorems of Props/C15.v are about?"""
    body = PRELUDE % coq_cfg(cfg)
    for name, std in (("net32", "net_f32"), ("net64", "net_f64")):
        body += ('Goal True. first [ assert (%s CFG = %s) by (vm_compute; reflexivity); idtac "@@%s SAME" '
                 '| idtac "@@%s DIFF" ]. Abort.\n' % (name, std, name, name))
    rc, out = lib.coq_eval(body, name="c15_cfg", timeout=300)
    ok = True
    for name in ("net32", "net64"):
        if "@@%s SAME" % name not in out:
            ok = False
            ctx.broke("translator", "shuffle network %s" % name,
                      "the network read from impl_avx2.rs is not the one C15_reg_transpose_* is proved about: %s%s"
                      % (coq_network(cfg[name])[:700], "" if "@@%s DIFF" % name in out else " | coqc: " + out[-400:]))
    return ok


# ------------------------------------------------------------------------------------------------
# 2. builds and runs of the harness
# ------------------------------------------------------------------------------------------------

BUILDS = {"release": (["--release"], "target-gemmh-release", "release"),
          "debug": ([], "target-gemmh-debug", "debug")}


def gemmh_bin(build):
    _, tdir, prof = BUILDS[build]
    return os.path.join(lib.BUILD, tdir, prof, "gemmh")


def build_gemmh(build):
    args, tdir, _ = BUILDS[build]
    with lib.build_lock("lock-cargo-gemmh-" + build):
        lib.point_manifest(GEMMH)
        lock_src = os.path.join(lib.REPO, "Cargo.lock")
        if os.path.exists(lock_src) and not os.path.exists(os.path.join(GEMMH, "Cargo.lock")):
            shutil.copy(lock_src, os.path.join(GEMMH, "Cargo.lock"))
        rc, out = lib.sh("cargo build --offline %s" % " ".join(args), cwd=GEMMH, timeout=3000,
                         env={"CARGO_TARGET_DIR": os.path.join(lib.BUILD, tdir), "RUSTFLAGS": "-Awarnings"})
    return rc == 0, out


def _run_chunk(build, lines):
    """Run case lines through one harness process; survive a crash of the process (the case that killed it is
    recorded as `signal`, the rest is re-run with every case in its own child)."""
    results = {}
    pending = list(lines)
    forced_fork = False
    rounds = 0
    while pending and rounds < 4:
        rounds += 1
        feed = [(l if (not forced_fork or l.endswith(" fork")) else l + " fork") for l in pending]
        rc, out = lib.sh([gemmh_bin(build)], input_="\n".join(feed) + "\n", timeout=1200)
        for ln in out.splitlines():
            m = re.match(r"(\d+) (.*)$", ln)
            if m:
                results[int(m.group(1))] = m.group(2)
        rest = [l for l in pending if int(l.split()[0]) not in results]
        if rest and rc != 0:
            cid = int(rest[0].split()[0])
            results[cid] = "signal %d (harness process died, rc=%d)" % (-rc if rc < 0 else rc, rc)
            rest = rest[1:]
        elif rest and rest == pending:
            break
        pending = rest
        forced_fork = True
    return results


def run_impl(build, lines):
    n = min(lib.NCPU, max(1, len(lines) // 40))
    chunks = [lines[i::n] for i in range(n)]
    res = {}
    with concurrent.futures.ThreadPoolExecutor(max_workers=n) as ex:
        for r in ex.map(lambda c: _run_chunk(build, c), chunks):
            res.update(r)
    return res


# ------------------------------------------------------------------------------------------------
# 3. running the model
# ------------------------------------------------------------------------------------------------

def _model_chunk(args):
    idx, prelude, items = args
    body = prelude
    for key, term in items:
        body += 'Goal True. idtac "@@CASE %d". Abort.\nEval vm_compute in (%s).\n' % (key, term)
    body += 'Goal True. idtac "@@END". Abort.\n'
    rc, out = lib.coq_eval(body, name="c15_model_%d" % idx, timeout=3000)
    res = {}
    for m in re.finditer(r"@@CASE (\d+)\s*\n\s*=\s*\[(.*?)\]\s*:\s*list Z", out, flags=re.S):
        res[int(m.group(1))] = [int(x) for x in m.group(2).replace("\n", " ").split(";") if x.strip()]
    return res, (out[-600:] if rc != 0 else "")


def run_model(cfg, terms):
    """terms: {key: (cost, coq term)} -> {key: [tag, cells...]}"""
    prelude = PRELUDE % coq_cfg(cfg)
    items = sorted(terms.items(), key=lambda kv: -kv[1][0])
    n = min(lib.NCPU, max(1, len(items) // 8))
    chunks = [[] for _ in range(n)]
    loads = [0] * n
    for key, (cost, term) in items:      # greedy balancing, heaviest first
        i = loads.index(min(loads))
        chunks[i].append((key, term))
        loads[i] += cost + 2000
    res, errs = {}, []
    with concurrent.futures.ThreadPoolExecutor(max_workers=n) as ex:
        for r, err in ex.map(_model_chunk, [(i, prelude, c) for i, c in enumerate(chunks) if c]):
            res.update(r)
            if err:
                errs.append(err)
    return res, errs


# ------------------------------------------------------------------------------------------------
# 4. cases
# ------------------------------------------------------------------------------------------------

def low_of(k, size):
    if size == 1:
        return (k % 200) + 1
    if size >= 8:
        return k + 1
    return (k + 1) & ((1 << (8 * size)) - 1)


def shapes_for(tier):
    if tier == "quick":
        # 0, 1, below / equal to / just above the register width and the 2N block of both kernels (4, 8, 16),
        # not a multiple of the block, two blocks (+ tails), the grid's corner
        s = [0, 1, 2, 3, 4, 5, 7, 8, 9, 15, 16, 17, 23, 31, 32, 33, 40]
        grid = [(w, h) for w in s for h in s]
        big = [(1000, 3), (3, 1000), (129, 17), (18, 130), (64, 48), (1, 3000), (3000, 1), (2, 1025), (1025, 2)]
    else:
        grid = [(w, h) for w in range(41) for h in range(41)]
        big = [(1000, 3), (3, 1000), (129, 17), (18, 130), (64, 48), (1, 3000), (3000, 1), (2, 1025), (1025, 2),
               (257, 33), (33, 257), (100, 90), (4097, 2), (2, 4097), (5000, 1), (1, 5000), (48, 176),
               (639, 63), (63, 639), (256, 256), (1, 60000), (60000, 1), (20000, 3), (3, 20000), (255, 241)]
    # literal-guided shapes: a kernel that treats tall / wide matrices specially (`if height >= 1024 { .. }`) escapes every fixed
    # grid; the thresholds are the integer literals >= 16 of the transposition sources (today only shuffle immediates)
    for c in transpose_literals():
        big += [(16, c + 1), (c + 1, 16), (17, c), (c, 17), (40, c + 4), (c + 4, 24), (16, c + 9)]
    return grid, sorted(set(big))


_TL = None


def transpose_literals():
    global _TL
    if _TL is None:
        import glob
        vals = set()
        for p in glob.glob(os.path.join(lib.REPO, "cfavml-gemm", "src", "transpose", "*.rs")):
            try:
                src = open(p).read()
            except OSError:
                continue
            k = src.find("#[cfg(test)]")
            src = src if k < 0 else src[:k]
            src = re.sub(r"//[^\n]*", "", src)
            for m in re.finditer(r"(?<![\w.])(0x[0-9a-fA-F_]+|\d[\d_]*)(?:usize|u32|u64|i32)?(?![\w.])", src):
                v = int(m.group(1).replace("_", ""), 0)
                if 16 <= v <= 20000:
                    vals.add(v)
        _TL = sorted(vals)[:8]
    return _TL


OVERFLOWS = [
    # (w, h, ld, lr): the usize product wraps to ld
    (1 << 63, 2, 0, 0), (2, 1 << 63, 0, 0), (1 << 62, 4, 0, 0), (1 << 32, 1 << 32, 0, 0), (1 << 60, 16, 0, 0),
    ((1 << 63) + 1, 2, 2, 2), ((1 << 61) + 1, 8, 8, 8), (3, 0x5555555555555556, 2, 2), ((1 << 60) + 2, 16, 32, 32),
    (16, (1 << 60) + 2, 32, 32), ((1 << 59) + 1, 32, 32, 32),
    # overflowing AND not even the wrapped length
    (1 << 63, 2, 5, 5), (1 << 63, 4, 3, 3), ((1 << 64) - 1, (1 << 64) - 1, 7, 7),
]


def gen_cases(tier, avx2_host):
    """-> list of dicts: fn ty w h ld lr place fork cls"""
    grid, big = shapes_for(tier)
    cases = []
    for (w, h) in grid + big:
        n = w * h
        for ty, (size, kind) in TYPES.items():
            if size == 2 and n >= 60000:
                continue            # u16 elements would stop being position-unique / could equal the sentinel
            cases.append(dict(fn="tm", ty=ty, w=w, h=h, ld=n, lr=n, place="R", fork=False, cls="shape"))
        if avx2_host and (w, h) in grid and w > 0 and h > 0:
            cases.append(dict(fn="a32", ty="f32", w=w, h=h, ld=n, lr=n, place="R", fork=False, cls="shape"))
            cases.append(dict(fn="a64", ty="f64", w=w, h=h, ld=n, lr=n, place="R", fork=False, cls="shape"))
    # start of the slices flush against the LEADING guard page
    for (w, h) in [(0, 0), (1, 1), (3, 2), (8, 8), (9, 17), (16, 16), (17, 33), (33, 18), (40, 40), (4, 4), (5, 9)]:
        for ty in TYPES:
            cases.append(dict(fn="tm", ty=ty, w=w, h=h, ld=w * h, lr=w * h, place="L", fork=False, cls="shape"))
    # mismatched lengths (no overflow): must panic
    mism = [(3, 2), (8, 8), (16, 16), (17, 18), (1, 7), (7, 1), (0, 5), (5, 0), (0, 0), (33, 17), (2, 2), (40, 40)]
    for (w, h) in mism:
        n = w * h
        for (dd, dr) in [(1, 1), (-1, -1), (0, 1), (0, -1), (1, 0), (-1, 0), (7, 7), (-n, -n), (n, n), (0, -n)]:
            ld, lr = n + dd, n + dr
            if ld < 0 or lr < 0 or (ld == n and lr == n):
                continue
            for ty in (list(TYPES) if (dd, dr) in [(1, 1), (0, -1)] else ["f32", "f64", "u8"]):
                cases.append(dict(fn="tm", ty=ty, w=w, h=h, ld=ld, lr=lr, place="R", fork=True, cls="mismatch"))
            if avx2_host:
                cases.append(dict(fn="a32", ty="f32", w=w, h=h, ld=ld, lr=lr, place="R", fork=True, cls="mismatch"))
                cases.append(dict(fn="a64", ty="f64", w=w, h=h, ld=ld, lr=lr, place="R", fork=True, cls="mismatch"))
    # overflowing products
    for n, (w, h, ld, lr) in enumerate(OVERFLOWS):
        for ty in (list(TYPES) if n < 2 or n == 5 else ["f32", "f64", "u8", "u128", "s3"]):
            cases.append(dict(fn="tm", ty=ty, w=w, h=h, ld=ld, lr=lr, place="R", fork=True, cls="overflow"))
        if avx2_host:
            cases.append(dict(fn="a32", ty="f32", w=w, h=h, ld=ld, lr=lr, place="R", fork=True, cls="overflow"))
            cases.append(dict(fn="a64", ty="f64", w=w, h=h, ld=ld, lr=lr, place="R", fork=True, cls="overflow"))
    seen, out = set(), []
    for c in cases:
        k = (c["fn"], c["ty"], c["w"], c["h"], c["ld"], c["lr"], c["place"])
        if k not in seen:
            seen.add(k)
            out.append(c)
    return out


def case_line(i, c):
    return "%d %s %s %d %d %d %d %s%s" % (i, c["fn"], c["ty"], c["w"], c["h"], c["ld"], c["lr"], c["place"],
                                          " fork" if c["fork"] else "")


def rust_call(c):
    ty = RUST_TY.get(c["ty"], c["ty"])
    fn = {"tm": "cfavml_gemm::transpose::transpose_matrix::<%s>" % ty,
          "a32": "cfavml_gemm::transpose::f32_xany_avx2_nofma_transpose",
          "a64": "cfavml_gemm::transpose::f64_xany_avx2_nofma_transpose"}[c["fn"]]
    return "%s(%d, %d, &data[..%d], &mut result[..%d])  // data[k] = k-th position-unique element" % (
        fn, c["w"], c["h"], c["ld"], c["lr"])


def model_key(c, debug, avx2_host):
    if c["fn"] == "tm":
        kind = TYPES[c["ty"]][1]
        return ("tm", debug, kind, avx2_host if kind != "KOther" else True, c["w"], c["h"], c["ld"], c["lr"])
    return (c["fn"], debug, c["w"], c["h"], c["ld"], c["lr"])


def model_term(k):
    b = lambda x: "true" if x else "false"
    if k[0] == "tm":
        _, debug, kind, avx2, w, h, ld, lr = k
        return "tm %s %s %s %d %d %d %d" % (b(debug), kind, b(avx2), w, h, ld, lr)
    fn, debug, w, h, ld, lr = k
    return "%s %s %d %d %d %d" % (fn, b(debug), w, h, ld, lr)


def route(c, avx2_host):
    if c["fn"] != "tm":
        return c["fn"]
    kind = TYPES[c["ty"]][1]
    if c["w"] in (0, 1) or c["h"] in (0, 1):
        return "trivial"
    return "scalar" if kind == "KOther" or not avx2_host else ("avx2-8x8" if kind == "K32" else "avx2-4x4")


def spec_cells(c):
    """the transpose, as the list of source indices"""
    w, h = c["w"], c["h"]
    return [j * w + i for i in range(w) for j in range(h)]


def render(cells, size):
    return " ".join("x" if k < 0 else str(low_of(k, size)) for k in cells)


# ------------------------------------------------------------------------------------------------
# 5. the check
# ------------------------------------------------------------------------------------------------

def run(ctx):
    ctx.trusted += ["Coq 8.16.1 kernel + vm_compute",
                    "hand-written model coq/Model/Transpose.v (tied by the correspondence below; its configuration — form of the "
                    "two shape checks, every line of the two shuffle networks, load/write strides, block geometry pins — is read from "
                    "the source by the parser in checks/c15.py)",
                    "the lane semantics of the 7 AVX intrinsics written in Model/Transpose.v (Intel SDM; exercised against the "
                    "hardware by every f32/u32/f64/u64 case of the correspondence)",
                    "harness/gemmh (guard pages via mmap/mprotect, catch_unwind, fork per crash-prone case)"]
    ctx.assumptions += ["the non-AVX2 route for 32/64-bit element types cannot be executed on this host (is_x86_feature_detected! is "
                        "called directly); in the model it is the same scalar loop that i32/i64/u8/u16/u128/[u8;3] exercise",
                        "placement relative to unmapped memory is observed (slices flush against PROT_NONE pages at either end), "
                        "not proved: the model has indices, not addresses",
                        "lists stand for slices: at most isize::MAX bytes, so len < 2^64"]
    proved = ctx.prove("Props/C15.v")

    # -- the configuration of the model, from the source as it is now
    try:
        cfg = read_source()
    except (Unrecognised, OSError, ValueError) as ex:
        ctx.broke("translator", "transpose source not recognised", str(ex))
        ctx.note("source not recognised (%s): running the correspondence against the specification only" % ex)
        cfg = None
    # drift trigger: the parts of the transposition sources the parser above does not read (stores, loads, loops) are
    # hand-modelled; a token-level difference from the text the model was written against widens the search to the thorough
    # grid (plus the literal-guided shapes) and is reported as broken - not by itself a violation
    drift = lib.source_drift("transpose", ["cfavml-gemm/src/transpose/mod.rs", "cfavml-gemm/src/transpose/impl_avx2.rs"])
    search_tier = ctx.tier
    if drift:
        ctx.broke("translator", "transposition sources differ from the text Model/Transpose.v was written against "
                                "(corpus/fingerprints.json): searching the thorough shape grid", drift)
        search_tier = "thorough"
    ctx.extra["source_drift"] = drift
    std = False
    if cfg:
        std = compare_networks(ctx, cfg)
        ctx.extra["shape_check_form"] = {"transpose_matrix": cfg["outer"], "generic_transpose": cfg["inner"]}
        applicable = ["C15_reg_transpose_f32", "C15_reg_transpose_f64", "C15_permutation", "C15_avx2_entries",
                      "C15_involution", "C15_rejects_no_overflow"]
        applicable += ["C15_rejects (debug profile)" if cfg["outer"] == "MulPlain" else "C15_rejects (both profiles)"]
        applicable += ["C15_avx2_entries_reject (debug profile)" if cfg["inner"] == "MulPlain"
                       else "C15_avx2_entries_reject (both profiles)"]
        if cfg["outer"] == "MulPlain":
            applicable.append("C15_rejects_refuted (release profile): the property's 'panics when the product overflows' is FALSE "
                              "of the current source; witness replayed below")
        if cfg["inner"] == "MulPlain":
            applicable.append("C15_avx2_entries_reject_refuted (release profile)")
        ctx.extra["theorems_about_current_source"] = applicable
        ctx.note("shape checks: transpose_matrix=%s generic_transpose=%s; networks %s" % (
            cfg["outer"], cfg["inner"], "as proved" if std else "DIFFER from the proved ones"))

    # -- builds
    builds = ["release", "debug"]
    for b in builds:
        t = time.time()
        ok, log = build_gemmh(b)
        ctx.note("harness build gemmh [%s]: %s in %.0fs" % (b, "ok" if ok else "FAILED", time.time() - t))
        if not ok:
            ctx.broke("correspondence", "harness build " + b, log[-1500:])
            return
    rc, out = lib.sh([gemmh_bin("release")], input_="probe\n", timeout=60)
    m = re.search(r"probe avx2 (\d)", out)
    if not m:
        ctx.broke("correspondence", "harness probe", out[-400:])
        return
    avx2_host = m.group(1) == "1"

    cases = gen_cases(search_tier, avx2_host)
    replay = os.environ.get("VERIF_REPLAY")
    if replay:
        with open(replay) as f:
            r = json.load(f)
        if "case_fields" in r:
            cases = [dict(r["case_fields"])]
            builds = [r.get("build", "release")]
    lines = [case_line(i, c) for i, c in enumerate(cases)]

    # -- the model on every distinct (profile, kind, route, shape, lengths)
    max_cells = MODEL_MAX_CELLS[search_tier]
    terms = {}
    keys = []
    if cfg:
        for b in builds:
            for c in cases:
                if max(c["ld"], c["lr"]) > max_cells:
                    continue
                k = model_key(c, b == "debug", avx2_host)
                if k not in terms:
                    terms[k] = (max(c["ld"], c["lr"]) ** 2 // 1000, model_term(k))
        keys = list(terms)
        t = time.time()
        mres, errs = run_model(cfg, {i: terms[k] for i, k in enumerate(keys)})
        ctx.note("model: %d runs of the Coq definitions in %.0fs" % (len(keys), time.time() - t))
        for e in errs:
            ctx.broke("correspondence", "model evaluation (coqc)", e)
        model = {k: mres.get(i) for i, k in enumerate(keys)}
    else:
        model = {}

    n_eval = 0
    n_spec_only = 0
    distinct = set()
    dist = {}
    samples = []
    for b in builds:
        t = time.time()
        imp = run_impl(b, lines)
        ctx.note("implementation [%s]: %d cases in %.0fs" % (b, len(lines), time.time() - t))
        for i, c in enumerate(cases):
            a = imp.get(i)
            size = TYPES[c["ty"]][0]
            prod = c["w"] * c["h"]
            well = (c["ld"] == prod and c["lr"] == prod and prod < TWO64)
            rt = route(c, avx2_host)
            rep = {"kind": "input", "call": rust_call(c), "case": case_line(0, c), "case_fields": c, "build": b,
                   "observed": (a or "no output")[:600], "harness": "printf '%s\\n' | %s" % (case_line(0, c), gemmh_bin(b))}
            if a is None:
                ctx.broke("correspondence", "harness gave no output", "%s [%s]" % (lines[i], b))
                continue
            crashed = a.startswith("signal") or a.startswith("exit")
            bad = None
            # ---- the specification, applied to the implementation's output
            if well:
                want = "ok " + render(spec_cells(c), size) if prod else "ok"
                rep["expected"] = "ok + the transpose: result[i*%d + j] = data[j*%d + i]" % (c["h"], c["w"])
                if crashed:
                    bad = ("transpose-crash:%s:%s" % (rt, b),
                           "%s on a well-shaped %dx%d %s matrix crashed (%s): out-of-bounds access caught by a guard page" % (
                               c["fn"], c["w"], c["h"], c["ty"], a))
                elif a.startswith("panic"):
                    bad = ("transpose-panic:%s:%s" % (rt, b),
                           "%s on a well-shaped %dx%d %s matrix panicked: %s" % (c["fn"], c["w"], c["h"], c["ty"], a[:200]))
                elif a.strip() != want.strip():
                    got = a.split()[1:]
                    exp = want.split()[1:]
                    first = next((n for n, (x, y) in enumerate(zip(got, exp)) if x != y), min(len(got), len(exp)))
                    what = ("touched memory outside its slices" if ("CANARY" in a or "INPUT-MODIFIED" in a) and got[:len(exp)] == exp
                            else "result is not the transpose: result[%d] holds %s, expected %s (element data[%d])" % (
                                first, got[first] if first < len(got) else "-", exp[first] if first < len(exp) else "-",
                                spec_cells(c)[first] if first < prod else -1))
                    bad = ("transpose-result:%s:%s" % (rt, b),
                           "%s on a %dx%d %s matrix (%s build): %s" % (c["fn"], c["w"], c["h"], c["ty"], b, what))
            else:
                over = prod >= TWO64
                rep["expected"] = "panic (data.len() = %d, result.len() = %d, width*height = %d%s)" % (
                    c["ld"], c["lr"], prod, " which overflows usize" if over else "")
                ep = "-avx2-entry" if c["fn"] != "tm" else ""
                if crashed:
                    bad = (("transpose-overflow%s:%s" if over else "transpose-mismatch-crash%s:%s") % (ep, b),
                           "%s with width=%d height=%d, data.len()=%d, result.len()=%d (%s build): %s; the shape check did not "
                           "reject the call and the routine accessed memory outside the slices (%s)" % (
                               rust_call(c).split("(")[0], c["w"], c["h"], c["ld"], c["lr"], b,
                               "width*height overflows usize and wraps to %d" % (prod % TWO64) if over else "lengths do not match", a))
                elif not a.startswith("panic"):
                    bad = (("transpose-overflow-silent%s:%s" if over else "transpose-mismatch-silent%s:%s") % (ep, b),
                           "%s accepted width=%d height=%d with data.len()=%d, result.len()=%d (%s build) without panicking: %s" % (
                               rust_call(c).split("(")[0], c["w"], c["h"], c["ld"], c["lr"], b, a[:200]))
            if bad:
                ctx.violation(bad[0], bad[1], rep)
            # ---- the correspondence with the model
            if not cfg:
                continue
            mk = model_key(c, b == "debug", avx2_host)
            mo = model.get(mk)
            if mk not in model:
                # too large for vm_compute on lists: the model's outcome on a well-shaped call is fixed by C15_permutation
                if well and proved and std:
                    n_spec_only += 1
                    dist["%s:theorem-only" % b] = dist.get("%s:theorem-only" % b, 0) + 1
                continue
            if mo is None:
                ctx.broke("correspondence", "model gave no output", model_term(mk))
                continue
            if mo[0] == 4:
                # the model ran out of fuel: only the zero-width direct calls of the entry points (fuel = len + 1)
                dist["%s:model-out-of-fuel" % b] = dist.get("%s:model-out-of-fuel" % b, 0) + 1
                # ... and wrapped products whose block loops would spin ~2^59 times over an empty inner loop before the
                # first access (the compiler deletes them; the model cannot run them): undecided by the model, judged by
                # the specification above
                if not ((c["fn"] != "tm" and (c["w"] == 0 or c["h"] == 0)) or c["cls"] == "overflow"):
                    ctx.broke("correspondence", "model out of fuel", model_term(mk))
                continue
            if mo[0] == 0:
                mtxt = ("ok " + render(mo[1:], size)).strip()
            else:
                mtxt = {1: "panic assert", 2: "panic overflow", 3: "fault"}[mo[0]]
            if mo[0] == 0:
                agree = a.strip() == mtxt
            elif mo[0] == 1:
                agree = a.startswith("panic assert")
            elif mo[0] == 2:
                agree = a.startswith("panic") and not a.startswith("panic assert")
            else:
                agree = crashed
            n_eval += 1
            cls = "%s:%s:%s" % (b, c["cls"], rt)
            dist[cls] = dist.get(cls, 0) + 1
            if c["ld"] > 1 or not well:
                distinct.add((b, c["fn"], c["ty"], c["w"], c["h"], c["ld"], c["lr"], c["place"]))
            if len(samples) < 6 and (c["cls"] != "shape" or (c["w"] > 16 and c["h"] > 16 and i % 97 == 0)):
                samples.append("%s [%s] impl: %s | model: %s" % (case_line(0, c)[2:], b, a[:80], mtxt[:80]))
            if not agree and not bad:
                ctx.broke("correspondence", "model vs implementation: %s [%s]" % (case_line(0, c)[2:], b),
                          "implementation: %s | model: %s" % (a[:300], mtxt[:300]))

    ctx.cover(n_eval, distinct_keys=distinct, samples=samples,
              rule="real transpose_matrix::<T> / AVX2 entry points (release + debug, guard pages both ends, catch_unwind, fork) "
                   "vs vm_compute of Model/Transpose.v on the same (fn, type, width, height, lengths): outcome class and every "
                   "result cell; the implementation's output is ALSO judged against the specification directly",
              dist=dist)
    ctx.extra["cases_judged_against_spec"] = len(cases) * len(builds)
    ctx.extra["well_shaped_cases_beyond_model_size (expected outcome by theorem C15_permutation)"] = n_spec_only
    ctx.extra["host_avx2"] = avx2_host
