"""C14 — the core library allocates nothing and builds without std.

Decision procedure (DESIGN §2.6, §3 C14):
  1. tools/translate_crate.py (step "crate") regenerates coq/Gen/GenCrate.v from lib.REPO/cfavml: Cargo.toml, the crate
     attributes, the module tree with every cfg condition, and for every non-test item what it mentions;
  2. Props/C14.v (reflection over that graph, ALL build configurations) is built and audited;
  3. whether or not the theorems still compile, the same boolean checkers are evaluated item by item with
     `lib.coq_eval` (`nostd_offenders`, `noalloc_offenders`, `wf_offenders`, the manifest / attribute / feature-gate
     checkers): every offender is a static VIOLATION naming file, line, item, token, class and configurations; the same
     evaluation yields the model's PREDICTION of what each configuration may reference outside `core`;
  4. compiled-code tie, probe (E):
     (i)  lib.REPO/cfavml is built in the four configurations {std off/on} x {stable, nightly+`nightly`} (release), and
          harness/nostdprobe (a `#![no_std]` crate that instantiates every `xconst::<D>` routine) with it; the undefined
          symbols of both rlibs (`nm`, minus what the rlibs define themselves) must be rooted in `core`, compiler
          builtins or — std builds only, and only if the model predicts it — `std_detect` / `std::f32|f64` / libm; never an
          allocator symbol, never `alloc::`; a failing `--no-default-features` build is itself a violation;
     (ii) harness/allocprobe (counting `#[global_allocator]`) calls every safe routine and every per-back-end export the
          host can execute, `xany` and `xconst::<D>` forms, at the lengths of the tier, in fresh processes whose FIRST
          cfavml call (the first dispatch, i.e. the first CPU feature detection) is varied: the counter must not move.
All build products live under lib.BUILD; the harness crates are materialised there with their `path` dependency
rewritten to lib.REPO (VERIF_REPO is honoured everywhere).
"""
import hashlib
import json
import os
import platform
import re
import shutil
import time
from concurrent.futures import ThreadPoolExecutor

import lib

LEVEL = "proof"

CONST_DIMS = [0, 1, 67, 1043]            # compiled into harness/allocprobe (src/main.rs: CONST_DIMS)
QUICK_LENS = [0, 1, 67, 1043]
THOROUGH_LENS = sorted(set(QUICK_LENS + [2, 3, 7, 8, 9, 15, 16, 17, 31, 32, 33, 63, 64, 65, 127, 128, 129, 255, 256,
                                           257, 511, 512, 513, 1000, 1001, 1024, 2048, 4099]))
NOSTD_DIMS = [67]                        # instantiations compiled into harness/nostdprobe

KIND = {"export_distance_op": "dist", "export_op_horizontal": "horiz", "export_op_vertical": "vert",
        "export_op_value": "value", "export_vector_x_value_op": "value", "export_vector_x_vector_op": "vert"}
SAFE_KIND = {"export_safe_distance_op": "dist", "export_safe_fma_norm_op": "horiz", "export_safe_nofma_norm_op": "horiz",
             "export_safe_horizontal_op": "horiz", "export_safe_vertical_op": "vert", "export_safe_value_op": "value",
             "export_safe_arithmetic_vector_x_value_op": "value", "export_safe_arithmetic_vector_x_vector_op": "vert"}
REG_FEATS = {"Fallback": [], "Avx2": ["avx2"], "Avx2Fma": ["avx2", "fma"], "Avx512": ["avx512f", "avx512bw"], "Neon": ["neon"]}

# configuration name -> (toolchain, cargo feature `std`, cargo feature `nightly`, label of the model's buildcfg)
ARCH = {"x86_64": "x86_64", "AMD64": "x86_64", "aarch64": "aarch64", "arm64": "aarch64", "i686": "x86"}.get(platform.machine(), "other")
CONFIGS = {
    "stable-nostd": ("", False, False),
    "stable-std": ("", True, False),
    "nightly-nostd": ("+nightly", False, True),
    "nightly-std": ("+nightly", True, True),
}

# C symbols a `core`-only crate may reference: provided by compiler_builtins / the unwinder on every target
BUILTIN_SYMS = {"memcpy", "memmove", "memset", "memcmp", "bcmp", "strlen", "__rust_probestack", "_Unwind_Resume",
                "rust_eh_personality", "__stack_chk_fail", "_GLOBAL_OFFSET_TABLE_", "__rust_start_panic", "rust_begin_unwind",
                "__udivti3", "__umodti3", "__divti3", "__modti3", "__multi3", "__muloti4", "__ashlti3", "__ashrti3", "__lshrti3",
                "__floattisf", "__floattidf", "__floatuntisf", "__floatuntidf", "__fixsfti", "__fixdfti", "__fixunssfti", "__fixunsdfti"}
# libm entry points LLVM may lower the audited std float functions to (std builds only, and only when predicted)
LIBM_SYMS = {"sqrt", "sqrtf", "fabs", "fabsf"}
ALLOC_SYM = re.compile(r"__rust_alloc|__rust_dealloc|__rust_realloc|__rust_alloc_zeroed|__rust_alloc_error_handler|"
                       r"__rust_no_alloc_shim|__rg_|__rdl_|__rustc\w*::__rust_|\bmalloc\b|\bcalloc\b|\brealloc\b|\bfree\b|"
                       r"posix_memalign|aligned_alloc|\bmmap\b")
PANIC_PREFIXES = ("core::panicking::", "core::panic::", "core::fmt::", "core::slice::index::", "core::option::", "core::result::",
                  "core::str::", "core::num::", "core::cell::", "core::intrinsics::")


def model_label(cfg):
    _, std, nightly = CONFIGS[cfg]
    return "%s%s%s" % (ARCH if ARCH != "other" else "<other>", "+std" if std else "-std", "+nightly" if nightly else "-nightly")


def repo_tag():
    return "repo" if lib.REPO == "/repo" else "alt" + hashlib.sha1(lib.REPO.encode()).hexdigest()[:8]


def work_dir():
    d = os.path.join(lib.BUILD, "c14", repo_tag())
    os.makedirs(d, exist_ok=True)
    return d


def target_dir(kind, cfg):
    tag = repo_tag()
    return os.path.join(lib.BUILD, "target-c14-%s-%s%s" % (kind, cfg, "" if tag == "repo" else "-" + tag))


def write_if_changed(path, content):
    try:
        if open(path).read() == content:
            return False
    except OSError:
        pass
    os.makedirs(os.path.dirname(path), exist_ok=True)
    with open(path, "w") as f:
        f.write(content)
    return True


# ------------------------------------------------------------------------------------------------
# evaluation of the model (lib.coq_eval): offenders and predictions
# ------------------------------------------------------------------------------------------------

EVAL_HDR = """From Coq Require Import String List Bool NArith.
From CF Require Import Model.Tables Model.TableSem Model.CrateGraph Gen.GenCrate.
Import ListNotations.
Open Scope string_scope.
Set Printing Width 1000000.
Set Printing Depth 1000000.
Definition g := crate_graph.
"""

EVALS = {
    "ALL": "check_all g",
    "WF": "wf_offenders g",
    "MANIFEST": "(check_manifest g, map (fun d => (dp_section d, dp_name d)) (runtime_deps g), cg_build_script g, cg_proc_macro g, "
                "cg_edition g, feature_enables g \"std\", feature_enables g \"default\", feature_enables g \"nightly\")",
    "NOSTD": "nostd_offenders g",
    "NOALLOC": "noalloc_offenders g",
    "GATES": "flat_map (fun bc => if check_gates g bc then [] else [(bc_label bc, active_feature_gates g bc)]) all_configs",
    "ATTR": "flat_map (fun bc => if check_nostd_attr g bc then [] else [(bc_label bc, has_no_std g bc)]) all_configs",
    "PRED": "map (fun bc => (bc_label bc, active_classes g bc, active_paths_of_class g bc ClStdAudited, "
            "active_extern_crates g bc, count_active g bc, has_no_std g bc)) all_configs",
}


class CoqValue:
    """Parser for what `Eval vm_compute` prints for strings, N, bool, tuples and lists."""

    def __init__(self, s):
        self.s, self.i = s, 0

    def ws(self):
        while self.i < len(self.s) and self.s[self.i].isspace():
            self.i += 1

    def value(self):
        self.ws()
        c = self.s[self.i]
        if c == '"':
            j = self.i + 1
            out = []
            while True:
                if self.s[j] == '"':
                    if j + 1 < len(self.s) and self.s[j + 1] == '"':
                        out.append('"')
                        j += 2
                        continue
                    break
                out.append(self.s[j])
                j += 1
            self.i = j + 1
            return "".join(out)
        if c == "[":
            self.i += 1
            return self.seq("]", ";")
        if c == "(":
            self.i += 1
            v = self.seq(")", ",")
            return tuple(v) if len(v) != 1 else v[0]
        m = re.match(r"(\d+)(%\w+)?", self.s[self.i:])
        if m:
            self.i += m.end()
            return int(m.group(1))
        m = re.match(r"[A-Za-z_][\w']*", self.s[self.i:])
        if m:
            self.i += m.end()
            return {"true": True, "false": False}.get(m.group(0), m.group(0))
        raise ValueError("cannot parse Coq value at %r" % self.s[self.i:self.i + 40])

    def seq(self, close, sep):
        out = []
        self.ws()
        if self.s[self.i] == close:
            self.i += 1
            return out
        while True:
            out.append(self.value())
            self.ws()
            c = self.s[self.i]
            self.i += 1
            if c == close:
                return out
            if c != sep:
                raise ValueError("expected %r or %r at %r" % (sep, close, self.s[self.i - 1:self.i + 40]))


def model_eval():
    """Returns ({tag: python value}, log) or (None, log)."""
    body = EVAL_HDR
    for tag, e in EVALS.items():
        body += 'Goal True. idtac "@@%s". Abort.\nEval vm_compute in (%s).\nGoal True. idtac "@@END". Abort.\n' % (tag, e)
    rc, out = lib.coq_eval(body, name="c14_model", timeout=900)
    if rc != 0:
        return None, out
    res = {}
    for m in re.finditer(r"@@(\w+)\s*\n(.*?)@@END", out, flags=re.S):
        tag, text = m.group(1), m.group(2)
        if tag == "END":
            continue
        text = text.strip()
        if text.startswith("="):
            text = text[1:]
        k = text.rfind("\n     : ")
        if k < 0:
            k = text.rfind(" : ")
        text = text[:k] if k >= 0 else text
        try:
            res[tag] = CoqValue(text).value()
        except (ValueError, IndexError) as ex:
            return None, "cannot parse %s: %s\n%s" % (tag, ex, text[:400])
    if set(res) != set(EVALS):
        return None, "missing evaluations %s\n%s" % (sorted(set(EVALS) - set(res)), out[-600:])
    return res, out


def item_index(facts):
    idx = {}
    for it in (facts.get("crate") or {}).get("items", []):
        idx.setdefault((it["file"], it["name"]), it)
    return idx


def static_search(ctx, facts, res):
    """Every offender of the boolean checkers -> one violation per source item.  Returns the keys reported."""
    keys = []
    items = item_index(facts)

    def src_line(file, line):
        try:
            with open(os.path.join(lib.REPO, file)) as f:
                return f.read().splitlines()[line - 1].strip()[:160]
        except (OSError, IndexError):
            return None

    groups = {}
    for thm, rows in (("C14_nostd", res["NOSTD"]), ("C14_noalloc", res["NOALLOC"])):
        for (label, file, line, item, token, cls) in rows:
            g = groups.setdefault((file, item), {})
            t = g.setdefault((token, cls, line), {"configurations": [], "theorems": []})
            if label not in t["configurations"]:
                t["configurations"].append(label)
            if thm not in t["theorems"]:
                t["theorems"].append(thm)
    order = {"alloc": 0, "std": 1, "external": 2, "unknown-macro": 3, "std-audited": 4}
    for (file, item), toks in sorted(groups.items(), key=lambda kv: min(order.get(k[1], 9) for k in kv[1])):
        tl = sorted(toks.items(), key=lambda kv: (order.get(kv[0][1], 9), kv[0][2]))
        (tok0, cls0, line0), info0 = tl[0]
        fact = items.get((file, item), {})
        key = "source:%s:%s" % (file, item)
        why = {"alloc": "allocating vocabulary / the `alloc` crate",
               "std": "a use of std outside the audited non-allocating set (is_*_feature_detected!, f32/f64::sqrt|abs)",
               "std-audited": "a use of std (audited as non-allocating) that is compiled with the `std` feature OFF: the no_std build "
                              "references something outside `core`",
               "external": "a path into another crate", "unknown-macro": "a macro that is neither core's nor defined in the crate"}.get(cls0, cls0)
        what = "%s:%d: item `%s` mentions `%s` (class %s) in code compiled in %d configuration(s) [%s%s]: %s" % (
            file, line0, item, tok0, cls0, len(info0["configurations"]), ", ".join(info0["configurations"][:4]),
            ", ..." if len(info0["configurations"]) > 4 else "", why)
        ctx.violation(key, what, {
            "kind": "static", "file": file, "item": item, "item_kind": fact.get("kind"), "item_line": fact.get("line"),
            "item_cfg": fact.get("cfg_text"),
            "tokens": [{"token": k[0], "class": k[1], "line": k[2], "source": src_line(file, k[2]),
                        "configurations": v["configurations"], "refutes": v["theorems"]} for k, v in tl],
            "theorem": sorted({t for _, v in tl for t in v["theorems"]}),
            "checker": "CrateGraph.nostd_offenders / noalloc_offenders crate_graph (lib.coq_eval)",
            "reproduce": "python3 tools/translate.py crate && make -C coq Props/C14.vo"})
        keys.append(key)
    for (file, line, name) in res["WF"]:
        key = "graph-wf:%s:%s" % (file, name)
        ctx.violation(key, "%s:%d: `%s`: the cfg structure is outside what the model enumerates (a condition on a compile-time "
                           "target feature / unknown target_arch on a non-test item, or a dropped item that is not test-only)" % (file, line, name),
                      {"kind": "static", "theorem": "graph_wf (all C14 theorems)", "file": file, "line": line, "item": name,
                       "source": src_line(file, line)})
        keys.append(key)
    man = res["MANIFEST"]
    if not man[0]:
        mf = (facts.get("crate") or {}).get("manifest", {})
        deps = [d for d in mf.get("deps", []) if not d.get("dev")]
        why = []
        if man[1]:
            why.append("non-dev dependencies: " + ", ".join("[%s] %s" % (s, n) for (s, n) in man[1]))
        if man[2]:
            why.append("a build script is present")
        if man[3]:
            why.append("proc-macro crate")
        if man[5]:
            why.append("feature `std` enables %s" % (man[5],))
        if "std" not in man[6]:
            why.append("`std` is not part of `default`")
        if "std" in man[7]:
            why.append("`nightly` implies `std`")
        if man[4] not in ("2018", "2021", "2024"):
            why.append("edition %s" % man[4])
        ctx.violation("manifest", "cfavml/Cargo.toml: " + "; ".join(why or ["check_manifest = false"]),
                      {"kind": "static", "theorem": "C14_deps", "file": "cfavml/Cargo.toml",
                       "line": deps[0].get("line") if deps else None, "dependencies": deps, "features": mf.get("features"),
                       "build_script": man[2], "proc_macro": man[3]})
        keys.append("manifest")
    for (label, gates) in res["GATES"]:
        ctx.violation("feature-gates", "lib.rs: #![feature(%s)] is active in configuration %s, i.e. without the `nightly` feature: "
                                       "that configuration does not build on a stable toolchain" % (", ".join(gates), label),
                      {"kind": "static", "theorem": "C14_feature_gates", "file": "cfavml/src/lib.rs", "configuration": label, "gates": gates})
        keys.append("feature-gates")
    for (label, has) in res["ATTR"]:
        ctx.violation("no-std-attribute", "lib.rs: in configuration %s the crate %s `#![no_std]` (expected: exactly when the `std` "
                                          "feature is off)" % (label, "carries" if has else "does not carry"),
                      {"kind": "static", "theorem": "C14_nostd / C14_nostd_exact", "file": "cfavml/src/lib.rs", "configuration": label,
                       "has_no_std": has, "crate_attributes": (facts.get("crate") or {}).get("attrs")})
        keys.append("no-std-attribute")
    return keys


# ------------------------------------------------------------------------------------------------
# generated glue
# ------------------------------------------------------------------------------------------------

def regs_for(nightly):
    if ARCH in ("x86_64", "x86"):
        return ["Fallback", "Avx2", "Avx2Fma"] + (["Avx512"] if nightly else [])
    if ARCH == "aarch64":
        return ["Fallback", "Neon"]
    return ["Fallback"]


def glue_rows(facts, nightly):
    safes = [s for s in facts.get("safe_entries", []) if s["macro"] in SAFE_KIND]
    exports = [e for e in facts.get("exports", []) if e["macro"] in KIND and e["reg"] in regs_for(nightly)]
    return safes, exports


def alloc_glue(safes, exports):
    L = ["// GENERATED by checks/c14.py from the translator's tables of the current source — do not edit",
         "pub const SAFE_ENTRIES: usize = %d;" % len(safes), "pub const DANGER_ENTRIES: usize = %d;" % len(exports), ""]

    def arms(prefix, rows, kind_of, any_key, const_key):
        out = []
        for i, r in enumerate(rows):
            k, ty = kind_of[r["macro"]], r["ty"]
            a, c = r[any_key], r[const_key]
            out.append('        (%d, 0) => { for &n in lens { rs.%s.%s(t, "%s", n, %s%s); } "%s" }' % (i, ty, k, a, prefix, a, a))
            inner = " ".join('%d => rs.%s.%s(t, "%s", %d, %s%s::<%d>),' % (d, ty, k, c, d, prefix, c, d) for d in CONST_DIMS)
            out.append('        (%d, _) => { for &n in lens { match n { %s _ => {} } } "%s" }' % (i, inner, c))
        return out

    L.append("#[allow(unused_variables)]\npub fn safe_call(idx: usize, form: usize, lens: &[usize], rs: &mut Runners, t: &mut Tally) -> &'static str {\n    match (idx, form) {")
    L += arms("cfavml::", safes, SAFE_KIND, "any", "const")
    L.append('        _ => unreachable!(),\n    }\n}\n')
    L.append("#[allow(unused_variables)]\npub fn danger_call(idx: usize, form: usize, lens: &[usize], rs: &mut Runners, t: &mut Tally) -> &'static str {\n    match (idx, form) {")
    L += arms("cfavml::danger::", exports, KIND, "xany", "xconst")
    L.append('        _ => unreachable!(),\n    }\n}\n')
    L.append("pub fn danger_name(idx: usize, form: usize) -> &'static str {\n    match (idx, form) {")
    for i, e in enumerate(exports):
        L.append('        (%d, 0) => "%s", (%d, _) => "%s",' % (i, e["xany"], i, e["xconst"]))
    L.append('        _ => unreachable!(),\n    }\n}\n')
    L.append("pub fn danger_features(idx: usize) -> &'static [&'static str] {\n    match idx {")
    for i, e in enumerate(exports):
        feats = sorted(set(e.get("feats") or []) | set(REG_FEATS.get(e["reg"], [])))
        L.append("        %d => &[%s]," % (i, ", ".join('"%s"' % f for f in feats)))
    L.append('        _ => unreachable!(),\n    }\n}')
    return "\n".join(L) + "\n"


def nostd_glue(safes, exports):
    L = ["// GENERATED by checks/c14.py from the translator's tables of the current source — do not edit",
         "pub const INSTANTIATED: usize = %d;" % ((len(safes) + len(exports)) * len(NOSTD_DIMS)),
         "pub fn instantiate(sink: &mut dyn FnMut(usize)) {"]
    for d in NOSTD_DIMS:
        for s in safes:
            L.append("    sink(cfavml::%s::<%d> as usize);" % (s["const"], d))
        for e in exports:
            L.append("    sink(cfavml::danger::%s::<%d> as usize);" % (e["xconst"], d))
    L.append("}")
    return "\n".join(L) + "\n"


def materialise(name):
    """Copy harness/<name> under lib.BUILD with its `path` dependency pointing at lib.REPO."""
    src = os.path.join(lib.VERIF, "harness", name)
    dst = os.path.join(work_dir(), name)
    toml = open(os.path.join(src, "Cargo.toml")).read()
    toml2 = toml.replace('path = "/repo/cfavml"', 'path = "%s"' % os.path.join(lib.REPO, "cfavml"))
    if toml2 == toml and lib.REPO != "/repo":
        raise RuntimeError("harness/%s/Cargo.toml: path dependency on /repo/cfavml not found" % name)
    write_if_changed(os.path.join(dst, "Cargo.toml"), toml2)
    for root, _, files in os.walk(os.path.join(src, "src")):
        for f in files:
            p = os.path.join(root, f)
            write_if_changed(os.path.join(dst, os.path.relpath(p, src)), open(p).read())
    return dst


# ------------------------------------------------------------------------------------------------
# builds
# ------------------------------------------------------------------------------------------------

RUSTFLAGS_LIB = "-Awarnings -C symbol-mangling-version=v0"


def cargo_features(std, nightly, own):
    """own = the crate built is cfavml itself (features std/nightly are its own) or a probe (same names, forwarded)."""
    fs = (["std"] if std else []) + (["nightly"] if nightly else [])
    return "--no-default-features" + (" --features %s" % ",".join(fs) if fs else "")


def build_config(cfg, glue_dir):
    """Build cfavml itself, nostdprobe and allocprobe in one configuration.  Returns dict of results."""
    tc, std, nightly = CONFIGS[cfg]
    res = {"cfg": cfg, "cmds": {}}
    feats = cargo_features(std, nightly, True)
    t0 = time.time()
    with lib.build_lock("lock-cargo-c14-" + cfg):
        # (a) the library itself, from its own manifest (`--locked`: never rewrite lib.REPO/Cargo.lock)
        cmd = "cargo %s build --release --offline --locked %s" % (tc, feats)
        tdir = target_dir("lib", cfg)
        rc, out = lib.sh(cmd, cwd=os.path.join(lib.REPO, "cfavml"), env={"CARGO_TARGET_DIR": tdir, "RUSTFLAGS": RUSTFLAGS_LIB}, timeout=1800)
        res["lib"] = {"rc": rc, "log": out, "rlib": os.path.join(tdir, "release", "libcfavml.rlib"),
                      "cmd": "cd %s/cfavml && CARGO_TARGET_DIR=%s RUSTFLAGS='%s' %s" % (lib.REPO, tdir, RUSTFLAGS_LIB, cmd)}
        # (b) nostdprobe: instantiates the const-generic half of the API in a #![no_std] crate
        cmd = "cargo %s build --release --offline %s" % (tc, feats)
        tdir = target_dir("nostdprobe", cfg)
        glue = os.path.join(glue_dir, "glue_nostd_%s.rs" % ("nightly" if nightly else "stable"))
        crate = materialise("nostdprobe")
        rc, out = lib.sh(cmd, cwd=crate, env={"CARGO_TARGET_DIR": tdir, "RUSTFLAGS": RUSTFLAGS_LIB, "C14_NOSTD_GLUE": glue}, timeout=3000)
        deps = os.path.join(tdir, "release", "deps")
        dep_rlibs = sorted((os.path.join(deps, f) for f in (os.listdir(deps) if os.path.isdir(deps) else [])
                            if f.startswith("libcfavml-") and f.endswith(".rlib")), key=os.path.getmtime)
        res["nostdprobe"] = {"rc": rc, "log": out, "rlib": os.path.join(tdir, "release", "libnostdprobe.rlib"),
                             "dep_rlib": dep_rlibs[-1] if dep_rlibs else None,
                             "cmd": "cd %s && CARGO_TARGET_DIR=%s RUSTFLAGS='%s' C14_NOSTD_GLUE=%s %s" % (crate, tdir, RUSTFLAGS_LIB, glue, cmd)}
        # (c) allocprobe
        tdir = target_dir("allocprobe", cfg)
        glue = os.path.join(glue_dir, "glue_alloc_%s.rs" % ("nightly" if nightly else "stable"))
        crate = materialise("allocprobe")
        rc, out = lib.sh(cmd, cwd=crate, env={"CARGO_TARGET_DIR": tdir, "RUSTFLAGS": "-Awarnings", "C14_GLUE": glue}, timeout=3000)
        res["allocprobe"] = {"rc": rc, "log": out, "bin": os.path.join(tdir, "release", "allocprobe"),
                             "cmd": "cd %s && CARGO_TARGET_DIR=%s RUSTFLAGS=-Awarnings C14_GLUE=%s %s" % (crate, tdir, glue, cmd)}
    res["seconds"] = round(time.time() - t0, 1)
    return res


def first_errors(log, n=6):
    errs = re.findall(r"^(error(?:\[E\d+\])?: .*(?:\n\s+--> .*)?)", log, flags=re.M)
    return errs[:n] if errs else [log[-600:]]


# ------------------------------------------------------------------------------------------------
# (i) symbols
# ------------------------------------------------------------------------------------------------

def nm_rlib(path):
    """-> (defined set, {undefined symbol: first member}) of an rlib."""
    rc, out = lib.sh(["nm", path], timeout=300)
    defined, undefined = set(), {}
    member = ""
    for ln in out.splitlines():
        if ln.endswith(":") and " " not in ln.strip():
            member = ln.strip()[:-1]
            continue
        p = ln.split()
        if len(p) == 2 and p[0] in ("U", "w", "v"):
            undefined.setdefault(p[1], member)
        elif len(p) == 3:
            defined.add(p[2])
    return defined, undefined


def demangle(syms):
    if not syms:
        return {}
    tool = shutil.which("rustfilt") or shutil.which("c++filt")
    if not tool:
        return {s: s for s in syms}
    rc, out = lib.sh([tool], input_="\n".join(syms) + "\n", timeout=120)
    lines = out.splitlines()
    if rc != 0 or len(lines) != len(syms):
        return {s: s for s in syms}
    return dict(zip(syms, lines))


def crates_of(mangled, demangled):
    """Crate roots a Rust symbol mentions (v0 mangling: every crate appears as name[disambiguator] when demangled)."""
    if demangled != mangled:
        cs = set(re.findall(r"([A-Za-z_][A-Za-z0-9_]*)\[[0-9a-f]+\]", demangled))
        if cs:
            return cs
        m = re.match(r"<?&?(?:mut )?(?:dyn )?([A-Za-z_][A-Za-z0-9_]*)::", demangled)   # legacy mangling: path root
        return {m.group(1)} if m else set()
    if mangled.startswith("_R"):
        out = set()
        for m in re.finditer(r"C(?:s[0-9A-Za-z]*_)?(\d+)_?([A-Za-z_][A-Za-z0-9_]*)", mangled):
            out.add(m.group(2)[:int(m.group(1))])
        return out
    m = re.match(r"_ZN(\d+)", mangled)
    if m:
        n = int(m.group(1))
        return {mangled[3 + len(m.group(1)):3 + len(m.group(1)) + n]}
    return set()


def strip_hashes(d):
    return re.sub(r"\[[0-9a-f]+\]", "", re.sub(r"::h[0-9a-f]{16}$", "", d))


def check_symbols(ctx, cfg, b, pred, stats):
    """Undefined symbols of the rlibs of one configuration against the allowed roots and the model's prediction."""
    _, std, nightly = CONFIGS[cfg]
    classes, audited = set(pred[1]), list(pred[2])
    allow_detect = std and any(p.endswith("feature_detected!") for p in audited)
    allow_float = std and any(re.match(r"f(32|64)::", p) for p in audited)
    allowed_crates = {"core", "compiler_builtins", "cfavml", "nostdprobe"}
    lib_def, lib_und = nm_rlib(b["lib"]["rlib"])
    units = [("cfavml", b["lib"]["rlib"], lib_und, lib_def, b["lib"]["cmd"])]
    if b["nostdprobe"]["rc"] == 0:
        p_def, p_und = nm_rlib(b["nostdprobe"]["rlib"])
        d_def = nm_rlib(b["nostdprobe"]["dep_rlib"])[0] if b["nostdprobe"]["dep_rlib"] else set()
        units.append(("nostdprobe (xconst instantiations)", b["nostdprobe"]["rlib"], p_und, p_def | d_def | lib_def, b["nostdprobe"]["cmd"]))
    seen_detect = False
    for (unit, rlib, und, defined, cmd) in units:
        ext = sorted(s for s in und if s not in defined)
        dem = demangle(ext)
        stats["symbols"] += len(ext)
        stats["defined"] += len(defined)
        for s in ext:
            d = dem.get(s, s)
            plain = strip_hashes(d)
            stats["keys"].add(("sym", cfg, unit.split()[0], plain))
            is_rust = s.startswith("_R") or s.startswith("_ZN")
            crates = crates_of(s, d) if is_rust else set()
            verdict = None
            if ALLOC_SYM.search(d) or ALLOC_SYM.search(s) or "alloc" in crates:
                verdict = ("alloc-symbol", "references the allocator / the `alloc` crate")
            elif is_rust:
                extra = crates - allowed_crates
                if "std_detect" in extra:
                    seen_detect = True
                    if allow_detect:
                        extra = extra - {"std_detect"}
                if "std" in extra and allow_float and re.search(r"\bstd(\[[0-9a-f]+\])?::f(32|64)::", d):
                    extra = extra - {"std"}
                if not crates:
                    verdict = ("unrooted-symbol", "is a Rust symbol whose crate root could not be determined")
                elif extra:
                    if not std:
                        verdict = ("outside-core", "is rooted in `%s`: with the `std` feature off the library must reference nothing outside `core`" % "`, `".join(sorted(extra)))
                    else:
                        verdict = ("unpredicted-std", "is rooted in `%s`, which is not one of the audited uses of std the model predicts for this "
                                   "configuration (%s)" % ("`, `".join(sorted(extra)), ", ".join(audited) or "none"))
            else:
                if s in BUILTIN_SYMS or s.startswith("anon.") or s.startswith(".L") or s.startswith("__llvm"):
                    pass
                elif s in LIBM_SYMS and allow_float:
                    pass
                else:
                    verdict = ("outside-core" if not std else "unpredicted-std",
                               "is a C symbol that is neither a compiler builtin nor %s" % (
                                   "predicted by the model" if std else "part of `core`"))
            bucket = "symbols_" + ("offending" if verdict else "std_detect" if "std_detect" in crates else
                                   "core" if is_rust else "builtin")
            stats["dist"][bucket] = stats["dist"].get(bucket, 0) + 1
            if len(stats["samples"]) < 3 and verdict is None and unit == "cfavml":
                stats["samples"].append({"configuration": cfg, "rlib": os.path.basename(rlib), "undefined_symbol": plain, "verdict": "allowed"})
            if verdict:
                key = "%s:%s" % (verdict[0], cfg)
                ctx.violation(key, "%s build of %s: the compiled library references `%s`, which %s" % (cfg, unit, plain, verdict[1]),
                              {"kind": "symbol", "configuration": cfg, "model_configuration": model_label(cfg), "unit": unit, "rlib": rlib,
                               "object": und[s], "symbol": s, "demangled": d, "crate_roots": sorted(crates),
                               "model_predicts_classes": sorted(classes), "model_predicts_std_uses": audited,
                               "build": cmd, "inspect": "nm -u %s | grep -F '%s'" % (rlib, s[:60])})
    # the other direction of the prediction
    if allow_detect and not seen_detect and ARCH in ("x86_64", "x86", "aarch64"):
        ctx.broke("correspondence", "symbols vs model (%s)" % cfg,
                  "the model predicts run-time feature detection (%s) in %s but no rlib references std_detect" % (", ".join(audited), model_label(cfg)))
    if not std and "std-audited" in classes:
        ctx.broke("correspondence", "model prediction (%s)" % cfg, "model lists std-audited mentions as active in a configuration without std")
    return seen_detect


# ------------------------------------------------------------------------------------------------
# (ii) allocation counts
# ------------------------------------------------------------------------------------------------

def run_probe(binary, first, lens):
    rc, out = lib.sh([binary, str(first)] + [str(x) for x in lens], timeout=600)
    r = {"rc": rc, "R": {}, "NZ": [], "FIRST": None, "SKIP": [], "DONE": None, "raw_tail": out[-400:]}
    for ln in out.splitlines():
        p = ln.split()
        if not p:
            continue
        if p[0] == "R" and len(p) == 6:
            r["R"][p[1]] = tuple(int(x) for x in p[2:])
        elif p[0] == "NZ" and len(p) == 6:
            r["NZ"].append((p[1], int(p[2]), int(p[3]), int(p[4]), int(p[5])))
        elif p[0] == "FIRST" and len(p) == 6:
            r["FIRST"] = (p[1], int(p[2]), int(p[3]), int(p[4]), int(p[5]))
        elif p[0] == "SKIP" and len(p) == 3:
            r["SKIP"].append((p[1], p[2]))
        elif p[0] == "DONE" and len(p) == 3:
            r["DONE"] = (int(p[1]), int(p[2]))
    return r


def check_allocs(ctx, cfg, b, safes, exports, lens, firsts, stats):
    binary = b["allocprobe"]["bin"]
    n_safe = len(safes)
    expect_any, expect_const = len(lens), len([x for x in lens if x in CONST_DIMS])
    safe_names = {s["any"] for s in safes} | {s["const"] for s in safes}
    with ThreadPoolExecutor(max_workers=8) as ex:
        runs = list(ex.map(lambda f: (f, run_probe(binary, f, lens)), firsts))
    offenders = {}      # routine -> (len, allocs, deallocs, bytes, first)
    first_offenders = []
    for first, r in runs:
        cmdline = "%s %d %s" % (binary, first, " ".join(str(x) for x in lens))
        if r["rc"] != 0 or r["DONE"] is None:
            ctx.broke("correspondence", "allocprobe run (%s)" % cfg, "`%s` exited with %s before finishing: %s" % (cmdline, r["rc"], r["raw_tail"]))
            continue
        skipped = {n for n, _ in r["SKIP"]}
        want = 2 * n_safe + 2 * len(exports) - len(skipped)
        if r["DONE"][0] != want or len(r["R"]) != want:
            ctx.broke("correspondence", "allocprobe coverage (%s)" % cfg, "`%s` measured %d routines (%d distinct), expected %d" % (
                cmdline, r["DONE"][0], len(r["R"]), want))
        for name, (calls, a, d, by) in r["R"].items():
            exp = expect_const if "_xconst_" in name else expect_any
            if calls != exp:
                ctx.broke("correspondence", "allocprobe coverage (%s)" % cfg, "%s: %d calls measured, expected %d" % (name, calls, exp))
            stats["calls"] += calls
            stats["keys"].add(("alloc", cfg, name))
            stats["dist"]["calls_" + cfg] = stats["dist"].get("calls_" + cfg, 0) + calls
            if (a or d) and not any(z[0] == name for z in r["NZ"]):
                r["NZ"].append((name, -1, a, d, by))
        for (name, ln, a, d, by) in r["NZ"]:
            cur = offenders.get(name)
            if cur is None or (ln, first) < (cur[0], cur[4]):
                offenders[name] = (ln, a, d, by, first)
        if r["FIRST"]:
            fname, fl, fa, fd, fb = r["FIRST"]
            stats["keys"].add(("first", cfg, fname))
            stats["firsts"] += 1
            if len(stats["samples"]) < 8 and (first == firsts[0]):
                stats["samples"].append({"build": cfg, "first_cfavml_call_of_the_process": fname, "len": fl, "alloc_events": fa,
                                         "dealloc_events": fd, "routines_measured": r["DONE"][0], "calls": r["DONE"][1]})
            if fa or fd:
                first_offenders.append((fname, fl, fa, fd, fb, first))
        for n, feat in r["SKIP"]:
            stats["skipped"].setdefault(cfg, {})[n] = feat
    if first_offenders:
        fname, fl, fa, fd, fb, first = sorted(first_offenders, key=lambda x: (x[1], x[0]))[0]
        ctx.violation("alloc-first-call:" + cfg,
                      "%s build: the very first cfavml call of a fresh process, %s at length %d, performed %d heap allocation(s) "
                      "(%d bytes) and %d deallocation(s)" % (cfg, fname, fl, fa, fb, fd),
                      {"kind": "alloc", "build": cfg, "routine": fname, "length": fl, "alloc_events": fa, "dealloc_events": fd, "bytes": fb,
                       "first": first, "what": "first dispatching call (includes the first CPU feature detection)",
                       "cmd": "%s %d %s   # line `FIRST ...`" % (binary, first, " ".join(str(x) for x in lens)),
                       "build_cmd": b["allocprobe"]["cmd"], "other_first_calls": [x[0] for x in first_offenders[:12]]})
    if offenders:
        # the replay: a safe routine if there is one, shortest length, then by name
        order = sorted(offenders.items(), key=lambda kv: (kv[0] not in safe_names, kv[1][0], kv[0]))
        name, (ln, a, d, by, first) = order[0]
        ops = sorted({re.sub(r"^[a-z]\d+_x(?:const|any)_(?:(?:avx512|avx2|neon|fallback)_(?:no)?fma_)?", "", n) for n in offenders})
        ctx.violation("alloc:" + cfg,
                      "%s build: %s%s at length %d performed %d heap allocation(s) (%d bytes) and %d deallocation(s) on a non-panicking call; "
                      "%d routine(s) affected (operations: %s)" % (cfg, "safe " if name in safe_names else "cfavml::danger::", name, ln, a, by, d,
                                                                 len(offenders), ", ".join(ops[:8])),
                      {"kind": "alloc", "build": cfg, "routine": name, "form": "xconst::<%d>" % ln if "_xconst_" in name else "xany",
                       "length": ln, "alloc_events": a, "dealloc_events": d, "bytes": by, "first": first,
                       "inputs": ("a = b = [1, 0, 0, ...] (one-hot: the integer cosine routines panic with a zero divisor on generic data)"
                                  if "cosine" in name else "a[i] = i % 7 + 1, b[i] = i % 5 + 1, value = 3 (no zero divisor, no overflow panic)"),
                       "cmd": "%s %d %d   # lines `NZ %s ...`" % (binary, first, ln, name), "build_cmd": b["allocprobe"]["cmd"],
                       "affected_routines": len(offenders), "affected_operations": ops,
                       "affected_sample": [{"routine": n, "length": v[0], "alloc_events": v[1], "bytes": v[3]} for n, v in order[:16]]})


# ------------------------------------------------------------------------------------------------

def run(ctx):
    facts = ctx.translate(steps=("crate", "tables"))
    crate = facts.get("crate") or {}
    ctx.trusted += [
        "Coq 8.16.1 kernel + vm_compute (reflection over the generated crate graph, 16 normalised configurations)",
        "tools/translate_crate.py + tools/rustlex.py: item/cfg/mention scan of lib.REPO/cfavml (approximations only ever make a "
        "mention active in MORE configurations), tomllib reading of Cargo.toml",
        "Model/CrateGraph.v: the vocabulary lists (alloc_idents, alloc_methods, alloc_macros, std_float_methods, core_macros, "
        "core_float_fns, audited_std_macros, audited_float_fns) and the extern-prelude reading of paths (edition >= 2018)",
        "checks/c14.py (nm parsing, crate roots of v0-mangled symbols, allowed builtin list), binutils nm / c++filt, "
        "harness/allocprobe (counting #[global_allocator], generated glue), harness/nostdprobe",
    ]
    ctx.assumptions += [
        "a vocabulary is not a semantics: the theorems decide the source-level claim (no allocating token, no path outside "
        "core/crate/audited std), the symbol tables and the allocation counter decide the compiled one",
        "rustc/LLVM implement the source; cargo builds what the manifest says; bare cfg flags (test, miri, docsrs, cfavml_verif) are off",
        "no no_std TARGET (e.g. x86_64-unknown-none) and no aarch64 target is installed: the host build with `#![no_std]` in force is the "
        "proxy; aarch64 / x86 / other-arch configurations are covered by the theorems only",
        "allocation counts are observed on this host's CPU (back ends it cannot execute are listed under `skipped`)",
    ]
    if crate:
        ctx.extra["graph"] = dict(crate.get("counts", {}), files=len(crate.get("files", [])),
                                  runtime_dependencies=[d["name"] for d in crate.get("manifest", {}).get("deps", []) if not d["dev"]])

    # the executable model must be available even when the proofs no longer compile
    ok_model, log = lib.coq_make(["Model/CrateGraph.vo", "Gen/GenCrate.vo"], timeout=1200)
    if not ok_model:
        err = lib.coq_first_error(log) or {"file": "Gen/GenCrate.v", "line": 0, "lemma": None, "message": log[-800:]}
        ctx.broke("translator" if err["file"].startswith("Gen/") else "theorem",
                  "model build %s (%s:%s)" % (err.get("lemma"), err["file"], err["line"]), err["message"])
    proved = ctx.prove("Props/C14.v")

    # ---- row-level evaluation of the checkers + the model's predictions -------------------------------------
    res = None
    if ok_model:
        t0 = time.time()
        res, out = model_eval()
        if res is None:
            ctx.broke("correspondence", "evaluation of the C14 checkers (coq_eval)", out[-1200:])
        else:
            ctx.note("model evaluation (offenders + predictions for 16 configurations) in %.1fs" % (time.time() - t0))
    preds = {}
    if res is not None:
        keys = static_search(ctx, facts, res)
        preds = {p[0]: p for p in res["PRED"]}
        ctx.extra["model_predictions"] = {p[0]: {"classes": p[1], "audited_std_uses": p[2], "extern_crates": p[3],
                                                 "active_items": p[4], "no_std": p[5]} for p in res["PRED"]}
        n_items = len(crate.get("items", []))
        n_mentions = (crate.get("counts") or {}).get("mentions", 0)
        ctx.cover((n_items + n_mentions) * 16,
                  distinct_keys=[("item", it["file"], it["name"]) for it in crate.get("items", []) if not it["test"]],
                  samples=[{"configuration": p[0], "active_items": p[4], "no_std": p[5], "classes": p[1], "audited_std_uses": p[2]}
                           for p in res["PRED"] if p[0].startswith("x86_64")][:4],
                  rule="reflection: every item and every mention of the regenerated crate graph x 16 normalised configurations "
                       "(4 architectures x nightly x std; arbitrary target-feature sets by the general lemma); distinct = non-test items",
                  dist={"items": n_items, "mentions": n_mentions, "modules": (crate.get("counts") or {}).get("modules", 0)})
        if res["ALL"] and not proved:
            ctx.note("check_all evaluates to true but Props/C14.v did not build: see the broken theorem")
        if (not res["ALL"]) and not keys:
            ctx.broke("theorem", "check_all crate_graph", "evaluates to false but no offender was located")
        if proved and not res["ALL"]:
            ctx.broke("audit", "Props/C14.v", "theorems compiled although check_all evaluates to false (stale .vo?)")

    # ---- compiled-code tie ----------------------------------------------------------------------------------
    if not facts.get("safe_entries") or not facts.get("exports"):
        ctx.broke("translator", "tables", "no safe_entries/exports tables: the probes' glue cannot be generated")
        return
    glue_dir = work_dir()
    rows = {}
    for nightly in (False, True):
        safes, exports = glue_rows(facts, nightly)
        rows[nightly] = (safes, exports)
        tag = "nightly" if nightly else "stable"
        write_if_changed(os.path.join(glue_dir, "glue_alloc_%s.rs" % tag), alloc_glue(safes, exports))
        write_if_changed(os.path.join(glue_dir, "glue_nostd_%s.rs" % tag), nostd_glue(safes, exports))
    t0 = time.time()
    with ThreadPoolExecutor(max_workers=4) as ex:
        builds = {b["cfg"]: b for b in ex.map(lambda c: build_config(c, glue_dir), list(CONFIGS))}
    ctx.note("builds (cfavml rlib, nostdprobe, allocprobe) x %d configurations in %.1fs" % (len(CONFIGS), time.time() - t0))
    ctx.extra["builds"] = {c: {"seconds": b["seconds"], "lib": b["lib"]["rc"], "nostdprobe": b["nostdprobe"]["rc"],
                               "allocprobe": b["allocprobe"]["rc"]} for c, b in builds.items()}

    stats = {"symbols": 0, "defined": 0, "calls": 0, "firsts": 0, "keys": set(), "samples": [], "dist": {}, "skipped": {}}
    rng = lib.SplitMix(ctx.seed)
    lens = THOROUGH_LENS if ctx.tier == "thorough" else QUICK_LENS
    for cfg, (tc, std, nightly) in CONFIGS.items():
        b = builds[cfg]
        pred = preds.get(model_label(cfg))
        # a configuration that does not build
        if b["lib"]["rc"] != 0 and re.search(r"--locked|lock file", b["lib"]["log"]):
            # lib.REPO/Cargo.lock is missing or stale and must not be rewritten: the same library, built from the same
            # source with the same features as nostdprobe's dependency, stands in for the direct build
            if b["nostdprobe"]["rc"] == 0 and b["nostdprobe"]["dep_rlib"]:
                ctx.note("%s: `cargo build --locked` refused (Cargo.lock of %s missing/stale); inspecting %s instead" % (
                    cfg, lib.REPO, os.path.relpath(b["nostdprobe"]["dep_rlib"], lib.BUILD)))
                b["lib"] = dict(b["lib"], rc=0, rlib=b["nostdprobe"]["dep_rlib"], cmd=b["nostdprobe"]["cmd"])
            else:
                b["lib"] = dict(b["lib"], log=b["nostdprobe"]["log"], cmd=b["nostdprobe"]["cmd"])
        failed = [k for k in ("lib", "nostdprobe") if b[k]["rc"] != 0]
        if failed:
            k = failed[0]
            errs = first_errors(b[k]["log"])
            ctx.violation("build-fails:" + cfg,
                          "cfavml does not build in configuration %s (%s%s): %s" % (
                              cfg, "default features disabled, i.e. #![no_std]" if not std else "std", ", nightly" if nightly else "",
                              errs[0].splitlines()[0][:200]),
                          {"kind": "build", "configuration": cfg, "model_configuration": model_label(cfg), "cmd": b[k]["cmd"], "errors": errs})
            if "lib" in failed:
                continue
        if pred is None:
            if res is not None:
                ctx.broke("correspondence", "model prediction", "no prediction for configuration %s" % model_label(cfg))
            pred = (model_label(cfg), ["core", "crate"] + (["std-audited"] if std else []),
                    ["std::arch::is_x86_feature_detected!", "f32::sqrt"] if std else [], [], 0, not std)
        check_symbols(ctx, cfg, b, pred, stats)
        if b["allocprobe"]["rc"] != 0:
            errs = first_errors(b["allocprobe"]["log"])
            ctx.broke("correspondence", "allocprobe build (%s)" % cfg, "\n".join(errs)[:1200])
            continue
        safes, exports = rows[nightly]
        n2 = 2 * len(safes)
        if ctx.tier == "thorough":
            firsts = list(range(n2))
        else:
            firsts = sorted({0, len(safes)} | {rng.below(n2) for _ in range(14)})
        check_allocs(ctx, cfg, b, safes, exports, lens, firsts, stats)
    ctx.extra["skipped_back_ends"] = {c: {"count": len(v), "missing": sorted(set(v.values()))} for c, v in stats["skipped"].items()}
    ctx.cover(stats["calls"] + stats["symbols"], distinct_keys=stats["keys"], samples=stats["samples"],
              rule="probe (E): (i) every undefined symbol of libcfavml.rlib and of nostdprobe's rlib (all xconst::<%s> instantiations) in 4 "
                   "configurations {std off/on} x {stable, nightly+nightly}, classified by crate root against the model's prediction; (ii) counting "
                   "global allocator around every safe routine and every per-back-end export the host executes, xany at len in %s and "
                   "xconst::<D> for D in %s, in fresh processes with %s different first calls per build; distinct = (build, routine), "
                   "(build, first routine), (configuration, symbol)" % (
                       NOSTD_DIMS, lens, [d for d in CONST_DIMS if d in lens], "all" if ctx.tier == "thorough" else "16 seeded"),
              dist=dict(stats["dist"], undefined_symbols=stats["symbols"], first_calls=stats["firsts"]))
    ctx.extra["exhaustive"] = False
