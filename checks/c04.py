"""C04 — float reductions stay within the a-priori rounding bound; exact when exactly representable.

Theorems: Props/C04.v (Proofs/RoundErr.v, Proofs/FloatReduce.v).  Ties: (A) symbolic structure of the four real
generic kernels; (C) the f32/f64 sum / dot / squared-norm / squared-Euclidean exports called by name: implementation
vs Coq model bit for bit on the stable build; and the THEOREM'S STATEMENT evaluated as an oracle on the
implementation's own output, with exact rational arithmetic on the decoded bit patterns, on every build (stable:
Fallback, Avx2, Avx2Fma; nightly: Avx512 with the FastMath tail):  whenever the inputs lie in the theorem's domain,
|result - sum t_j| <= gamma(n+3) * sum |t_j|, and result = sum t_j exactly in the exactness domain (small integers,
one-hot vectors at every index of every length of the grid)."""
import json
import os
import time
from fractions import Fraction

import harness_build
from checks import exprun, runner, saferun, symrun

LEVEL = "proof"
CONST_DIMS = [0, 1, 3, 8, 17, 33, 65, 130]          # DIMS instantiated in the generated glue
OPS = ["generic_sum", "generic_dot_product", "generic_squared_norm", "generic_euclidean"]
FMT = {"f32": (24, 128, 8, 23), "f64": (53, 1024, 11, 52)}          # prec, emax, exponent bits, mantissa bits
TWO = Fraction(2)


def p2(e):
    return TWO ** e


def dec(ty, bits):
    """Exact value of a bit pattern; None for infinities and NaN."""
    prec, emax, eb, mb = FMT[ty]
    s = bits >> (eb + mb)
    e = (bits >> mb) & ((1 << eb) - 1)
    m = bits & ((1 << mb) - 1)
    if e == (1 << eb) - 1:
        return None
    bias = (1 << (eb - 1)) - 1
    v = Fraction(m) * p2(1 - bias - mb) if e == 0 else Fraction(m + (1 << mb)) * p2(e - bias - mb)
    return -v if s else v


def rne(ty, x):
    """Round to nearest even in the format (FLT: gradual underflow), as Flocq's round radix2 (FLT_exp emin prec) ZnearestE."""
    if x == 0:
        return x
    prec, emax, _, _ = FMT[ty]
    emin = 3 - emax - prec
    ax = abs(x)
    e = ax.numerator.bit_length() - ax.denominator.bit_length()
    if p2(e) > ax:
        e -= 1
    while p2(e + 1) <= ax:
        e += 1
    cexp = max(e + 1 - prec, emin)
    q = ax / p2(cexp)
    fl = q.numerator // q.denominator
    rem = q - fl
    if rem > Fraction(1, 2) or (rem == Fraction(1, 2) and fl % 2 == 1):
        fl += 1
    r = fl * p2(cexp)
    return -r if x < 0 else r


def v2(t):
    """2-adic valuation of a non-zero dyadic rational."""
    n, d = abs(t.numerator), t.denominator
    return (n & -n).bit_length() - 1 - (d.bit_length() - 1)


def analyse(op, ty, a_bits, b_bits):
    """The theorem's hypotheses and right-hand sides for one input, in exact arithmetic.
    Returns None when an input is not finite; else a dict: n, S (exact value), A (sum |t_j|), in_bound_domain,
    bound (= gamma(n+3) * A), in_exact_domain."""
    prec, emax, _, _ = FMT[ty]
    emin = 3 - emax - prec
    a = [dec(ty, x) for x in a_bits]
    b = [dec(ty, x) for x in b_bits]
    if any(x is None for x in a) or any(x is None for x in b):
        return None
    n = len(a)
    diffs_exact = True
    if op == "generic_sum":
        terms, prods = a, []
    elif op == "generic_dot_product":
        terms = [x * y for x, y in zip(a, b)]
        prods = terms
    elif op == "generic_squared_norm":
        terms = [x * x for x in a]
        prods = terms
    else:
        terms = [(x - y) * (x - y) for x, y in zip(a, b)]
        ds = [rne(ty, x - y) for x, y in zip(a, b)]
        prods = [d * d for d in ds]
        diffs_exact = all(d == x - y for d, x, y in zip(ds, a, b))
    S = sum(terms, Fraction(0))
    A = sum((abs(t) for t in terms), Fraction(0))
    u = p2(-prec)
    k = n + 3
    h1 = all(p == 0 or abs(p) >= p2(emin + prec - 1) for p in prods)
    h3 = k * u < 1
    # (1+u)^(n+3) < e < 3 when (n+3) u < 1: the cheap sufficient test first, the exact power only when it fails
    h2 = h3 and (3 * A < p2(emax) or (1 + u) ** k * A < p2(emax))
    out = {"n": n, "S": S, "A": A, "in_bound_domain": h1 and h2 and h3, "in_exact_domain": False,
           "bound": (k * u / (1 - k * u)) * A if h3 else None}
    nz = [t for t in terms if t != 0]
    if A < p2(emax) and diffs_exact:
        if not nz:
            out["in_exact_domain"] = True
        else:
            e = min(v2(t) for t in nz)
            out["in_exact_domain"] = e >= emin and A <= p2(e + prec)
    return out


def result_value(ty, line):
    """('ok', Fraction) | ('nonfinite', token) | ('other', line)"""
    if line is None or not line.startswith("ok "):
        return "other", line
    tok = line.split(" ")[1]
    if tok == "nan":
        return "nonfinite", tok
    v = dec(ty, int(tok, 16))
    return ("nonfinite", tok) if v is None else ("ok", v)


def fstr(x):
    """exact dyadic rationals as m*2^e, other rationals as a (truncated) fraction; always with a float approximation"""
    if x is None:
        return "None"
    if x == 0:
        return "0"
    n, d = x.numerator, x.denominator
    try:
        approx = "%.17g" % float(x)
    except OverflowError:
        approx = "out of double range"
    if d & (d - 1) == 0:
        e = -(d.bit_length() - 1)
        while n % 2 == 0:
            n //= 2
            e += 1
        return "%d*2^%d (~%s)" % (n, e, approx)
    return "%s (~%s)" % (str(x)[:160], approx)


def perturb(g, ty, bits):
    """a neighbour within 3 ulp (same sign and binade for the mantissas generated here)"""
    mb = FMT[ty][3]
    m = bits & ((1 << mb) - 1)
    m2 = min(max(m + g.r.below(7) - 3, 0), (1 << mb) - 1)
    return (bits & ~((1 << mb) - 1)) | m2


# value classes: (class of a, class of b)
CLASSES = ("random", "wide", "cancel", "ints", "small", "onehot", "subn")


def make_inputs(g, e, n, cls):
    ty, op = e["ty"], e["op"]
    la, lb, _ = exprun.shape(e, n)
    if cls == "cancel":
        if op == "generic_euclidean":
            a = g.vec(ty, la, "random")
            b = [perturb(g, ty, x) for x in a]           # a_j - b_j cancels to a few ulps (exact by Sterbenz)
        else:
            a = g.vec(ty, la, "cancel")                    # pairs x, -x': the sum cancels
            b = g.vec(ty, lb, "nearone")                   # ... and so do the products a_j * b_j
    elif cls == "onehot":
        a = g.vec(ty, la, "onehot")
        b = g.vec(ty, lb, "ints") if op == "generic_dot_product" else g.vec(ty, lb, "onehot")
    else:
        a = g.vec(ty, la, cls)
        b = g.vec(ty, lb, cls)
    return a, b


def onehot_sweep(g, e, n):
    """the marker at EVERY index of a vector of length n; the other vector: integers (dot), zeros (Euclid)"""
    ty, op = e["ty"], e["op"]
    la, lb, _ = exprun.shape(e, n)
    w = exprun.WIDTH[ty]
    one = exprun.f32bits(1.0) if ty == "f32" else exprun.f64bits(1.0)
    out = []
    for p in range(n):
        a = [g.r.below(2) << (w - 1) for _ in range(la)]
        a[p] = one
        if op == "generic_dot_product":
            b = g.vec(ty, lb, "ints")
        else:
            b = [g.r.below(2) << (w - 1) for _ in range(lb)]
        out.append((a, b, p))
    return out


def judge(ctx, stats, e, config, n, cls, line, a, b, res, who, mode="exp"):
    """Apply the oracle to one result line.  who = 'impl' (violations) or 'model' (the oracle and the theorem must
    agree on the model: a mismatch means the Python oracle is not the theorem's statement)."""
    ty, op = e["ty"], e["op"]
    name = e["xany"]
    an = analyse(op, ty, a, b)
    if an is None:
        stats["nonfinite_input"] = stats.get("nonfinite_input", 0) + 1
        return an
    kind, val = result_value(ty, res)
    if who == "impl":
        stats["decided_bound"] = stats.get("decided_bound", 0) + (1 if an["in_bound_domain"] else 0)
        stats["decided_exact"] = stats.get("decided_exact", 0) + (1 if an["in_exact_domain"] else 0)

    def report(tag, what, extra):
        replay = {"kind": "input", "case": mode + " " + line[:8000], "build": config, "observed": (res or "<crashed>")[:300],
                  "exact_value": fstr(an["S"]), "sum_abs_terms": fstr(an["A"]), "n": an["n"], "class": cls}
        replay.update(extra)
        if who == "impl":
            ctx.violation("%s:%s" % (tag, name), what, replay)
        else:
            ctx.broke("correspondence", "oracle-vs-theorem: the Coq MODEL's output fails the Python transcription of the "
                                        "theorem (%s, %s, n=%d, %s data)" % (tag, name, n, cls), replay)

    if an["in_bound_domain"]:
        if kind != "ok":
            report("bound", "%s (n=%d, %s data, %s build): inputs are finite, no product underflows and "
                   "(1+u)^(n+3)*sum|t_j| < 2^emax, yet the result is not a finite number (%s)" % (name, n, cls, config, val),
                   {"bound": fstr(an["bound"])})
        elif abs(val - an["S"]) > an["bound"]:
            report("bound", "%s (n=%d, %s data, %s build): |result - exact| = %s exceeds gamma(n+3)*sum|t_j| = %s" % (
                name, n, cls, config, fstr(abs(val - an["S"])), fstr(an["bound"])),
                {"bound": fstr(an["bound"]), "error": fstr(abs(val - an["S"]))})
    if an["in_exact_domain"]:
        if kind != "ok" or val != an["S"]:
            report("exact", "%s (n=%d, %s data, %s build): every term is a multiple of one power of two and the absolute "
                   "sum fits the significand, so the result must be exactly %s; got %s" % (
                       name, n, cls, config, fstr(an["S"]), fstr(val) if kind == "ok" else val),
                   {"expected_exactly": fstr(an["S"])})
    return an


def bucket(n, L):
    return "len0" if n == 0 else "lt_L" if n < L else "lt_8L" if n < 8 * L else "ge_8L"


def oracle_runs(ctx, thorough):
    facts = exprun.load_facts(ctx)
    lens_fn = exprun.full_lens if thorough else exprun.quick_lens
    for config in ("stable", "nightly"):
        rows = exprun.select(facts, config, ops=OPS, tys=["f32", "f64"])
        if not rows:
            continue
        ok, log = harness_build.build_cfh(config)
        okd, logd = harness_build.build_driver()
        if not ok or not okd:
            ctx.broke("correspondence", "C:float-reductions oracle: build (%s)" % config, (log if not ok else logd)[-1500:])
            continue
        g = exprun.Gen(ctx.seed * 1000003 + 404 + (1 if config == "nightly" else 0))
        cases, meta = [], []
        for idx, e in rows:
            L = exprun.lanes(e)
            for n, guided in exprun.lens_for(e, lens_fn):
                for cls in (CLASSES[:2] if guided else CLASSES):
                    a, b = make_inputs(g, e, n, cls)
                    cases.append(exprun.case_line(idx, e, "a", None, False, "R", 0, a, b, []))
                    meta.append((e, n, cls, a, b, True))
            # the xconst form (DIMS a const generic) at the DIMS the harness glue instantiates
            for d in (CONST_DIMS if thorough else (0, 3, 17, 65)):
                for cls in ("ints", "cancel", "wide"):
                    a, b = make_inputs(g, e, d, cls)
                    cases.append(exprun.case_line(idx, e, "c", d, False, "R", 0, a, b, []))
                    meta.append((dict(e, xany=e["xconst"]), d, cls, a, b, True))
        # the marker at every index of every length: implementation only (the model ran on seeded positions above)
        sweep_cases, sweep_meta = [], []
        for idx, e in rows:
            L = exprun.lanes(e)
            # quick: the 13 residues of the quick grid; thorough: additionally EVERY length below 18L for the narrow
            # back ends (L <= 4) and every length up to 2L+1 for the wide ones
            lens = exprun.quick_lens(L)
            if thorough:
                lens = sorted(set(lens) | set(exprun.full_lens(L) if L <= 4 else range(0, 2 * L + 2)))
            for n in lens:
                for a, b, p in onehot_sweep(g, e, n):
                    sweep_cases.append(exprun.case_line(idx, e, "a", None, False, "R", 0, a, b, []))
                    sweep_meta.append((e, n, "onehot@%d" % p, a, b, False))
        imp = runner.impl("exp", cases + sweep_cases, config=config)
        mod = runner.model("exp", cases)
        stats, dist = {}, {}
        bad_model = 0
        for line, m, ra, rb in zip(cases + sweep_cases, meta + sweep_meta, imp, mod + [None] * len(sweep_cases)):
            e, n, cls, a, b, with_model = m
            ty, name, L = e["ty"], e["xany"], exprun.lanes(e)
            k = "%s_%s" % (cls.split("@")[0] if with_model else "onehot_every_index", bucket(n, L))
            dist[k] = dist.get(k, 0) + 1
            if ra is None or ra.startswith("signal") or "CANARY" in ra or "INPUT-MODIFIED" in ra:
                ctx.violation("C04:memory:%s" % name, "%s (n=%d, %s build) crashed or wrote outside its slices" % (name, n, config),
                              {"kind": "input", "case": "exp " + line[:6000], "build": config, "observed": ra})
                continue
            an = judge(ctx, stats, e, config, n, cls, line, a, b, ra, "impl")
            if not with_model:
                continue
            judge(ctx, stats, e, config, n, cls, line, a, b, rb, "model")
            if ra == rb:
                continue
            # stable: bit for bit.  nightly (FastMath tail, algebraic float operations): implementation and model
            # both satisfy the bound, so inside the theorem's domain they may differ by at most twice the bound.
            agree = False
            if config == "nightly":
                ka, va = result_value(ty, ra)
                kb, vb = result_value(ty, rb)
                if an is not None and an["in_bound_domain"] and ka == "ok" and kb == "ok":
                    agree = abs(va - vb) <= 2 * an["bound"]
                    stats["nightly_within_2bound"] = stats.get("nightly_within_2bound", 0) + (1 if agree else 0)
                else:
                    agree = exprun.lines_agree(ra, rb, e, config, n)
            if not agree:
                bad_model += 1
                if bad_model <= 3:
                    ctx.broke("correspondence", "C:float-reductions %s n=%d %s data (%s): implementation and model differ" % (
                        name, n, cls, config), {"case": line[:3000], "impl": (ra or "")[:300], "model": (rb or "")[:300]})
        mid = len(cases) // 2
        ctx.cover(len(cases) + len(sweep_cases),
                  distinct_keys=["C04|%s|%d" % (config, hash(c)) for c in cases + sweep_cases],
                  samples=[{"case": cases[mid][:200], "impl": (imp[mid] or "")[:60], "model": (mod[mid] or "")[:60],
                            "class": meta[mid][2], "n": meta[mid][1]}] if cases else [],
                  rule="(C) C04 oracle, %s build: f32/f64 sum/dot/norm/Euclid exports by name on guard-paged slices; value "
                       "classes %s at lengths %s plus the one-hot marker at EVERY index of every length of the quick grid (thorough: of every length < 18L for L <= 4); the implementation's result is decoded "
                       "to an exact rational and held to the theorem's statement (bound inside the bound domain, equality inside "
                       "the exactness domain, both decided in exact arithmetic per case); implementation = model bit for bit "
                       "(stable) / within twice the bound (nightly FastMath tail); distinct = distinct case line" % (
                           config, list(CLASSES), "0..18L" if thorough else "quick grid (13 residues per L)"),
                  dist=dist)
        ctx.extra.setdefault("correspondence_C_oracle", {})[config] = {
            "cases_with_model": len(cases), "onehot_every_index_cases": len(sweep_cases), "model_disagreements": bad_model,
            "impl_results_decided_by_bound": stats.get("decided_bound", 0),
            "impl_results_decided_by_exactness": stats.get("decided_exact", 0),
            "nightly_differences_within_twice_the_bound": stats.get("nightly_within_2bound", 0),
            "inputs_not_finite": stats.get("nonfinite_input", 0)}


SAFE_OPS = {"_dot": "generic_dot_product", "_squared_euclidean": "generic_euclidean", "_sum": "generic_sum",
            "_squared_norm": "generic_squared_norm"}


def safe_runs(ctx, thorough):
    """(D) the safe f32/f64 reductions under dispatch masks (hook): stable masks select Avx2Fma / Avx2 / Fallback,
    nightly masks Avx512 / Avx2Fma / Fallback with the FastMath tail.  Same oracle on the implementation's result;
    implementation = model bit for bit on stable, within twice the bound on nightly."""
    facts = ctx.translate(steps=("tables", "dispatch"))
    entries = []
    for i, s in enumerate(facts.get("safe_entries", [])):
        if s["ty"] in ("f32", "f64"):
            for suf, op in SAFE_OPS.items():
                if s["any"] == "%s_xany%s" % (s["ty"], suf):
                    entries.append((i, s, op))
    if not entries or not saferun.hook_ready(ctx):
        return
    lens = [0, 1, 3, 8, 17, 33, 65, 130] if thorough else [0, 3, 17, 65, 130]
    plan = (("stable", [0, 4, 6] if not thorough else [0, 2, 4, 6]), ("nightly", [0, 1, 7] if not thorough else [0, 1, 3, 5, 7]))
    for config, masks in plan:
        ok, log = harness_build.build_cfh(config)
        okd, logd = harness_build.build_driver()
        if not ok or not okd:
            ctx.broke("correspondence", "D:safe float reductions: build (%s)" % config, (log if not ok else logd)[-1500:])
            continue
        cases, meta = [], []
        for k, cls in enumerate(("ints", "cancel", "wide", "onehot")):
            cs, ms = saferun.gen_safe_cases(ctx, facts, config, [(i, s) for i, s, _ in entries], lens, [(0, 0, 0, 0)], masks,
                                            cls=cls, seed_tag=440 + k)
            cases += cs
            meta += [m + (cls,) for m in ms]
        opof = {i: op for i, s, op in entries}
        imp = runner.impl("safe", cases, config=config)
        mod = runner.model("safe", cases)
        stats, dist, bad = {}, {}, 0
        for line, m, ra, rb in zip(cases, meta, imp, mod):
            sidx, sent, form, n, delta, mask, cls = m
            ty = sent["ty"]
            name = sent["const"] if form == "c" else sent["any"]
            e = {"ty": ty, "op": opof[sidx], "xany": "%s[mask=%d]" % (name, mask)}
            toks = line.split(" ")
            la, lb = int(toks[8]), int(toks[9])
            a = [int(x, 16) for x in toks[13:13 + la]]
            b = [int(x, 16) for x in toks[13 + la:13 + la + lb]]
            key = "safe_%s_mask%d_%s" % (config, mask, cls)
            dist[key] = dist.get(key, 0) + 1
            if ra is None or ra.startswith("signal") or "CANARY" in ra or "INPUT-MODIFIED" in ra:
                ctx.violation("C04:memory:%s" % name, "%s (n=%d, mask %d, %s build) crashed or wrote outside its slices" % (
                    name, n, mask, config), {"kind": "input", "case": "safe " + line[:6000], "build": config, "observed": ra})
                continue
            an = judge(ctx, stats, e, config, n, cls, line, a, b, ra, "impl", mode="safe")
            judge(ctx, stats, e, config, n, cls, line, a, b, rb, "model", mode="safe")
            if ra == rb:
                continue
            agree = False
            if config == "nightly":
                ka, va = result_value(ty, ra)
                kb, vb = result_value(ty, rb)
                if an is not None and an["in_bound_domain"] and ka == "ok" and kb == "ok":
                    agree = abs(va - vb) <= 2 * an["bound"]
            if not agree:
                bad += 1
                if bad <= 3:
                    ctx.broke("correspondence", "D:safe float reductions %s n=%d mask=%d %s data (%s): implementation and model "
                              "differ" % (name, n, mask, cls, config), {"case": line[:3000], "impl": (ra or "")[:300], "model": (rb or "")[:300]})
        ctx.cover(len(cases), distinct_keys=["C04safe|%s|%d" % (config, hash(c)) for c in cases],
                  samples=[{"case": cases[len(cases) // 2][:200], "impl": (imp[len(cases) // 2] or "")[:60],
                            "model": (mod[len(cases) // 2] or "")[:60]}] if cases else [],
                  rule="(D) C04, %s build: the 8 safe f32/f64 reductions (xany and xconst) under dispatch masks %s (hook) at "
                       "lengths %s, classes ints/cancel/wide/onehot; same exact-arithmetic oracle on the implementation's result; "
                       "implementation = model bit for bit (stable) / within twice the bound (nightly)" % (config, masks, lens),
                  dist=dist)
        ctx.extra.setdefault("correspondence_D_oracle", {})[config] = {
            "cases": len(cases), "model_disagreements": bad, "impl_results_decided_by_bound": stats.get("decided_bound", 0),
            "impl_results_decided_by_exactness": stats.get("decided_exact", 0)}


def replay_first(ctx):
    """python3 run.py --replay <file>: re-run the recorded case on the recorded build and judge it again."""
    path = os.environ.get("VERIF_REPLAY")
    if not path:
        return
    try:
        r = json.load(open(path))
    except (OSError, ValueError):
        return
    case = r.get("case", "")
    mode = case.split(" ")[0]
    if mode not in ("exp", "safe") or r.get("property") != "C04":
        return
    line, config = case[len(mode) + 1:], r.get("build", "stable")
    facts = ctx.translate(steps=("tables", "dispatch"))
    toks = line.split(" ")
    if mode == "exp":
        e = facts["exports"][int(toks[0])]
        e = dict(e, xany=toks[1])
        off = 5
    else:
        sent = facts["safe_entries"][int(toks[0])]
        op = [o for suf, o in SAFE_OPS.items() if sent["any"].endswith(suf)][0]
        e = {"ty": sent["ty"], "op": op, "xany": "%s[mask=%s]" % (toks[4], toks[3])}
        off = 8
    la, lb = int(toks[off]), int(toks[off + 1])
    a = [int(x, 16) for x in toks[off + 5:off + 5 + la]]
    b = [int(x, 16) for x in toks[off + 5 + la:off + 5 + la + lb]]
    ok, log = harness_build.build_cfh(config)
    if not ok:
        ctx.broke("correspondence", "replay: build (%s)" % config, log[-800:])
        return
    res = runner.impl(mode, [line], config=config)[0]
    judge(ctx, {}, e, config, la, r.get("class", "replay"), line, a, b, res, "impl", mode=mode)
    ctx.note("replay %s: implementation now returns %s" % (path, res))


def run(ctx):
    ctx.trusted += ["Coq 8.16.1 kernel; Flocq 4 (IEEE754.BinarySingleNaN: Bplus/Bminus/Bmult/Bfma _correct, FLT rounding-error lemmas)",
                    "hand models Model/Kernels.v (tied by correspondence A), Model/Regs.v float back ends (C13, correspondence C)",
                    "Model/Prim.v: f32/f64 +,-,* are IEEE round-to-nearest-even, mul_add/vfmadd is a single rounding",
                    "harness/cfh, OCaml driver, extraction (ExtrOcamlBasic only)",
                    "checks/c04.py: the Python transcription of the theorem's statement (fractions.Fraction on decoded bit "
                    "patterns), itself checked against the Coq model's output on every modelled case"]
    ctx.assumptions += ["Flocq's 4 standard-library axioms (classical reals) appear under every theorem of Props/C04.v",
                        "nightly build: the scalar tail uses FastMath (algebraic float intrinsics); it is held to the theorem's "
                        "bound and exactness statements (which hold for every order and fusion), not to bit equality",
                        "NEON is not executable here (covered at table level by C10/C11 only)"]
    replay_first(ctx)
    t0 = time.time()
    ctx.prove("Props/C04.v")
    # tie 1 (translator): the kernels this property speaks about, regenerated from op_*.rs, ARE the model (Props/C04Gen.v);
    # a difference is reported as broken and the correspondence runs below search for the concrete input
    ctx.translate(steps=("kernels",))
    ctx.prove("Props/C04Gen.v")

    t1 = time.time()
    symrun.run(ctx, kernels=["KSum", "KDot", "KNorm", "KEuclid"])
    t2 = time.time()
    thorough = ctx.tier == "thorough"
    exprun.run_property(ctx, "C:float-reductions", "C04", ops=OPS, tys=["f32", "f64"], configs=("stable",),
                        classes=("random", "unit", "small", "special") if thorough else ("unit", "special"),
                        lens_fn=exprun.full_lens if thorough else exprun.quick_lens,
                        places=("R", "L", "3") if thorough else ("R",), seed_tag=4)
    t3 = time.time()
    oracle_runs(ctx, thorough)
    t4 = time.time()
    safe_runs(ctx, thorough)
    ctx.note("phases: proofs+audit %.0fs, (A) %.0fs, (C) bit-for-bit %.0fs, (C) oracle %.0fs, (D) safe API %.0fs (harness rebuilds included)" % (
        t1 - t0, t2 - t1, t3 - t2, t4 - t3, time.time() - t4))
