"""C12 — const-dimension (xconst) and runtime-length (xany) forms agree."""
import harness_build
from checks import exprun, runner, saferun

LEVEL = "proof"
CONST_DIMS = [0, 1, 3, 7, 8, 13, 17, 33, 65, 130]
# (type, register, kernel, element bit patterns): fallback min over +0 / -0 / tiny values - f64::min left the sign of the zero
# unspecified and xconst::<8> returned -0 where xany returned +0 (fixed by bf17999)
REGRESSIONS = [
    ("f64", "Fallback", "generic_min_horizontal",
     [0x0000000000000000, 0x0010000000000000, 0x8000000000000000, 0x3ca0000000000000,
      0x8000000000000000, 0x000fffffffffffff, 0x3ca0000000000000, 0x8000000000000000]),
    ("f32", "Fallback", "generic_min_horizontal",
     [0x00000000, 0x00800000, 0x80000000, 0x33800000, 0x80000000, 0x007fffff, 0x33800000, 0x80000000]),
    ("f64", "Fallback", "generic_max_horizontal",
     [0x8000000000000000, 0x8010000000000000, 0x0000000000000000, 0xbca0000000000000,
      0x0000000000000000, 0x800fffffffffffff, 0xbca0000000000000, 0x0000000000000000]),
]


def nonfinite(line):
    """does an `ok ...` result line contain a NaN or an infinity (f32 / f64 bit patterns in hex, `nan` for NaN)?"""
    if not line or not line.startswith("ok"):
        return False
    for t in line.split()[1:]:
        if t == "nan":
            return True
        if len(t) == 8 and t.lower()[:3] in ("7f8", "ff8") and t.lower()[3:] == "00000":
            return True
        if len(t) == 16 and t.lower()[:4] in ("7ff0", "fff0") and t.lower()[4:] == "0" * 12:
            return True
    return False


def run(ctx):
    facts = ctx.translate(steps=("tables", "dispatch"))
    ctx.trusted += ["Coq 8.16.1 kernel + vm_compute", "tools/translate.py (macro arms, slot lists)",
                    "Model/Exports.v, Model/Safe.v (semantics of rows / wrappers)", "harness/cfh glue instantiating xconst::<D>"]
    ctx.assumptions += ["bit-equality of the two COMPILED forms (optimiser differences) is observed on the instantiated DIMS "
                        "set %s, not proved; nightly FastMath float results are compared within the property's tolerance" % CONST_DIMS]
    ctx.prove("Props/C12.v")
    thorough = ctx.tier == "thorough"
    for config in ("stable", "nightly"):
        rows = exprun.select(facts, config)
        cases_a, meta = exprun.gen_cases(ctx, rows, lambda L: CONST_DIMS, ("random", "boundary", "special", "specialnan", "signedzeros") if thorough else ("random", "special", "specialnan", "signedzeros"),
                                         places=("R",), forms=("a",), seed_tag=12)
        # minimised failing inputs of fixed findings run first, on every run (known_findings.json: C12 bf17999)
        for ty, reg, op, bits in REGRESSIONS:
            for idx, e in rows:
                if e["ty"] == ty and e["reg"] == reg and e["op"] == op:
                    n = len(bits)
                    kind = exprun.KIND[e["macro"]]
                    a = list(bits)
                    b = list(bits[::-1]) if kind in ("Dist", "Vert") else []
                    r = [0] * n if kind in ("Vert", "Value") else []
                    cases_a.insert(0, exprun.case_line(idx, e, "a", None, False, "R", bits[0], a, b, r))
                    meta.insert(0, (idx, e, "a", n, "regression", "R"))
        cases_c = []
        for c, m in zip(cases_a, meta):
            idx, e, form, n, cls, place = m
            t = c.split(" ")
            t[1], t[2], t[3] = e["xconst"], "c", str(n)
            cases_c.append(" ".join(t))
        ok, log = harness_build.build_cfh(config)
        okd, logd = harness_build.build_driver()
        if not ok or not okd:
            ctx.broke("correspondence", "C12 build (%s)" % config, (log if not ok else logd)[-1500:])
            continue
        ia = runner.impl("exp", cases_a, config=config)
        ic = runner.impl("exp", cases_c, config=config)
        mc = runner.model("exp", cases_c)
        bad = 0
        for ca, cc, m, xa, xc, yc in zip(cases_a, cases_c, meta, ia, ic, mc):
            idx, e, form, n, cls, place = m
            if xc is not None and xc.startswith("error no-such-routine"):
                ctx.broke("correspondence", "C12 glue: %s::<%d> not instantiated" % (e["xconst"], n), cc[:200])
                continue
            # the property's words: BIT-identical (signed zeros and NaN positions included); only the nightly build's float
            # reductions / divisions (FastMath: algebraic operations the optimiser may reassociate per instantiation) are held
            # to the tolerance of lines_agree
            strict = config != "nightly" or e["ty"][0] != "f" or e["op"] in exprun.MINMAX
            if not strict and (cls != "random" or nonfinite(xc) or nonfinite(xa)):
                # nightly = FastMath: a float reduction over ill-conditioned data (overflowing terms, infinities, NaN, massive
                # cancellation: the special classes) may be reassociated differently per instantiation; outside "the default
                # math" of the property - the two forms are compared on the well-conditioned random class only
                continue
            if (xc != xa) if strict else (not exprun.lines_agree(xc, xa, e, config, n)):
                bad += 1
                ctx.violation("const-any:%s" % e["xconst"],
                              "%s::<%d> and %s disagree on the same data (%s build)" % (e["xconst"], n, e["xany"], config),
                              {"kind": "input", "case": "exp " + cc[:4000], "case_any": "exp " + ca[:4000], "build": config,
                               "observed_const": (xc or "<crashed>")[:1500], "observed_any": (xa or "<crashed>")[:1500]})
            elif config == "nightly" and e["ty"][0] == "f" and cls in ("special", "specialnan") and \
                    e["op"] in exprun.FLOAT_REDUCTIONS:
                # nightly = FastMath: algebraic float operations on overflowing / infinite / NaN data are not specified by the
                # model (nor bound by the property's "default math"); the two forms were compared above, the model is not consulted
                pass
            elif not exprun.lines_agree(xc, yc, e, config, n):
                ctx.broke("correspondence", "C12: %s::<%d> vs model (%s)" % (e["xconst"], n, config),
                          {"case": cc[:2000], "impl": (xc or "")[:800], "model": (yc or "")[:800]})
        ctx.cover(2 * len(cases_a), distinct_keys=["c12|%s|%d" % (config, hash(c)) for c in cases_a + cases_c],
                  samples=[{"const": cases_c[3][:160], "any": cases_a[3][:160], "impl_const": (ic[3] or "")[:100], "impl_any": (ia[3] or "")[:100]}],
                  rule="every executable export (%s build): xconst::<D> vs xany on identical data for D in %s; outputs and panic "
                       "kinds must be identical (nightly floats: within tolerance) and equal the model's" % (config, CONST_DIMS),
                  dist={"pairs_" + config: len(cases_a)})
        ctx.extra.setdefault("const_vs_any", {})[config] = {"pairs": len(cases_a), "disagreements": bad}
    # safe wrappers: const vs any under masks, matching and mismatching lengths (identical panics)
    entries = list(enumerate(facts.get("safe_entries", [])))
    for config, masks in (("stable", [0, 2, 6]), ("nightly", [0])):
        mism = [(0, 0, 0, 0), (0, 1, 0, 0), (0, 0, 1, 0)]
        lens = CONST_DIMS if thorough else [0, 1, 3, 7, 13, 17, 65]
        cases, meta = saferun.gen_safe_cases(ctx, facts, config, entries, lens, mism, masks, forms=("a",), seed_tag=13)
        # special values (signed zeros, NaN, infinities, subnormals; integer boundaries) on documented calls: a shortcut
        # taken by only one of the two forms shows on such data (e.g. -0.0 or NaN in a one-element reduction)
        # (7 and 13: lengths whose split into register part and scalar tail differs between the 4-, 8- and 16-lane back ends, so a
        # slot of one form wired to another back end's routine shows on NaN / signed-zero operands)
        special_from = len(cases)
        for cls, tag in (("special", 131), ("boundary", 132), ("specialnan", 133), ("signedzeros", 134)):
            c2, m2 = saferun.gen_safe_cases(ctx, facts, config, entries, [0, 1, 3, 7, 8, 13, 17], [(0, 0, 0, 0)], masks[:1], forms=("a",),
                                            cls=cls, seed_tag=tag)
            cases, meta = cases + c2, meta + m2
        # DIMS = 1 exhaustively over the special float values (signed zeros, subnormals, infinities, NaN, extremes): a
        # one-element shortcut taken by only one form is invisible on ordinary data
        host = saferun.host_bits()
        for sidx, s in entries:
            if s["ty"] not in ("f32", "f64"):
                continue
            kind = saferun.SAFE_KIND[s["macro"]]
            specials = (exprun.F32_SPECIAL + [0x7fc00000]) if s["ty"] == "f32" else (exprun.F64_SPECIAL + [0x7ff8000000000000])
            for k, sv in enumerate(specials):
                other = specials[(k * 7 + 3) % len(specials)]
                la, lb, lr = saferun.shape(kind, 1)
                a, b, r = [sv] * la, [other] * lb, [0] * lr
                cases.append(saferun.safe_line(sidx, s, "a", None, config == "debug", 1 if config == "nightly" else 0,
                                               host & ~masks[0] & 7, masks[0], "R", other, a, b, r))
                meta.append((sidx, s, "a", 1, (0, 0, 0, 0), masks[0]))
        cases_c = []
        for c, m in zip(cases, meta):
            sidx, s, form, n, delta, mask = m
            t = c.split(" ")
            t[4], t[5], t[6] = s["const"], "c", str(n)
            cases_c.append(" ".join(t))
        if not saferun.hook_ready(ctx):
            break
        ok, log = harness_build.build_cfh(config)
        if not ok:
            ctx.broke("correspondence", "C12 safe build (%s)" % config, log[-1500:])
            continue
        ia = runner.impl("safe", cases, config=config)
        ic = runner.impl("safe", cases_c, config=config)
        bad = 0
        for ci, (ca, cc, m, xa, xc) in enumerate(zip(cases, cases_c, meta, ia, ic)):
            sidx, s, form, n, delta, mask = m
            e = {"op": "generic_max_vertical" if ("max" in s["any"] or "min" in s["any"]) else
                 ("generic_div_value" if "div" in s["any"] else ("generic_sum" if s["macro"] in ("export_safe_distance_op", "export_safe_fma_norm_op", "export_safe_horizontal_op") else "x")),
                 "ty": s["ty"]}
            # the property's words: BIT-identical (signed zeros and NaN positions included); only the nightly build's float
            # reductions / divisions (FastMath: algebraic operations the optimiser may reassociate per instantiation) are held
            # to the tolerance of lines_agree
            strict = config != "nightly" or e["ty"][0] != "f" or e["op"] in exprun.MINMAX
            if not strict and (ci >= special_from or nonfinite(xc) or nonfinite(xa)):
                continue
            if (xc != xa) if strict else (not exprun.lines_agree(xc, xa, e, config, n)):
                bad += 1
                ctx.violation("safe-const-any:%s" % s["const"],
                              "safe %s::<%d> and %s disagree on the same data (mask %d, %s build)" % (s["const"], n, s["any"], mask, config),
                              {"kind": "input", "case": "safe " + cc[:4000], "case_any": "safe " + ca[:4000], "build": config,
                               "observed_const": (xc or "<crashed>")[:1200], "observed_any": (xa or "<crashed>")[:1200]})
        ctx.cover(2 * len(cases), distinct_keys=["c12s|%s|%d" % (config, hash(c)) for c in cases + cases_c],
                  rule="all 190 safe routines (%s build): xconst::<D> vs xany under feature masks %s, with DIMS = len a and with "
                       "b / result mismatches (identical panics)" % (config, masks), dist={"safe_pairs_" + config: len(cases)})
        ctx.extra.setdefault("safe_const_vs_any", {})[config] = {"pairs": len(cases), "disagreements": bad}
