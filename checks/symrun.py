"""Correspondence (A): symbolic structure of the REAL generic kernels vs the Coq model (DESIGN §2.4 A)."""
import harness_build
import lib
from checks import runner

KERNELS = ["KDot", "KCosine", "KEuclid", "KNorm", "KSum", "KMaxH", "KMaxV", "KMaxVal", "KMinH", "KMinV", "KMinVal",
           "KAddVal", "KSubVal", "KMulVal", "KDivVal", "KAddVec", "KSubVec", "KMulVec", "KDivVec"]


def dims_grid(L):
    s = set(range(0, 2 * L + 2)) | set(range(max(0, 8 * L - 1), 10 * L + 2)) | set(range(16 * L - 1, 19 * L + 1))
    return sorted(s)


RUST_OF = {"KDot": "generic_dot_product", "KCosine": "generic_cosine", "KEuclid": "generic_euclidean", "KNorm": "generic_squared_norm",
           "KSum": "generic_sum", "KMaxH": "generic_max_horizontal", "KMinH": "generic_min_horizontal", "KMaxV": "generic_max_vertical",
           "KMinV": "generic_min_vertical", "KMaxVal": "generic_max_value", "KMinVal": "generic_min_value", "KAddVal": "generic_add_value",
           "KSubVal": "generic_sub_value", "KMulVal": "generic_mul_value", "KDivVal": "generic_div_value", "KAddVec": "generic_add_vector",
           "KSubVec": "generic_sub_vector", "KMulVec": "generic_mul_vector", "KDivVec": "generic_div_vector"}


def cases_for(kernels, Ls):
    from checks import exprun
    out = []
    for L in Ls:
        for d in dims_grid(L):
            for k in kernels:
                if k == "KCosine":
                    scripts = [(0, 0, 0), (1, 0, 0), (0, 1, 0), (1, 1, 0)] if d > 0 else [(0, 0, 0), (0, 0, 1)]
                else:
                    scripts = [(0, 0, 0)]
                for zx, zy, z0 in scripts:
                    out.append("%s %d %d %d %d %d" % (k, L, d, zx, zy, z0))
    # literal-guided lengths (thresholds written in the kernel's own source; none on the unchanged tree), two lane counts
    for L in [x for x in Ls if x in (1, 4)]:
        for k in kernels:
            for d in exprun.literal_lens(RUST_OF[k], L):
                if d not in dims_grid(L):
                    out.append("%s %d %d %d %d %d" % (k, L, d, 0, 0, 0))
    return out


def run(ctx, kernels=None, configs=("stable",), bounds_only=False):
    """bounds_only: report only accesses outside the slices / to the wrong slice seen in the symbolic run of the REAL kernels
    (concrete failing inputs); a merely different structure (a harmless rewrite) is not reported (used by C01, whose property
    is about bounds only)."""
    kernels = kernels or KERNELS
    Ls = [1, 2, 3, 4, 5, 8, 16] if ctx.tier == "quick" else [1, 2, 3, 4, 5, 8, 16, 32, 64]
    cases = cases_for(kernels, Ls)
    okd, log = harness_build.build_driver()
    if not okd:
        ctx.broke("correspondence", "A:model driver build", log[-800:])
        return
    mod = runner.model("sym", cases)
    for cfg in configs:
        ok, log = harness_build.build_cfh(cfg)
        if not ok:
            ctx.broke("correspondence", "A:harness build (%s)" % cfg, log[-1200:])
            continue
        imp = runner.impl("sym", cases, config=cfg, timeout=600)
        n_bad = 0
        for c, a, b in zip(cases, imp, mod):
            if a != b and bounds_only:
                explain(ctx, c, cfg, a, b)
            elif a != b:
                n_bad += 1
                if n_bad <= 3:
                    k, L, d = c.split()[:3]
                    ctx.broke("correspondence", "A:symrun %s" % c,
                              {"case": c, "build": cfg, "impl": (a or "<no output>")[:1500], "model": (b or "<no output>")[:1500]})
                    explain(ctx, c, cfg, a, b)
        ctx.cover(len(cases), distinct_keys=["sym:" + c for c in cases],
                  samples=[{"case": cases[len(cases) // 3], "impl==model": imp[len(cases) // 3] == mod[len(cases) // 3],
                            "output": (imp[len(cases) // 3] or "")[:300]}],
                  rule="(A) 19 real generic kernels run on symbolic elements with an L-lane symbolic register, L in %s, "
                       "dims in [0,2L+1] u [8L-1,10L+1] u [16L-1,19L], cosine under every equality script; term, result "
                       "cells, register event log and stray writes must equal the model's; distinct = distinct case line" % Ls,
                  dist={"sym_cases_L%s" % c.split()[1]: 1 for c in cases} if False else _dist(cases))
        ctx.extra.setdefault("correspondence_A", {})[cfg] = {"cases": len(cases), "disagreements": n_bad}


def _dist(cases):
    d = {}
    for c in cases:
        k = "symA_L" + c.split()[1]
        d[k] = d.get(k, 0) + 1
    return d


def explain(ctx, case, cfg, impl_line, model_line):
    """A disagreement on the symbolic run is, at the same time, a concrete failing input when the real code
    touches cells outside its slices, leaves cells unwritten, or reads its result / writes its inputs."""
    if impl_line is None:
        return
    k, L, d = case.split()[:3]
    if impl_line.startswith("signal"):
        seen = ctx.extra.setdefault("_sym_crash_reported", {})
        seen[k] = seen.get(k, 0) + 1
        if seen[k] > 2:
            return
        # the REAL kernel, run on symbolic elements, killed the harness process or did not come back within the watchdog:
        # an access outside the symbolic slices' backing store, a panic that aborts, or a loop that does not terminate
        ctx.violation("sym-crash:%s" % case, "generic kernel %s with %s lanes, dims=%s: the real kernel %s when run on symbolic input "
                      "(the model terminates in bounds)" % (k, L, d, "did not terminate within the watchdog" if "timeout" in impl_line
                                                            else "crashed the harness process (%s)" % impl_line),
                      {"kind": "input", "case": "sym " + case, "build": cfg, "observed": impl_line, "expected": (model_line or "")[:2000]})
        return
    parts = impl_line.split(" ;")
    bad = []
    if "oob" in impl_line:
        bad.append("value read from outside a slice (oob marker in a term)")
    if "stray:" in impl_line:
        bad.append("write outside the result slice or into an input")
    if len(parts) >= 3:
        for ev in parts[2].split():
            s, rest = ev[1], ev[2:]
            idx, w = rest.split("+")
            if int(idx) < 0 or int(idx) + int(w) > int(d):
                bad.append("register access %s outside 0..%s" % (ev, d))
            if (ev[0] == "W" and s != "r") or (ev[0] == "R" and s == "r"):
                bad.append("register access %s to the wrong slice" % ev)
    if bad:
        ctx.violation("sym-oob:%s" % case, "generic kernel %s with %s lanes, dims=%s: %s" % (k, L, d, "; ".join(sorted(set(bad))[:3])),
                      {"kind": "input", "case": "sym " + case, "build": cfg, "observed": impl_line[:2000],
                       "expected": (model_line or "")[:2000]})
