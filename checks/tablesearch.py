"""Row-level search over the generated tables: which rows make a reflected checker false."""
import re
import lib

HDR = """From Coq Require Import String List Bool.
From CF Require Import Model.Tables Model.TableSem.
From CF Require Import Gen.GenExports Gen.GenSafe Gen.GenMacros Gen.GenDispatch.
Import ListNotations.
"""


def _strings(out, tag):
    m = re.search(r"@@%s(.*?)@@END" % tag, out, flags=re.S)
    if not m:
        return None
    return re.findall(r'"((?:[^"]|"")*)"', m.group(1))


def failing(exprs):
    """exprs: {tag: coq expression of type list string}.  Returns {tag: [strings]} (None when evaluation failed)."""
    body = HDR
    for tag, e in exprs.items():
        body += 'Goal True. idtac "@@%s". Abort.\nEval vm_compute in (%s).\nGoal True. idtac "@@END". Abort.\n' % (tag, e)
    rc, out = lib.coq_eval(body, name="tablesearch")
    if rc != 0:
        return {t: None for t in exprs}, out
    return {t: _strings(out, t) for t in exprs}, out
