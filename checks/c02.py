"""C02 — element-wise add / sub / mul / div are exact on every back end."""
from checks import exprun, saferun, symrun

LEVEL = "proof"
OPS = ["generic_add_vector", "generic_sub_vector", "generic_mul_vector", "generic_div_vector",
       "generic_add_value", "generic_sub_value", "generic_mul_value", "generic_div_value"]
KERNELS = ["KAddVec", "KSubVec", "KMulVec", "KDivVec", "KAddVal", "KSubVal", "KMulVal", "KDivVal"]


def run(ctx):
    facts = ctx.translate(steps=("tables", "dispatch"))
    ctx.trusted += ["Coq 8.16.1 kernel", "hand models Model/Kernels.v (tied by correspondence A), Model/Regs.v (B, C)",
                    "Model/Spec.v = the executable specification (extracted: the oracle); Model/Prim.v (wrapping_*, Flocq IEEE)",
                    "harness/cfh, OCaml drivers, extraction (ExtrOcamlBasic only); the dispatch hook for the safe-API runs"]
    ctx.assumptions += ["nightly builds: AutoMath = FastMath, whose float division is the algebraic intrinsic; held to <= 2 ulp "
                        "(add/sub/mul must be bit-exact); stable builds are compared bit for bit",
                        "Flocq's 4 standard-library axioms appear under the float theorems"]
    ctx.prove("Props/C02.v")
    # tie 1 (translator): the kernels this property speaks about, regenerated from op_*.rs, ARE the model (Props/C02Gen.v);
    # a difference is reported as broken and the correspondence runs below search for the concrete input
    ctx.translate(steps=("kernels",))
    ctx.prove("Props/C02Gen.v")

    symrun.run(ctx, kernels=KERNELS)
    thorough = ctx.tier == "thorough"
    exprun.run_property(ctx, "C:arith", "C02", ops=OPS,
                        classes=("random", "boundary", "special", "small") if thorough else ("random", "boundary", "special"),
                        lens_fn=exprun.full_lens if thorough else exprun.quick_lens,
                        places=("R", "L", "3") if thorough else ("R",), seed_tag=2)
    # the safe API under dispatch masks (every back end the host can reach), documented calls only
    entries = [(i, s) for i, s in enumerate(facts.get("safe_entries", []))
               if any(k in s["any"] for k in ("_add_", "_sub_", "_mul_", "_div_"))]
    lens = [0, 3, 17, 65] if not thorough else [0, 1, 3, 8, 17, 33, 65, 130]
    for config, masks in ((("stable", [0, 2, 6]), ("nightly", [0])) if not thorough else
                          (("stable", [0, 2, 4, 6]), ("debug", [0, 6]), ("nightly", [0, 1, 3, 7]))):
        cases, meta = saferun.gen_safe_cases(ctx, facts, config, entries, lens, [(0, 0, 0, 0)], masks, seed_tag=22,
                                             cls="boundary" if thorough else "random")
        saferun.compare_safe(ctx, config, cases, meta, "D:safe-arith", spec_pid="C02")
