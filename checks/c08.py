"""C08 — results depend only on logical inputs, not placement, slack or history.

Theorems (Props/C08.v): every kernel is built from ret/bind/load-from-input/store/panic/fuel only; it runs in lock
step from memories that differ in the previous contents of the result slice; the 12 writing kernels write every
index; hence equal result slices; inputs untouched / result never read / unwritten cells keep their value; the one
`_mm_undefined_ps` user never lets the undefined register reach its value.

Tie: (A) symbolic structure of the real generic kernels; source audits (uses of undefined/uninitialised values,
statics in the kernel layers); and the PAIRED-RUN correspondence on the real exports: the same logical case under
several placements / alignments / surrounding poison bytes / result prefills / after unrelated calls / with dirtied
vector registers must give ONE output line, equal to the single model line."""
import os
import re

import harness_build
import lib
from checks import exprun, runner, symrun

LEVEL = "proof"

CONST_DIMS = [0, 1, 3, 8, 17, 33, 65, 130]          # DIMS instantiated in the generated glue
WRITERS = {"Vert", "Value"}

# the instruction sequence of <Avx2 as SimdRegister<f64>>::sum_to_value that Model/Poison.v follows line by line
POISON_FN = ("impl_avx2.rs", "f64", "sum_to_value")
POISON_SEQ = ["_mm256_extractf128_pd", "_mm256_castpd256_pd128", "_mm_add_pd", "_mm_undefined_ps", "_mm_movehl_ps",
              "_mm_castpd_ps", "_mm_castps_pd", "_mm_cvtsd_f64", "_mm_add_sd"]
UNINIT_RE = re.compile(r"\b(_mm\d*_undefined_\w+|MaybeUninit|assume_init\w*|uninitialized|zeroed_unchecked)\b")
STATE_RE = re.compile(r"\b(static\s+mut|static\s+[A-Z_]+\s*:|thread_local!|lazy_static!|UnsafeCell|OnceCell|OnceLock|Atomic[A-Z]\w*|RefCell|Mutex)\b")


# ------------------------------------------------------------------------------------------------
# source audits (drift triggers of the hand-written Poison model and of "the kernels hold no state")
# ------------------------------------------------------------------------------------------------
def strip_comments(src):
    src = re.sub(r"/\*.*?\*/", lambda m: "\n" * m.group(0).count("\n"), src, flags=re.S)
    return re.sub(r"//[^\n]*", "", src)


def fn_body(src, start):
    """Text of the brace-balanced block that starts at the first '{' at or after [start]."""
    i = src.index("{", start)
    depth, j = 0, i
    while j < len(src):
        if src[j] == "{":
            depth += 1
        elif src[j] == "}":
            depth -= 1
            if depth == 0:
                return src[i:j + 1]
        j += 1
    return src[i:]


def audit_source(ctx):
    root = os.path.join(lib.REPO, "cfavml", "src")
    uses, state = [], []
    for d, _, files in os.walk(root):
        for f in sorted(files):
            if not f.endswith(".rs"):
                continue
            path = os.path.join(d, f)
            rel = os.path.relpath(path, lib.REPO)
            src = strip_comments(open(path, errors="replace").read())
            for i, ln in enumerate(src.splitlines(), 1):
                for m in UNINIT_RE.finditer(ln):
                    uses.append((rel, i, m.group(1)))
                # state is looked for in the layers the kernels are made of (dispatch.rs legitimately caches nothing
                # either, but carries the verification hook's AtomicU32 under cfg(cfavml_verif))
                if ("/danger/" in rel or "/math/" in rel) and not re.search(r"#\[cfg\(test\)\]", ln):
                    for m in STATE_RE.finditer(ln):
                        state.append((rel, i, m.group(1)))
    ok = True
    expected = [u for u in uses if u[0].endswith(POISON_FN[0]) and u[2] == "_mm_undefined_ps"]
    others = [u for u in uses if u not in expected]
    if len(expected) != 1 or others:
        ok = False
        ctx.broke("translator", "uses of undefined / uninitialised values in cfavml/src",
                  {"modelled": "exactly one: _mm_undefined_ps in impl_avx2.rs <f64>::sum_to_value (Model/Poison.v)",
                   "found": ["%s:%d %s" % u for u in uses]})
    else:
        path = os.path.join(lib.REPO, expected[0][0])
        src = strip_comments(open(path).read())
        m = re.search(r"impl\s+SimdRegister<f64>\s+for\s+Avx2\s*\{", src)
        seq, where = None, None
        if m:
            impl = fn_body(src, m.start())
            k = re.search(r"fn\s+sum_to_value\s*\(", impl)
            if k:
                body = fn_body(impl, k.start())
                seq = re.findall(r"\b(_mm\d*_\w+)\b", body)
                where = "_mm_undefined_ps" in body
        if seq != POISON_SEQ or not where:
            ok = False
            ctx.broke("translator", "instruction sequence of <Avx2 as SimdRegister<f64>>::sum_to_value",
                      {"modelled (Model/Poison.v)": POISON_SEQ, "source now": seq})
    if state:
        ok = False
        ctx.broke("translator", "state in the kernel layers (cfavml/src/danger, cfavml/src/math)",
                  {"modelled": "kernels, register back ends and the math layer hold no static / interior-mutable state",
                   "found": ["%s:%d %s" % s for s in state[:20]]})
    ctx.extra["source_audit"] = {"undefined_or_uninit_uses": ["%s:%d %s" % u for u in uses],
                                 "state_tokens_in_kernel_layers": len(state), "ok": ok}
    return ok


# ------------------------------------------------------------------------------------------------
# paired runs
# ------------------------------------------------------------------------------------------------
def classes_for(ty, config, thorough):
    if ty[0] == "f":
        if config == "nightly":            # FastMath tail: model comparison is by tolerance; keep data well conditioned
            return ("random", "unit", "small") if thorough else ("random", "unit")
        return ("random", "special", "small") if thorough else ("random", "special")
    return ("random", "boundary", "small") if thorough else ("random", "boundary")


def prefill(ty, r, which):
    """0: the seeded prefill; 1: its bitwise complement (differs from 0 in EVERY cell); 2: zeros (what the
    repository's tests use); 3: all-ones bytes (NaN / -1)."""
    mask = (1 << exprun.WIDTH[ty]) - 1
    if which == 0:
        return r
    if which == 1:
        return [x ^ mask for x in r]
    if which == 2:
        return [0] * len(r)
    return [mask] * len(r)


def variants(g, thorough, sweep=None):
    """(place, prefill id, tags).  Variant 0 is the reference every other run is compared with."""
    o = lambda: g.r.below(64)
    out = [("R+b", 0, ("flushR",)),
           ("L+b", 1, ("flushL", "prefill")),
           ("%d/%d/%d+pb" % (o(), o(), o()), 0, ("align", "poison")),
           ("%d/%d/%d+hxb" % (o(), o(), o()), 1, ("align", "history", "regs1", "prefill")),
           ("%d/R/%d+zb" % (o(), o()), 2, ("align", "regs0", "prefill"))]
    if thorough:
        out += [("L/%d/R+phxb" % o(), 3, ("align", "poison", "history", "regs1", "prefill")),
                ("%d+hb" % o(), 0, ("align", "history")),
                ("R/L/%d+xb" % o(), 2, ("align", "regs1", "prefill"))]
    if sweep is not None:
        out += [("%d/%d/%d+%sb" % (k, (7 * k + 3) % 64, (13 * k + 5) % 64, ["", "p", "h", "x"][k % 4]), k % 4, ("sweep",))
                for k in sweep]
    return out


def thorough_lens(L):
    """Every length up to 18L for narrow geometries; for wide ones every residue that changes a trip count of one of
    the three loops around zero, one and two dense blocks."""
    if L <= 4:
        return exprun.full_lens(L)
    return sorted(set(range(0, 2 * L + 2)) | set(range(8 * L - 1, 9 * L + 2)) | set(range(16 * L - 1, 17 * L + 2))
                  | {17 * L + 3, 18 * L - 1})


def strip_nan(line):
    return None if line is None else re.sub(r"nan:[0-9a-f]+", "nan", line)


def bad_memory(a):
    return a is None or a.startswith("signal") or a == "unrun" or "CANARY" in a or "INPUT-MODIFIED" in a


def first_diff(x, y):
    tx, ty_ = (x or "").split(" "), (y or "").split(" ")
    for i, (p, q) in enumerate(zip(tx, ty_)):
        if p != q:
            return i, p, q
    return min(len(tx), len(ty_)), "<end>", "<end>"


def diagnose(config, e, form, n, v, a, b, r):
    """Which single knob changes the output of this logical case?  (one knob at a time against `R`)"""
    ty = e["ty"]
    knobs = [("previous contents of the result slice", "R+b", 1), ("placement (start flush against the leading guard page)", "L+b", 0),
             ("alignment (+1 byte)", "1+b", 0), ("alignment (+33 bytes)", "33+b", 0), ("the bytes surrounding the slices", "R+pb", 0),
             ("an earlier call", "R+hb", 0), ("the contents of the vector registers on entry", "R+xb", 0)]
    lines = [exprun.case_line(0, e, form, n if form == "c" else None, False, "R+b", v, a, b, r)]
    lines += [exprun.case_line(0, e, form, n if form == "c" else None, False, pl, v, a, b, prefill(ty, r, pf)) for _, pl, pf in knobs]
    outs = runner.impl("exp", lines, config=config)
    dep = [k[0] for k, o in zip(knobs, outs[1:]) if o != outs[0]]
    rerun = runner.impl("exp", [lines[0], lines[0]], config=config)
    if rerun[0] != rerun[1] or rerun[0] != outs[0]:
        dep.append("nothing at all (two identical runs differ: non-deterministic)")
    return dep


def paired_runs(ctx, facts, config):
    rows = exprun.select(facts, config)
    if not rows:
        return
    ok, log = harness_build.build_cfh(config)
    okd, logd = harness_build.build_driver()
    if not ok or not okd:
        ctx.broke("correspondence", "C08 paired runs: build (%s)" % config, (log if not ok else logd)[-1500:])
        return
    g = exprun.Gen(ctx.seed * 1000003 + 808 + (0 if config == "stable" else 1))
    step = len(rows) if ctx.tier != "thorough" else 16           # thorough: bounded memory
    tot = {}
    for k in range(0, len(rows), step):
        paired_chunk(ctx, config, rows[k:k + step], g, tot)
    ctx.note("paired runs (%s): %d logical cases, %d runs of the real code, %d placement disagreements, %d memory, "
             "%d model disagreements" % (config, tot.get("logical_cases", 0), tot.get("runs", 0),
                                         tot.get("placement_disagreements", 0), tot.get("memory", 0),
                                         tot.get("model_disagreements", 0)))
    tot.pop("_offs", None)
    ctx.extra.setdefault("paired_runs", {})[config] = tot


def paired_chunk(ctx, config, rows, g, tot):
    thorough = ctx.tier == "thorough"
    groups = []          # (e, form, n, cls, v, a, b, r, [variant...], first case index)
    cases = []
    ref_cases = []       # one line per group for the model (variant 0 without the output-format flag)
    for idx, e in rows:
        L, ty = exprun.lanes(e), e["ty"]
        lens = thorough_lens(L) if thorough else exprun.quick_lens(L)
        sweep_lens = {L + 1, 8 * L + 1, 17 * L + 3} if thorough else set()
        plan = [("a", n) for n in lens] + [("c", n) for n in CONST_DIMS if thorough or n in (0, 3, 17, 65)]
        for form, n in plan:
            for cls in classes_for(ty, config, thorough)[:3 if L <= 8 else 2]:
                la, lb, lr = exprun.shape(e, n)
                is_div = "div" in e["op"]
                a = g.vec(ty, la, cls)
                b = g.vec(ty, lb, cls, nonzero=is_div and g.r.below(8) != 0)
                r = g.vec(ty, lr, "random")
                v = g.vec(ty, 1, cls, nonzero=is_div and g.r.below(8) != 0)[0]
                vs = variants(g, thorough, sweep=range(64) if (form == "a" and n in sweep_lens and cls == "random") else None)
                first = len(cases)
                for place, pf, _ in vs:
                    cases.append(exprun.case_line(idx, e, form, n if form == "c" else None, False, place, v, a, b, prefill(ty, r, pf)))
                ref_cases.append(exprun.case_line(idx, e, form, n if form == "c" else None, False, "R", v, a, b, r))
                groups.append((e, form, n, cls, v, a, b, r, vs, first))
    imp = runner.impl("exp", cases, config=config)
    mod = runner.model("exp", ref_cases)
    # the model itself under a second prefill, on a slice of the cases: an executable echo of C08_results_equal
    echo_idx = [i for i, gr in enumerate(groups) if exprun.KIND[gr[0]["macro"]] in WRITERS][::7 if not thorough else 3]
    echo_cases = [exprun.case_line(exprun_idx(ref_cases[i]), groups[i][0], groups[i][1], groups[i][2] if groups[i][1] == "c" else None,
                                   False, "R", groups[i][4], groups[i][5], groups[i][6], prefill(groups[i][0]["ty"], groups[i][7], 1))
                  for i in echo_idx]
    echo = runner.model("exp", echo_cases) if echo_cases else []
    for i, o in zip(echo_idx, echo):
        if o != mod[i]:
            ctx.broke("theorem", "C08_results_equal (executable echo)",
                      {"case": ref_cases[i][:2000], "model_prefill0": (mod[i] or "")[:800], "model_prefill1": (o or "")[:800]})
            break

    dist = {}
    offs = [set(), set(), set()]        # byte offsets (mod 64 of the start of a / b / result) that were exercised
    n_pair_bad = n_mem_bad = n_model_bad = 0
    order = sorted(range(len(groups)), key=lambda i: (groups[i][2], i))     # shortest failing length is reported first
    for gi in order:
        e, form, n, cls, v, a, b, r, vs, first = groups[gi]
        L = exprun.lanes(e)
        name = e["xconst"] if form == "c" else e["xany"]
        outs = imp[first:first + len(vs)]
        lk = "len0" if n == 0 else "lt_L" if n < L else "lt_8L" if n < 8 * L else "ge_8L"
        for key in ("%s/%s_%s" % (config, cls, lk), "%s/form_%s" % (config, form), "%s/kind_%s" % (config, exprun.KIND[e["macro"]])):
            dist[key] = dist.get(key, 0) + 1
        for (pl, pf, tags), o in zip(vs, outs):
            spec = pl.split("+")[0].split("/")
            for k, tok in enumerate(spec * 3 if len(spec) == 1 else spec):
                if tok.isdigit():
                    offs[k].add(int(tok) % 64)
            for t in tags:
                dist["%s/runs_%s" % (config, t)] = dist.get("%s/runs_%s" % (config, t), 0) + 1
        mem = [k for k, o in enumerate(outs) if bad_memory(o)]
        if mem:
            n_mem_bad += 1
            k = mem[0]
            ctx.violation("memory:%s" % name,
                          "%s (n=%d, placement %s, %s build) %s" % (
                              name, n, vs[k][0], config,
                              "crashed: an access outside its slices hit a guard page" if (outs[k] is None or not outs[k].startswith("ok"))
                              else "modified an input or the bytes around a slice"),
                          {"kind": "input", "case": "exp " + cases[first + k][:6000], "build": config, "observed": outs[k],
                           "expected": (mod[gi] or "")[:2000]})
            continue
        diff = [k for k in range(1, len(vs)) if outs[k] != outs[0]]
        if diff:
            n_pair_bad += 1
            k = diff[0]
            pos, p0, pk = first_diff(outs[0], outs[k])
            already = any(vv["key"] == "placement:%s" % name for vv in ctx.violations)
            dep = [] if already else diagnose(config, e, form, n, v, a, b, r)
            ctx.violation("placement:%s" % name,
                          "%s (n=%d, %s data, %s build): the SAME logical inputs give different outputs under placements/"
                          "histories %s and %s (first difference at output token %d: %s vs %s); the output depends on: %s" % (
                              name, n, cls, config, vs[0][0], vs[k][0], pos, p0, pk, "; ".join(dep) or "(see replay)"),
                          {"kind": "input", "build": config, "case": "exp " + cases[first][:6000],
                           "case_other": "exp " + cases[first + k][:6000],
                           "observed": (outs[0] or "")[:2000], "observed_other": (outs[k] or "")[:2000],
                           "expected": (mod[gi] or "")[:2000], "depends_on": dep,
                           "how_to_replay": "feed both `case` lines (without the leading `exp`) to `cfh exp` of the %s build: "
                                            "the two output lines must be identical" % config})
            continue
        if not exprun.lines_agree(strip_nan(outs[0]), mod[gi], e, config, n):
            n_model_bad += 1
            if n_model_bad + tot.get("model_disagreements", 0) <= 3:
                ctx.broke("correspondence", "C08: %s n=%d (%s): all %d placements/prefills/histories agree with each other but not "
                                            "with the model" % (name, n, config, len(vs)),
                          {"case": cases[first][:3000], "impl": (outs[0] or "")[:1200], "model": (mod[gi] or "")[:1200]})
    ctx.cover(len(cases) + len(ref_cases) + len(echo_cases),
              distinct_keys=["C08|%s|%d" % (config, hash(c)) for c in ref_cases],
              samples=[{"logical_case": ref_cases[len(ref_cases) // 2][:200],
                        "placements": [vv[0] for vv in groups[len(groups) // 2][8]],
                        "outputs_all_equal": len(set(imp[groups[len(groups) // 2][9]:groups[len(groups) // 2][9] + len(groups[len(groups) // 2][8])])) == 1,
                        "impl": (imp[groups[len(groups) // 2][9]] or "")[:120], "model": (mod[len(groups) // 2] or "")[:120]}],
              rule="C08 paired runs (%s build): every executable export (xany; xconst at DIMS in %s) x lengths x value classes; "
                   "each logical case is run under %d+ variants (flush right / flush left / three independent byte offsets in "
                   "0..63, second poison pattern around the slices, result prefilled with seeded data / its complement / "
                   "zeros / ones, after unrelated earlier calls, with all xmm registers set to ones or zeros on entry); all "
                   "output lines (NaN sign+payload included) must be identical, inputs byte-identical afterwards, canaries "
                   "intact, and the common line must equal the Coq model's line; distinct = distinct logical case" % (
                       config, CONST_DIMS, 5 if not thorough else 8),
              dist=dist)
    for k, x in (("logical_cases", len(groups)), ("runs", len(cases)), ("placement_disagreements", n_pair_bad),
                 ("memory", n_mem_bad), ("model_disagreements", n_model_bad), ("model_prefill_echo", len(echo_cases))):
        tot[k] = tot.get(k, 0) + x
    seen = tot.setdefault("_offs", [set(), set(), set()])
    for k in range(3):
        seen[k] |= offs[k]
    tot["distinct_byte_offsets_of_a_b_result"] = [len(x) for x in seen]


def alias_runs(ctx, facts, config):
    """Placement includes ALIASING: two `&[T]` arguments may be the same memory.  Every two-input export is called on (a, copy of
    a) and on (a, a) - the same contents, one buffer - and must print the same line (bit for bit, NaN sign and payload
    included).  Value classes with NaN / infinities / huge magnitudes: on ordinary data a shortcut taken for `ptr::eq(a, b)`
    returns what the formula returns anyway."""
    rows = [(i, e) for i, e in exprun.select(facts, config) if exprun.KIND[e["macro"]] in ("Dist", "Vert")]
    if not rows:
        return
    ok, log = harness_build.build_cfh(config)
    if not ok:
        ctx.broke("correspondence", "C08 alias runs: build (%s)" % config, log[-1500:])
        return
    g = exprun.Gen(ctx.seed * 1000003 + 818 + (0 if config == "stable" else 1))
    sep, ali, meta = [], [], []
    for idx, e in rows:
        L = exprun.lanes(e)
        kind = exprun.KIND[e["macro"]]
        for n in sorted({1, 3, L, L + 1, 8 * L + 3}):
            for cls in ("random", "special", "specialnan"):
                a = g.vec(e["ty"], n, cls, nonzero="div" in e["op"])
                r = g.vec(e["ty"], n, "random") if kind == "Vert" else []
                sep.append(exprun.case_line(idx, e, "a", None, False, "R+b", 0, a, a, r))
                ali.append(exprun.case_line(idx, e, "a", None, False, "R+be", 0, a, a, r))
                meta.append((e, n, cls))
    o1 = runner.impl("exp", sep, config=config)
    o2 = runner.impl("exp", ali, config=config)
    bad = {}
    for c1, c2, m, x, y in zip(sep, ali, meta, o1, o2):
        if x != y:
            e, n, cls = m
            bad[e["xany"]] = bad.get(e["xany"], 0) + 1
            if bad[e["xany"]] > 1 or len(bad) > 4:
                continue
            ctx.violation("alias:%s" % e["xany"],
                          "%s (n=%d, %s data, %s build): called with b = a copy of a it prints `%s`, called with b = the SAME memory as "
                          "a it prints `%s`: the result depends on where the arguments are placed" % (
                              e["xany"], n, cls, config, (x or "<crashed>")[:80], (y or "<crashed>")[:80]),
                          {"kind": "input", "build": config, "case_separate": "exp " + c1[:3000], "case_aliased": "exp " + c2[:3000],
                           "observed_separate": x, "observed_aliased": y})
    ctx.cover(2 * len(sep), distinct_keys=["alias|%s|%d" % (config, hash(c)) for c in sep],
              rule="aliasing: every two-input export (%s build) on (a, copy of a) and on (a, a): identical output lines" % config,
              dist={"alias_pairs_" + config: len(sep)})
    ctx.extra.setdefault("alias_runs", {})[config] = {"pairs": len(sep), "routines_differing": len(bad)}


def history_runs(ctx, facts, config):
    """Earlier calls: the SAME documented safe calls (xany and xconst::<D> for several D, every routine) issued in ONE
    process in three different orders - as generated (D ascending), reversed (D descending), and a seeded shuffle.  Every
    call must print the same line whatever preceded it; a crash of the process in one order only is a difference too."""
    from checks import saferun
    if not saferun.hook_ready(ctx):
        return
    ok, log = harness_build.build_cfh(config)
    if not ok:
        ctx.broke("correspondence", "C08 history runs: build (%s)" % config, log[-1500:])
        return
    entries = list(enumerate(facts.get("safe_entries", [])))
    lens = [0, 3, 17, 65] if ctx.tier != "thorough" else [0, 1, 3, 8, 17, 33, 65, 130]
    cases, meta = saferun.gen_safe_cases(ctx, facts, config, entries, lens, [(0, 0, 0, 0)], [0], seed_tag=88)
    n = len(cases)
    g = lib.SplitMix(ctx.seed * 7907 + 88)
    shuffled = list(range(n))
    for i in range(n - 1, 0, -1):
        j = g.below(i + 1)
        shuffled[i], shuffled[j] = shuffled[j], shuffled[i]
    orders = {"generated": list(range(n)), "reversed": list(range(n - 1, -1, -1)), "shuffled": shuffled}
    outs = {}
    for oname, order in orders.items():
        res = runner.impl("safe", [cases[i] for i in order], config=config, nshards=1)
        outs[oname] = {i: r for i, r in zip(order, res)}
    bad = {}
    for i in range(n):
        lines = {o: outs[o][i] for o in orders}
        if len(set(lines.values())) > 1:
            sidx, s, form, nn, delta, mask = meta[i]
            name = s["const"] if form == "c" else s["any"]
            bad[name] = bad.get(name, 0) + 1
            if bad[name] > 1 or len(bad) > 4:
                continue
            o1, o2 = sorted(orders, key=lambda o: lines[o] or "")[0], sorted(orders, key=lambda o: lines[o] or "")[-1]
            pre = lambda o: [cases[j][:300] for j in orders[o][:orders[o].index(i) + 1]][-40:]
            ctx.violation("history:%s" % name,
                          "safe routine %s (n=%d, %s build) returns %s after one sequence of earlier calls and %s after another: the "
                          "result depends on earlier calls" % (name, nn, config, (lines[o1] or "<crashed>")[:80], (lines[o2] or "<crashed>")[:80]),
                          {"kind": "history", "build": config, "case": "safe " + cases[i][:3000],
                           "order_" + o1: {"observed": lines[o1], "last_calls_before_and_including": pre(o1)},
                           "order_" + o2: {"observed": lines[o2], "last_calls_before_and_including": pre(o2)},
                           "replay": "feed the listed lines, in order, to `cfh safe` (one process)"})
    ctx.cover(3 * n, distinct_keys=["hist|%s|%d" % (config, i) for i in range(n)],
              samples=[{"case": cases[n // 2][:200], "outputs": {o: outs[o][n // 2] for o in orders}}] if n else [],
              rule="history: every documented safe call (190 routines x {xany, xconst::<D>}, D in %s, %s build) issued in one process in "
                   "three orders (generated, reversed, seeded shuffle); the printed line of each call must not depend on the order" % (lens, config),
              dist={"history_calls_" + config: 3 * n})
    ctx.extra.setdefault("history_runs", {})[config] = {"calls_per_order": n, "orders": list(orders), "routines_differing": len(bad)}


def exprun_idx(line):
    return int(line.split(" ", 1)[0])


def run(ctx):
    facts = ctx.translate(steps=("tables",))
    ctx.trusted += ["Coq 8.16.1 kernel", "hand-written kernel model coq/Model/Kernels.v + SimdApi.v (tied by correspondence A), "
                    "register models coq/Model/Regs.v (tied by the paired runs and by correspondence B of C13)",
                    "coq/Model/Poison.v: meaning of the nine intrinsics of <Avx2 as SimdRegister<f64>>::sum_to_value with "
                    "option-valued lanes (sequence compared with the source on every run)",
                    "harness/cfh (guard-paged placements, canaries, register dirtying by inline asm), ocaml drivers, "
                    "extraction (ExtrOcamlBasic only), tools/translate.py (export table)"]
    ctx.assumptions += ["placement, alignment, adjacent bytes and earlier calls are not arguments of the model: that the compiled "
                        "code is such a function is OBSERVED by the paired runs (all agree, and agree with the model), not proved",
                        "nightly (FastMath) float exports: paired runs are compared with each other bit for bit, with the model "
                        "within exprun.lines_agree's tolerance",
                        "NaN results: sign and payload are compared between paired runs; the model has a single NaN",
                        "register dirtying covers xmm0-15 (the upper ymm/zmm halves and zmm16-31 are not set by the harness)"]
    ctx.prove("Props/C08.v")
    # tie 1 (translator): the kernels this property speaks about, regenerated from op_*.rs, ARE the model (Props/C08Gen.v);
    # a difference is reported as broken and the correspondence runs below search for the concrete input
    ctx.translate(steps=("kernels",))
    ctx.prove("Props/C08Gen.v")

    audit_source(ctx)
    symrun.run(ctx)
    for config in ("stable", "nightly"):
        paired_runs(ctx, facts, config)
    for config in ("stable", "nightly"):
        alias_runs(ctx, facts, config)
    facts2 = ctx.translate(steps=("tables", "dispatch"))
    for config in ("stable", "nightly"):
        history_runs(ctx, facts2, config)
