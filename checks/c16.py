"""C16 — aligned buffers are 64-byte aligned, zeroed, correctly sized and independent.

Decision procedure (DESIGN §2.6):
  1. tools/translate_utils.py regenerates the literals/forms of aligned_buffer.rs into coq/Gen/GenConstsUtils.v;
  2. Props/C16.v (theorems over the model instantiated with those literals) is built and audited;
  3. correspondence: the real AlignedBuffer<T> (harness/utilh, release + debug, built from the working tree) runs the
     observation script of Model/AlignedBuf.v (`obs_full`) on the grid len x element size; the model runs the same script
     under `Eval vm_compute`; every observation is compared, and the SPECIFICATION (the property's own words, applied to
     what the implementation did) decides what is a violation;
  4. bookkeeping-only cases at len in {usize::MAX, usize::MAX-1, isize::MAX}, one child process each, against `obs_meta`.
"""
import concurrent.futures
import json
import os
import re

import lib
from checks import utilh_build as ub

LEVEL = "proof"

VALID = [1, 2, 4, 8, 16, 32, 64]
INVALID = [0, 3, 24, 128]
USIZE_MAX = (1 << 64) - 1
ISIZE_MAX = (1 << 63) - 1
# bookkeeping-only lengths (never dereferenced): the ends of the range and, for every power of two 2^p with
# 2^p * size possibly wrapping, 2^p + k: a byte-size computation `len * size_of::<T>()` wraps exactly there
HUGE = [USIZE_MAX, USIZE_MAX - 1, ISIZE_MAX] + [(1 << p) + k for p in range(52, 64) for k in (0, 1, 5, 100)]
BIG = [1 << 16, (1 << 20) + 1]

PANIC_TEXT = {  # model panic code -> substring of the Rust panic message
    1: "attempt to calculate the remainder with a divisor of zero",
    2: "Size of `T` must be able to fit",
    3: "attempt to divide by zero",
    4: "attempt to add with overflow",
    5: "attempt to multiply with overflow",
    6: None,  # the expect message of the source (translator)
    7: "capacity overflow",
    8: "copy_from_slice",
}


def lens_for(tier):
    if tier == "thorough":
        return list(range(0, 4097)) + BIG
    s = set(range(0, 131))
    for k in range(1, 65):
        for d in (-1, 0, 1):
            s.add(64 * k + d)
    s.update([255, 256, 257, 1000, 1001, 2999, 3000, 4090, 4091, 4092, 4093, 4094, 4095, 4096])
    return sorted(x for x in s if 0 <= x <= 4096) + BIG


def content_lens(tier, size):
    """lens on which the model also runs the full byte-level script (cost ~ len*size bytes x 12 passes)."""
    s = set(range(0, 70)) | {127, 128, 129, 255, 256, 257}
    if tier == "thorough":
        s |= set(range(0, min(4097, 4096 // size + 1))) | {1000, 2048, 4095, 4096}
    else:
        s |= {1000} if size <= 8 else set()
        s |= {4096} if size == 1 else set()
    return s


def run_ab(config, cases, nproc=8):
    """cases: [(size, len)] -> {(size, len): result string}; crashed chunk -> 'crash <signal> in-flight' on the case in flight."""
    chunks = [cases[i::nproc] for i in range(nproc)]
    res = {}

    def one(chunk):
        inp = "".join("%d %d\n" % c for c in chunk)
        rc, out = lib.sh([ub.bin_path(config), "ab"], input_=inp, timeout=1500)
        r = {}
        inflight = None
        for ln in out.splitlines():
            if ln.startswith("begin "):
                _, s, l = ln.split()
                inflight = (int(s), int(l))
            elif ln.startswith("case "):
                _, s, l, rest = ln.split(" ", 3)
                r[(int(s), int(l))] = rest
                inflight = None
        if rc != 0 and inflight is not None:
            r[inflight] = "crash rc=%d" % rc
        return r

    with concurrent.futures.ThreadPoolExecutor(max_workers=nproc) as ex:
        for r in ex.map(one, [c for c in chunks if c]):
            res.update(r)
    return res


def run_abmeta(config, size, length):
    rc, out = lib.sh([ub.bin_path(config), "abmeta", str(size), str(length)], timeout=120)
    for ln in out.splitlines():
        if ln.startswith("case "):
            return ln.split(" ", 3)[3]
    if "memory allocation of" in out and "failed" in out:
        # the global allocator refused the request and std aborted the process (handle_alloc_error): the allocator
        # oracle of Props/C16.v ("requests it cannot serve abort") - not an outcome of AlignedBuffer itself
        m = re.search(r"memory allocation of (\d+) bytes failed", out)
        return "oom bytes=%s" % (m.group(1) if m else "?")
    return "crash rc=%d %s" % (rc, out[-200:].replace("\n", " "))


def kv(s):
    return {k: v for k, v in re.findall(r"(\w+)=(\S+)", s)}


def model_eval(cases_meta, cases_full, nproc=6):
    """cases_*: {profile: [(len, size)]}.  Returns ({(prof, size, len): [..]} for meta, same for full, coq output).
    The work is spread over `nproc` coqc processes (many cases per `Eval vm_compute`)."""
    hdr = ["From Coq Require Import ZArith List.", "Import ListNotations.", "Open Scope Z_scope.",
           "From CF Require Import Model.AlignedBuf."]
    blocks = []
    for kind, cases in (("meta", cases_meta), ("full", cases_full)):
        for prof, cs in cases.items():
            if kind == "full":   # spread the expensive (long) cases evenly
                cs = sorted(cs, key=lambda c: -(c[0] * c[1]))
                step = 12
            else:
                step = 400
            for i in range(0, len(cs), step):
                blocks.append((kind, prof, cs[i:i + step]))
    order = {}
    bodies = [list(hdr) for _ in range(nproc)]
    for n, (kind, prof, part) in enumerate(blocks):
        tag = "%s%d" % (kind, n)
        order[tag] = (kind, prof, part)
        b = bodies[n % nproc]
        b.append('Goal True. idtac "@@%s". Abort.' % tag)
        b.append("Eval vm_compute in (map (fun c => obs_%s gen_ab_params %s (fst c) (snd c)) [%s])." % (
            kind, "Debug" if prof == "debug" else "Release", "; ".join("(%d, %d)" % c for c in part)))
        b.append('Goal True. idtac "@@END". Abort.')
    lists = {}
    outs = []
    with concurrent.futures.ThreadPoolExecutor(max_workers=nproc) as ex:
        futs = [ex.submit(lib.coq_eval, "\n".join(b) + "\n", 1500, "c16_%d" % k) for k, b in enumerate(bodies) if len(b) > len(hdr)]
        for f in futs:
            rc, out = f.result()
            outs.append(out)
            if rc != 0:
                return None, None, out
            lists.update(ub.z_lists(out))
    meta, full = {}, {}
    for tag, (kind, prof, part) in order.items():
        rows = lists.get(tag)
        if rows is None or len(rows) != len(part):
            return None, None, "model output for %s has %s rows, expected %d\n%s" % (
                tag, None if rows is None else len(rows), len(part), "".join(outs)[-800:])
        for (length, size), row in zip(part, rows):
            (meta if kind == "meta" else full)[(prof, size, length)] = row
    return meta, full, "".join(outs)


def panic_matches(code, msg, facts):
    want = PANIC_TEXT.get(code)
    if code == 6:
        want = facts["aligned_buffer"].get("expect_msg") or "\0"
    return want is not None and want in msg


def run(ctx):
    # drift trigger (DESIGN 2.5): the hand model is parametrised by the forms tools/translate_utils.py recognises; any other
    # token-level change of the file is reported as broken (not by itself a violation) so that it cannot pass unnoticed
    _drift = lib.source_drift("aligned_buffer", ['cfavml-utils/src/aligned_buffer.rs'])
    if _drift:
        ctx.broke("translator", "source differs from the text the hand model was written against (corpus/fingerprints.json)", _drift)
    ctx.extra["source_drift"] = _drift
    facts, errors = ub.translate()
    for e in errors:
        if e["step"] in ("aligned_buffer", "translate_utils", "render"):
            ctx.broke("translator", e["step"], e["error"])
    ab = facts.get("aligned_buffer", {"chunk_bytes": 64, "align": 64, "div": 64, "plus": 1, "checked": False, "expect_msg": ""})
    ctx.extra["source_form"] = ab
    ctx.trusted += [
        "Coq 8.16.1 kernel + vm_compute",
        "tools/translate_utils.py (literals and forms of aligned_buffer.rs -> coq/Gen/GenConstsUtils.v)",
        "hand model coq/Model/AlignedBuf.v (heap of byte blocks, usize arithmetic with debug/release flag), tied by the correspondence",
        "harness/utilh (Rust: observation script, catch_unwind, child processes), checks/c16.py",
        "ORACLE global allocator: Box<[AlignedBytes]> is aligned to align_of::<AlignedBytes>() and disjoint from live blocks "
        "(hypothesis pick_ok; the alignment part is observed on every allocation of the run)",
    ]
    ctx.assumptions += [
        "allocation requests of at most isize::MAX bytes succeed (otherwise the process aborts: outside the property)",
        "elements are plain bytes: T: Copy of size dividing 64, every bit pattern valid (u8..u128, [u64; 4], [u64; 8] in the harness)",
        "rustc/LLVM implement the source; Vec::with_capacity panics with `capacity overflow` above isize::MAX bytes (observed)",
    ]
    ub.coq_models(ctx, ["Model/AlignedBuf.vo"])
    ctx.prove("Props/C16.v")

    builds = ["release", "debug"]
    for b in builds:
        ok, log = ub.build(b)
        if not ok:
            ctx.broke("correspondence", "harness build " + b, log[-1200:])
            return

    replay = None
    if os.environ.get("VERIF_REPLAY"):
        try:
            replay = json.load(open(os.environ["VERIF_REPLAY"]))
        except (OSError, ValueError):
            replay = None

    lens = lens_for(ctx.tier)
    grid = [(s, l) for s in VALID for l in lens] + [(s, l) for s in INVALID for l in (0, 1, 7, 64, 4096)]
    huge = [(s, l) for s in VALID for l in HUGE]
    if replay and replay.get("size") is not None:
        s, l = int(replay["size"]), int(replay["len"])
        grid, huge = ([], [(s, l)]) if l > (1 << 32) else ([(s, l)], [])
        builds = [replay.get("build", "release")]

    # ---- implementation side ----------------------------------------------------------------
    import time
    t0 = time.time()
    impl = {}
    for b in builds:
        r = run_ab(b, grid) if grid else {}
        for k, v in r.items():
            impl[(b,) + k] = v
        for c in grid:
            if (b,) + c not in impl:
                ctx.broke("correspondence", "harness", "case not run: %s %s" % (b, c))
    impl_huge = {}
    jobs = [(b, s, l) for b in builds for (s, l) in huge]
    with concurrent.futures.ThreadPoolExecutor(max_workers=8) as ex:
        for j, r in zip(jobs, ex.map(lambda j: run_abmeta(*j), jobs)):
            impl_huge[j] = r

    ctx.note("implementation side: %d full + %d bookkeeping-only cases in %.1fs" % (len(impl), len(impl_huge), time.time() - t0))
    t0 = time.time()
    # ---- model side ---------------------------------------------------------------------------
    cm = {b: [(l, s) for (s, l) in grid] + [(l, s) for (s, l) in huge] for b in builds}
    cf = {b: [(l, s) for (s, l) in grid if s in VALID and l in content_lens(ctx.tier, s)] for b in builds}
    meta, full, out = model_eval(cm, cf, nproc=6 if ctx.tier == "quick" else 10)
    if meta is None:
        ctx.broke("correspondence", "model evaluation (coq_eval)", out[-1200:])
        return
    ctx.note("model side: %d obs_meta + %d obs_full evaluations in %.1fs" % (len(meta), len(full), time.time() - t0))

    npc = lambda s: ab["div"] // s if s else 0
    n_eval = 0
    distinct = set()
    dist = {}
    samples = []

    def bump(k):
        dist[k] = dist.get(k, 0) + 1

    def replay_of(build, size, length, mode, observed, expected):
        return {"kind": "input", "build": build, "size": size, "len": length, "observed": observed, "expected": expected,
                "call": "AlignedBuffer::<%d-byte T>::zeroed(%d)" % (size, length),
                "cmd": "%s %s" % (ub.bin_path(build), ("abmeta %d %d" % (size, length)) if mode == "meta"
                                  else "ab  # stdin: '%d %d'" % (size, length))}

    def overflow_class(size, length):
        return size and (ab["assert_mod"] % size == 0) and npc(size) and (length // npc(size) + ab["plus"] > USIZE_MAX)

    def check_case(build, size, length, obs, mode):
        """Compare one observation with the model and apply the specification to it."""
        nonlocal n_eval
        n_eval += 1
        m = meta.get((build, size, length))
        valid = size in VALID
        where = "%s build, %d-byte elements, len %d" % (build, size, length)
        if obs.startswith("oom"):
            # acceptable only for a genuinely enormous request whose size is the one the model predicts
            want = (length // npc(size) + ab["plus"]) * ab["div"] if valid and npc(size) else None
            got = kv(obs).get("bytes")
            bump("oom_abort")
            if want is None or got is None or int(got) != want or want < (1 << 40):
                ctx.violation("oom-unexpected:" + build,
                              "AlignedBuffer::zeroed aborted in the allocator on a request of %s bytes (%s); the chunk arithmetic "
                              "of the source asks for %s bytes" % (got, where, want),
                              replay_of(build, size, length, mode, obs, "a request of %s bytes" % want))
            return
        if obs.startswith("crash"):
            ctx.violation("crash:" + build, "AlignedBuffer harness process died while running (%s): %s" % (where, obs),
                          replay_of(build, size, length, mode, obs, "no crash"))
            return
        # --- model vs implementation: outcome class and bookkeeping
        if obs.startswith("panic"):
            msg = obs[6:]
            bump("panic")
            if not (m and len(m) == 1 and panic_matches(m[0], msg, facts)):
                ctx.broke("correspondence", "zeroed outcome (%s)" % where, "implementation panicked with %r, model predicts %s" % (msg, m))
            # --- specification
            if valid and not overflow_class(size, length) and (length // npc(size) + ab["plus"]) * ab["chunk_bytes"] <= ISIZE_MAX:
                ctx.violation("valid-size-panics:" + build,
                              "zeroed(%d) for %d-byte elements panicked (%s build): %s" % (length, size, build, msg),
                              replay_of(build, size, length, mode, obs, "a zeroed buffer of len elements"))
            distinct.add((build, size, "panic", msg[:24], min(length, 5)))
            return
        o = kv(obs)
        olen, oalloc = int(o["len"]), int(o["alloc"])
        if not valid:
            ctx.violation("invalid-size-accepted:" + build,
                          "zeroed(%d) accepted an element size of %d bytes, which does not divide the 64-byte chunk (%s build)" % (length, size, build),
                          replay_of(build, size, length, mode, obs, "panic"))
            return
        if not (m and len(m) == 4 and m[0] == 0 and m[1] == olen and m[2] == oalloc):
            ctx.broke("correspondence", "zeroed bookkeeping (%s)" % where,
                      "implementation: len=%d allocated_size=%d; model [kind; len; allocated; chunks] = %s" % (olen, oalloc, m))
        # --- specification on the bookkeeping: storage at least as large as the length and the reported capacity
        if olen != length or oalloc < length or obs.startswith("undersized"):
            key = ("chunk-count-overflow:" if overflow_class(size, length) else "undersized:") + build
            ctx.violation(key,
                          "%s build: AlignedBuffer::<%d-byte T>::zeroed(%d) returned a buffer with len()=%d but allocated_size()=%d: "
                          "the %d-element views are not backed by storage%s" % (
                              build, size, length, olen, oalloc, length,
                              " (len / num_per_chunk + %d wrapped to %d chunks in usize arithmetic)" % (ab["plus"], (length // npc(size) + ab["plus"]) & USIZE_MAX)
                              if overflow_class(size, length) else ""),
                          replay_of(build, size, length, mode, obs,
                                    "panic (capacity overflow) or a buffer with allocated_size() >= len; model: %s" % m))
            return
        if mode == "meta":
            bump("huge-ok")
            return
        # --- full script: specification
        bump("ok")
        ptr, sptr, cptr = int(o["ptr"]), int(o["sptr"]), int(o["cptr"])
        if ptr % ab["align"] != 0 or cptr % ab["align"] != 0:
            ctx.broke("correspondence", "allocator contract (oracle) (%s)" % where,
                      "block at %d / clone at %d not aligned to align_of::<AlignedBytes>() = %d" % (ptr, cptr, ab["align"]))
        if ptr % 64 != 0 or sptr != ptr or cptr % 64 != 0:
            ctx.violation("misaligned:" + build,
                          "%s build: AlignedBuffer::<%d-byte T>::zeroed(%d): as_ptr() = %#x (mod 64 = %d), clone at %#x (mod 64 = %d)" % (
                              build, size, length, sptr, sptr % 64, cptr, cptr % 64),
                          replay_of(build, size, length, mode, obs, "address mod 64 = 0"))
        if int(o["vlen"]) != length or int(o["dlen"]) != length or int(o["clen"]) != length:
            ctx.violation("view-length:" + build, "%s build: views of zeroed(%d) (%d-byte T) have lengths %s/%s, clone %s" % (
                build, length, size, o["vlen"], o["dlen"], o["clen"]), replay_of(build, size, length, mode, obs, "len"))
        if o["zero"] != "1" or o["slack0"] != "1":
            ctx.violation("not-zeroed:" + build, "%s build: zeroed(%d) (%d-byte T) is not all zero (elements %s, slack %s)" % (
                build, length, size, o["zero"], o["slack0"]), replay_of(build, size, length, mode, obs, "all zero"))
        if o["rt1"] != "1" or o["wrong"] != "1":
            ctx.violation("write-read:" + build, "%s build: zeroed(%d) (%d-byte T): data written through the mutable view is not read back "
                          "through the shared view (roundtrip=%s, wrong-length write rejected=%s)" % (build, length, size, o["rt1"], o["wrong"]),
                          replay_of(build, size, length, mode, obs, "roundtrip"))
        indep = (o["cc0"] == o["c1"] and o["b3"] == o["c1"] and o["c4"] == o["c3"] and cptr != ptr and int(o["calloc"]) == oalloc
                 and (length == 0 or (o["c3"] != o["c1"] and o["b4"] != o["b3"])))
        if not indep:
            ctx.violation("clone-not-independent:" + build,
                          "%s build: zeroed(%d) (%d-byte T): clone is not an independent deep copy (checksums orig/clone at clone %s/%s, after clone write %s/%s, "
                          "after original write %s/%s, pointers %d/%d)" % (build, length, size, o["c1"], o["cc0"], o["b3"], o["c3"], o["b4"], o["c4"], ptr, cptr),
                          replay_of(build, size, length, mode, obs, "independent deep copy"))
        # --- full script: model vs implementation, byte level
        f = full.get((build, size, length))
        if f is not None:
            bump("byte-level")
            mine = [0, olen, oalloc, ptr % 64, int(o["vlen"]), int(o["zero"]), int(o["c1"]), cptr % 64, int(cptr != ptr), int(o["cc0"]),
                    int(o["b3"]), int(o["c3"]), int(o["b4"]), int(o["c4"]), int(o["slack"])]
            if mine != f:
                ctx.broke("correspondence", "observation script (%s)" % where, "implementation %s\nmodel          %s" % (mine, f))
            if length > 0:
                distinct.add((build, size, length))
            if len(samples) < 6 and length in (5, 64, 129):
                samples.append({"build": build, "size": size, "len": length, "impl": obs[:300], "model": f})
        else:
            distinct.add((build, size, length % max(npc(size), 1), min(length // max(npc(size), 1), 3)))

    for (b, s, l), obs in sorted(impl.items(), key=lambda kv_: (kv_[0][2], kv_[0][1], kv_[0][0])):
        check_case(b, s, l, obs, "full")
    # bookkeeping-only cases, release first: the cleanest replay of a wrapped chunk count
    for (b, s, l) in sorted(impl_huge, key=lambda j: (j[0] != "release", -j[1], -j[2])):
        check_case(b, s, l, impl_huge[(b, s, l)], "meta")
        if len(samples) < 10 and s == 64:
            samples.append({"build": b, "size": s, "len": l, "impl": impl_huge[(b, s, l)], "model": meta.get((b, s, l))})

    ctx.cover(n_eval, distinct_keys=distinct, samples=samples,
              rule="grid: element sizes {1,2,4,8,16,32,64} (+ invalid 0,3,24,128) x len in %s x {release, debug}; plus bookkeeping-only "
                   "len in {usize::MAX, usize::MAX-1, isize::MAX} x sizes, one child process each. Every case: outcome/len/allocated_size vs "
                   "model obs_meta and the specification applied to the implementation's observation; distinct non-trivial = (build, size, len) "
                   "with len > 0 compared with the model at byte level (obs_full: 15 observations incl. 8 checksums), other cases counted by "
                   "(build, size, len mod npc, min(len / npc, 3)) or panic class" % (
                       "[0,4096] + {2^16, 2^20+1}" if ctx.tier == "thorough" else "a structured subset of [0,4096] (0..130, 64k-1..64k+1, ends) + {2^16, 2^20+1}"),
              dist=dist)
    ctx.extra["exhaustive"] = False
