"""C09 — runtime dispatch picks the best available back end and never an unavailable one."""
import lib
from checks import tablesearch

LEVEL = "proof"


def run(ctx):
    facts = ctx.translate(steps=("tables", "dispatch"))
    ctx.trusted += ["Coq 8.16.1 kernel + vm_compute", "tools/translate.py (dispatch! chain, is_*_available bodies, safe slot lists)",
                    "Model/TableSem.v: priority, compiled, guard_spec, allowed_backend are constants of the specification"]
    ctx.assumptions += ["std's is_x86_feature_detected!/is_aarch64_feature_detected! report the CPU truthfully"]
    ctx.prove("Props/C09.v")
    safe = facts.get("safe_entries", [])
    ctx.cover(len(safe) * 2 + 4 * 2 * 2 * 16 * 16,
              distinct_keys=[s["any"] for s in safe] + [s["const"] for s in safe],
              samples=[{"safe": s["any"], "slots": s["slots"]} for s in safe[:2]],
              rule="all 190 safe invocations x 2 forms x supplied slots (reflection); chain: 4 archs x nightly x std x 2^4 predicate outcomes x 2^4 supplied-slot sets (case analysis inside the kernel)")
    res, out = tablesearch.failing({
        "SAFE": "map s_any (filter (fun s => negb (safe_entry_ok exports safe_macros s)) safe_entries)"})
    bad = res.get("SAFE")
    if bad is None:
        ctx.broke("correspondence", "row-level evaluation of safe_entry_ok", out[-600:])
        return
    by_name = {s["any"]: s for s in safe}
    for name in bad:
        s = by_name.get(name, {})
        ctx.violation("safe-slot:" + name,
                      "safe routine %s hands the dispatcher a routine of another type/operation/back end in some slot (%s:%s)" % (
                          name, s.get("file"), s.get("line")),
                      {"kind": "static", "row": s, "theorem": "C09_slots"})
    if bad:
        for b in ctx.broken:
            b["explained_by"] = "safe-slot:" + bad[0]
    try:
        from checks import saferun
        saferun.check_dispatch(ctx, facts)
    except ImportError:
        pass
    from checks import predprobe
    predprobe.check(ctx)
    # availability theorems broken and nothing concrete found on this host: search the model for a machine/build
    if ctx.broken and not ctx.violations:
        wit = predprobe.model_witness(ctx)
        for w in (wit or [])[:2]:
            ctx.violation("dispatch-availability-model:" + w.split(": ", 1)[-1][:60],
                          "on the model regenerated from dispatch.rs: " + w,
                          {"kind": "model-witness", "witness": w, "theorems": ["C09_predicates_sound", "C09_predicates_complete",
                                                                               "C09_never_unavailable", "C09_best_available"],
                           "note": "a CPU feature set / build this host cannot present; evaluated with vm_compute on Gen/GenDispatch.v"})
