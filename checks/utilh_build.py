"""Shared by checks/c16.py and checks/c17.py: the utils translator, the `utilh` harness builds, small parsers."""
import json
import os
import re
import shutil
import sys
import time

import lib

UTILH = os.path.join(lib.VERIF, "harness", "utilh")

CONFIGS = {
    # name: (cargo args, target dir, profile dir)
    "release": (["--release"], "target-utilh-release", "release"),
    "debug": ([], "target-utilh-debug", "debug"),
    "compat": (["--release", "--features", "compat"], "target-utilh-compat", "release"),
}


def translate():
    """Run tools/translate_utils.py (regenerates coq/Gen/GenConstsUtils.v).  Returns (facts, errors)."""
    with lib.build_lock():
        rc, out = lib.sh([sys.executable, os.path.join(lib.VERIF, "tools", "translate_utils.py")], timeout=120)
    try:
        with open(os.path.join(lib.BUILD, "gen_facts_utils.json")) as f:
            facts = json.load(f)
    except (OSError, ValueError):
        facts = {"errors": [{"step": "translate_utils", "error": "translator crashed: " + out[-1500:]}]}
    if rc != 0 and not facts.get("errors"):
        facts["errors"] = [{"step": "translate_utils", "error": out[-1500:]}]
    return facts, facts.get("errors", [])


def bin_path(config):
    _, tdir, prof = CONFIGS[config]
    return os.path.join(lib.BUILD, tdir, prof, "utilh")


def build(config, verbose=False):
    """(Re)build the harness from /repo's working tree in one configuration.  Returns (ok, log)."""
    args, tdir, _ = CONFIGS[config]
    with lib.build_lock("lock-cargo-utilh-" + config):
        lib.point_manifest(UTILH)
        lock_src = os.path.join(lib.REPO, "Cargo.lock")
        lock_dst = os.path.join(UTILH, "Cargo.lock")
        if os.path.exists(lock_src) and not os.path.exists(lock_dst):
            shutil.copy(lock_src, lock_dst)
        t = time.time()
        rc, out = lib.sh("cargo build --offline %s" % " ".join(args), cwd=UTILH,
                         env={"CARGO_TARGET_DIR": os.path.join(lib.BUILD, tdir), "RUSTFLAGS": "-Awarnings"}, timeout=1800)
        if verbose:
            print("utilh build [%s] rc=%d %.0fs" % (config, rc, time.time() - t), flush=True)
    return rc == 0, out


def coq_models(ctx, targets):
    """Make sure the executable model is compiled even when a proof file no longer checks."""
    ok, log = lib.coq_make(list(targets), timeout=1200)
    if not ok:
        err = lib.coq_first_error(log) or {"file": "?", "line": 0, "lemma": None, "message": log[-600:]}
        ctx.broke("theorem", "model build %s (%s:%s)" % (err.get("lemma"), err["file"], err["line"]), err["message"])
    return ok


def z_lists(out):
    """All `list (list Z)` results of a coq_eval output, in order: [[...], ...] per Eval, keyed by @@<tag> markers."""
    res = {}
    for m in re.finditer(r"@@(\S+)\s*\n(.*?)@@END", out, flags=re.S):
        tag, body = m.group(1), m.group(2)
        body = body.split("=", 1)[1] if "=" in body else body
        body = body.rsplit(": list", 1)[0]
        rows = []
        for r in re.findall(r"\[([^\[\]]*)\]", body):
            r = r.strip()
            rows.append([int(x) for x in re.split(r"\s*;\s*", r)] if r else [])
        res[tag] = rows
    return res


def coq_str(s):
    return '"' + s.replace('"', '""') + '"'
