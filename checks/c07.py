"""C07 — per-back-end kernels stay in bounds for every length and alignment."""
from checks import symrun

LEVEL = "proof"


def run(ctx):
    ctx.trusted += ["Coq 8.16.1 kernel",
                    "hand-written kernel model coq/Model/Kernels.v + SimdApi.v (tied by the translator: Gen/GenKernels.v = "
                    "Model/Kernels.v, Props/C07Gen.v; and by correspondence A)",
                    "tools/translate_kernels.py: the construct-by-construct mapping of the op_*.rs statement forms to "
                    "while_lt / load_dense / load / read1 / write_dense / store / write1 / r_* / m_* (DESIGN)",
                    "harness/cfh (symbolic SimdRegister/Math instances), ocaml/driver_sym.ml, extraction (ExtrOcamlBasic only)"]
    ctx.assumptions += ["index arithmetic on nat: slices are at most isize::MAX bytes so i + 8L cannot wrap",
                        "the compiled code touches only what the source says (observed with guard pages in correspondence C, not proved)"]
    ctx.prove("Props/C07.v")
    # Tie 1 (translator): regenerate Gen/GenKernels.v from the op_*.rs of lib.REPO, then re-check that the generated
    # kernels ARE the model (19 equalities) and that the in-bounds theorem transports to them.  A function the
    # translator cannot render is reported as `translator` breakage, a generated term that is no longer the model as
    # `theorem` breakage (the failing lemma names the kernel).  Neither stops the run: correspondence A below runs the
    # real code against the model and is what turns such a difference into a concrete failing input.
    facts = ctx.translate(steps=("kernels",))
    gk = (facts or {}).get("kernels") or {}
    ctx.extra["generated_kernels"] = {"translated": gk.get("translated", []), "helpers": gk.get("helpers", []),
                                      "untranslated": gk.get("untranslated", []), "ignored": gk.get("ignored", {}),
                                      "files": gk.get("files", [])}
    ok = ctx.prove("Props/C07Gen.v")
    ctx.extra["generated_kernels"]["equal_to_model"] = bool(ok)
    symrun.run(ctx, configs=("stable",) if ctx.tier == "quick" else ("stable", "nightly"))
    from checks import exprun
    exprun.check_bounds(ctx)
