"""C07 — per-back-end kernels stay in bounds for every length and alignment."""
from checks import symrun

LEVEL = "proof"


def run(ctx):
    ctx.trusted += ["Coq 8.16.1 kernel", "hand-written kernel model coq/Model/Kernels.v + SimdApi.v (tied by correspondence A)",
                    "harness/cfh (symbolic SimdRegister/Math instances), ocaml/driver_sym.ml, extraction (ExtrOcamlBasic only)"]
    ctx.assumptions += ["index arithmetic on nat: slices are at most isize::MAX bytes so i + 8L cannot wrap",
                        "the compiled code touches only what the source says (observed with guard pages in correspondence C, not proved)"]
    ctx.prove("Props/C07.v")
    symrun.run(ctx, configs=("stable",) if ctx.tier == "quick" else ("stable", "nightly"))
    from checks import exprun
    exprun.check_bounds(ctx)
