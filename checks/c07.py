"""C07 — per-back-end kernels stay in bounds for every length and alignment."""
from checks import symrun

LEVEL = "proof"


def run(ctx):
    ctx.trusted += ["Coq 8.16.1 kernel",
                    "hand-written kernel model coq/Model/Kernels.v + SimdApi.v (tied by the translator: Gen/GenKernels.v = "
                    "Model/Kernels.v, Props/C07Gen.v; and by correspondence A)",
                    "tools/translate_kernels.py: the construct-by-construct mapping of the op_*.rs statement forms to "
                    "while_lt / load_dense / load / read1 / write_dense / store / write1 / r_* / m_* (DESIGN)",
                    "coq/Model/MemIntrinsics.v: what each load / store intrinsic (and ptr::read / ptr::write) touches — kind, bytes, "
                    "alignment requirement (~100 rows; the rows the source uses are cross-checked against the pinned stdarch's Rust "
                    "bodies by the translator) and the sizes of the vector types; tools/translate_mem.py: core_simd_api.rs defaults "
                    "and the impls' load / write -> Gen/GenSimdApi.v (Props/C07Mem.v)",
                    "harness/cfh (symbolic SimdRegister/Math instances), ocaml/driver_sym.ml, extraction (ExtrOcamlBasic only)"]
    ctx.assumptions += ["index arithmetic on nat: slices are at most isize::MAX bytes so i + 8L cannot wrap",
                        "the compiled code touches only what the source says (observed with guard pages in correspondence C, not proved)"]
    ctx.prove("Props/C07.v")
    # Tie 1 (translator): regenerate Gen/GenKernels.v from the op_*.rs of lib.REPO, then re-check that the generated
    # kernels ARE the model (19 equalities) and that the in-bounds theorem transports to them.  A function the
    # translator cannot render is reported as `translator` breakage, a generated term that is no longer the model as
    # `theorem` breakage (the failing lemma names the kernel).  Neither stops the run: correspondence A below runs the
    # real code against the model and is what turns such a difference into a concrete failing input.
    facts = ctx.translate(steps=("kernels",))
    gk = (facts or {}).get("kernels") or {}
    ctx.extra["generated_kernels"] = {"translated": gk.get("translated", []), "helpers": gk.get("helpers", []),
                                      "untranslated": gk.get("untranslated", []), "ignored": gk.get("ignored", {}),
                                      "files": gk.get("files", [])}
    ok = ctx.prove("Props/C07Gen.v")
    ctx.extra["generated_kernels"]["equal_to_model"] = bool(ok)
    # Tie 1, memory half (translator): regenerate Gen/GenSimdApi.v from core_simd_api.rs (the trait's default load_dense /
    # write_dense / elements_per_dense / elements_per_lane / filled_dense / zeroed_dense, statement by statement) and from
    # the `load` / `write` of every impl_*.rs (the one load / store intrinsic on the pointer given + `type Register`), then
    # re-check that the defaults ARE Model/SimdApi.v's, that nobody overrides them, and that every register access is an
    # unaligned whole-register access = [lanes] elements of the lane-level model (Model/MemIntrinsics.v is the trusted
    # reading of the intrinsics).  Failures are reported like the two above; the run continues to the correspondences.
    facts = ctx.translate(steps=("mem",))
    gm = (facts or {}).get("mem") or {}
    ctx.extra["generated_memory"] = {"defaults_translated": gm.get("defaults_translated", []),
                                     "defaults_untranslated": gm.get("defaults_untranslated", []),
                                     "overrides": gm.get("overrides", []), "entries": len(gm.get("entries", [])),
                                     "untranslated": gm.get("untranslated", []),
                                     "intrinsics_used": gm.get("intrinsics_used", []),
                                     "stdarch_class": gm.get("stdarch_class", {})}
    ok = ctx.prove("Props/C07Mem.v")
    ctx.extra["generated_memory"]["proved"] = bool(ok)
    symrun.run(ctx, configs=("stable",) if ctx.tier == "quick" else ("stable", "nightly"))
    from checks import exprun
    exprun.check_bounds(ctx)
