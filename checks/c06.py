"""C06 — cosine distance: zero-vector cases, integer formula (wrapping, truncated square root, must-panic), exact
symmetry, accuracy 4(n+8)u and range on well-scaled float data.

Decided by the theorems of coq/Props/C06.v about the Gallina model; the model is tied to /repo's current source by
  (A) the symbolic run of the REAL generic_cosine (all equality scripts = all three branches), and
  (C) every executable cosine export called by name on guard-paged slices, compared with the Coq model of the row
      the translator found under that name, with the Coq-extracted spec_int (integers: value or must-panic) and with
      float oracles evaluated here in exact rational arithmetic on the decoded bit patterns.
An implementation output that contradicts the property is a VIOLATION with the inputs as replay; any other
implementation/model difference breaks the tie."""
import math
import struct
from fractions import Fraction

import harness_build
from checks import exprun, runner, saferun, symrun

LEVEL = "proof"
INTS = ["i8", "i16", "i32", "i64", "u8", "u16", "u32", "u64"]
FLOATS = ["f32", "f64"]
FMT = {"f32": (24, 128), "f64": (53, 1024)}          # (prec, emax); emin = 3 - emax - prec
CONST_DIMS = [0, 1, 3, 8, 17, 33, 65, 130]            # the DIMS the harness glue instantiates (gen_glue.CONST_DIMS)
CONST_DIMS_QUICK = [0, 1, 3, 17, 65]

INT_CLASSES = ("zero_both", "zero_a", "zero_b", "wrap_zero_both", "wrap_zero_one", "isqrt0", "neg_product",
               "negatives", "identical", "antiparallel", "random", "boundary")
FLOAT_CLASSES = ("parallel", "parallel_r", "antiparallel", "orthogonal", "near_parallel", "identical", "random",
                 "zero_both", "zero_a", "zero_b", "special")


# ------------------------------------------------------------------------------------------------
# generators (every random choice from the one SplitMix64 state of exprun.Gen)
# ------------------------------------------------------------------------------------------------
def small_nonzero(g, w, signed, n):
    out = []
    for _ in range(n):
        v = 1 + g.r.below(7)
        if signed and g.r.below(2):
            v = -v
        out.append(v % (1 << w))
    return out


def int_pair(g, ty, n, cls):
    w = exprun.WIDTH[ty]
    signed = ty[0] == "i"
    mod = 1 << w
    h = 1 << (w // 2)            # h^2 = 2^w = 0
    q = 1 << (w // 4)            # q^2 = 2^(w/2)
    zeros = [0] * n
    if cls == "zero_both" or n == 0:
        return zeros, list(zeros)
    if cls == "zero_a":
        return zeros, small_nonzero(g, w, signed, n)
    if cls == "zero_b":
        return small_nonzero(g, w, signed, n), zeros

    def wrapvec():
        v = [(g.r.below(4) * h) % mod for _ in range(n)]
        v[g.r.below(n)] = (h * (1 + 2 * g.r.below(2))) % mod
        return v
    if cls == "wrap_zero_both":
        return wrapvec(), wrapvec()
    if cls == "wrap_zero_one":
        return (wrapvec(), small_nonzero(g, w, signed, n)) if g.r.below(2) else (small_nonzero(g, w, signed, n), wrapvec())
    if cls == "isqrt0":
        # nx = k1^2 2^(w/2), ny = k2^2 2^(w/2): both non-zero, product = 0 mod 2^w, isqrt = 0: must panic
        a, b = list(zeros), list(zeros)
        k1, k2 = 1 + 2 * g.r.below(2), 1 + 2 * g.r.below(2)
        s1 = -1 if signed and g.r.below(2) else 1
        a[g.r.below(n)] = (s1 * q * k1) % mod
        b[g.r.below(n)] = (q * k2) % mod
        return a, b
    if cls == "neg_product":
        # nx = 2^(w/2), ny = 2^(w/2-1): product = 2^(w-1): MIN for signed types (sqrt of a negative: NaN -> 0: panic)
        a, b = list(zeros), list(zeros)
        a[g.r.below(n)] = q
        if n >= 2:
            i = g.r.below(n)
            j = (i + 1 + g.r.below(n - 1)) % n
            b[i] = b[j] = q // 2
        else:
            b[0] = q
        return a, b
    if cls == "negatives":
        return small_nonzero(g, w, signed, n), small_nonzero(g, w, signed, n)
    if cls == "identical":
        a = small_nonzero(g, w, signed, n)
        return a, list(a)
    if cls == "antiparallel":
        a = small_nonzero(g, w, signed, n)
        return a, [(-x) % mod for x in a]
    return g.vec(ty, n, cls), g.vec(ty, n, cls)


def fbits(ty, x):
    return exprun.f32bits(x) if ty == "f32" else exprun.f64bits(x)


def fval(ty, bits):
    if ty == "f32":
        return struct.unpack("<f", struct.pack("<I", bits))[0]
    return struct.unpack("<d", struct.pack("<Q", bits))[0]


def float_pair(g, ty, n, cls):
    mb = 23 if ty == "f32" else 52
    w = exprun.WIDTH[ty]
    sign = 1 << (w - 1)
    zero = lambda: g.r.below(2) << (w - 1)
    E = g.r.below(37) - 18                      # the vector's scale

    def rnd(E_):
        m = 1.0 + g.r.below(1 << 20) / float(1 << 20)
        v = math.ldexp(m, E_ + g.r.below(7) - 3)
        return -v if g.r.below(2) else v

    def vec(E_):
        return [fbits(ty, rnd(E_)) for _ in range(n)]
    if cls == "zero_both" or n == 0:
        return [zero() for _ in range(n)], [zero() for _ in range(n)]
    if cls == "zero_a":
        return [zero() for _ in range(n)], vec(E)
    if cls == "zero_b":
        return vec(E), [zero() for _ in range(n)]
    if cls == "special":
        return g.vec(ty, n, "special"), g.vec(ty, n, "special")
    a = vec(E)
    av = [fval(ty, x) for x in a]
    if cls == "identical":
        return a, list(a)
    if cls == "parallel":
        k = g.r.below(7) - 3
        return a, [fbits(ty, math.ldexp(x, k)) for x in av]
    if cls == "antiparallel":
        k = g.r.below(7) - 3
        return a, [fbits(ty, -math.ldexp(x, k)) for x in av]
    if cls == "parallel_r":
        c = 0.5 + g.r.below(3 << 19) / float(1 << 20)
        return a, [fbits(ty, x * c) for x in av]
    if cls == "near_parallel":
        b = []
        for x in a:
            d = g.r.below(9) - 4
            mant = x & ((1 << mb) - 1)
            if 0 <= mant + d < (1 << mb):
                x = x + d
            b.append(x)
        return a, b
    if cls == "orthogonal":
        # (x, y) against (-y, x): the exact dot product is 0; an odd last element meets a zero
        b = [0] * n
        for i in range(0, n - 1, 2):
            b[i] = a[i + 1] ^ sign
            b[i + 1] = a[i]
        if n % 2:
            b[n - 1] = zero()
        if n == 1:
            return a, [fbits(ty, 0.0)]
        return a, b
    return a, vec(g.r.below(37) - 18)


# ------------------------------------------------------------------------------------------------
# oracles
# ------------------------------------------------------------------------------------------------
def int_branch(ty, a, b, spec_line):
    """Which branch of the formula this integer case reaches (for the measured distribution)."""
    w = exprun.WIDTH[ty]
    signed = ty[0] == "i"
    V = (lambda z: z - (1 << w) if z >> (w - 1) else z) if signed else (lambda z: z)
    nx = sum(V(x) * V(x) for x in a) % (1 << w)
    ny = sum(V(x) * V(x) for x in b) % (1 << w)
    if nx == 0 and ny == 0:
        return "both_zero_norm" + ("_nonzero_vectors" if any(a) or any(b) else "")
    if nx == 0 or ny == 0:
        z = a if nx == 0 else b
        return "one_zero_norm" + ("_nonzero_vector" if any(z) else "")
    if spec_line == "panic":
        p = (nx * ny) % (1 << w)
        return "must_panic_isqrt0" + ("_negative_product" if signed and p >> (w - 1) else "")
    wrapped = (nx * ny) >= (1 << w) or sum(V(x) * V(x) for x in a) >= (1 << w)
    return "general" + ("_wrapping" if wrapped else "")


def exact_of(ty, bits):
    """Fraction of a finite float bit pattern; None for NaN / infinity."""
    x = fval(ty, bits)
    if x != x or x in (float("inf"), float("-inf")):
        return None
    return Fraction(x)


def le_div_sqrt(D, P, c):
    """D / sqrt(P) <= c, exactly (P > 0)."""
    if c >= 0:
        return D <= 0 or D * D <= c * c * P
    return D < 0 and D * D >= c * c * P


def float_oracle(ty, a_bits, b_bits, out_tok):
    """Returns (verdict, branch, detail): verdict None = the property does not constrain this case; True / False."""
    prec, emax = FMT[ty]
    u = Fraction(1, 1 << prec)
    n = len(a_bits)
    A = [exact_of(ty, x) for x in a_bits]
    B = [exact_of(ty, x) for x in b_bits]
    if any(x is None for x in A + B):
        return None, "nonfinite_input", ""
    za, zb = all(x == 0 for x in A), all(x == 0 for x in B)
    one = fbits(ty, 1.0)
    if za and zb:
        return (out_tok != "nan" and int(out_tok, 16) == 0), "both_zero", "both vectors are zero: the result must be +0.0"
    smallest_normal = Fraction(2) ** (3 - emax - prec + prec - 1)
    big = Fraction(2) ** (emax - 2)
    NX, NY = sum(x * x for x in A), sum(x * x for x in B)
    prods = [x * x for x in A if x] + [x * x for x in B if x] + [x * y for x, y in zip(A, B) if x and y]
    if any(abs(p) < smallest_normal for p in prods):
        return None, "outside_domain_underflowing_product", ""
    if za or zb:
        N = NY if za else NX
        if not (smallest_normal <= N <= big):
            return None, "outside_domain_scale", ""
        return (out_tok != "nan" and int(out_tok, 16) == one), "one_zero", "exactly one vector is zero: the result must be 1.0"
    if not (smallest_normal <= NX <= big and smallest_normal <= NY <= big and 4 * smallest_normal <= NX * NY <= big):
        return None, "outside_domain_scale", ""
    if (n + 8) * u * 16 > 1:
        return None, "outside_domain_n", ""
    if out_tok == "nan":
        return False, "general", "NaN on well-scaled finite data"
    r = exact_of(ty, int(out_tok, 16))
    if r is None:
        return False, "general", "infinite result on well-scaled finite data"
    D = sum(x * y for x, y in zip(A, B))
    tol = 4 * (n + 8) * u
    t = 1 - r                                   # | r - (1 - D/S) | <= tol  <=>  t - tol <= D/S <= t + tol
    P = NX * NY
    ok = le_div_sqrt(D, P, t + tol) and le_div_sqrt(-D, P, -(t - tol))
    geo = "identical" if a_bits == b_bits else "general"
    if ok and not (-tol <= r <= 2 + tol):
        ok = False
    if ok and geo == "identical" and abs(r) > tol:
        ok = False
    return ok, geo, "|result - (1 - a.b/(|a||b|))| must be <= 4(n+8)u = %s (n=%d); result=%s" % (float(tol), n, float(r))


# ------------------------------------------------------------------------------------------------
# running
# ------------------------------------------------------------------------------------------------
def memory_violation(ctx, name, n, place, config, c, a, b):
    if a is None or a.startswith("signal") or "CANARY" in a or "INPUT-MODIFIED" in a:
        ctx.violation("C06:memory:%s" % name,
                      "%s (n=%d, placement %s, %s build) %s" % (
                          name, n, place, config,
                          ("did not return within the harness watchdog (a loop that does not terminate)" if (a and "timeout" in a) else "crashed: an access outside its slices hit a guard page") if (a is None or a.startswith("signal"))
                          else "modified an input or memory around the result slice"),
                      {"kind": "input", "case": "exp " + c[:6000], "build": config, "observed": a, "expected": (b or "")[:2000]})
        return True
    return False


def builds_ok(ctx, what, config):
    ok, log = harness_build.build_cfh(config)
    okd, logd = harness_build.build_driver()
    if not ok or not okd:
        ctx.broke("correspondence", "%s: build (%s)" % (what, config), (log if not ok else logd)[-1500:])
        return False
    return True


def run_ints(ctx, facts, config, lens_fn, classes, places):
    what = "C:cosine-int"
    rows = exprun.select(facts, config, ops=["generic_cosine"], tys=INTS)
    if not rows or not builds_ok(ctx, what, config):
        return
    g = exprun.Gen(ctx.seed * 1000003 + 606)
    cases, meta = [], []
    for idx, e in rows:
        L = exprun.lanes(e)
        for n, guided in exprun.lens_for(e, lens_fn):
            for cls in (classes[:2] if guided else classes):
                if n == 0 and cls != "zero_both":
                    continue
                a, b = int_pair(g, e["ty"], n, cls)
                for place in places:
                    cases.append(exprun.case_line(idx, e, "a", None, config == "debug", place, 0, a, b, []))
                    meta.append((idx, e, n, cls, place, a, b))
    imp = runner.impl("exp", cases, config=config)
    mod = runner.model("exp", cases)
    spc = runner.model("spec", cases)
    dist, bad_model, bad_spec = {}, 0, 0
    for c, m, a, b, s in zip(cases, meta, imp, mod, spc):
        idx, e, n, cls, place, va, vb = m
        name = e["xany"]
        br = int_branch(e["ty"], va, vb, s)
        dist["int_" + br] = dist.get("int_" + br, 0) + 1
        dist["intcls_" + cls] = dist.get("intcls_" + cls, 0) + 1
        if memory_violation(ctx, name, n, place, config, c, a, b):
            continue
        if s is None or not (s == "panic" or s.startswith("ok ")):
            ctx.broke("correspondence", "%s: the extracted specification gave no verdict for %s n=%d" % (what, name, n),
                      {"case": c[:2000], "spec": s})
            continue
        meets = a.startswith("panic") if s == "panic" else (a == s)
        if not meets:
            bad_spec += 1
            ctx.violation("C06:spec:%s" % name,
                          "%s (n=%d, %s data, %s build): %s" % (
                              name, n, cls, config,
                              "returned a value where the wrapping formula's integer square root is 0 (must panic)" if s == "panic"
                              else "panicked where the formula has a value" if a.startswith("panic")
                              else "returned a value different from the formula in wrapping arithmetic with truncated square root"),
                          {"kind": "input", "case": "exp " + c[:6000], "build": config, "observed": a[:400],
                           "expected_by_spec": s[:400], "model": (b or "")[:400], "branch": br})
            continue
        if not exprun.lines_agree(a, b, e, config, n):
            bad_model += 1
            if bad_model <= 3:
                ctx.broke("correspondence", "%s: %s n=%d (%s): implementation and model differ (specification met)" % (what, name, n, config),
                          {"case": c[:3000], "impl": a[:400], "model": (b or "")[:400], "spec": s[:400]})
    k = len(cases) // 2
    ctx.cover(len(cases), distinct_keys=["%s|%s|%d" % (what, config, hash(c)) for c in cases],
              samples=[{"case": cases[k][:200], "impl": (imp[k] or "")[:80], "model": (mod[k] or "")[:80], "spec": (spc[k] or "")[:80]}],
              rule="%s (%s build): every integer cosine export called by name on guard-paged slices with vector classes %s at "
                   "the loop-boundary lengths; the implementation line must meet the Coq-extracted spec_int line (value or "
                   "must-panic: oracle) and equal the Coq model's line (correspondence); branch = recomputed here from the "
                   "inputs; distinct = distinct case line" % (what, config, list(classes)),
              dist=dist)
    ctx.extra.setdefault("correspondence_C", {})["%s/%s" % (what, config)] = {
        "cases": len(cases), "model_disagreements": bad_model, "spec_violations": bad_spec,
        "branches": {k_: v for k_, v in dist.items() if k_.startswith("int_")}}


def run_floats(ctx, facts, config, lens_fn, classes, places):
    what = "C:cosine-float"
    rows = exprun.select(facts, config, ops=["generic_cosine"], tys=FLOATS)
    if not rows or not builds_ok(ctx, what, config):
        return
    g = exprun.Gen(ctx.seed * 1000003 + 607)
    cases, meta = [], []
    for idx, e in rows:
        L = exprun.lanes(e)
        for n, guided in exprun.lens_for(e, lens_fn):
            for cls in (classes[:2] if guided else classes):
                if n == 0 and cls != "zero_both":
                    continue
                a, b = float_pair(g, e["ty"], n, cls)
                for place in places:
                    # the case and its mirror image (a and b swapped), adjacent
                    cases.append(exprun.case_line(idx, e, "a", None, config == "debug", place, 0, a, b, []))
                    meta.append((idx, e, n, cls, place, a, b, False))
                    cases.append(exprun.case_line(idx, e, "a", None, config == "debug", place, 0, b, a, []))
                    meta.append((idx, e, n, cls, place, b, a, True))
    imp = runner.impl("exp", cases, config=config)
    mod = runner.model("exp", cases)
    dist, bad_model, bad_prop, n_decided, n_sym_exact = {}, 0, 0, 0, 0
    for j, (c, m, a, b) in enumerate(zip(cases, meta, imp, mod)):
        idx, e, n, cls, place, va, vb, swapped = m
        name, ty = e["xany"], e["ty"]
        dist["floatcls_" + cls] = dist.get("floatcls_" + cls, 0) + 1
        if memory_violation(ctx, name, n, place, config, c, a, b):
            continue
        if not a.startswith("ok "):
            bad_prop += 1
            ctx.violation("C06:float-panic:%s" % name, "%s (n=%d, %s data, %s build) did not return: %s" % (name, n, cls, config, a[:80]),
                          {"kind": "input", "case": "exp " + c[:6000], "build": config, "observed": a[:400], "model": (b or "")[:400]})
            continue
        tok = a.split(" ")[1]
        verdict, br, detail = float_oracle(ty, va, vb, tok)
        dist["float_" + br] = dist.get("float_" + br, 0) + 1
        contradicted = False
        if verdict is not None:
            n_decided += 1
            if verdict is False:
                contradicted = True
                bad_prop += 1
                ctx.violation("C06:float-%s:%s" % ("accuracy" if br in ("general", "identical") else "zero-branch", name),
                              "%s (n=%d, %s data, %s build) contradicts the property: %s" % (name, n, cls, config, detail),
                              {"kind": "input", "case": "exp " + c[:6000], "build": config, "observed": a[:400],
                               "model": (b or "")[:400], "branch": br, "detail": detail})
        if swapped:
            # exact symmetry (default std build: stable and debug; nightly's algebraic tail is outside the statement)
            a0 = imp[j - 1]
            if a0 == a:
                n_sym_exact += 1
            elif config != "nightly" and a0 is not None and a0.startswith("ok "):
                contradicted = True
                bad_prop += 1
                ctx.violation("C06:float-symmetry:%s" % name,
                              "%s (n=%d, %s data, %s build): cosine(a, b) = %s but cosine(b, a) = %s — not bit-identical" % (
                                  name, n, cls, config, a0[:40], a[:40]),
                              {"kind": "input", "case": "exp " + cases[j - 1][:3000], "swapped_case": "exp " + c[:3000],
                               "build": config, "observed": a0[:200], "observed_swapped": a[:200], "model": (b or "")[:200]})
        if not contradicted and not exprun.lines_agree(a, b, e, config, n):
            bad_model += 1
            if bad_model <= 3:
                ctx.broke("correspondence", "%s: %s n=%d %s (%s): implementation and model differ (%s)" % (
                    what, name, n, cls, config, "oracles met" if verdict else "oracles silent"),
                    {"case": c[:3000], "impl": a[:400], "model": (b or "")[:400]})
    k = len(cases) // 2
    dist["float_symmetric_pairs_bit_identical"] = n_sym_exact
    ctx.cover(len(cases), distinct_keys=["%s|%s|%d" % (what, config, hash(c)) for c in cases],
              samples=[{"case": cases[k][:200], "impl": (imp[k] or "")[:60], "model": (mod[k] or "")[:60]}],
              rule="%s (%s build): every float cosine export called by name with geometry classes %s, each case also with a "
                   "and b swapped; oracles in exact rational arithmetic on the decoded bit patterns (zero branches exact, "
                   "|result - exact| <= 4(n+8)u inside the well-scaled domain, range, ~0 for identical vectors), outputs of "
                   "the swapped pair bit-identical (stable/debug), implementation line = Coq model line (bit for bit on "
                   "stable; property tolerance on nightly); distinct = distinct case line" % (what, config, list(classes)),
              dist=dist)
    ctx.extra.setdefault("correspondence_C", {})["%s/%s" % (what, config)] = {
        "cases": len(cases), "model_disagreements": bad_model, "oracle_decided": n_decided, "property_violations": bad_prop,
        "swapped_pairs": len(cases) // 2, "swapped_pairs_bit_identical": n_sym_exact,
        "branches": {k_: v for k_, v in dist.items() if k_.startswith("float_")}}


def run(ctx):
    facts = ctx.translate(steps=("tables",))
    ctx.trusted += ["Coq 8.16.1 kernel", "hand models Model/Kernels.v (cosine, generic_cosine: tied by correspondence A), "
                    "Model/Regs.v (B, C)", "Model/Spec.v spec_int KCosine = the executable specification (extracted: the integer "
                    "oracle); Model/Prim.v (wrapping_*, i_sqrt = `(a as f64).sqrt() as T`, Flocq IEEE)",
                    "harness/cfh, OCaml drivers, extraction (ExtrOcamlBasic only); the float oracles of checks/c06.py "
                    "(Python Fractions on decoded bit patterns)"]
    ctx.assumptions += ["accuracy/range/identical-vector theorems: for the well-scaled domain stated in Props/C06.v "
                        "(finite inputs, no underflowing element product, squared norms and their product inside the normal "
                        "range with a factor-4 margin, (n+8)u <= 1/16), default std build (StdMath)",
                        "nightly builds (AutoMath = FastMath, algebraic float tail): held to the property's tolerance, exact "
                        "symmetry is not demanded there",
                        "Flocq's 4 standard-library axioms appear under the float theorems"]
    ctx.prove("Props/C06.v")
    # tie 1 (translator): the kernels this property speaks about, regenerated from op_*.rs, ARE the model (Props/C06Gen.v);
    # a difference is reported as broken and the correspondence runs below search for the concrete input
    ctx.translate(steps=("kernels",))
    ctx.prove("Props/C06Gen.v")

    symrun.run(ctx, kernels=["KCosine"])
    thorough = ctx.tier == "thorough"
    # thorough: every length that changes a loop trip count (the grid of the symbolic run), two placements
    lens_fn = symrun.dims_grid if thorough else exprun.quick_lens
    places = ("R", "3") if thorough else ("R",)
    # element-wise value classes through the shared driver (spec_int decides the integer cases; floats: model only)
    exprun.run_property(ctx, "C:cosine", "C06", ops=["generic_cosine"],
                        classes=("random", "boundary", "small") if thorough else ("small", "boundary"),
                        lens_fn=exprun.full_lens if thorough else exprun.quick_lens, places=("R",), seed_tag=6)
    # the const-dimension form of every cosine export (xconst::<D>), same oracles
    exprun.run_property(ctx, "C:cosine-xconst", "C06", ops=["generic_cosine"], classes=("small", "random"),
                        lens_fn=lambda L: CONST_DIMS if thorough else CONST_DIMS_QUICK, places=("R",), forms=("c",),
                        const_dims=CONST_DIMS, seed_tag=66)
    # vector-level classes reaching every branch, and the float geometry classes with their oracles
    for config in ("stable", "nightly") + (("debug",) if thorough else ()):
        # a byte-misaligned placement ("3") is not a valid &[T] for multi-byte T: the debug build's own precondition
        # check of slice::from_raw_parts aborts inside the HARNESS; debug runs use the two guard-page placements
        pl = ("R", "L") if config == "debug" else places
        run_ints(ctx, facts, config, lens_fn, INT_CLASSES, pl)
        run_floats(ctx, facts, config, lens_fn, FLOAT_CLASSES, pl)
    # the safe API (cfavml::*_xany_cosine / *_xconst_cosine) under dispatch masks: every back end the host can reach
    facts = ctx.translate(steps=("tables", "dispatch"))
    entries = [(i, s_) for i, s_ in enumerate(facts.get("safe_entries", [])) if "_cosine" in s_["any"]]
    lens = [0, 3, 17, 65] if not thorough else [0, 1, 3, 8, 17, 33, 65, 130]
    for config, masks in ((("stable", [0, 2, 6]), ("nightly", [0])) if not thorough else
                          (("stable", [0, 2, 4, 6]), ("debug", [0, 6]), ("nightly", [0, 1, 3, 7]))):
        cases, meta = saferun.gen_safe_cases(ctx, facts, config, entries, lens, [(0, 0, 0, 0)], masks, seed_tag=67, cls="small")
        saferun.compare_safe(ctx, config, cases, meta, "D:safe-cosine", spec_pid="C06")
