"""Run the same case lines through the implementation harness and the model driver, in parallel shards,
and diff the canonical result lines."""
import os
import subprocess
import tempfile
from concurrent.futures import ThreadPoolExecutor

import harness_build
import lib


def _run(cmd, text, env=None, timeout=1800):
    e = dict(lib.ENV)
    if env:
        e.update(env)
    try:
        p = subprocess.run(cmd, input=text, stdout=subprocess.PIPE, stderr=subprocess.PIPE, text=True, env=e,
                           timeout=timeout, errors="replace")
        return p.returncode, p.stdout, p.stderr
    except subprocess.TimeoutExpired:
        return 124, "", "timeout"


def shard(cases, n):
    k = max(1, min(n, (len(cases) + 49) // 50))
    return [cases[i::k] for i in range(k)]


def run_lines(cmd, cases, env=None, nshards=None, timeout=1800):
    """Returns list of output lines aligned with cases (None where the process died before answering)."""
    nshards = nshards or lib.NCPU
    parts = shard(cases, nshards)
    outs = [None] * len(cases)
    idx = [list(range(len(cases)))[i::len(parts)] for i in range(len(parts))]

    def work(j):
        rc, out, err = _run(cmd, "\n".join(parts[j]) + "\n", env=env, timeout=timeout)
        lines = out.split("\n")
        if lines and lines[-1] == "":
            lines.pop()
        return j, rc, lines, err

    with ThreadPoolExecutor(max_workers=len(parts)) as ex:
        for j, rc, lines, err in ex.map(work, range(len(parts))):
            for k, ci in enumerate(idx[j]):
                if k < len(lines):
                    outs[ci] = lines[k]
                else:
                    outs[ci] = None if rc == 0 else "signal %d" % (-rc if rc < 0 else rc) if k == len(lines) else None
    return outs


def impl(mode, cases, config="stable", env=None, **kw):
    return run_lines([harness_build.cfh_bin(config), mode], cases, env=env, **kw)


def model(mode, cases, **kw):
    return run_lines([harness_build.driver_bin(), mode], cases, env={"OCAMLRUNPARAM": "l=8G"}, **kw)
