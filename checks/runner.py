"""Run the same case lines through the implementation harness and the model driver, in parallel shards,
and diff the canonical result lines."""
import os
import subprocess
import tempfile
from concurrent.futures import ThreadPoolExecutor

import harness_build
import lib


def _run(cmd, text, env=None, timeout=1800):
    e = dict(lib.ENV)
    if env:
        e.update(env)
    try:
        p = subprocess.run(cmd, input=text, stdout=subprocess.PIPE, stderr=subprocess.PIPE, text=True, env=e,
                           timeout=timeout, errors="replace")
        return p.returncode, p.stdout, p.stderr
    except subprocess.TimeoutExpired as ex:
        # keep what the process had answered before it stopped answering (one flushed line per case)
        out = ex.stdout or ""
        if isinstance(out, bytes):
            out = out.decode("utf-8", "replace")
        return 124, out, "timeout"


def shard(cases, n):
    k = max(1, min(n, (len(cases) + 49) // 50))
    return [cases[i::k] for i in range(k)]


def run_lines(cmd, cases, env=None, nshards=None, timeout=1800):
    """Returns list of output lines aligned with cases.  A process that dies before answering a case gets
    "signal <n>" for that case and the rest of its shard is re-run in a fresh process."""
    nshards = nshards or lib.NCPU
    k = max(1, min(nshards, (len(cases) + 49) // 50))
    idx = [list(range(len(cases)))[i::k] for i in range(k)]
    outs = [None] * len(cases)

    def work(j):
        todo = list(idx[j])
        res = {}
        restarts = 0
        while todo and restarts < 5000:
            rc, out, err = _run(cmd, "\n".join(cases[c] for c in todo) + "\n", env=env, timeout=timeout)
            lines = out.split("\n")
            if lines and lines[-1] == "":
                lines.pop()
            n = min(len(lines), len(todo))
            for t in range(n):
                res[todo[t]] = lines[t]
            if n == len(todo):
                break
            res[todo[n]] = "signal %d%s" % (-rc if rc < 0 else rc, " timeout" if rc in (124, -14) else "")
            todo = todo[n + 1:]
            restarts += 1
        for c in todo:
            res.setdefault(c, "unrun")
        return res

    with ThreadPoolExecutor(max_workers=k) as ex:
        for res in ex.map(work, range(k)):
            for ci, ln in res.items():
                outs[ci] = ln
    return outs


def impl(mode, cases, config="stable", env=None, variant=None, **kw):
    return run_lines([harness_build.cfh_bin(config, variant), mode], cases, env=env, **kw)


def model(mode, cases, **kw):
    return run_lines([harness_build.driver_bin(), mode], cases, env={"OCAMLRUNPARAM": "l=8G"}, **kw)
