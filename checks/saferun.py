"""Correspondence (D): the safe API under every dispatch outcome (needs the hook, --cfg cfavml_verif)."""
import harness_build
import lib
from checks import exprun, runner

SAFE_KIND = {"export_safe_distance_op": "Dist", "export_safe_fma_norm_op": "Horiz", "export_safe_nofma_norm_op": "Horiz",
             "export_safe_horizontal_op": "Horiz", "export_safe_vertical_op": "Vert", "export_safe_value_op": "Value",
             "export_safe_arithmetic_vector_x_value_op": "Value", "export_safe_arithmetic_vector_x_vector_op": "Vert"}
CONST_DIMS = [0, 1, 3, 7, 8, 13, 17, 33, 65, 130]


def host_bits():
    flags = ""
    try:
        for ln in open("/proc/cpuinfo"):
            if ln.startswith("flags"):
                flags = " " + ln.split(":", 1)[1] + " "
                break
    except OSError:
        pass
    return (1 if " avx512f " in flags else 0) | (2 if " avx2 " in flags else 0) | (4 if " fma " in flags else 0)


def hook_ready(ctx):
    if not harness_build.hook_present():
        ctx.broke("correspondence", "D: dispatch hook missing", "cfavml/src/dispatch.rs has no verif_hook module")
        return False
    return True


def check_dispatch(ctx, facts=None):
    """(D)(i): the real dispatch! macro under all masks x all 16 supplied-slot subsets, stable and nightly."""
    if not hook_ready(ctx):
        return
    host = host_bits()
    okd, log = harness_build.build_driver()
    if not okd:
        ctx.broke("correspondence", "D: model driver build", log[-1200:])
        return
    for config in ("stable", "nightly"):
        ok, log = harness_build.build_cfh(config)
        if not ok:
            ctx.broke("correspondence", "D: harness build (%s)" % config, log[-1200:])
            continue
        nightly = 1 if config == "nightly" else 0
        cases = []
        for mask in range(8):
            for sup in range(16):
                cases.append("%d %d %d %d" % (nightly, host & ~mask & 7, sup, mask))
        imp = runner.impl("dispatch", cases, config=config)
        mod = runner.model("dispatch", cases)
        chain = [(m or "").split(" ")[0] for m in mod]
        spec = [((m or "").split(" ") + [""])[1] for m in mod]
        bad = [(c, a, sp) for c, a, sp in zip(cases, imp, spec) if a != sp]
        for c, a, b in bad[:3]:
            n, avail, sup, mask = c.split()
            ctx.violation("dispatch-select:%s" % c,
                          "dispatch! (%s build) with available features (bit0 avx512, bit1 avx2, bit2 fma) = %s and supplied slots "
                          "(bit0 avx512, bit1 avx2fma, bit2 avx2, bit3 neon) = %s invoked the '%s' candidate; the documented priority "
                          "order with each back end's required features selects '%s'" % (config, avail, sup, a, b),
                          {"kind": "input", "case": "dispatch " + c, "build": config, "observed": a, "expected_by_spec": b,
                           "feature_mask_applied_through_hook": mask})
        drift = [(c, a, ch) for c, a, ch in zip(cases, imp, chain) if a != ch]
        for c, a, ch in drift[:3]:
            ctx.broke("correspondence", "D(i): real dispatch! vs the regenerated chain, case %s (%s)" % (c, config),
                      {"impl": a, "model_chain": ch})
        ctx.cover(len(cases), distinct_keys=["disp:%s:%s" % (config, c) for c in cases],
                  samples=[{"case": cases[37], "impl": imp[37], "model_chain_and_spec": mod[37]}],
                  rule="(D)(i) real cfavml::dispatch! with recording closures: 8 feature masks x 16 supplied-slot subsets "
                       "x {stable, nightly}; exhaustive", dist={"dispatch_" + config: len(cases)})
        ctx.extra.setdefault("correspondence_D_dispatch", {})[config] = {"cases": len(cases), "disagreements": len(bad),
                                                                         "host_feature_bits": host}


def shape(kind, n):
    return {"Dist": (n, n, 0), "Horiz": (n, 0, 0), "Vert": (n, n, n), "Value": (n, 0, n)}[kind]


def safe_line(sidx, s, form, DIMS, debug, nightly, avail, mask, place, v, a, b, r):
    ty = s["ty"]
    name = s["const"] if form == "c" else s["any"]
    toks = [str(sidx), str(nightly), str(avail), str(mask), name, form, "-" if DIMS is None else str(DIMS),
            "1" if debug else "0", str(len(a)), str(len(b)), str(len(r)), place, exprun.fmt(ty, v)]
    toks += [exprun.fmt(ty, x) for x in a] + [exprun.fmt(ty, x) for x in b] + [exprun.fmt(ty, x) for x in r]
    return " ".join(toks)


def gen_safe_cases(ctx, facts, config, entries, lens, mismatches, masks, forms=("a", "c"), cls="random", seed_tag=1,
                   ops_filter=None):
    """lens: documented lengths; mismatches: list of (da, db, dr, dD) deltas applied to a documented call."""
    g = exprun.Gen(ctx.seed * 7919 + seed_tag)
    host = host_bits()
    nightly = 1 if config == "nightly" else 0
    debug = config == "debug"
    cases, meta = [], []
    for sidx, s in entries:
        kind = SAFE_KIND[s["macro"]]
        ty = s["ty"]
        is_div = "div" in s["any"]
        for form in forms:
            for n in lens:
                if form == "c" and n not in CONST_DIMS:
                    continue
                for (da, db, dr, dD) in mismatches:
                    la, lb, lr = shape(kind, n)
                    la2 = max(0, la + da)
                    lb2 = max(0, lb + db) if kind in ("Dist", "Vert") else 0
                    lr2 = max(0, lr + dr) if kind in ("Vert", "Value") else 0
                    D = n + dD if form == "c" else None
                    if form == "c" and D not in CONST_DIMS:
                        continue
                    if form == "a" and dD != 0:
                        continue
                    a = g.vec(ty, la2, cls)
                    b = g.vec(ty, lb2, cls, nonzero=is_div)
                    r = g.vec(ty, lr2, "random")
                    v = g.vec(ty, 1, cls, nonzero=is_div)[0]
                    for mi, mask in enumerate(masks):
                        # slices flush against the guard page on the right ("R": catches accesses past the end) and on
                        # the left ("L": catches accesses before the start), alternating so that every (routine, shape)
                        # meets both placements across the masks / lengths
                        place = "R" if (mi + n + len(cases)) % 2 == 0 else "L"
                        cases.append(safe_line(sidx, s, form, D, debug, nightly, host & ~mask & 7, mask, place, v, a, b, r))
                        meta.append((sidx, s, form, n, (la2 - n, (lb2 - n) if kind in ('Dist', 'Vert') else 0, (lr2 - n) if kind in ('Vert', 'Value') else 0, (D - n) if D is not None else 0), mask))
    return cases, meta


def check_safe_spec(ctx, pid, config, cases, meta, imp):
    """The SPECIFICATION (Model/Spec.v, extracted) of the operation the safe routine's NAME announces, applied to the
    implementation's output of every documented call (the model of the wrapper is regenerated from the same tables as the
    code, so a mis-wired slot is invisible to the impl-vs-model comparison; it is not invisible to the specification)."""
    todo = []
    for i, (c, m) in enumerate(zip(cases, meta)):
        sidx, s, form, n, delta, mask = m
        if delta != (0, 0, 0, 0):
            continue
        parts = s["any"].split("_")
        op = "_".join(parts[2:])
        kern = exprun.KERNEL_OF_OPNAME.get(op)
        if kern is None:
            continue
        toks = c.split(" ")
        todo.append((i, "%s:Fallback:%s " % (s["ty"], kern) + " ".join(toks[4:]), kern))
    if not todo:
        return
    spec = runner.model("spec", [t[1] for t in todo])
    nbad = {}
    for (i, line, kern), sp in zip(todo, spec):
        sidx, s, form, n, delta, mask = meta[i]
        e = {"op": exprun.RUST_OF_KERNEL[kern], "ty": s["ty"]}
        a = imp[i]
        # the safe line prints `ok <ret|-> <cells...>` like the export line
        agree = exprun.spec_agrees(a, sp, e, config, n)
        if agree is False:
            name = s["const"] if form == "c" else s["any"]
            nbad[name] = nbad.get(name, 0) + 1
            if nbad[name] > 1 or len(nbad) > 6:
                continue
            ctx.violation("%s:safe-spec:%s[mask=%d]" % (pid, name, mask),
                          "safe routine %s (n=%d, feature mask %d through the hook, %s build) returned a result the property forbids for "
                          "the operation its name announces" % (name, n, mask, config),
                          {"kind": "input", "case": "safe " + cases[i][:4000], "build": config, "observed": (a or "<crashed>")[:1500],
                           "specification": (sp or "")[:1500], "spec": "Model/Spec.v via ocaml driver `spec`"})
    ctx.extra.setdefault("safe_spec_oracle", {})["%s/%s" % (pid, config)] = {"documented_calls": len(todo), "routines_failing": len(nbad)}


def compare_safe(ctx, config, cases, meta, what, on_diff=None, shape_only=False, spec_pid=None):
    if not hook_ready(ctx):
        return -1
    ok, log = harness_build.build_cfh(config)
    if not ok:
        ctx.broke("correspondence", "%s: harness build (%s)" % (what, config), log[-1500:])
        return -1
    okd, log = harness_build.build_driver()
    if not okd:
        ctx.broke("correspondence", "%s: model driver build" % what, log[-1500:])
        return -1
    imp = runner.impl("safe", cases, config=config)
    mod = runner.model("safe", cases)
    bad = 0
    dist = {}
    for c, m, a, b in zip(cases, meta, imp, mod):
        sidx, s, form, n, delta, mask = m
        key = "safe_%s_%s" % ("match" if delta == (0, 0, 0, 0) else "mismatch", "panic" if (b or "").startswith("panic") else "ok")
        dist[key] = dist.get(key, 0) + 1
        e = {"op": "generic_max" if ("max" in s["any"] or "min" in s["any"]) else "", "ty": s["ty"]}
        e["op"] = "generic_max_vertical" if e["op"] else "x"
        ca, cb = exprun.canon_line(a, e), exprun.canon_line(b, e)
        if shape_only:
            # outcome class and number of result cells only (values are other properties' business)
            sh = lambda x: None if x is None else (x if not x.startswith("ok") else "ok %d" % len(x.split()))
            ca, cb = sh(ca), sh(cb)
        if ca != cb:
            bad += 1
            if bad <= 3:
                handled = on_diff(ctx, c, m, a, b, config) if on_diff else False
                if not handled:
                    name = s["const"] if form == "c" else s["any"]
                    ctx.broke("correspondence", "%s: %s n=%d delta=%s mask=%d (%s)" % (what, name, n, delta, mask, config),
                              {"case": c[:3000], "build": config, "impl": (a or "<crashed>")[:1500], "model": (b or "")[:1500]})
    if spec_pid:
        check_safe_spec(ctx, spec_pid, config, cases, meta, imp)
    ctx.cover(len(cases), distinct_keys=["%s|%d" % (what, hash(c)) for c in cases],
              samples=[{"case": cases[0][:300], "impl": (imp[0] or "")[:150], "model": (mod[0] or "")[:150]}] if cases else [],
              rule="%s: safe routines called by name under a feature mask (hook) on guard-paged slices, %s build; "
                   "impl line (result or panic kind) must equal the model's" % (what, config), dist=dist)
    ctx.extra.setdefault("correspondence_D", {})["%s/%s" % (what, config)] = {"cases": len(cases), "disagreements": bad}
    return bad
