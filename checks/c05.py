"""C05 — vertical, by-value and horizontal min / max return the true extreme."""
from checks import exprun, saferun, symrun

LEVEL = "proof"
OPS = ["generic_max_vertical", "generic_min_vertical", "generic_max_value", "generic_min_value",
       "generic_max_horizontal", "generic_min_horizontal"]
KERNELS = ["KMaxV", "KMinV", "KMaxVal", "KMinVal", "KMaxH", "KMinH"]


def run(ctx):
    facts = ctx.translate(steps=("tables", "dispatch"))
    ctx.trusted += ["Coq 8.16.1 kernel", "hand models Model/Kernels.v (tied by correspondence A), Model/Regs.v (B, C)",
                    "Model/Spec.v = the executable specification (extracted: the oracle); Model/Prim.v "
                    "(Ord::max/min, f32::max/min, x86 MAXPS/MINPS lane semantics)",
                    "harness/cfh, OCaml drivers, extraction (ExtrOcamlBasic only); the dispatch hook for the safe-API runs"]
    ctx.assumptions += ["float results are compared modulo the sign of zero (+0 and -0 compare equal: the property's words); "
                        "NaN inputs are outside the property (specification: unspecified) but still compared with the model",
                        "Flocq's 4 standard-library axioms appear under the float theorems"]
    ctx.prove("Props/C05.v")
    # tie 1 (translator): the kernels this property speaks about, regenerated from op_*.rs, ARE the model (Props/C05Gen.v);
    # a difference is reported as broken and the correspondence runs below search for the concrete input
    ctx.translate(steps=("kernels",))
    ctx.prove("Props/C05Gen.v")

    symrun.run(ctx, kernels=KERNELS)
    thorough = ctx.tier == "thorough"
    exprun.run_property(ctx, "C:minmax", "C05", ops=OPS,
                        classes=("random", "boundary", "special", "small", "extreme", "onesign", "lowhalf") if thorough else ("random", "special", "extreme", "onesign", "lowhalf"),
                        lens_fn=exprun.full_lens if thorough else exprun.quick_lens,
                        places=("R", "L", "3") if thorough else ("R",), seed_tag=5)
    entries = [(i, s) for i, s in enumerate(facts.get("safe_entries", []))
               if any(k in s["any"] for k in ("_max_", "_min_"))]
    lens = [0, 3, 17, 65] if not thorough else [0, 1, 3, 8, 17, 33, 65, 130]
    for config, masks in ((("stable", [0, 2, 6]), ("nightly", [0])) if not thorough else
                          (("stable", [0, 2, 4, 6]), ("debug", [0, 6]), ("nightly", [0, 1, 3, 7]))):
        cases, meta = saferun.gen_safe_cases(ctx, facts, config, entries, lens, [(0, 0, 0, 0)], masks, seed_tag=55,
                                             cls="boundary" if thorough else "random")
        saferun.compare_safe(ctx, config, cases, meta, "D:safe-minmax", spec_pid="C05")
