"""C17 — the thread pool honours its configuration for every environment and affinity   (partial: rayon / OS are oracles)

Decision procedure (DESIGN §2.6):
  1. tools/translate_utils.py regenerates the literals/forms of threadpool.rs and pinning.rs into coq/Gen/GenConstsUtils.v;
  2. Props/C17.v (theorems over Model/ThreadPool.v instantiated with those literals) is built and audited;
  3. correspondence (E): harness/utilh (release + debug + env-var-compat, built from the working tree) is run in a FRESH
     PROCESS per configuration (environment set with env(1), affinity with taskset(1)); it reports the physical core count
     P, the affinity-visible CPUs and available parallelism it sees, the pool's thread count, a job on every worker with the
     affinity of that worker, a parallel sum, and the identity/kind of a second get_or_init_pool(); `race N` starts N threads
     that call get_or_init_pool() at a barrier.  The model (`obs_probe`, `obs_race`) is evaluated on the SAME inputs
     (environment, P, available parallelism, CPU list, profile) with `Eval vm_compute`; every observation is compared;
  4. the SPECIFICATION — the property's own words, as the Coq definitions `spec_threads_ok` / `spec_flag` applied to what
     the IMPLEMENTATION did — decides what is a violation.
"""
import concurrent.futures
import json
import os
import re
import time

import lib
from checks import utilh_build as ub

LEVEL = "proof"

NUMS = [None, "", "0", "1", "3", "+4", "16", "17", "-1", "abc", "1e3", " 4", "99999999999999999999999"]
FLAGS = [None, "1", "true", "TRUE", "True", "0", "yes"]
RAYONS = [None, "2", "64"]
MASKS = ["all", "0-3", "5", "0,2,4,6"]
BUILDS = ["release", "debug"]
NOT_UNICODE = "\udcff\udcfe"      # bytes ff fe through os.fsencode: std::env::var returns Err(NotUnicode)

V_NUM, V_NOPIN, V_NOCACHE, V_RAYON = "CFAVML_NUM_THREADS", "CFAVML_NO_PINNING", "CFAVML_NO_CACHE_THREADPOOL", "RAYON_NUM_THREADS"
V_OMP, V_OPENBLAS = "OMP_NUM_THREADS", "OPENBLAS_NUM_THREADS"
ALL_VARS = [V_NUM, V_NOPIN, V_NOCACHE, V_RAYON, "RAYON_RS_NUM_CPUS", V_OMP, V_OPENBLAS, "CFAVML_DEBUG"]
JOB_SUM = 99990000


def case(build, num=None, nopin=None, nocache=None, rayon=None, mask="all", mode="probe", n=0, extra=None):
    env = {V_NUM: num, V_NOPIN: nopin, V_NOCACHE: nocache, V_RAYON: rayon}
    if extra:
        env.update(extra)
    return {"build": build, "mode": mode, "n": n, "mask": mask, "env": {k: v for k, v in env.items() if v is not None}}


def case_key(c):
    return (c["build"], c["mode"], c["n"], c["mask"], tuple(sorted(c["env"].items())))


def simplicity(c):
    """Order in which observations are judged: the first violation of a class is the simplest configuration."""
    return (len(c["env"]) + (c["mask"] != "all"), c["build"] == "compat", c["build"] != "release" and c["mask"] == "all",
            c["mode"] != "probe", c["n"], MASKS.index(c["mask"]) if c["mask"] in MASKS else 9, sorted(c["env"].items()))


# ------------------------------------------------------------------------------------------------
# grids
# ------------------------------------------------------------------------------------------------

def pairwise(seed):
    """Greedy pairwise-covering array over NUM x NO_PINNING x NO_CACHE x RAYON x mask x build (seeded, deterministic)."""
    rng = lib.SplitMix(seed ^ 0xC17)
    factors = [NUMS, FLAGS, FLAGS, RAYONS, MASKS, BUILDS]
    need = set()
    for i in range(len(factors)):
        for j in range(i + 1, len(factors)):
            for a in range(len(factors[i])):
                for b in range(len(factors[j])):
                    need.add((i, a, j, b))
    rows = []
    while need:
        best, best_cov = None, -1
        # seed each candidate with one uncovered pair so that progress is guaranteed
        seeds = sorted(need)
        for _ in range(24):
            i, a, j, b = seeds[rng.below(len(seeds))]
            row = [rng.below(len(f)) for f in factors]
            row[i], row[j] = a, b
            cov = sum(1 for x in range(len(factors)) for y in range(x + 1, len(factors)) if (x, row[x], y, row[y]) in need)
            if cov > best_cov:
                best, best_cov = row, cov
        rows.append(best)
        for x in range(len(factors)):
            for y in range(x + 1, len(factors)):
                need.discard((x, best[x], y, best[y]))
    return [case(BUILDS[r[5]], NUMS[r[0]], FLAGS[r[1]], FLAGS[r[2]], RAYONS[r[3]], MASKS[r[4]]) for r in rows]


def compat_cases():
    cs = []
    for extra in ({V_OMP: "3"}, {V_OPENBLAS: "5"}, {V_OMP: "3", V_OPENBLAS: "5"}, {V_OMP: "abc", V_OPENBLAS: "5"},
                  {V_OMP: "", V_OPENBLAS: "2"}, {V_OMP: "0"}, {V_OMP: "0", V_RAYON: "64"}, {V_OPENBLAS: "0", V_RAYON: "64"},
                  {V_OMP: "99"}, {V_OMP: NOT_UNICODE, V_OPENBLAS: "2"}):
        cs.append(case("compat", extra=extra))
        cs.append(case("compat", num="2", extra=extra))
        cs.append(case("release", extra=extra))       # feature off: the variables must be ignored
    cs.append(case("compat"))
    cs.append(case("compat", num="abc", extra={V_OMP: "3"}))
    cs.append(case("compat", mask="0-3", extra={V_OMP: "3"}))
    return cs


def grid(tier, seed):
    cs = []
    if tier == "thorough":
        for b in BUILDS:
            for m in MASKS:
                for r in RAYONS:
                    for nc in FLAGS:
                        for npn in FLAGS:
                            for num in NUMS:
                                cs.append(case(b, num, npn, nc, r, m))
        race_n, race_flags, race_masks = [2, 3, 8, 16, 32, 64], FLAGS, ["all", "0,2,4,6"]
    else:
        cs += pairwise(seed)
        # every thread-count value against every rayon setting, and every mask against every pinning flag
        cs += [case(b, num, None, None, r, "all") for b in BUILDS for num in NUMS for r in RAYONS]
        cs += [case(b, None, npn, None, None, m) for b in BUILDS for m in MASKS for npn in FLAGS]
        cs += [case(b, num, None, None, None, m) for b in BUILDS for m in MASKS[1:] for num in ("0", "1", "3", "+4", "17")]
        cs += [case(b, None, None, nc, None, "all") for b in BUILDS for nc in FLAGS]
        race_n, race_flags, race_masks = [2, 16, 64], [None, "1", "TRUE", "True", "0"], ["all"]
    # values std::env::var rejects as not unicode
    for b in BUILDS:
        cs += [case(b, num=NOT_UNICODE), case(b, num=NOT_UNICODE, rayon="2"), case(b, nocache=NOT_UNICODE), case(b, nopin=NOT_UNICODE, mask="0-3")]
    cs += compat_cases()
    # racing first use
    for b in BUILDS:
        for n in race_n:
            for nc in race_flags:
                for m in race_masks:
                    # keep the pools small when every racer builds its own; under a mask stay inside it (debug builds abort otherwise)
                    num = "2" if (m != "all" or (n >= 32 and nc in ("1", "true", "TRUE"))) else None
                    cs.append(case(b, num=num, nocache=nc, mask=m, mode="race", n=n))
    seen, out = set(), []
    for c in cs:
        k = case_key(c)
        if k not in seen:
            seen.add(k)
            out.append(c)
    return out


# ------------------------------------------------------------------------------------------------
# implementation side
# ------------------------------------------------------------------------------------------------

def command(c):
    cmd = ["env"]
    for v in ALL_VARS:
        cmd += ["-u", v]
    cmd.append("RUST_BACKTRACE=0")
    for k, v in sorted(c["env"].items()):
        cmd.append("%s=%s" % (k, v))
    if c["mask"] != "all":
        cmd += ["taskset", "-c", c["mask"]]
    cmd.append(ub.bin_path(c["build"]))
    cmd += ["probe"] if c["mode"] == "probe" else ["race", str(c["n"])]
    return cmd


def shell_line(c):
    """The case as a line for a POSIX shell with $'..' quoting (bash)."""
    def q(s):
        b = os.fsencode(s)
        if re.fullmatch(rb"[\w@%+:,./-]+", b):
            return s
        if all(32 <= x < 127 for x in b):
            return "'" + s.replace("'", "'\\''") + "'"
        return "$'" + "".join("\\x%02x" % x for x in b) + "'"

    parts = []
    for x in command(c):
        if re.match(r"[A-Z_]+=", x):
            k, v = x.split("=", 1)
            parts.append(k + "=" + (q(v) if v else ""))
        else:
            parts.append(q(x))
    return " ".join(parts)


def cpu_set(s):
    out = set()
    for part in s.split(","):
        part = part.strip()
        if not part:
            continue
        if "-" in part:
            a, b = part.split("-")
            out.update(range(int(a), int(b) + 1))
        else:
            out.add(int(part))
    return out


def run_case(c):
    rc, out = lib.sh(command(c), timeout=120)
    o = {"rc": rc, "raw": out[-1500:], "done": False}
    for ln in out.splitlines():
        m = re.match(r"sys P=(\d+) A=(\d+) cores=(\S*) avail=(\d+) logical=(\d+)$", ln)
        if m:
            o.update(P=int(m.group(1)), A=int(m.group(2)), cores=[int(x) for x in m.group(3).split(",") if x], avail=int(m.group(4)))
            continue
        m = re.match(r"pool1 threads=(\d+) kind=(\w)$", ln)
        if m:
            o.update(t1=int(m.group(1)), k1=m.group(2))
            continue
        m = re.match(r"workers n=(\d+) (\S*)$", ln)
        if m:
            o["wn"] = int(m.group(1))
            o["workers"] = [tuple(w.split(":", 1)) for w in m.group(2).split(";") if w]
            continue
        m = re.match(r"job sum=(\d+)$", ln)
        if m:
            o["sum"] = int(m.group(1))
            continue
        m = re.match(r"pool2 threads=(\d+) kind=(\w) same=(\d)$", ln)
        if m:
            o.update(t2=int(m.group(1)), k2=m.group(2), same=int(m.group(3)))
            continue
        m = re.match(r"race n=(\d+) kinds=(\w*) ids=(\S*) threads=(\S*)$", ln)
        if m:
            o.update(rn=int(m.group(1)), kinds=m.group(2), ids=m.group(3).split(","), rthreads=[int(x) for x in m.group(4).split(",") if x])
            continue
        if ln == "done":
            o["done"] = True
        if "Cannot pin to CPU that does not exist" in ln:
            o["pin_panic"] = ln.strip()[:200]
    return o


# ------------------------------------------------------------------------------------------------
# model side
# ------------------------------------------------------------------------------------------------

def coq_env_val(v):
    if v is None:
        return "EAbsent"
    if any(ord(ch) > 126 or ord(ch) < 32 for ch in v):
        return "ENotUnicode"
    return "EVal %s" % ub.coq_str(v)


def coq_env(env):
    return "(env_of [%s])" % "; ".join("(%s, %s)" % (ub.coq_str(k), coq_env_val(v)) for k, v in sorted(env.items()))


def deciding_request(c):
    """The thread-count variable the documentation says decides: the crate's own, then (env-var-compat) OMP, OPENBLAS."""
    names = [V_NUM] + ([V_OMP, V_OPENBLAS] if c["build"] == "compat" else [])
    for nme in names:
        v = c["env"].get(nme)
        if v is not None and coq_env_val(v) != "ENotUnicode":   # std::env::var(..) is Err for a non-unicode value
            return v
    return None


def schedule(c, seed):
    k = c["n"]
    rng = lib.SplitMix(seed ^ (k * 7919) ^ len(c["env"]))
    return [rng.below(k) for _ in range(6 * k)] + list(range(k)) * 4


def model_eval(items, seed, nproc):
    """items: [(case, obs)] with obs carrying P / avail / cores.  Returns ({index: rows}, error)."""
    hdr = ["From Coq Require Import ZArith List String.", "Import ListNotations.", "Open Scope Z_scope.",
           "From CF Require Import Gen.GenConstsUtils Model.AlignedBuf Model.ThreadPool."]
    bodies = [list(hdr) for _ in range(nproc)]
    per = 150
    chunks = [list(range(i, min(i + per, len(items)))) for i in range(0, len(items), per)]
    for n, idxs in enumerate(chunks):
        rows = []
        for i in idxs:
            c, o = items[i]
            tp = "(gen_tp_params %s)" % ("true" if c["build"] == "compat" else "false")
            prof = "Debug" if c["build"] == "debug" else "Release"
            e = coq_env(c["env"])
            rows.append("obs_probe %s %s %s %d %d [%s]" % (tp, prof, e, o["P"], o["avail"], "; ".join(str(x) for x in o["cores"])))
            # the specification applied to the IMPLEMENTATION's thread count (0 when it produced none)
            t_impl = o.get("t1", o["rthreads"][0] if o.get("rthreads") else 0)
            rows.append("[(if spec_threads_ok (%s) %d %d then 1 else 0); (if spec_flag (%s) then 1 else 0); (if spec_flag (%s) then 1 else 0); "
                        "(match %s with EVal s => match parse_usize s with Some n => n | None => -1 end | _ => -2 end)]" % (
                            coq_env_val(deciding_request(c)), o["P"], t_impl, coq_env_val(c["env"].get(V_NOCACHE)),
                            coq_env_val(c["env"].get(V_NOPIN)), coq_env_val(deciding_request(c))))
        b = bodies[n % nproc]
        b.append('Goal True. idtac "@@p%d". Abort.' % n)
        b.append("Eval vm_compute in [%s]." % ";\n  ".join(rows))
        b.append('Goal True. idtac "@@END". Abort.')
        for i in idxs:
            c, o = items[i]
            if c["mode"] == "race":
                tp = "(gen_tp_params %s)" % ("true" if c["build"] == "compat" else "false")
                b.append('Goal True. idtac "@@r%d". Abort.' % i)
                b.append("Eval vm_compute in (obs_race %s %s %d [%s]%%nat)." % (tp, coq_env(c["env"]), c["n"],
                                                                              "; ".join(str(x) for x in schedule(c, seed))))
                b.append('Goal True. idtac "@@END". Abort.')
    lists = {}
    with concurrent.futures.ThreadPoolExecutor(max_workers=nproc) as ex:
        futs = [ex.submit(lib.coq_eval, "\n".join(b) + "\n", 1500, "c17_%d" % k) for k, b in enumerate(bodies) if len(b) > len(hdr)]
        for f in futs:
            rc, out = f.result()
            if rc != 0:
                return None, out[-1500:]
            lists.update(ub.z_lists(out))
    res = {}
    for n, idxs in enumerate(chunks):
        rows = lists.get("p%d" % n)
        if rows is None or len(rows) != 2 * len(idxs):
            return None, "model output p%d has %s rows, expected %d" % (n, None if rows is None else len(rows), 2 * len(idxs))
        for j, i in enumerate(idxs):
            res[i] = {"probe": rows[2 * j], "spec": rows[2 * j + 1], "race": lists.get("r%d" % i)}
    return res, None


# ------------------------------------------------------------------------------------------------
# the check
# ------------------------------------------------------------------------------------------------

def num_class(v):
    if v is None:
        return "unset"
    if coq_env_val(v) == "ENotUnicode":
        return "not-unicode"
    if v == "":
        return "empty"
    if re.fullmatch(r"\+?[0-9]+", v):
        n = int(v)
        return "zero" if n == 0 else ("huge" if n >= 1 << 64 else "positive")
    return "negative" if v.startswith("-") else "non-numeric"


def run(ctx):
    # drift trigger (DESIGN 2.5): the hand model is parametrised by the forms tools/translate_utils.py recognises; any other
    # token-level change of the file is reported as broken (not by itself a violation) so that it cannot pass unnoticed
    _drift = lib.source_drift("threadpool", ['cfavml-utils/src/threadpool.rs', 'cfavml-utils/src/pinning.rs'])
    if _drift:
        ctx.broke("translator", "source differs from the text the hand model was written against (corpus/fingerprints.json)", _drift)
    ctx.extra["source_drift"] = _drift
    facts, errors = ub.translate()
    for e in errors:
        if e["step"] in ("threadpool", "pinning", "cargo", "translate_utils", "render"):
            ctx.broke("translator", e["step"], e["error"])
    ctx.extra["source_form"] = {"threadpool": facts.get("threadpool"), "pinning": facts.get("pinning")}
    ctx.trusted += [
        "Coq 8.16.1 kernel + vm_compute",
        "tools/translate_utils.py (literals and forms of threadpool.rs / pinning.rs -> coq/Gen/GenConstsUtils.v)",
        "hand model coq/Model/ThreadPool.v (config parsing, requested count, pinning decisions, OnceLock small-step machine), tied by the correspondence",
        "harness/utilh (Rust: probe / race modes), checks/c17.py, env(1), taskset(1), /proc/thread-self/status",
        "ORACLES (contracts in Model/ThreadPool.v, observed on every case, not proved): std::env::var, usize::from_str, "
        "num_cpus::get_physical, core_affinity, std::thread::available_parallelism, rayon (num_threads(0) => RAYON_NUM_THREADS / "
        "available parallelism; start-handler panic aborts; a built pool runs submitted work), OnceLock::get_or_init",
    ]
    ctx.assumptions += [
        "1 <= physical cores <= 65535 (rayon's maximum pool size) and available parallelism >= 1",
        "that a built rayon pool runs submitted work is NOT proved (rayon is an oracle); it is observed: a broadcast job on every worker and a "
        "parallel sum in every configuration of the grid",
        "the schedule of racing callers is chosen by the OS; the theorem covers every schedule, the correspondence observes whichever occurred",
    ]
    ub.coq_models(ctx, ["Model/ThreadPool.vo"])
    ctx.prove("Props/C17.v")

    replay = None
    if os.environ.get("VERIF_REPLAY"):
        try:
            replay = json.load(open(os.environ["VERIF_REPLAY"]))
        except (OSError, ValueError):
            replay = None
    if replay and replay.get("build") and replay.get("mode"):
        cases = [{"build": replay["build"], "mode": replay["mode"], "n": int(replay.get("n", 0)), "mask": replay.get("mask", "all"),
                  "env": {k: v for k, v in (replay.get("env") or {}).items() if v is not None}}]
    else:
        cases = grid(ctx.tier, ctx.seed)

    for b in sorted({c["build"] for c in cases}):
        ok, log = ub.build(b)
        if not ok:
            ctx.broke("correspondence", "harness build " + b, log[-1200:])
            return

    # ---- implementation side ----------------------------------------------------------------
    t0 = time.time()
    with concurrent.futures.ThreadPoolExecutor(max_workers=8) as ex:
        obs = list(ex.map(run_case, cases))
    ctx.note("implementation side: %d fresh processes in %.1fs" % (len(cases), time.time() - t0))
    items = []
    for c, o in zip(cases, obs):
        if "P" not in o:
            ctx.broke("correspondence", "harness", "no `sys` line from %s (rc=%s): %s" % (shell_line(c), o["rc"], o["raw"][-300:]))
            continue
        items.append((c, o))
    items.sort(key=lambda it: simplicity(it[0]))

    # ---- model side ---------------------------------------------------------------------------
    t0 = time.time()
    model, err = model_eval(items, ctx.seed, nproc=4 if ctx.tier == "quick" else 10)
    if model is None:
        ctx.broke("correspondence", "model evaluation (coq_eval)", err)
        return
    ctx.note("model side: %d obs_probe + %d obs_race evaluations in %.1fs" % (
        len(items), sum(1 for c, _ in items if c["mode"] == "race"), time.time() - t0))

    n_eval = 0
    distinct = set()
    dist = {}
    samples, race_samples = [], []

    def short(c):
        return shell_line(c).split("RUST_BACKTRACE=0 ", 1)[1].replace(os.path.join(lib.BUILD, ""), "")

    def bump(k):
        dist[k] = dist.get(k, 0) + 1

    def replay_of(c, o, expected, observed):
        return {"kind": "input", "mode": c["mode"], "build": c["build"], "n": c["n"], "mask": c["mask"], "env": c["env"],
                "P": o.get("P"), "A": o.get("A"), "avail": o.get("avail"), "cores": o.get("cores"),
                "expected": expected, "observed": observed, "cmd": shell_line(c), "output_tail": re.sub(r"' \(\d+\) panicked", "' panicked", o["raw"][-600:])}

    for i, (c, o) in enumerate(items):
        n_eval += 1
        m = model[i]
        mp, sp = m["probe"], m["spec"]
        spec_threads_ok, spec_nocache, spec_nopin, req = sp[0] == 1, sp[1] == 1, sp[2] == 1, sp[3]
        P, A = o["P"], o["A"]
        where = "%s build, %s" % (c["build"], short(c))
        bump("build:" + c["build"])
        bump("mask:" + c["mask"])
        bump("mode:" + c["mode"])
        bump("num:" + num_class(deciding_request(c) if c["build"] == "compat" else c["env"].get(V_NUM)))
        bump("rayon:" + str(c["env"].get(V_RAYON)))
        bump("pinning:" + ("off" if spec_nopin else "on"))
        bump("cache:" + ("off" if spec_nocache else "on"))
        distinct.add(case_key(c) + (P, A, o["avail"]))
        finished = o["rc"] == 0 and o["done"]
        model_abort = (mp == [1])

        # ---- SPECIFICATION 1: obtaining the pool succeeds (no abort, no panic, no hang) ----
        if not finished:
            bump("outcome:abort")
            if c["build"] == "debug" and o.get("pin_panic") and not spec_nopin:
                key = "debug-pin-abort"
                what = ("debug build: get_or_init_pool() aborted the process (exit status %s) with %d affinity-visible CPUs and %d physical cores: "
                        "pin_current panicked inside rayon's start handler (%s) [%s]" % (o["rc"], A, P, o["pin_panic"][:120], where))
            else:
                key = ("hang:" if o["rc"] == 124 else "pool-creation-failed:") + c["build"]
                what = "get_or_init_pool() did not return a working pool: exit status %s [%s]: %s" % (o["rc"], where, o["raw"][-200:].replace("\n", " | "))
            ctx.violation(key, what, replay_of(c, o, "exit status 0, a pool with 1..%d threads that runs a job on every worker" % P,
                                               "exit status %s" % o["rc"]))
            if not model_abort:
                ctx.broke("correspondence", "create_pool outcome (%s)" % where, "implementation aborted (rc=%s), model predicts %s" % (o["rc"], mp))
            continue
        if model_abort:
            ctx.broke("correspondence", "create_pool outcome (%s)" % where, "model predicts a process abort, implementation finished: %s" % o["raw"][-300:])
            continue
        if len(mp) < 6 or mp[0] != 0:
            ctx.broke("correspondence", "model observation (%s)" % where, "unexpected model output %s" % mp)
            continue
        mt, mo1, mo2, msame = mp[1], mp[2], mp[3], mp[4]
        maff = mp[6:]

        if c["mode"] == "probe":
            bump("outcome:ok")
            t = o.get("t1", -1)
            # ---- SPECIFICATION 2: 1 <= threads <= P, = min(n, P) for a valid positive request ----
            if not spec_threads_ok:
                if req == 0:
                    key = "zero-request-exceeds-physical" if t > P else "zero-request-out-of-range"
                elif req > 0:
                    key = "positive-request-not-honoured"
                else:
                    key = "default-exceeds-physical" if t > P else "default-out-of-range"
                want = ("min(%d, %d) = %d" % (req, P, min(req, P))) if req > 0 else "between 1 and %d" % P
                ctx.violation(key, "pool has %d threads on %d physical cores (expected %s) [%s]" % (t, P, want, where),
                              replay_of(c, o, "threads " + want, "threads = %d" % t))
            # ---- SPECIFICATION 3: the pool runs submitted work, on every worker ----
            idx = sorted(int(w[0]) for w in o.get("workers", []))
            if o.get("wn") != t or idx != list(range(t)) or o.get("sum") != JOB_SUM or o.get("t2") is None:
                ctx.violation("work-not-run:" + c["build"], "submitted work did not run on every worker: broadcast reached %s of %d workers, "
                              "parallel sum = %s (expected %d) [%s]" % (o.get("wn"), t, o.get("sum"), JOB_SUM, where),
                              replay_of(c, o, "a job on each of the %d workers" % t, "workers=%s sum=%s" % (o.get("wn"), o.get("sum"))))
            # ---- SPECIFICATION 4: unless caching is disabled all callers receive the same pool ----
            if not spec_nocache and not (o.get("same") == 1 and o.get("k1") == "B" and o.get("k2") == "B"):
                ctx.violation("cache-not-shared", "caching is enabled but two calls of get_or_init_pool() returned %s/%s pools, same=%s [%s]" % (
                    o.get("k1"), o.get("k2"), o.get("same"), where), replay_of(c, o, "the same borrowed pool twice", "kinds %s%s same=%s" % (o.get("k1"), o.get("k2"), o.get("same"))))
            # ---- model vs implementation ----
            mine = [t, int(o.get("k1") == "O"), int(o.get("k2") == "O"), o.get("same"), o.get("t2")]
            if mine != [mt, mo1, mo2, msame, mt]:
                ctx.broke("correspondence", "pool observation (%s)" % where,
                          "implementation [threads; owned1; owned2; same; threads2] = %s, model %s (P=%d avail=%d cores=%s)" % (
                              mine, [mt, mo1, mo2, msame, mt], P, o["avail"], o["cores"]))
            else:
                inherited = set(o["cores"])
                bad = []
                ws = dict((int(a), b) for a, b in o.get("workers", []))
                for w in range(min(t, len(maff))):
                    got = cpu_set(ws.get(w, "")) if ws.get(w, "?") != "?" else None
                    want_set = {maff[w]} if maff[w] >= 0 else inherited
                    if got != want_set:
                        bad.append((w, ws.get(w), sorted(want_set)))
                if bad or len(maff) != t:
                    ctx.broke("correspondence", "worker affinity (%s)" % where, "worker, observed Cpus_allowed_list, model: %s" % bad[:6])
            if len(samples) < 9 and (len(c["env"]) >= 2 or c["mask"] != "all") and (i % 7 == 0 or not spec_threads_ok):
                samples.append({"cmd": short(c), "P": P, "avail": o["avail"], "cores": o["cores"],
                                "impl": {"threads": t, "kinds": o.get("k1", "?") + o.get("k2", "?"), "same": o.get("same"),
                                         "workers": ";".join("%s:%s" % w for w in o.get("workers", [])[:6])},
                                "model_obs_probe": mp[:6 + min(6, len(maff))], "spec": sp})
        else:
            bump("outcome:race-ok")
            k = c["n"]
            ids, kinds, rts = o.get("ids", []), o.get("kinds", ""), o.get("rthreads", [])
            # ---- SPECIFICATION: thread count of every pool handed out, sharing ----
            if not spec_threads_ok or any(x != rts[0] for x in rts):
                ctx.violation("race-thread-count", "racing callers received pools with %s threads on %d physical cores [%s]" % (sorted(set(rts)), P, where),
                              replay_of(c, o, "between 1 and %d threads (min(n, P) for a valid positive request)" % P, "threads %s" % sorted(set(rts))))
            if not spec_nocache and not (len(set(ids)) == 1 and set(kinds) == {"B"} and len(ids) == k):
                ctx.violation("cache-not-shared:race", "caching is enabled but %d threads racing on first use received %d different pools (kinds %s) [%s]" % (
                    k, len(set(ids)), kinds, where), replay_of(c, o, "one shared pool", "%d pools" % len(set(ids))))
            # ---- model vs implementation: kinds, partition of the callers by pool, thread count ----
            mr = m["race"]
            if not mr or len(mr) != k or any(len(r) != 3 or r[0] != 3 for r in mr):
                ctx.broke("correspondence", "obs_race (%s)" % where, "model did not return all %d callers: %s" % (k, mr))
            else:
                m_owned = sorted(r[1] for r in mr)
                m_pools = len(set(r[2] for r in mr))
                i_owned = sorted(int(ch == "O") for ch in kinds)
                if m_owned != i_owned or m_pools != len(set(ids)) or len(ids) != k or rts != [mt] * k:
                    ctx.broke("correspondence", "racing first use (%s)" % where,
                              "implementation: kinds %s, %d distinct pools, threads %s; model: owned flags %s, %d distinct pools, threads %d" % (
                                  kinds, len(set(ids)), sorted(set(rts)), m_owned, m_pools, mt))
            if len(race_samples) < 3 and k >= 16 and (spec_nocache or len(race_samples) < 1):
                race_samples.append({"cmd": short(c), "impl": {"kinds": kinds[:8] + "..", "distinct_pools": len(set(ids)), "threads": sorted(set(rts))},
                                "model_obs_race": (mr or [])[:3], "schedule_len": len(schedule(c, ctx.seed))})

    ctx.cover(n_eval, distinct_keys=distinct, samples=samples + race_samples,
              rule="one FRESH PROCESS per configuration: CFAVML_NUM_THREADS in 13 values (unset, empty, 0, 1, 3, +4, 16, 17, -1, abc, 1e3, ' 4', 1e23) "
                   "+ non-unicode x CFAVML_NO_PINNING / CFAVML_NO_CACHE_THREADPOOL in {unset,1,true,TRUE,True,0,yes} x RAYON_NUM_THREADS in {unset,2,64} x "
                   "taskset masks {all, 0-3, 5, 0,2,4,6} x {release, debug}: %s; plus env-var-compat build (OMP/OPENBLAS variables) and N threads racing on "
                   "first use. Every case: thread count, kinds and identity of two successive pools, a job on every worker, affinity of every worker, exit "
                   "status vs model obs_probe / obs_race on the P, available parallelism and CPU list the same process reported; the Coq specification "
                   "(spec_threads_ok, spec_flag) applied to the implementation's observation decides violations. distinct = distinct (build, mode, N, mask, "
                   "environment, P, A, avail)" % ("the FULL grid (15288 points)" if ctx.tier == "thorough" else
                                                 "a seeded pairwise-covering subset + NUM x RAYON, mask x NO_PINNING, mask x NUM, NO_CACHE crosses"),
              dist=dist)
    ctx.extra["exhaustive"] = False
