"""Correspondences (C)/(D): every executable export / safe routine called BY NAME on guard-paged slices,
compared with the Coq model of the row the translator found under that name (DESIGN §2.4 C, D)."""
import json
import os
import struct

import harness_build
import lib
from checks import runner

LANE_BITS = {"Fallback": None, "Avx2": 256, "Avx2Fma": 256, "Avx512": 512}
WIDTH = {"i8": 8, "u8": 8, "i16": 16, "u16": 16, "i32": 32, "u32": 32, "i64": 64, "u64": 64, "f32": 32, "f64": 64}
KIND = {"export_distance_op": "Dist", "export_op_horizontal": "Horiz", "export_op_vertical": "Vert",
        "export_op_value": "Value", "export_vector_x_value_op": "Value", "export_vector_x_vector_op": "Vert"}
MINMAX = {"generic_max_horizontal", "generic_max_vertical", "generic_max_value",
          "generic_min_horizontal", "generic_min_vertical", "generic_min_value"}
CONFIG_REGS = {"stable": ["Fallback", "Avx2", "Avx2Fma"], "debug": ["Fallback", "Avx2", "Avx2Fma"],
               "nightly": ["Avx512"]}


def lanes(e):
    b = LANE_BITS[e["reg"]]
    return 1 if b is None else b // WIDTH[e["ty"]]


def hexw(ty):
    return WIDTH[ty] // 4


def f32bits(x):
    return struct.unpack("<I", struct.pack("<f", x))[0]


def f64bits(x):
    return struct.unpack("<Q", struct.pack("<d", x))[0]


INT_BOUNDARY = lambda w: sorted({0, 1, 2, 3, (1 << (w - 1)) - 1, 1 << (w - 1), (1 << (w - 1)) + 1, (1 << w) - 1, (1 << w) - 2,
                                 (1 << (w // 2)) - 1, 1 << (w // 2), (1 << (w // 2)) + 1, 0x55 % (1 << w), (1 << w) - 3})
F32_SPECIAL = [0x00000000, 0x80000000, 0x3f800000, 0xbf800000, 0x7f800000, 0xff800000, 0x00000001, 0x80000001,
               0x007fffff, 0x00800000, 0x7f7fffff, 0xff7fffff, 0x3f800001, 0x3f7fffff, 0x40490fdb, 0x33800000]
F64_SPECIAL = [0x0, 0x8000000000000000, 0x3ff0000000000000, 0xbff0000000000000, 0x7ff0000000000000, 0xfff0000000000000,
               0x1, 0x8000000000000001, 0x000fffffffffffff, 0x0010000000000000, 0x7fefffffffffffff, 0xffefffffffffffff,
               0x3ff0000000000001, 0x3fefffffffffffff, 0x400921fb54442d18, 0x3ca0000000000000]


C04_FLOAT_CLASSES = ("wide", "ints", "nearone", "subn")
C04_VEC_CLASSES = ("cancel", "onehot")


class Gen:
    """All random choices come from one SplitMix64 state."""

    def __init__(self, seed):
        self.r = lib.SplitMix(seed)

    def int_val(self, w, cls):
        if cls == "boundary":
            return self.r.choice(INT_BOUNDARY(w))
        if cls == "small":
            return (self.r.below(9) - 4) % (1 << w)
        return self.r.next() % (1 << w)

    def float_val(self, ty, cls):
        if cls in C04_FLOAT_CLASSES:
            return self.c04_float(ty, cls)
        if cls == "signedzeros":      # only +0 / -0: the operand pairs on which f32::max / f32::min are unspecified
            return (self.r.below(2) << (31 if ty == "f32" else 63))
        if cls == "specialnan":       # the special values plus a quiet NaN (one draw in five)
            if self.r.below(5) == 0:
                return 0x7fc00000 if ty == "f32" else 0x7ff8000000000000
            cls = "special"
        if ty == "f32":
            if cls == "special":
                return self.r.choice(F32_SPECIAL)
            if cls == "small":
                return f32bits(float(self.r.below(17) - 8))
            if cls == "unit":
                return f32bits((self.r.below(2001) - 1000) / 1000.0)
            # log-uniform exponent in a no-overflow range, random mantissa and sign
            e = 127 + self.r.below(41) - 20
            return (self.r.below(2) << 31) | (e << 23) | self.r.below(1 << 23)
        if cls == "special":
            return self.r.choice(F64_SPECIAL)
        if cls == "small":
            return f64bits(float(self.r.below(17) - 8))
        if cls == "unit":
            return f64bits((self.r.below(2001) - 1000) / 1000.0)
        e = 1023 + self.r.below(81) - 40
        return (self.r.below(2) << 63) | (e << 52) | self.r.below(1 << 52)

    def c04_float(self, ty, cls):
        """Value classes of C04 (float reductions), all finite and far from overflow:
        wide    log-uniform exponent over +-40 (f32) / +-300 (f64) binades, random mantissa and sign
        ints    integers small enough that every product and partial sum of a few hundred of them is exact
        nearone 1 + k ulp, k in 0..3
        subn    one in four a subnormal (either sign), the others normal with exponent >= 0"""
        mb, bias, w = (23, 127, 32) if ty == "f32" else (52, 1023, 64)
        if cls == "wide":
            span = 40 if ty == "f32" else 300
            e = bias + self.r.below(2 * span + 1) - span
            return (self.r.below(2) << (w - 1)) | (e << mb) | self.r.below(1 << mb)
        if cls == "ints":
            m = 100 if ty == "f32" else (1 << 20)
            v = float(self.r.below(2 * m + 1) - m)
            return f32bits(v) if ty == "f32" else f64bits(v)
        if cls == "nearone":
            return (bias << mb) | self.r.below(4)
        if cls == "subn":
            if self.r.below(4) == 0:
                return (self.r.below(2) << (w - 1)) | self.r.below(1 << mb)
            e = bias + self.r.below(21)
            return (self.r.below(2) << (w - 1)) | (e << mb) | self.r.below(1 << mb)
        raise ValueError(cls)

    def c04_vec(self, ty, n, cls):
        """Vector-level classes of C04:
        cancel  pairs (x, -x') with x' within 3 ulp of x, shuffled: the exact sum is tiny against sum |x|
        onehot  zeros of either sign and a single 1.0 at a seeded index"""
        mb, bias, w = (23, 127, 32) if ty == "f32" else (52, 1023, 64)
        if cls == "onehot":
            out = [self.r.below(2) << (w - 1) for _ in range(n)]
            if n:
                out[self.r.below(n)] = bias << mb
            return out
        out = []
        while len(out) + 1 < n:
            e = bias + self.r.below(41) - 20
            m = 4 + self.r.below((1 << mb) - 8)
            sg = self.r.below(2)
            out.append((sg << (w - 1)) | (e << mb) | m)
            out.append(((1 - sg) << (w - 1)) | (e << mb) | (m + self.r.below(7) - 3))
        if len(out) < n:
            out.append(self.c04_float(ty, "nearone"))
        for i in range(len(out) - 1, 0, -1):
            j = self.r.below(i + 1)
            out[i], out[j] = out[j], out[i]
        return out

    def vec(self, ty, n, cls, nonzero=False):
        w = WIDTH[ty]
        if cls in C04_VEC_CLASSES and ty[0] == "f":
            return self.c04_vec(ty, n, cls)
        if cls == "extreme":
            # small values with ONE extreme element at a seeded position (the position sweeps with the seed stream);
            # integers: values straddling the sign bit; floats: +-inf, +-max, +-0
            out = self.vec(ty, n, "small", nonzero)
            if n:
                p = self.r.below(n)
                if ty[0] == "f":
                    out[p] = self.r.choice((F32_SPECIAL if ty == "f32" else F64_SPECIAL)[:12])
                else:
                    out[p] = self.r.choice([(1 << (w - 1)) - 1, 1 << (w - 1), (1 << w) - 1, (1 << (w - 1)) + 1, (1 << w) - 2])
            return out
        if cls == "lowhalf" and ty[0] != "f":
            # integers that share their upper half and differ only below it, the lower halves straddling ITS sign bit: a
            # 64-bit compare emulated from 32-bit pieces (or a biased constant built per half) goes wrong exactly there
            h = w // 2
            hi = self.r.below(1 << h) if self.r.below(3) else 0
            lows = [0, 1, (1 << (h - 1)) - 1, 1 << (h - 1), (1 << (h - 1)) + 1, (1 << h) - 1]
            return [(hi << h) | (self.r.choice(lows) if self.r.below(2) else self.r.below(1 << h)) for _ in range(n)]
        if cls == "onesign":
            # every element on the SAME side of the sign bit (all negative / all non-negative; unsigned: all >= or all < 2^(w-1)),
            # the side drawn per vector: an order reversed for one sign only is invisible on mixed-sign data
            side = self.r.below(3) != 0        # two in three: the top bit set (negative values)
            out = []
            for _ in range(n):
                if ty[0] == "f":
                    v = self.float_val(ty, "random") & ((1 << (w - 1)) - 1)
                else:
                    v = self.r.next() % (1 << (w - 1))
                out.append(v | ((1 << (w - 1)) if side else 0))
            return out
        out = []
        for _ in range(n):
            if ty[0] == "f":
                v = self.float_val(ty, cls)
            else:
                v = self.int_val(w, cls)
                if nonzero and v == 0:
                    v = 1
            out.append(v)
        return out


def fmt(ty, v):
    return "%0*x" % (hexw(ty), v)


def case_line(idx, e, form, dims, debug, place, v, a, b, r):
    name = e["xconst"] if form == "c" else e["xany"]
    ty = e["ty"]
    toks = [str(idx), name, form, "-" if dims is None else str(dims), "1" if debug else "0",
            str(len(a)), str(len(b)), str(len(r)), place, fmt(ty, v)]
    toks += [fmt(ty, x) for x in a] + [fmt(ty, x) for x in b] + [fmt(ty, x) for x in r]
    return " ".join(toks)


def shape(e, n):
    """(len a, len b, len r) for a documented call of length n."""
    k = KIND[e["macro"]]
    return {"Dist": (n, n, 0), "Horiz": (n, 0, 0), "Vert": (n, n, n), "Value": (n, 0, n)}[k]


def quick_lens(L):
    return sorted({0, 1, 2, 3, max(L - 1, 0), L, L + 1, 2 * L + 1, 8 * L - 1, 8 * L, 8 * L + 1, 9 * L + 3, 17 * L + 3})


def full_lens(L):
    return list(range(0, 2 * 8 * L + L + L))


# ---- literal-guided lengths ---------------------------------------------------------------------------------------------
# A kernel that treats long vectors specially (`if dims > 4096 { .. }`, blocks of 1024, ...) escapes every fixed length grid.
# The thresholds are in the source: every integer literal >= 16 of the kernel's own file (and of core_simd_api.rs) adds a few
# lengths around it.  On the unchanged tree these files contain no such literal, so the grids are unchanged.
_LITS = None
_OP_FILES = {"generic_cosine": ["op_cosine.rs", "op_dot_product.rs"]}


def _kernel_literals():
    global _LITS
    if _LITS is not None:
        return _LITS
    import glob
    import re as _re
    import sys as _sys
    _sys.path.insert(0, os.path.join(lib.VERIF, "tools"))
    import rustlex
    d = os.path.join(lib.REPO, "cfavml", "src", "danger")
    by_file, fn_file = {}, {}
    for p in sorted(glob.glob(os.path.join(d, "op_*.rs"))) + [os.path.join(d, "core_simd_api.rs")]:
        try:
            src = open(p).read()
        except OSError:
            continue
        k = src.find("#[cfg(test)]")
        body = src if k < 0 else src[:k]
        base = os.path.basename(p)
        for m in _re.finditer(r"fn\s+(generic_\w+)", body):
            fn_file[m.group(1)] = base
        vals = set()
        try:
            toks = rustlex.tokenize(body)
        except Exception:
            toks = []
        def num(t):
            if t.kind != "num":
                return None
            m = _re.match(r"^(0x[0-9a-fA-F]+|\d+)(usize|u64|u32|i32|i64|isize)?$", t.text.replace("_", ""))
            return int(m.group(1), 0) if m else None
        for j, t in enumerate(toks):
            v = num(t)
            if v is None:
                continue
            cands = [v]
            # `a << k` and `a * b` of two literals (a threshold written as 1 << 12 or 64 * 64)
            if j + 2 < len(toks) and toks[j + 1].text in ("<<", "*") and num(toks[j + 2]) is not None:
                w2 = num(toks[j + 2])
                cands.append(v << w2 if toks[j + 1].text == "<<" and w2 < 32 else v * w2)
            for c in cands:
                if 16 <= c <= 100000:
                    vals.add(c)
        by_file[base] = sorted(vals)[:4]
    _LITS = (by_file, fn_file)
    return _LITS


def literal_lens(op, L):
    by_file, fn_file = _kernel_literals()
    files = _OP_FILES.get(op, []) + [fn_file.get(op, ""), "core_simd_api.rs"]
    out = []
    for f in dict.fromkeys(files):
        for c in by_file.get(f, []):
            # both parities of the number of whole dense blocks above the threshold, and its two sides
            out += [c - 1, c + 3, c + 8 * L + 3, c + 16 * L + L + 1]
    return sorted(set(x for x in out if x >= 0))


def lens_for(e, lens_fn):
    """the grid of lens_fn plus the literal-guided lengths of e's kernel (marked: the second component is True)"""
    L = lanes(e)
    base = list(lens_fn(L))
    return [(n, False) for n in base] + [(n, True) for n in literal_lens(e["op"], L) if n not in base]


def canon_line(line, e):
    """Results of max/min routines are compared modulo the sign of zero (C05: +0 and -0 compare equal)."""
    if line is None:
        return None
    if e["op"] in MINMAX and e["ty"][0] == "f":
        neg0 = "80000000" if e["ty"] == "f32" else "8000000000000000"
        pos0 = "0" * len(neg0)
        return " ".join(pos0 if t == neg0 else t for t in line.split(" "))
    return line


def load_facts(ctx):
    if ctx.facts is None:
        ctx.translate(steps=("tables",))
    return ctx.facts


def select(facts, config, ops=None, tys=None, regs=None):
    out = []
    for i, e in enumerate(facts.get("exports", [])):
        if e["reg"] not in CONFIG_REGS[config] or e["macro"] not in KIND:
            continue
        if ops and e["op"] not in ops:
            continue
        if tys and e["ty"] not in tys:
            continue
        if regs and e["reg"] not in regs:
            continue
        out.append((i, e))
    return out


def gen_cases(ctx, rows, lens_fn, classes, places=("R",), forms=("a",), seed_tag=0, debug=False, const_dims=None):
    g = Gen(ctx.seed * 1000003 + seed_tag)
    cases, meta = [], []
    for idx, e in rows:
        L = lanes(e)
        ty = e["ty"]
        for n, guided in lens_for(e, lens_fn):
            for form in forms:
                if form == "c" and (const_dims is None or n not in const_dims):
                    continue
                for cls in (classes[:1] if guided else classes):
                    la, lb, lr = shape(e, n)
                    is_div = "div" in e["op"]
                    a = g.vec(ty, la, cls)
                    b = g.vec(ty, lb, cls, nonzero=is_div and g.r.below(8) != 0)
                    r = g.vec(ty, lr, "random")
                    v = g.vec(ty, 1, cls, nonzero=is_div and g.r.below(8) != 0)[0]
                    for place in (places[:1] if guided else places):
                        cases.append(case_line(idx, e, form, n if form == "c" else None, debug, place, v, a, b, r))
                        meta.append((idx, e, form, n, cls, place))
    return cases, meta


def compare(ctx, config, cases, meta, what, violation_fn=None, max_report=3):
    """Run implementation and model on the same lines; returns number of disagreements."""
    ok, log = harness_build.build_cfh(config)
    if not ok:
        ctx.broke("correspondence", "%s: harness build (%s)" % (what, config), log[-1500:])
        return -1
    okd, log = harness_build.build_driver()
    if not okd:
        ctx.broke("correspondence", "%s: model driver build" % what, log[-1500:])
        return -1
    imp = runner.impl("exp", cases, config=config)
    mod = runner.model("exp", cases)
    bad = 0
    dist = {}
    for c, m, a, b in zip(cases, meta, imp, mod):
        idx, e, form, n, cls, place = m
        dist["%s_len%s" % (cls, "0" if n == 0 else "<L" if n < lanes(e) else "<8L" if n < 8 * lanes(e) else ">=8L")] = \
            dist.get("%s_len%s" % (cls, "0" if n == 0 else "<L" if n < lanes(e) else "<8L" if n < 8 * lanes(e) else ">=8L"), 0) + 1
        if b is not None and b.startswith("ok") is False and b.startswith("panic"):
            dist["model_panics"] = dist.get("model_panics", 0) + 1
        if canon_line(a, e) != canon_line(b, e):
            bad += 1
            if bad <= max_report:
                name = e["xconst"] if form == "c" else e["xany"]
                detail = {"case": c[:4000], "build": config, "impl": (a or "<no output / crashed>")[:2000],
                          "model": (b or "<no output>")[:2000]}
                handled = violation_fn(ctx, c, m, a, b, config) if violation_fn else False
                if not handled:
                    ctx.broke("correspondence", "%s: %s dims=%d place=%s (%s)" % (what, name, n, place, config), detail)
    ctx.cover(len(cases), distinct_keys=["%s|%s" % (what, " ".join(c.split()[:9]) + str(hash(c))) for c in cases],
              samples=[{"case": cases[0][:300], "impl": (imp[0] or "")[:200], "model": (mod[0] or "")[:200]}] if cases else [],
              rule="%s: exports called by name on guard-paged slices (%s build); impl line must equal model line; "
                   "distinct = distinct case line" % (what, config),
              dist=dist)
    ctx.extra.setdefault("correspondence_C", {})["%s/%s" % (what, config)] = {"cases": len(cases), "disagreements": bad}
    return bad


def classify_generic(pid_hint):
    """Default classification of an impl/model disagreement: crash or canary damage is a concrete violation of
    memory safety; otherwise leave it to the caller's spec oracle."""
    def fn(ctx, case, m, a, b, config):
        idx, e, form, n, cls, place = m
        name = e["xconst"] if form == "c" else e["xany"]
        if a is None or a.startswith("signal") or "CANARY" in (a or "") or "INPUT-MODIFIED" in (a or ""):
            ctx.violation("%s:memory:%s" % (pid_hint, name),
                          "%s (dims=%d, placement %s, %s build) %s" % (
                              name, n, place, config,
                              "crashed (access outside its slices hit a guard page)" if (a is None or a.startswith("signal"))
                              else "modified memory outside its result slice / its inputs"),
                          {"kind": "input", "case": "exp " + case[:6000], "build": config, "observed": a, "expected": b})
            return True
        return False
    return fn


# ------------------------------------------------------------------------------------------------
# names -> meaning (C11): the key a NAME announces, independent of what the row binds
# ------------------------------------------------------------------------------------------------
KERNEL_OF_OPNAME = {"dot": "KDot", "cosine": "KCosine", "squared_euclidean": "KEuclid", "squared_norm": "KNorm", "sum": "KSum",
                    "max_horizontal": "KMaxH", "max_vertical": "KMaxV", "max_value": "KMaxVal", "min_horizontal": "KMinH",
                    "min_vertical": "KMinV", "min_value": "KMinVal", "add_value": "KAddVal", "sub_value": "KSubVal",
                    "mul_value": "KMulVal", "div_value": "KDivVal", "add_vector": "KAddVec", "sub_vector": "KSubVec",
                    "mul_vector": "KMulVec", "div_vector": "KDivVec"}
RUST_OF_KERNEL = {"KDot": "generic_dot_product", "KCosine": "generic_cosine", "KEuclid": "generic_euclidean",
                  "KNorm": "generic_squared_norm", "KSum": "generic_sum", "KMaxH": "generic_max_horizontal",
                  "KMaxV": "generic_max_vertical", "KMaxVal": "generic_max_value", "KMinH": "generic_min_horizontal",
                  "KMinV": "generic_min_vertical", "KMinVal": "generic_min_value", "KAddVal": "generic_add_value",
                  "KSubVal": "generic_sub_value", "KMulVal": "generic_mul_value", "KDivVal": "generic_div_value",
                  "KAddVec": "generic_add_vector", "KSubVec": "generic_sub_vector", "KMulVec": "generic_mul_vector",
                  "KDivVec": "generic_div_vector"}
KIND_OF_KERNEL = {"KDot": "Dist", "KCosine": "Dist", "KEuclid": "Dist", "KNorm": "Horiz", "KSum": "Horiz", "KMaxH": "Horiz",
                  "KMinH": "Horiz", "KMaxV": "Vert", "KMinV": "Vert", "KAddVec": "Vert", "KSubVec": "Vert", "KMulVec": "Vert",
                  "KDivVec": "Vert", "KMaxVal": "Value", "KMinVal": "Value", "KAddVal": "Value", "KSubVal": "Value",
                  "KMulVal": "Value", "KDivVal": "Value"}


def meaning_of_name(name):
    """<ty>_x<form>_<arch>_<fma|nofma>_<op> -> (ty, Register, Kernel) or None."""
    parts = name.split("_")
    if len(parts) < 5 or parts[1] not in ("xany", "xconst"):
        return None
    ty, arch, tag = parts[0], parts[2], parts[3]
    op = "_".join(parts[4:])
    if ty not in WIDTH or op not in KERNEL_OF_OPNAME or tag not in ("fma", "nofma"):
        return None
    reg = {"fallback": "Fallback", "avx512": "Avx512", "neon": "Neon"}.get(arch)
    if arch == "avx2":
        reg = "Avx2Fma" if tag == "fma" else "Avx2"
    if reg is None:
        return None
    return ty, reg, KERNEL_OF_OPNAME[op]


def check_names(ctx, facts):
    """(C) by name: each executable export, called by its NAME on inputs that separate every pair of operations,
    must behave as the operation / back end / fusedness its name announces (model of the name's meaning)."""
    g = Gen(ctx.seed * 31 + 11)
    # third pass: the stable sources compiled with -C target-feature=+avx2,+fma (FMA declared at compile time): a routine whose
    # NAME says nofma must stay unfused whatever the build declares (rows of the Avx2 / Fallback float back ends only)
    for config, variant in (("stable", None), ("nightly", None), ("stable", "fma")):
        rows = select(facts, config)
        if variant:
            rows = [(i, e) for i, e in rows if e["ty"][0] == "f" and e["reg"] in ("Avx2", "Fallback")]
        cases, meta = [], []
        for idx, e in rows:
            mean = meaning_of_name(e["xany"])
            if mean is None:
                ctx.violation("export-name-unparsable:" + e["xany"], "export name %s does not follow <ty>_x<form>_<arch>_<fma|nofma>_<op>" % e["xany"],
                              {"kind": "static", "row": e})
                continue
            ty, reg, kern = mean
            kind = KIND_OF_KERNEL[kern]
            if kind != KIND[e["macro"]]:
                ctx.violation("export-name-shape:" + e["xany"], "export %s has the signature of another operation family" % e["xany"],
                              {"kind": "static", "row": e})
                continue
            L = lanes(e)
            # lengths: scalar tail only; one register + tail; one dense block + register + tail; and (for the fused /
            # unfused distinction, which needs a non-zero accumulator in the dense loop) three dense blocks + tail
            for n in sorted({2, L + 1, 8 * L + L + 2, 3 * 8 * L + 3}):
                for cls in ("small", "unit") if ty[0] == "f" else ("small", "random"):
                    la, lb, lr = {"Dist": (n, n, 0), "Horiz": (n, 0, 0), "Vert": (n, n, n), "Value": (n, 0, n)}[kind]
                    a = g.vec(ty, la, cls)
                    b = g.vec(ty, lb, cls, nonzero=True)
                    r = g.vec(ty, lr, "random")
                    v = g.vec(ty, 1, cls, nonzero=True)[0]
                    line = case_line(idx, e, "a", None, False, "R", v, a, b, r)
                    cases.append(line)
                    meta.append((idx, e, "a", n, cls, "R", "%s:%s:%s" % (ty, reg, kern)))
        if not cases:
            continue
        ok, log = harness_build.build_cfh(config, variant=variant)
        okd, logd = harness_build.build_driver()
        if not ok or not okd:
            ctx.broke("correspondence", "C:by-name build (%s%s)" % (config, "+" + variant if variant else ""), (log if not ok else logd)[-1200:])
            continue
        imp = runner.impl("exp", cases, config=config, variant=variant)
        if variant:
            config = config + " built with " + harness_build.VARIANTS[variant]
        named = [" ".join([m[6]] + c.split(" ")[1:]) for c, m in zip(cases, meta)]
        mod = runner.model("exp", named)
        bad = 0
        for c, m, a, b in zip(cases, meta, imp, mod):
            idx, e, form, n, cls, place, key = m
            ee = dict(e)
            ee["op"] = RUST_OF_KERNEL[key.split(":")[2]]
            if not lines_agree(a, b, ee, config, n):
                bad += 1
                ctx.violation("export-name:" + e["xany"],
                              "export %s, called by name (%s build, n=%d), does not compute what its name says (%s on %s): "
                              "it is bound to %s on %s" % (e["xany"], config, n, key.split(":")[2], key.split(":")[1], e["op"], e["reg"]),
                              {"kind": "input", "case": "exp " + c[:3000], "build": config, "observed": (a or "<crashed>")[:800],
                               "expected": (b or "")[:800], "meaning_of_name": key})
        ctx.cover(len(cases), distinct_keys=["name|%d" % hash(c) for c in cases],
                  samples=[{"case": cases[0][:200], "impl": (imp[0] or "")[:120], "model_of_name": (mod[0] or "")[:120]}],
                  rule="(C) by name, %s build: every executable export called by NAME on operation-separating data "
                       "(small integers / unit-range floats, non-zero divisors) at n in {2, L+1, 9L+2}; compared with the "
                       "model of the (type, back end, operation) the NAME announces" % config,
                  dist={"byname_" + config: len(cases)})
        ctx.extra.setdefault("correspondence_C_names", {})[config] = {"cases": len(cases), "disagreements": bad}


def ulp_close(ty, xa, xb, ulps):
    if xa == xb:
        return True
    if xa == "nan" or xb == "nan" or xa == "-" or xb == "-":
        return False
    ia, ib = int(xa, 16), int(xb, 16)
    sign = 1 << (WIDTH[ty] - 1)

    def key(i):
        return -(i & (sign - 1)) if i & sign else (i & (sign - 1))
    return abs(key(ia) - key(ib)) <= ulps


def to_float(ty, x):
    if x == "nan":
        return float("nan")
    if ty == "f32":
        return struct.unpack("<f", struct.pack("<I", int(x, 16)))[0]
    return struct.unpack("<d", struct.pack("<Q", int(x, 16)))[0]


def abs_close(ty, xa, xb, tol):
    if xa == xb:
        return True
    if "-" in (xa, xb):
        return False
    fa, fb = to_float(ty, xa), to_float(ty, xb)
    return abs(fa - fb) <= tol


def lines_agree(a, b, e, config, n):
    """Equality of canonical lines; on the nightly build (FastMath tail: algebraic float ops) float results are
    held to the property's own tolerance: element-wise division 2 ulp, reductions a relative slack that every
    order of accumulation satisfies on the well-conditioned data used here."""
    ca, cb = canon_line(a, e), canon_line(b, e)
    if ca == cb:
        return True
    if ca is None or cb is None or config != "nightly" or e["ty"][0] != "f":
        return False
    ta, tb = ca.split(" "), cb.split(" ")
    if len(ta) != len(tb) or ta[0] != tb[0]:
        return False
    op = e["op"]
    if op in ("generic_div_value", "generic_div_vector"):
        return all(ulp_close(e["ty"], x, y, 2) for x, y in zip(ta[1:], tb[1:]))
    if op == "generic_cosine":
        # 1 - dot/sqrt(nx*ny) cancels: the property's tolerance is absolute, 4(n+8)u, twice (both sides may err)
        u = 2.0 ** -24 if e["ty"] == "f32" else 2.0 ** -53
        return all(abs_close(e["ty"], x, y, 8 * (n + 8) * u) for x, y in zip(ta[1:], tb[1:]))
    if op in ("generic_sum", "generic_dot_product", "generic_squared_norm", "generic_euclidean"):
        return all(ulp_close(e["ty"], x, y, 64 * (n + 8)) for x, y in zip(ta[1:], tb[1:]))
    return False


# ------------------------------------------------------------------------------------------------
# property-level driver: implementation vs model (correspondence) AND implementation vs specification
# ------------------------------------------------------------------------------------------------
FLOAT_REDUCTIONS = {"generic_sum", "generic_dot_product", "generic_squared_norm", "generic_euclidean", "generic_cosine"}


def spec_agrees(a, s, e, config, n):
    """Does the implementation line [a] meet the specification line [s]?  None = the spec does not constrain it."""
    if s is None or s.startswith("unspecified") or s.startswith("error"):
        return None
    if s == "panic":
        return a is not None and a.startswith("panic")
    return lines_agree(a, s, e, config, n)


def corpus_cases(pid, config, rows):
    """Minimised failing inputs of fixed / known findings (corpus/<pid>.exp: `<config> <exp case line>` with the row given
    as ty:Register:Kernel so that it survives table changes); they run first, on every run."""
    path = os.path.join(lib.VERIF, "corpus", "%s.exp" % pid)
    byname = {}
    for idx, e in rows:
        byname[e["xany"]] = (idx, e, "a")
        byname[e["xconst"]] = (idx, e, "c")
    cases, meta = [], []
    if os.path.exists(path):
        for ln in open(path):
            ln = ln.strip()
            if not ln or ln.startswith("#"):
                continue
            cfg, case = ln.split(" ", 1)
            t = case.split(" ")
            if cfg != config or t[1] not in byname:
                continue
            idx, e, form = byname[t[1]]
            cases.append(case)
            meta.append((idx, e, form, int(t[5]), "corpus", t[8]))
    return cases, meta


def run_property(ctx, what, pid, ops=None, tys=None, configs=("stable", "nightly"), classes=("random", "boundary"),
                 lens_fn=None, places=("R",), forms=("a",), const_dims=None, seed_tag=0, regs=None, debug_cfg=False):
    facts = load_facts(ctx)
    lens_fn = lens_fn or quick_lens
    total_bad = 0
    for config in configs:
        rows = select(facts, config, ops=ops, tys=tys, regs=regs)
        if not rows:
            continue
        cases, meta = gen_cases(ctx, rows, lens_fn, classes, places=places, forms=forms, seed_tag=seed_tag,
                                debug=(config == "debug"), const_dims=const_dims)
        ccases, cmeta = corpus_cases(pid, config, rows)
        cases, meta = ccases + cases, cmeta + meta
        ok, log = harness_build.build_cfh(config)
        okd, logd = harness_build.build_driver()
        if not ok or not okd:
            ctx.broke("correspondence", "%s: build (%s)" % (what, config), (log if not ok else logd)[-1500:])
            continue
        imp = runner.impl("exp", cases, config=config)
        mod = runner.model("exp", cases)
        spc = runner.model("spec", cases)
        bad_model = bad_spec = n_spec = 0
        dist = {}
        for c, m, a, b, s in zip(cases, meta, imp, mod, spc):
            idx, e, form, n, cls, place = m
            L = lanes(e)
            k = "%s_%s" % (cls, "len0" if n == 0 else "lt_L" if n < L else "lt_8L" if n < 8 * L else "ge_8L")
            dist[k] = dist.get(k, 0) + 1
            if b is not None and b.startswith("panic"):
                dist["panic_cases"] = dist.get("panic_cases", 0) + 1
            name = e["xconst"] if form == "c" else e["xany"]
            if a is None or a.startswith("signal") or "CANARY" in a or "INPUT-MODIFIED" in a:
                ctx.violation("%s:memory:%s" % (pid, name),
                              "%s (n=%d, placement %s, %s build) %s" % (
                                  name, n, place, config,
                                  ("did not return within the harness watchdog (a loop that does not terminate)" if (a and "timeout" in a) else "crashed: an access outside its slices hit a guard page") if (a is None or a.startswith("signal"))
                                  else "modified an input or memory around the result slice"),
                              {"kind": "input", "case": "exp " + c[:6000], "build": config, "observed": a, "expected": (b or "")[:2000]})
                continue
            verdict = spec_agrees(a, s, e, config, n)
            if verdict is not None:
                n_spec += 1
            if verdict is False:
                bad_spec += 1
                ctx.violation("%s:spec:%s" % (pid, name),
                              "%s (n=%d, %s data, placement %s, %s build) returned a result the property forbids" % (
                                  name, n, cls, place, config),
                              {"kind": "input", "case": "exp " + c[:6000], "build": config, "observed": (a or "")[:2000],
                               "expected_by_spec": (s or "")[:2000], "model": (b or "")[:2000]})
                continue
            if not lines_agree(a, b, e, config, n):
                bad_model += 1
                if bad_model <= 3:
                    ctx.broke("correspondence", "%s: %s n=%d place=%s (%s): implementation and model differ (specification %s)" % (
                        what, name, n, place, config, "met" if verdict else "silent"),
                        {"case": c[:3000], "impl": (a or "")[:1200], "model": (b or "")[:1200], "spec": (s or "")[:600]})
        ctx.cover(len(cases), distinct_keys=["%s|%s|%d" % (what, config, hash(c)) for c in cases],
                  samples=[{"case": cases[len(cases) // 2][:240], "impl": (imp[len(cases) // 2] or "")[:120],
                            "model": (mod[len(cases) // 2] or "")[:120], "spec": (spc[len(cases) // 2] or "")[:120]}],
                  rule="%s (%s build): exports called by name on guard-paged slices; the implementation line must equal the "
                       "Coq model's line (correspondence) and meet the Coq-extracted specification's line (oracle); value "
                       "classes %s; distinct = distinct case line" % (what, config, list(classes)),
                  dist=dist)
        ctx.extra.setdefault("correspondence_C", {})["%s/%s" % (what, config)] = {
            "cases": len(cases), "model_disagreements": bad_model, "spec_decided": n_spec, "spec_violations": bad_spec}
        total_bad += bad_model + bad_spec
    return total_bad


def check_bounds(ctx):
    """C07, correspondence (C): EVERY executable export (all 19 operations, every back end of the build) called by name on
    slices placed flush against PROT_NONE pages with canaries around the result, for every length residue that changes a
    loop trip count (thorough: every length 0 .. 2*8L+2L-1, three placements).  A crash, a damaged canary or a modified
    input is a concrete violation (`C07:memory:<name>`); the outputs are also held to the model and the specification."""
    thorough = ctx.tier == "thorough"
    return run_property(ctx, "C:bounds", "C07", ops=None, classes=("random",),
                        lens_fn=full_lens if thorough else quick_lens,
                        places=("R", "L", "3") if thorough else ("R", "L"), seed_tag=7)
