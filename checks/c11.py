"""C11 — every exported routine does what its name says, on the back end its name says."""
import lib
from checks import tablesearch

LEVEL = "proof"


def run(ctx):
    facts = ctx.translate(steps=("tables",))
    ctx.trusted += ["Coq 8.16.1 kernel + vm_compute (reflection over generated tables)",
                    "tools/translate.py (export macro invocations and macro arms -> GenExports.v/GenMacros.v)",
                    "Model/Tables.v: kernel_rust_name / kernel_opname (which generic routine is which operation)"]
    ctx.assumptions += ["NEON rows are checked at source/table level only (names, fused tag); NEON lane semantics are outside the model"]
    proved = ctx.prove("Props/C11.v")
    exports = facts.get("exports", [])
    ctx.cover(len(exports) * 2, distinct_keys=[e["xany"] for e in exports] + [e["xconst"] for e in exports],
              samples=[{"row": e["xany"], "op": e["op"], "register": e["reg"], "features": e["feats"]} for e in exports[:3]],
              rule="every export macro invocation x {xconst,xany}; a row is distinct by its exported name",
              dist={"rows_" + e["reg"]: 1 for e in exports} if False else _dist(exports))
    # search: which rows break the reflected checker (runs always: it is cheap and names the culprit)
    res, out = tablesearch.failing({
        "ROWS": "map e_xany (filter (fun e => negb (export_row_ok export_macros e)) exports)",
        "DUP": "if nodup_strings (all_export_names exports) then [] else [\"duplicate export name\"]"})
    bad = res.get("ROWS")
    if bad is None:
        ctx.broke("correspondence", "row-level evaluation of export_row_ok", out[-600:])
        return
    by_name = {e["xany"]: e for e in exports}
    for name in bad:
        e = by_name.get(name, {})
        ctx.violation("export-row:" + name,
                      "export %s is bound to %s on %s (%s:%s): name and binding disagree" % (
                          name, e.get("op"), e.get("reg"), e.get("file"), e.get("line")),
                      {"kind": "static", "row": e, "theorem": "C11_rows_well_formed / C11_names",
                       "expected_name": "recomputed by export_name_spec from (ty, register, op)"})
    for d in res.get("DUP") or []:
        ctx.violation("export-dup", d, {"kind": "static"})
    if bad or res.get("DUP"):
        for b in ctx.broken:
            b["explained_by"] = "export-row:" + bad[0] if bad else "export-dup"
    try:
        from checks import exprun
        exprun.check_names(ctx, facts)
    except ImportError:
        pass


def _dist(exports):
    d = {}
    for e in exports:
        d["rows_" + e["reg"]] = d.get("rows_" + e["reg"], 0) + 1
    return d
