//! Prints what this build declares at compile time, what the library's availability predicates answer and
//! which candidate the real `dispatch!` macro invokes for each of the 16 sets of supplied optional slots.
//! Built WITHOUT `--cfg cfavml_verif`: the compile-time shortcuts of the predicates are what is exercised.
#[path = "../../cfh/src/dispatch_probe.rs"]
mod dispatch_probe;

fn b(x: bool) -> u8 {
    x as u8
}

fn main() {
    println!(
        "tf avx2={} fma={} avx512f={} avx512bw={} neon={}",
        b(cfg!(target_feature = "avx2")),
        b(cfg!(target_feature = "fma")),
        b(cfg!(target_feature = "avx512f")),
        b(cfg!(target_feature = "avx512bw")),
        b(cfg!(target_feature = "neon")),
    );
    #[cfg(all(any(target_arch = "x86", target_arch = "x86_64"), feature = "nightly"))]
    let p512 = b(cfavml::dispatch::is_avx512_available()) as i8;
    #[cfg(not(all(any(target_arch = "x86", target_arch = "x86_64"), feature = "nightly")))]
    let p512: i8 = -1;
    #[cfg(any(target_arch = "x86", target_arch = "x86_64"))]
    let (p2, pf) = (
        b(cfavml::dispatch::is_avx2_available()) as i8,
        b(cfavml::dispatch::is_fma_available()) as i8,
    );
    #[cfg(not(any(target_arch = "x86", target_arch = "x86_64")))]
    let (p2, pf): (i8, i8) = (-1, -1);
    #[cfg(target_arch = "aarch64")]
    let pn = b(cfavml::dispatch::is_neon_available()) as i8;
    #[cfg(not(target_arch = "aarch64"))]
    let pn: i8 = -1;
    println!("pred avx512={} avx2={} fma={} neon={}", p512, p2, pf, pn);
    for sup in 0..16u32 {
        println!("disp {} {}", sup, dispatch_probe::probe(sup));
    }
}
