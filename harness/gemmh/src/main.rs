//! C15 correspondence harness: runs the REAL `cfavml_gemm::transpose::transpose_matrix::<T>` (and the two
//! public AVX2 entry points) on position-unique data in buffers flush against PROT_NONE guard pages.
//!
//! stdin, one case per line:   <id> <fn> <ty> <w> <h> <ld> <lr> <place> [fork]
//!   fn    tm | a32 | a64                 (transpose_matrix | f32_xany_avx2_nofma_transpose | f64_...)
//!   ty    f32 u32 i32 f64 u64 i64 u8 u16 u128 s3        (s3 = [u8; 3])
//!   ld lr lengths of the data / result slices;   place R | L (which end touches a guard page)
//!   fork  run the case in a child process (crash-prone cases)
//! stdout, one line per case:  <id> ok <cell>... [INPUT-MODIFIED] [CANARY] | <id> panic <kind> | <id> signal <n>
//!   cell = x (untouched sentinel) or the decoded low bytes of the element, `!` appended when the high bytes of a
//!   >8-byte element do not belong to the same source element.
use std::io::{BufRead, Write};
use std::panic::{catch_unwind, AssertUnwindSafe};

extern "C" {
    fn mmap(addr: *mut u8, len: usize, prot: i32, flags: i32, fd: i32, off: i64) -> *mut u8;
    fn mprotect(addr: *mut u8, len: usize, prot: i32) -> i32;
    fn munmap(addr: *mut u8, len: usize) -> i32;
    fn fork() -> i32;
    fn waitpid(pid: i32, status: *mut i32, options: i32) -> i32;
    fn _exit(code: i32) -> !;
}
const PAGE: usize = 4096;
const SENTINEL: u8 = 0xEE;
const CANARY: u8 = 0xC3;

/// A slice inside a read/write window with PROT_NONE pages on both sides.
struct Guarded<T> { base: *mut u8, total: usize, ptr: *mut T, len: usize, win: *mut u8, win_len: usize }
impl<T: Copy> Guarded<T> {
    fn new(len: usize, place: &str) -> Self {
        let bytes = len * std::mem::size_of::<T>();
        let win_len = ((bytes + PAGE - 1) / PAGE + 1) * PAGE;
        let total = win_len + 2 * PAGE;
        unsafe {
            let base = mmap(std::ptr::null_mut(), total, 0, 0x22, -1, 0); // PROT_NONE, MAP_PRIVATE|MAP_ANONYMOUS
            assert!(base as isize != -1, "mmap failed");
            let win = base.add(PAGE);
            assert_eq!(mprotect(win, win_len, 3), 0);
            std::ptr::write_bytes(win, CANARY, win_len);
            let start = if place == "L" { win } else { win.add(win_len - bytes) };
            assert_eq!(start as usize % std::mem::align_of::<T>(), 0);
            Guarded { base, total, ptr: start as *mut T, len, win, win_len }
        }
    }
    fn slice(&self) -> &[T] { unsafe { std::slice::from_raw_parts(self.ptr, self.len) } }
    fn slice_mut(&mut self) -> &mut [T] { unsafe { std::slice::from_raw_parts_mut(self.ptr, self.len) } }
    fn canaries_intact(&self) -> bool {
        unsafe {
            let s = self.ptr as usize - self.win as usize;
            let e = s + self.len * std::mem::size_of::<T>();
            (0..self.win_len).all(|i| (i >= s && i < e) || *self.win.add(i) == CANARY)
        }
    }
}
impl<T> Drop for Guarded<T> { fn drop(&mut self) { unsafe { munmap(self.base, self.total); } } }

/// Element k of the input: low min(size,8) bytes = little-endian (k+1) (1-byte types: (k mod 200)+1, never the
/// sentinel), bytes 8.. = !(k+1).  Every bit pattern is a valid value of every type used here.
fn low_of(k: u64, size: usize) -> u64 {
    if size == 1 { (k % 200) + 1 } else if size >= 8 { k + 1 } else { (k + 1) & ((1u64 << (8 * size)) - 1) }
}
fn make<T: Copy>(k: u64) -> T {
    let size = std::mem::size_of::<T>();
    assert!(size <= 16);
    let mut b = [0u8; 16];
    let low = low_of(k, size);
    b[..8].copy_from_slice(&low.to_le_bytes());
    b[8..].copy_from_slice(&(!low).to_le_bytes());
    unsafe { std::ptr::read_unaligned(b.as_ptr() as *const T) }
}
fn show<T: Copy>(v: &T) -> String {
    let size = std::mem::size_of::<T>();
    let mut b = [0u8; 16];
    unsafe { std::ptr::copy_nonoverlapping(v as *const T as *const u8, b.as_mut_ptr(), size); }
    if b[..size].iter().all(|x| *x == SENTINEL) { return "x".into(); }
    let mut lo = [0u8; 8];
    let n = size.min(8);
    lo[..n].copy_from_slice(&b[..n]);
    let low = u64::from_le_bytes(lo);
    let mut s = low.to_string();
    if size > 8 {
        let mut hi = [0u8; 8];
        hi.copy_from_slice(&b[8..16]);
        if u64::from_le_bytes(hi) != !low { s.push('!'); }
    }
    s
}

fn panic_kind(e: Box<dyn std::any::Any + Send>) -> String {
    let msg = if let Some(s) = e.downcast_ref::<String>() { s.clone() } else if let Some(s) = e.downcast_ref::<&str>() { s.to_string() } else { String::new() };
    let k = if msg.contains("assertion") { "assert" } else if msg.contains("overflow") { "overflow" } else { "other" };
    let short: String = msg.chars().filter(|c| !c.is_control()).take(90).collect();
    format!("panic {} [{}]", k, short.replace(' ', "_"))
}

#[derive(Clone, Copy, PartialEq)]
enum Fun { Tm, A32, A64 }

fn run_case<T: Copy + 'static>(f: Fun, w: usize, h: usize, ld: usize, lr: usize, place: &str) -> String {
    let mut gd = Guarded::<T>::new(ld, place);
    let mut gr = Guarded::<T>::new(lr, place);
    for (k, c) in gd.slice_mut().iter_mut().enumerate() { *c = make::<T>(k as u64); }
    unsafe { std::ptr::write_bytes(gr.ptr as *mut u8, SENTINEL, lr * std::mem::size_of::<T>()); }
    let res = catch_unwind(AssertUnwindSafe(|| {
        match f {
            Fun::Tm => cfavml_gemm::transpose::transpose_matrix::<T>(w, h, gd.slice(), gr.slice_mut()),
            Fun::A32 => unsafe {
                let d = std::mem::transmute::<&[T], &[f32]>(gd.slice());
                let r = std::mem::transmute::<&mut [T], &mut [f32]>(gr.slice_mut());
                cfavml_gemm::transpose::f32_xany_avx2_nofma_transpose(w, h, d, r)
            },
            Fun::A64 => unsafe {
                let d = std::mem::transmute::<&[T], &[f64]>(gd.slice());
                let r = std::mem::transmute::<&mut [T], &mut [f64]>(gr.slice_mut());
                cfavml_gemm::transpose::f64_xany_avx2_nofma_transpose(w, h, d, r)
            },
        }
    }));
    match res {
        Err(e) => panic_kind(e),
        Ok(()) => {
            let mut out = String::with_capacity(8 + 6 * lr);
            out.push_str("ok");
            for c in gr.slice() { out.push(' '); out.push_str(&show(c)); }
            let same = gd.slice().iter().enumerate().all(|(k, c)| show(c) == show(&make::<T>(k as u64)));
            if !same { out.push_str(" INPUT-MODIFIED"); }
            if !gd.canaries_intact() || !gr.canaries_intact() { out.push_str(" CANARY"); }
            out
        }
    }
}

fn dispatch(toks: &[&str]) -> String {
    let f = match toks[1] { "tm" => Fun::Tm, "a32" => Fun::A32, "a64" => Fun::A64, _ => return "bad fn".into() };
    let p = |s: &str| s.parse::<u64>().unwrap() as usize;
    let (w, h, ld, lr, place) = (p(toks[3]), p(toks[4]), p(toks[5]), p(toks[6]), toks[7]);
    if f != Fun::Tm && !std::is_x86_feature_detected!("avx2") { return "noavx2".into(); }
    match (f, toks[2]) {
        (Fun::A32, "f32") => run_case::<f32>(f, w, h, ld, lr, place),
        (Fun::A64, "f64") => run_case::<f64>(f, w, h, ld, lr, place),
        (Fun::A32, _) | (Fun::A64, _) => "bad type for entry point".into(),
        (_, "f32") => run_case::<f32>(f, w, h, ld, lr, place),
        (_, "u32") => run_case::<u32>(f, w, h, ld, lr, place),
        (_, "i32") => run_case::<i32>(f, w, h, ld, lr, place),
        (_, "f64") => run_case::<f64>(f, w, h, ld, lr, place),
        (_, "u64") => run_case::<u64>(f, w, h, ld, lr, place),
        (_, "i64") => run_case::<i64>(f, w, h, ld, lr, place),
        (_, "u8") => run_case::<u8>(f, w, h, ld, lr, place),
        (_, "u16") => run_case::<u16>(f, w, h, ld, lr, place),
        (_, "u128") => run_case::<u128>(f, w, h, ld, lr, place),
        (_, "s3") => run_case::<[u8; 3]>(f, w, h, ld, lr, place),
        _ => "bad type".into(),
    }
}

fn main() {
    std::panic::set_hook(Box::new(|_| {}));
    let stdin = std::io::stdin();
    let stdout = std::io::stdout();
    for line in stdin.lock().lines() {
        let line = line.unwrap();
        let toks: Vec<&str> = line.split_whitespace().collect();
        if toks.is_empty() { continue; }
        if toks[0] == "probe" {
            println!("probe avx2 {} debug {}", std::is_x86_feature_detected!("avx2") as u8, cfg!(debug_assertions) as u8);
            continue;
        }
        if toks.len() < 8 { println!("{} bad line", toks[0]); continue; }
        let forked = toks.len() > 8 && toks[8] == "fork";
        if forked {
            stdout.lock().flush().unwrap();
            unsafe {
                let pid = fork();
                if pid == 0 {
                    let r = dispatch(&toks);
                    let mut o = std::io::stdout().lock();
                    let _ = writeln!(o, "{} {}", toks[0], r);
                    let _ = o.flush();
                    _exit(0);
                }
                let mut status: i32 = 0;
                waitpid(pid, &mut status, 0);
                if status & 0x7f != 0 { println!("{} signal {}", toks[0], status & 0x7f); }
                else if (status >> 8) & 0xff != 0 { println!("{} exit {}", toks[0], (status >> 8) & 0xff); }
            }
        } else {
            println!("{} {}", toks[0], dispatch(&toks));
        }
    }
}
