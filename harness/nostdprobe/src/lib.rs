//! C14 probe crate.  `#![no_std]` itself, so that with `default-features = false` NOTHING in the dependency
//! graph links `std`: if cfavml (or anything it depends on) needed `std`/`alloc` the build would fail here.
#![no_std]
pub use cfavml;

/// One call through the safe API so that the dependency is really used (the rlib of cfavml is what the check
/// inspects; this function only proves the API is callable from a `no_std` crate).
pub fn probe(a: &[f32], b: &[f32]) -> f32 {
    cfavml::f32_xany_dot(a, b)
}
