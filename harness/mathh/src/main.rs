//! Correspondence harness for C18: calls the REAL `cfavml::math::{StdMath, FastMath}` trait methods.
//!
//! stdin, one case per line; stdout, one canonical result line per case:
//!   <variant> <ty> <method> [a] [b]     variant: std | fast;  ty: i8..u64 f32 f64;  operands: hex bit patterns
//!       -> hex bit pattern | nan | true | false | panic | unsupported
//!   table1 <variant> <ty> <method>      (8/16-bit ty, unary method)  -> the results for all 2^w patterns, one line
//!   table2 <variant> <ty> <method>      (8-bit ty, binary method)    -> the results for all 2^16 pairs (a outer, b inner)
//!   sweep16 <variant> <ty>              (16-bit ty) all 2^32 pairs of add/sub/mul/div/cmp_min/cmp_max/cmp_eq and all
//!                                       values of abs against the primitive operators  -> ok <count> | mismatch ...
use std::io::{self, BufRead, Write};
use std::panic::{catch_unwind, AssertUnwindSafe};

use cfavml::math::Math;
use cfavml::math::StdMath;
#[cfg(feature = "nightly")]
use cfavml::math::FastMath;

trait Elem: Copy + 'static {
    const BITS: u32;
    fn from_bits64(u: u64) -> Self;
    fn out(self) -> String;
}

macro_rules! int_elem {
    ($t:ty, $u:ty, $bits:expr) => {
        impl Elem for $t {
            const BITS: u32 = $bits;
            #[inline(always)]
            fn from_bits64(u: u64) -> Self {
                u as $u as $t
            }
            #[inline(always)]
            fn out(self) -> String {
                format!("{:x}", self as $u)
            }
        }
    };
}
int_elem!(i8, u8, 8);
int_elem!(i16, u16, 16);
int_elem!(i32, u32, 32);
int_elem!(i64, u64, 64);
int_elem!(u8, u8, 8);
int_elem!(u16, u16, 16);
int_elem!(u32, u32, 32);
int_elem!(u64, u64, 64);

impl Elem for f32 {
    const BITS: u32 = 32;
    fn from_bits64(u: u64) -> Self {
        f32::from_bits(u as u32)
    }
    fn out(self) -> String {
        if self.is_nan() {
            "nan".to_string()
        } else {
            format!("{:x}", self.to_bits())
        }
    }
}
impl Elem for f64 {
    const BITS: u32 = 64;
    fn from_bits64(u: u64) -> Self {
        f64::from_bits(u)
    }
    fn out(self) -> String {
        if self.is_nan() {
            "nan".to_string()
        } else {
            format!("{:x}", self.to_bits())
        }
    }
}

#[inline(never)]
fn call<V: Math<T>, T: Elem>(method: &str, a: T, b: T) -> String {
    // black_box: the operands are run-time values for the optimiser, as they are for a caller of the library
    let a = std::hint::black_box(a);
    let b = std::hint::black_box(b);
    let r = catch_unwind(AssertUnwindSafe(|| match method {
        "zero" => V::zero().out(),
        "one" => V::one().out(),
        "max" => V::max().out(),
        "min" => V::min().out(),
        "sqrt" => V::sqrt(a).out(),
        "abs" => V::abs(a).out(),
        "cmp_eq" => V::cmp_eq(a, b).to_string(),
        "cmp_min" => V::cmp_min(a, b).out(),
        "cmp_max" => V::cmp_max(a, b).out(),
        "add" => V::add(a, b).out(),
        "sub" => V::sub(a, b).out(),
        "mul" => V::mul(a, b).out(),
        "div" => V::div(a, b).out(),
        _ => "unsupported".to_string(),
    }));
    match r {
        Ok(s) => s,
        Err(_) => "panic".to_string(),
    }
}

fn table<V: Math<T>, T: Elem>(method: &str, binary: bool) -> String {
    let n: u64 = 1u64 << T::BITS;
    let mut out = String::new();
    if binary {
        if T::BITS != 8 {
            return "unsupported".to_string();
        }
        for a in 0..n {
            for b in 0..n {
                if !out.is_empty() {
                    out.push(' ');
                }
                out.push_str(&call::<V, T>(method, T::from_bits64(a), T::from_bits64(b)));
            }
        }
    } else {
        if T::BITS > 16 {
            return "unsupported".to_string();
        }
        for a in 0..n {
            if !out.is_empty() {
                out.push(' ');
            }
            out.push_str(&call::<V, T>(method, T::from_bits64(a), T::from_bits64(0)));
        }
    }
    out
}

macro_rules! sweep16_impl {
    ($name:ident, $t:ty, $u:ty) => {
        fn $name<V: Math<$t>>() -> String {
            use std::hint::black_box as bb;
            let mut count: u64 = 0;
            for ua in 0..=u16::MAX {
                let a = ua as $u as $t;
                let r = V::abs(bb(a));
                #[allow(unused_comparisons)]
                let e = if bb(a) < 0 { (0 as $t).wrapping_sub(bb(a)) } else { bb(a) };
                if r != e {
                    return format!("mismatch abs {:x} -> {:x} expected {:x}", a as $u, r as $u, e as $u);
                }
                count += 1;
                for ub in 0..=u16::MAX {
                    let b = ub as $u as $t;
                    macro_rules! chk {
                        ($m:ident, $e:expr) => {
                            let r = V::$m(bb(a), bb(b));
                            let e = $e;
                            if r != e {
                                return format!("mismatch {} {:x} {:x} -> {:?} expected {:?}", stringify!($m), a as $u, b as $u, r, e);
                            }
                            count += 1;
                        };
                    }
                    chk!(add, bb(a).wrapping_add(bb(b)));
                    chk!(sub, bb(a).wrapping_sub(bb(b)));
                    chk!(mul, bb(a).wrapping_mul(bb(b)));
                    chk!(cmp_min, if bb(b) < bb(a) { bb(b) } else { bb(a) });
                    chk!(cmp_max, if bb(a) < bb(b) { bb(b) } else { bb(a) });
                    chk!(cmp_eq, bb(a) == bb(b));
                    if b != 0 {
                        chk!(div, bb(a).wrapping_div(bb(b)));
                    }
                }
                // a zero divisor must panic
                if catch_unwind(AssertUnwindSafe(|| V::div(bb(a), bb(0 as $t)))).is_ok() {
                    return format!("mismatch div {:x} 0 -> no panic", a as $u);
                }
                count += 1;
            }
            format!("ok {}", count)
        }
    };
}
sweep16_impl!(sweep_i16, i16, u16);
sweep16_impl!(sweep_u16, u16, u16);

fn parse_hex(s: Option<&str>) -> u64 {
    match s {
        Some(x) => u64::from_str_radix(x.trim_start_matches("0x"), 16).unwrap_or(0),
        None => 0,
    }
}

macro_rules! by_ty {
    ($V:ty, $ty:expr, $f:ident, $($args:expr),*) => {
        match $ty {
            "i8" => $f::<$V, i8>($($args),*),
            "i16" => $f::<$V, i16>($($args),*),
            "i32" => $f::<$V, i32>($($args),*),
            "i64" => $f::<$V, i64>($($args),*),
            "u8" => $f::<$V, u8>($($args),*),
            "u16" => $f::<$V, u16>($($args),*),
            "u32" => $f::<$V, u32>($($args),*),
            "u64" => $f::<$V, u64>($($args),*),
            "f32" => $f::<$V, f32>($($args),*),
            "f64" => $f::<$V, f64>($($args),*),
            _ => "unsupported".to_string(),
        }
    };
}

fn call_bits<V: Math<T>, T: Elem>(method: &str, a: u64, b: u64) -> String {
    call::<V, T>(method, T::from_bits64(a), T::from_bits64(b))
}

fn run_variant<V>(words: &[&str]) -> String
where
    V: Math<i8> + Math<i16> + Math<i32> + Math<i64> + Math<u8> + Math<u16> + Math<u32> + Math<u64> + Math<f32> + Math<f64>,
{
    match words[0] {
        "table1" | "table2" => {
            let (ty, m) = (words[2], words[3]);
            let binary = words[0] == "table2";
            by_ty!(V, ty, table, m, binary)
        },
        "sweep16" => match words[2] {
            "i16" => sweep_i16::<V>(),
            "u16" => sweep_u16::<V>(),
            _ => "unsupported".to_string(),
        },
        _ => {
            let (ty, m) = (words[1], words[2]);
            let a = parse_hex(words.get(3).copied());
            let b = parse_hex(words.get(4).copied());
            by_ty!(V, ty, call_bits, m, a, b)
        },
    }
}

fn main() {
    std::panic::set_hook(Box::new(|_| {}));
    let stdin = io::stdin();
    let stdout = io::stdout();
    let mut out = io::BufWriter::new(stdout.lock());
    for line in stdin.lock().lines() {
        let line = match line {
            Ok(l) => l,
            Err(_) => break,
        };
        let words: Vec<&str> = line.split_whitespace().collect();
        if words.is_empty() {
            continue;
        }
        let (variant, need) = match words[0] {
            "table1" | "table2" => (words.get(1).copied().unwrap_or(""), 4),
            "sweep16" => (words.get(1).copied().unwrap_or(""), 3),
            v => (v, 3),
        };
        let res = if words.len() < need {
            "unsupported".to_string()
        } else {
            match variant {
                "std" => run_variant::<StdMath>(&words),
                #[cfg(feature = "nightly")]
                "fast" => run_variant::<FastMath>(&words),
                _ => "unsupported".to_string(),
            }
        };
        let _ = writeln!(out, "{}", res);
    }
    let _ = out.flush();
}
