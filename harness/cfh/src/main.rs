//! cfh — correspondence harness: runs the real implementation on cases read from stdin (one per line) and
//! prints one canonical result line per case.  See DESIGN.md §2.4 / Appendix B.
mod sym;
mod exp;
mod reg;
mod dispatch_probe;
#[cfg(cfh_stable)]
#[path = "gen_glue_stable.rs"]
mod gen_glue;
#[cfg(cfh_debug)]
#[path = "gen_glue_debug.rs"]
mod gen_glue;
#[cfg(cfh_nightly)]
#[path = "gen_glue_nightly.rs"]
mod gen_glue;

/// Dispatch feature-mask override (the one hook, `--cfg cfavml_verif`).  0 = no override.
pub fn set_mask(mask: u32) {
    #[cfg(cfavml_verif_hook_present)]
    cfavml::dispatch::verif_hook::set_mask(mask);
    #[cfg(not(cfavml_verif_hook_present))]
    { let _ = mask; }
}


use std::io::{self, BufRead, Write};

extern "C" {
    fn alarm(secs: u32) -> u32;
}

fn main() {
    // per-case watchdog: a case that does not come back (a loop of the code under test that never terminates) gets
    // SIGALRM (default action: the process dies with signal 14); the runner records it for that case and restarts
    let watchdog: u32 = std::env::var("CFH_WATCHDOG").ok().and_then(|s| s.parse().ok()).unwrap_or(5);
    let args: Vec<String> = std::env::args().collect();
    let mode = args.get(1).map(|s| s.as_str()).unwrap_or("");
    let stdin = io::stdin();
    let stdout = io::stdout();
    let mut out = io::BufWriter::new(stdout.lock());
    for line in stdin.lock().lines() {
        let line = line.unwrap();
        let toks: Vec<&str> = line.split_whitespace().collect();
        if toks.is_empty() { continue; }
        unsafe { alarm(watchdog); }
        let res = match mode {
            "sym" => sym::run_case(&toks),
            "exp" => exp::run_exp(&toks),
            "reg" => reg::run_line(&toks),
            "safe" => exp::run_safe_line(&toks),
            "dispatch" => exp::run_dispatch_line(&toks),
            _ => format!("error unknown-mode {}", mode),
        };
        unsafe { alarm(0); }
        writeln!(out, "{}", res).unwrap();
        out.flush().unwrap();
    }
}
