//! cfh — correspondence harness: runs the real implementation on cases read from stdin (one per line) and
//! prints one canonical result line per case.  See DESIGN.md §2.4 / Appendix B.
mod sym;

use std::io::{self, BufRead, Write};

fn main() {
    let args: Vec<String> = std::env::args().collect();
    let mode = args.get(1).map(|s| s.as_str()).unwrap_or("");
    let stdin = io::stdin();
    let stdout = io::stdout();
    let mut out = io::BufWriter::new(stdout.lock());
    for line in stdin.lock().lines() {
        let line = line.unwrap();
        let toks: Vec<&str> = line.split_whitespace().collect();
        if toks.is_empty() { continue; }
        let res = match mode {
            "sym" => sym::run_case(&toks),
            _ => format!("error unknown-mode {}", mode),
        };
        writeln!(out, "{}", res).unwrap();
        out.flush().unwrap();
    }
}
