//! Correspondences (C) and (D): call exported / safe routines BY NAME on guard-paged slices.
use std::panic::{catch_unwind, AssertUnwindSafe};

pub enum AnyFn<T> {
    Dist(unsafe fn(&[T], &[T]) -> T),
    Horiz(unsafe fn(&[T]) -> T),
    Vert(unsafe fn(&[T], &[T], &mut [T])),
    Value(unsafe fn(T, &[T], &mut [T])),
}
pub enum SafeFn<T> {
    Dist(fn(&[T], &[T]) -> T),
    Horiz(fn(&[T]) -> T),
    Vert(fn(&[T], &[T], &mut [T])),
    Value(fn(T, &[T], &mut [T])),
}

pub trait Elem: Copy + 'static {
    const HEX: usize;
    fn from_hex(s: &str) -> Self;
    fn to_hex(self) -> String;
    /// like to_hex, but a NaN keeps its sign and payload: "nan:<bits>" (place flag `b`, C08 paired runs)
    fn to_hex_raw(self) -> String { self.to_hex() }
}
macro_rules! int_elem {
    ($t:ty, $u:ty, $hex:expr) => {
        impl Elem for $t {
            const HEX: usize = $hex;
            fn from_hex(s: &str) -> Self { <$u>::from_str_radix(s, 16).unwrap() as $t }
            fn to_hex(self) -> String { format!("{:0w$x}", self as $u, w = $hex) }
        }
    };
}
int_elem!(i8, u8, 2); int_elem!(u8, u8, 2); int_elem!(i16, u16, 4); int_elem!(u16, u16, 4);
int_elem!(i32, u32, 8); int_elem!(u32, u32, 8); int_elem!(i64, u64, 16); int_elem!(u64, u64, 16);
impl Elem for f32 {
    const HEX: usize = 8;
    fn from_hex(s: &str) -> Self { f32::from_bits(u32::from_str_radix(s, 16).unwrap()) }
    fn to_hex(self) -> String { if self.is_nan() { "nan".into() } else { format!("{:08x}", self.to_bits()) } }
    fn to_hex_raw(self) -> String { if self.is_nan() { format!("nan:{:08x}", self.to_bits()) } else { format!("{:08x}", self.to_bits()) } }
}
impl Elem for f64 {
    const HEX: usize = 16;
    fn from_hex(s: &str) -> Self { f64::from_bits(u64::from_str_radix(s, 16).unwrap()) }
    fn to_hex(self) -> String { if self.is_nan() { "nan".into() } else { format!("{:016x}", self.to_bits()) } }
    fn to_hex_raw(self) -> String { if self.is_nan() { format!("nan:{:016x}", self.to_bits()) } else { format!("{:016x}", self.to_bits()) } }
}

extern "C" {
    fn mmap(addr: *mut u8, len: usize, prot: i32, flags: i32, fd: i32, off: i64) -> *mut u8;
    fn mprotect(addr: *mut u8, len: usize, prot: i32) -> i32;
    fn munmap(addr: *mut u8, len: usize) -> i32;
}
const PAGE: usize = 4096;

/// A slice placed inside a read/write window with PROT_NONE pages on both sides.
pub struct Guarded<T> { base: *mut u8, total: usize, ptr: *mut T, len: usize, win: *mut u8, win_len: usize }
impl<T: Copy> Guarded<T> {
    /// place: "R" = end of slice flush against the trailing guard page, "L" = start flush against the leading
    /// guard page, "<n>" = n bytes after a 64-byte aligned address in the middle of the window (canaries around).
    pub fn new(vals: &[T], place: &str, canary: u8) -> Self {
        let bytes = vals.len() * std::mem::size_of::<T>();
        let win_len = ((bytes + 256 + PAGE - 1) / PAGE + 1) * PAGE;
        let total = win_len + 2 * PAGE;
        unsafe {
            let base = mmap(std::ptr::null_mut(), total, 0, 0x22, -1, 0); // PROT_NONE, MAP_PRIVATE|MAP_ANONYMOUS
            assert!(base as isize != -1, "mmap failed");
            let win = base.add(PAGE);
            assert_eq!(mprotect(win, win_len, 3), 0);
            std::ptr::write_bytes(win, canary, win_len);
            let start = match place {
                "R" => win.add(win_len - bytes),
                "L" => win,
                n => { let off: usize = n.parse().unwrap(); win.add(128 + off) }
            };
            let ptr = start as *mut T;
            for (i, v) in vals.iter().enumerate() { std::ptr::write_unaligned(ptr.add(i), *v); }
            Guarded { base, total, ptr, len: vals.len(), win, win_len }
        }
    }
    pub fn slice(&self) -> &[T] { unsafe { std::slice::from_raw_parts(self.ptr, self.len) } }
    /// the bytes of the slice as they are in memory now
    pub fn raw_bytes(&self) -> &[u8] { unsafe { std::slice::from_raw_parts(self.ptr as *const u8, self.len * std::mem::size_of::<T>()) } }
    pub fn slice_mut(&mut self) -> &mut [T] { unsafe { std::slice::from_raw_parts_mut(self.ptr, self.len) } }
    /// true when every byte of the window outside the slice still holds the canary
    pub fn canaries_intact(&self, canary: u8) -> bool {
        unsafe {
            let s = self.ptr as usize - self.win as usize;
            let e = s + self.len * std::mem::size_of::<T>();
            for i in 0..self.win_len { if (i < s || i >= e) && *self.win.add(i) != canary { return false; } }
            true
        }
    }
}
impl<T> Drop for Guarded<T> { fn drop(&mut self) { unsafe { munmap(self.base, self.total); } } }

fn panic_kind(e: Box<dyn std::any::Any + Send>) -> String {
    let msg = if let Some(s) = e.downcast_ref::<String>() { s.clone() } else if let Some(s) = e.downcast_ref::<&str>() { s.to_string() } else { String::new() };
    let k = if msg.contains("divide by zero") || msg.contains("division by zero") { "divzero" }
        else if msg.contains("assertion") { "assert" }
        else if msg.contains("overflow") { "overflow" }
        else { "other" };
    format!("panic {}", k)
}

pub struct Case<'a, T> { pub v: T, pub a: Vec<T>, pub b: Vec<T>, pub r: Vec<T>, pub place: &'a str }

/// The <place> token (backward compatible: "R", "L", "<n>" mean what they always meant, for all three slices):
///   <place> ::= <spec> [ "+" <flags> ]        <spec> ::= P | Pa "/" Pb "/" Pr        P ::= "R" | "L" | <n>
/// flags (C08, paired runs — none of them may change the output line):
///   p  the bytes surrounding the slices hold a second poison pattern (0xFF / 0x00 / 0x7F instead of 0xA5 / 0x5A / 0xC3)
///   h  history: before the call, the same routine runs on unrelated data in other buffers, and an unrelated
///      routine (f32 fallback dot product) runs too
///   x  every xmm register holds all-ones (a NaN / -1 pattern) when the routine is entered
///   z  every xmm register holds zero when the routine is entered
///   b  (changes the output format only) NaN results are printed with sign and payload, "nan:<bits>"
///   e  the second input IS the first one (the same memory is passed for a and b; the case's b data equal its a data)
pub struct PlaceSpec<'a> { pub pa: &'a str, pub pb: &'a str, pub pr: &'a str, pub alt: bool, pub hist: bool, pub dirty: u8, pub raw: bool, pub alias: bool }
impl<'a> PlaceSpec<'a> {
    pub fn parse(tok: &'a str) -> Self {
        let (spec, flags) = match tok.find('+') { Some(k) => (&tok[..k], &tok[k + 1..]), None => (tok, "") };
        let parts: Vec<&str> = spec.split('/').collect();
        let (pa, pb, pr) = if parts.len() == 3 { (parts[0], parts[1], parts[2]) } else { (spec, spec, spec) };
        PlaceSpec { pa, pb, pr, alt: flags.contains('p'), hist: flags.contains('h'), raw: flags.contains('b'), alias: flags.contains('e'),
                    dirty: if flags.contains('x') { 1 } else if flags.contains('z') { 2 } else { 0 } }
    }
    pub fn canaries(&self) -> (u8, u8, u8) { if self.alt { (0xFF, 0x00, 0x7F) } else { (0xA5, 0x5A, 0xC3) } }
}

/// Fill the sixteen xmm registers (caller-saved: they keep the pattern until the callee overwrites them).
#[cfg(target_arch = "x86_64")]
#[inline(always)]
fn dirty_vector_registers(kind: u8) {
    unsafe {
        if kind == 1 {
            core::arch::asm!(
                "pcmpeqd xmm0, xmm0", "pcmpeqd xmm1, xmm1", "pcmpeqd xmm2, xmm2", "pcmpeqd xmm3, xmm3",
                "pcmpeqd xmm4, xmm4", "pcmpeqd xmm5, xmm5", "pcmpeqd xmm6, xmm6", "pcmpeqd xmm7, xmm7",
                "pcmpeqd xmm8, xmm8", "pcmpeqd xmm9, xmm9", "pcmpeqd xmm10, xmm10", "pcmpeqd xmm11, xmm11",
                "pcmpeqd xmm12, xmm12", "pcmpeqd xmm13, xmm13", "pcmpeqd xmm14, xmm14", "pcmpeqd xmm15, xmm15",
                out("xmm0") _, out("xmm1") _, out("xmm2") _, out("xmm3") _, out("xmm4") _, out("xmm5") _,
                out("xmm6") _, out("xmm7") _, out("xmm8") _, out("xmm9") _, out("xmm10") _, out("xmm11") _,
                out("xmm12") _, out("xmm13") _, out("xmm14") _, out("xmm15") _, options(nostack, nomem));
        } else if kind == 2 {
            core::arch::asm!(
                "pxor xmm0, xmm0", "pxor xmm1, xmm1", "pxor xmm2, xmm2", "pxor xmm3, xmm3",
                "pxor xmm4, xmm4", "pxor xmm5, xmm5", "pxor xmm6, xmm6", "pxor xmm7, xmm7",
                "pxor xmm8, xmm8", "pxor xmm9, xmm9", "pxor xmm10, xmm10", "pxor xmm11, xmm11",
                "pxor xmm12, xmm12", "pxor xmm13, xmm13", "pxor xmm14, xmm14", "pxor xmm15, xmm15",
                out("xmm0") _, out("xmm1") _, out("xmm2") _, out("xmm3") _, out("xmm4") _, out("xmm5") _,
                out("xmm6") _, out("xmm7") _, out("xmm8") _, out("xmm9") _, out("xmm10") _, out("xmm11") _,
                out("xmm12") _, out("xmm13") _, out("xmm14") _, out("xmm15") _, options(nostack, nomem));
        }
    }
}
#[cfg(not(target_arch = "x86_64"))]
fn dirty_vector_registers(_kind: u8) {}

/// "Earlier calls": the same routine on unrelated data placed elsewhere, then an unrelated routine.
fn history<T: Elem>(f: &AnyFn<T>, c: &Case<T>) {
    let rev = |v: &Vec<T>| { let mut w = v.clone(); w.reverse(); w };
    let (ja, jb, jr) = (rev(&c.a), rev(&c.b), rev(&c.r));
    let ha = Guarded::new(&ja, "L", 0x11);
    let hb = Guarded::new(&jb, "R", 0x22);
    let mut hr = Guarded::new(&jr, "5", 0x33);
    let _ = catch_unwind(AssertUnwindSafe(|| unsafe {
        match f {
            AnyFn::Dist(g) => { std::hint::black_box(g(ha.slice(), hb.slice())); }
            AnyFn::Horiz(g) => { std::hint::black_box(g(ha.slice())); }
            AnyFn::Vert(g) => g(ha.slice(), hb.slice(), hr.slice_mut()),
            AnyFn::Value(g) => g(c.v, ha.slice(), hr.slice_mut()),
        }
    }));
    if let Some(AnyFn::Dist(g)) = <f32 as Lookup>::any("f32_xany_fallback_nofma_dot") {
        let x = [1.5f32, -2.25, 3.0, 0.125, 7.0];
        std::hint::black_box(unsafe { g(&x, &x) });
    }
}

pub fn parse_case<'a, T: Elem>(toks: &[&'a str]) -> Case<'a, T> {
    // toks: <la> <lb> <lr> <place> <v> <a...> <b...> <r...>
    let la: usize = toks[0].parse().unwrap(); let lb: usize = toks[1].parse().unwrap(); let lr: usize = toks[2].parse().unwrap();
    let place = toks[3];
    let v = T::from_hex(toks[4]);
    let mut i = 5;
    let a: Vec<T> = toks[i..i + la].iter().map(|s| T::from_hex(s)).collect(); i += la;
    let b: Vec<T> = toks[i..i + lb].iter().map(|s| T::from_hex(s)).collect(); i += lb;
    let r: Vec<T> = toks[i..i + lr].iter().map(|s| T::from_hex(s)).collect();
    Case { v, a, b, r, place }
}

fn finish<T: Elem>(ret: Option<T>, ga: &Guarded<T>, gb: &Guarded<T>, gr: &Guarded<T>, c: &Case<T>) -> String {
    finish_with(ret, ga, gb, gr, c, (0xA5, 0x5A, 0xC3), None, false)
}

fn bytes_of<T: Copy>(v: &[T]) -> Vec<u8> {
    unsafe { std::slice::from_raw_parts(v.as_ptr() as *const u8, v.len() * std::mem::size_of::<T>()).to_vec() }
}

fn finish_with<T: Elem>(ret: Option<T>, ga: &Guarded<T>, gb: &Guarded<T>, gr: &Guarded<T>, c: &Case<T>,
                        can: (u8, u8, u8), snap: Option<(&[u8], &[u8])>, raw: bool) -> String {
    let mut out = String::from("ok ");
    let show = |x: T| if raw { x.to_hex_raw() } else { x.to_hex() };
    match ret { Some(x) => out.push_str(&show(x)), None => out.push('-') }
    for x in gr.slice() { out.push(' '); out.push_str(&show(*x)); }
    let same = |g: &Guarded<T>, v: &Vec<T>| g.slice().iter().zip(v.iter()).all(|(x, y)| x.to_hex() == y.to_hex());
    let raw_same = match snap { Some((sa, sb)) => ga.raw_bytes() == sa && gb.raw_bytes() == sb, None => true };
    if !same(ga, &c.a) || !same(gb, &c.b) || !raw_same { out.push_str(" INPUT-MODIFIED"); }
    if !ga.canaries_intact(can.0) || !gb.canaries_intact(can.1) || !gr.canaries_intact(can.2) { out.push_str(" CANARY-CLOBBERED"); }
    out
}

pub fn run_any<T: Elem>(f: AnyFn<T>, toks: &[&str]) -> String {
    let c = parse_case::<T>(toks);
    let sp = PlaceSpec::parse(c.place);
    let can = sp.canaries();
    if sp.hist { history(&f, &c); }
    let ga = Guarded::new(&c.a, sp.pa, can.0);
    let gb = Guarded::new(&c.b, sp.pb, can.1);
    let mut gr = Guarded::new(&c.r, sp.pr, can.2);
    let (snap_a, snap_b) = (bytes_of(&c.a), bytes_of(&c.b));
    let dirty = sp.dirty;
    let alias = sp.alias;
    let res = catch_unwind(AssertUnwindSafe(|| unsafe {
        let sa = ga.slice(); let sb = if alias { ga.slice() } else { gb.slice() };
        match f {
            AnyFn::Dist(g) => { dirty_vector_registers(dirty); Some(g(sa, sb)) }
            AnyFn::Horiz(g) => { dirty_vector_registers(dirty); Some(g(sa)) }
            AnyFn::Vert(g) => { let sr = gr.slice_mut(); dirty_vector_registers(dirty); g(sa, sb, sr); None }
            AnyFn::Value(g) => { let sr = gr.slice_mut(); let v = c.v; dirty_vector_registers(dirty); g(v, sa, sr); None }
        }
    }));
    match res { Ok(ret) => finish_with(ret, &ga, &gb, &gr, &c, can, Some((&snap_a, &snap_b)), sp.raw), Err(e) => panic_kind(e) }
}

pub fn run_safe<T: Elem>(f: SafeFn<T>, toks: &[&str]) -> String {
    let c = parse_case::<T>(toks);
    let sp = PlaceSpec::parse(c.place);
    let ga = Guarded::new(&c.a, sp.pa, 0xA5);
    let gb = Guarded::new(&c.b, sp.pb, 0x5A);
    let mut gr = Guarded::new(&c.r, sp.pr, 0xC3);
    let res = catch_unwind(AssertUnwindSafe(|| {
        match f {
            SafeFn::Dist(g) => Some(g(ga.slice(), gb.slice())),
            SafeFn::Horiz(g) => Some(g(ga.slice())),
            SafeFn::Vert(g) => { g(ga.slice(), gb.slice(), gr.slice_mut()); None }
            SafeFn::Value(g) => { g(c.v, ga.slice(), gr.slice_mut()); None }
        }
    }));
    match res { Ok(ret) => finish(ret, &ga, &gb, &gr, &c), Err(e) => panic_kind(e) }
}

macro_rules! by_ty {
    ($ty:expr, $f:ident, $($arg:expr),*) => {
        match $ty {
            "f32" => $f::<f32>($($arg),*), "f64" => $f::<f64>($($arg),*),
            "i8" => $f::<i8>($($arg),*), "i16" => $f::<i16>($($arg),*), "i32" => $f::<i32>($($arg),*), "i64" => $f::<i64>($($arg),*),
            "u8" => $f::<u8>($($arg),*), "u16" => $f::<u16>($($arg),*), "u32" => $f::<u32>($($arg),*), "u64" => $f::<u64>($($arg),*),
            _ => format!("error unknown-type"),
        }
    };
}

pub trait Lookup: Elem {
    fn any(name: &str) -> Option<AnyFn<Self>>;
    fn konst(name: &str, d: usize) -> Option<AnyFn<Self>>;
    fn safe_any(name: &str) -> Option<SafeFn<Self>>;
    fn safe_konst(name: &str, d: usize) -> Option<SafeFn<Self>>;
}
macro_rules! lookup_impl {
    ($t:ty, $a:ident, $c:ident, $sa:ident, $sc:ident) => {
        impl Lookup for $t {
            fn any(name: &str) -> Option<AnyFn<Self>> { crate::gen_glue::$a(name) }
            fn konst(name: &str, d: usize) -> Option<AnyFn<Self>> { crate::gen_glue::$c(name, d) }
            fn safe_any(name: &str) -> Option<SafeFn<Self>> { crate::gen_glue::$sa(name) }
            fn safe_konst(name: &str, d: usize) -> Option<SafeFn<Self>> { crate::gen_glue::$sc(name, d) }
        }
    };
}
lookup_impl!(f32, lookup_any_f32, lookup_const_f32, lookup_safe_any_f32, lookup_safe_const_f32);
lookup_impl!(f64, lookup_any_f64, lookup_const_f64, lookup_safe_any_f64, lookup_safe_const_f64);
lookup_impl!(i8, lookup_any_i8, lookup_const_i8, lookup_safe_any_i8, lookup_safe_const_i8);
lookup_impl!(i16, lookup_any_i16, lookup_const_i16, lookup_safe_any_i16, lookup_safe_const_i16);
lookup_impl!(i32, lookup_any_i32, lookup_const_i32, lookup_safe_any_i32, lookup_safe_const_i32);
lookup_impl!(i64, lookup_any_i64, lookup_const_i64, lookup_safe_any_i64, lookup_safe_const_i64);
lookup_impl!(u8, lookup_any_u8, lookup_const_u8, lookup_safe_any_u8, lookup_safe_const_u8);
lookup_impl!(u16, lookup_any_u16, lookup_const_u16, lookup_safe_any_u16, lookup_safe_const_u16);
lookup_impl!(u32, lookup_any_u32, lookup_const_u32, lookup_safe_any_u32, lookup_safe_const_u32);
lookup_impl!(u64, lookup_any_u64, lookup_const_u64, lookup_safe_any_u64, lookup_safe_const_u64);

fn exp_t<T: Lookup>(name: &str, form: &str, dims: &str, rest: &[&str]) -> String {
    let f = if form == "c" { T::konst(name, dims.parse().unwrap()) } else { T::any(name) };
    match f { Some(f) => run_any::<T>(f, rest), None => "error no-such-routine".to_string() }
}
fn safe_t<T: Lookup>(name: &str, form: &str, dims: &str, rest: &[&str]) -> String {
    let f = if form == "c" { T::safe_konst(name, dims.parse().unwrap()) } else { T::safe_any(name) };
    match f { Some(f) => run_safe::<T>(f, rest), None => "error no-such-routine".to_string() }
}

fn ty_of(name: &str) -> &str { name.split('_').next().unwrap_or("") }

/// exp line: <idx> <name> <c|a> <DIMS|-> <debug> <la> <lb> <lr> <place> <v> <a...> <b...> <r...>
pub fn run_exp(toks: &[&str]) -> String {
    let (name, form, dims) = (toks[1], toks[2], toks[3]);
    by_ty!(ty_of(name), exp_t, name, form, dims, &toks[5..])
}

/// safe line: <sidx> <nightly> <avail> <mask> <name> <c|a> <DIMS|-> <debug> <la> <lb> <lr> <place> <v> <a...> <b...> <r...>
pub fn run_safe_line(toks: &[&str]) -> String {
    let mask: u32 = toks[3].parse().unwrap();
    crate::set_mask(mask);
    let (name, form, dims) = (toks[4], toks[5], toks[6]);
    let r = by_ty!(ty_of(name), safe_t, name, form, dims, &toks[8..]);
    crate::set_mask(0);
    r
}

/// dispatch line: <nightly> <avail> <supplied bits> — invoke the real `cfavml::dispatch!` macro with recording
/// closures for the supplied optional slots (the mask is derived from avail by the caller and set before).
pub fn run_dispatch_line(toks: &[&str]) -> String {
    let mask: u32 = toks[3].parse().unwrap();
    let sup: u32 = toks[2].parse().unwrap();
    crate::set_mask(mask);
    let r = crate::dispatch_probe::probe(sup);
    crate::set_mask(0);
    r.to_string()
}
