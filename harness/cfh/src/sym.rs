//! Correspondence (A): run the REAL generic kernels on a symbolic element type and an L-lane symbolic
//! register (public traits only, no hook) and print the expression tree and the register-level event log.
use cfavml::danger::*;
use cfavml::math::Math;
use std::cell::RefCell;

#[derive(Copy, Clone, PartialEq, Eq, Debug)]
pub struct Sym(pub u32);

#[derive(Clone, Debug)]
enum Node {
    Var(u8, i64),  // slice (0=a,1=b,2=r), index
    Oob(u32),      // marker cell outside every slice
    Value,
    Const(&'static str),
    Op(&'static str, Vec<u32>),
}

struct Arena {
    nodes: Vec<Node>,
    events: Vec<String>,
    // registered buffers: (slice id, base address of element 0 of the slice, len)
    bufs: Vec<(u8, usize, usize)>,
    zx: bool,
    zy: bool,
    z0: bool,
}

thread_local! {
    static ARENA: RefCell<Arena> = RefCell::new(Arena { nodes: vec![], events: vec![], bufs: vec![], zx: false, zy: false, z0: false });
}

fn mk(n: Node) -> Sym {
    ARENA.with(|a| {
        let mut a = a.borrow_mut();
        a.nodes.push(n);
        Sym((a.nodes.len() - 1) as u32)
    })
}
fn op2(o: &'static str, x: Sym, y: Sym) -> Sym { mk(Node::Op(o, vec![x.0, y.0])) }
fn op3(o: &'static str, x: Sym, y: Sym, z: Sym) -> Sym { mk(Node::Op(o, vec![x.0, y.0, z.0])) }

fn locate(ptr: usize) -> (char, i64) {
    ARENA.with(|a| {
        let a = a.borrow();
        let sz = std::mem::size_of::<Sym>() as i64;
        let mut best: Option<(char, i64)> = None;
        for (s, base, len) in a.bufs.iter() {
            let off = (ptr as i64 - *base as i64) / sz;
            // the buffer has MARGIN marker cells on either side
            if off >= -(MARGIN as i64) && off < (*len as i64 + MARGIN as i64) {
                best = Some((['a', 'b', 'r'][*s as usize], off));
            }
        }
        best.unwrap_or(('?', 0))
    })
}
fn log_event(write: bool, ptr: usize, w: usize) {
    let (s, i) = locate(ptr);
    ARENA.with(|a| a.borrow_mut().events.push(format!("{}{}{}+{}", if write { 'W' } else { 'R' }, s, i, w)));
}

pub struct SymReg<const L: usize>;

impl<const L: usize> SimdRegister<Sym> for SymReg<L> {
    type Register = [Sym; L];

    #[inline(never)]
    unsafe fn load(mem: *const Sym) -> Self::Register {
        log_event(false, mem as usize, L);
        let mut r = [Sym(0); L];
        for i in 0..L { r[i] = *mem.add(i); }
        r
    }
    unsafe fn filled(value: Sym) -> Self::Register { [value; L] }
    unsafe fn zeroed() -> Self::Register { [mk(Node::Const("rz")); L] }
    unsafe fn add(l1: Self::Register, l2: Self::Register) -> Self::Register { lane2("+", l1, l2) }
    unsafe fn sub(l1: Self::Register, l2: Self::Register) -> Self::Register { lane2("-", l1, l2) }
    unsafe fn mul(l1: Self::Register, l2: Self::Register) -> Self::Register { lane2("*", l1, l2) }
    unsafe fn div(l1: Self::Register, l2: Self::Register) -> Self::Register { lane2("/", l1, l2) }
    unsafe fn fmadd(l1: Self::Register, l2: Self::Register, acc: Self::Register) -> Self::Register {
        let mut r = [Sym(0); L];
        for i in 0..L { r[i] = op3("fma", l1[i], l2[i], acc[i]); }
        r
    }
    unsafe fn max(l1: Self::Register, l2: Self::Register) -> Self::Register { lane2("max", l1, l2) }
    unsafe fn min(l1: Self::Register, l2: Self::Register) -> Self::Register { lane2("min", l1, l2) }
    unsafe fn sum_to_value(reg: Self::Register) -> Sym { mk(Node::Op("+*", reg.iter().map(|s| s.0).collect())) }
    unsafe fn max_to_value(reg: Self::Register) -> Sym { mk(Node::Op("max*", reg.iter().map(|s| s.0).collect())) }
    unsafe fn min_to_value(reg: Self::Register) -> Sym { mk(Node::Op("min*", reg.iter().map(|s| s.0).collect())) }
    #[inline(never)]
    unsafe fn write(mem: *mut Sym, reg: Self::Register) {
        log_event(true, mem as usize, L);
        for i in 0..L { *mem.add(i) = reg[i]; }
    }
}

fn lane2<const L: usize>(o: &'static str, a: [Sym; L], b: [Sym; L]) -> [Sym; L] {
    let mut r = [Sym(0); L];
    for i in 0..L { r[i] = op2(o, a[i], b[i]); }
    r
}

pub struct SymMath;

fn has_leaf(s: u8, t: u32) -> bool {
    ARENA.with(|a| {
        let a = a.borrow();
        fn go(a: &Arena, s: u8, t: u32) -> bool {
            match &a.nodes[t as usize] {
                Node::Var(s2, _) => *s2 == s,
                Node::Op(_, args) => args.iter().any(|x| go(a, s, *x)),
                _ => false,
            }
        }
        go(&a, s, t)
    })
}

impl Math<Sym> for SymMath {
    fn zero() -> Sym { mk(Node::Const("0")) }
    fn one() -> Sym { mk(Node::Const("1")) }
    fn max() -> Sym { mk(Node::Const("MAX")) }
    fn min() -> Sym { mk(Node::Const("MIN")) }
    fn sqrt(a: Sym) -> Sym { mk(Node::Op("ssqrt", vec![a.0])) }
    fn abs(a: Sym) -> Sym { mk(Node::Op("sabs", vec![a.0])) }
    fn cmp_eq(a: Sym, _b: Sym) -> bool {
        let (zx, zy, z0) = ARENA.with(|x| { let x = x.borrow(); (x.zx, x.zy, x.z0) });
        if has_leaf(0, a.0) { zx } else if has_leaf(1, a.0) { zy } else { z0 }
    }
    fn cmp_min(a: Sym, b: Sym) -> Sym { op2("smin", a, b) }
    fn cmp_max(a: Sym, b: Sym) -> Sym { op2("smax", a, b) }
    fn add(a: Sym, b: Sym) -> Sym { op2("s+", a, b) }
    fn sub(a: Sym, b: Sym) -> Sym { op2("s-", a, b) }
    fn mul(a: Sym, b: Sym) -> Sym { op2("s*", a, b) }
    fn div(a: Sym, b: Sym) -> Sym { op2("s/", a, b) }
}

const MARGIN: usize = 2048;

fn show(t: u32, out: &mut String) {
    ARENA.with(|a| {
        let a = a.borrow();
        fn go(a: &Arena, t: u32, out: &mut String) {
            match &a.nodes[t as usize] {
                Node::Var(s, i) => { out.push(['a', 'b', 'r'][*s as usize]); out.push_str(&i.to_string()); }
                Node::Oob(k) => { out.push_str("oob"); out.push_str(&k.to_string()); }
                Node::Value => out.push('v'),
                Node::Const(c) => out.push_str(c),
                Node::Op(o, args) => {
                    out.push('('); out.push_str(o);
                    for x in args { out.push(' '); go(a, *x, out); }
                    out.push(')');
                }
            }
        }
        go(&a, t, out)
    })
}

struct Buf { cells: Vec<Sym>, len: usize }
fn mk_buf(slice: u8, len: usize, oob_base: u32) -> Buf {
    let mut cells = Vec::with_capacity(len + 2 * MARGIN);
    for k in 0..MARGIN { cells.push(mk(Node::Oob(oob_base + k as u32))); }
    for i in 0..len { cells.push(mk(Node::Var(slice, i as i64))); }
    for k in 0..MARGIN { cells.push(mk(Node::Oob(oob_base + (MARGIN + k) as u32))); }
    let base = unsafe { cells.as_ptr().add(MARGIN) } as usize;
    ARENA.with(|a| a.borrow_mut().bufs.push((slice, base, len)));
    Buf { cells, len }
}
impl Buf {
    fn slice(&self) -> &[Sym] { &self.cells[MARGIN..MARGIN + self.len] }
    fn slice_mut(&mut self) -> &mut [Sym] { let l = self.len; &mut self.cells[MARGIN..MARGIN + l] }
    /// marker cells that no longer hold their original marker (a stray write)
    fn clobbered(&self, oob_base: u32) -> Vec<i64> {
        let mut v = vec![];
        ARENA.with(|a| {
            let a = a.borrow();
            for k in 0..MARGIN {
                match &a.nodes[self.cells[k].0 as usize] { Node::Oob(x) if *x == oob_base + k as u32 => {}, _ => v.push(k as i64 - MARGIN as i64) }
                let j = MARGIN + self.len + k;
                match &a.nodes[self.cells[j].0 as usize] { Node::Oob(x) if *x == oob_base + (MARGIN + k) as u32 => {}, _ => v.push((self.len + k) as i64) }
            }
        });
        v
    }
}

macro_rules! with_l {
    ($l:expr, $f:ident, $($arg:expr),*) => {
        match $l {
            1 => $f::<1>($($arg),*), 2 => $f::<2>($($arg),*), 3 => $f::<3>($($arg),*), 4 => $f::<4>($($arg),*),
            5 => $f::<5>($($arg),*), 8 => $f::<8>($($arg),*), 16 => $f::<16>($($arg),*), 32 => $f::<32>($($arg),*),
            64 => $f::<64>($($arg),*),
            _ => return format!("error unsupported-L {}", $l),
        }
    };
}

fn run_kernel<const L: usize>(k: &str, dims: usize, a: &[Sym], b: &[Sym], r: &mut [Sym], v: Sym) -> Option<Sym> {
    unsafe {
        match k {
            "KDot" => Some(generic_dot_product::<Sym, SymReg<L>, SymMath>(dims, a, b)),
            "KCosine" => Some(generic_cosine::<Sym, SymReg<L>, SymMath>(dims, a, b)),
            "KEuclid" => Some(generic_euclidean::<Sym, SymReg<L>, SymMath>(dims, a, b)),
            "KNorm" => Some(generic_squared_norm::<Sym, SymReg<L>, SymMath>(dims, a)),
            "KSum" => Some(generic_sum::<Sym, SymReg<L>, SymMath>(dims, a)),
            "KMaxH" => Some(generic_max_horizontal::<Sym, SymReg<L>, SymMath>(dims, a)),
            "KMinH" => Some(generic_min_horizontal::<Sym, SymReg<L>, SymMath>(dims, a)),
            "KMaxV" => { generic_max_vertical::<Sym, SymReg<L>, SymMath>(dims, a, b, r); None }
            "KMinV" => { generic_min_vertical::<Sym, SymReg<L>, SymMath>(dims, a, b, r); None }
            "KMaxVal" => { generic_max_value::<Sym, SymReg<L>, SymMath>(dims, v, a, r); None }
            "KMinVal" => { generic_min_value::<Sym, SymReg<L>, SymMath>(dims, v, a, r); None }
            "KAddVal" => { generic_add_value::<Sym, SymReg<L>, SymMath>(dims, v, a, r); None }
            "KSubVal" => { generic_sub_value::<Sym, SymReg<L>, SymMath>(dims, v, a, r); None }
            "KMulVal" => { generic_mul_value::<Sym, SymReg<L>, SymMath>(dims, v, a, r); None }
            "KDivVal" => { generic_div_value::<Sym, SymReg<L>, SymMath>(dims, v, a, r); None }
            "KAddVec" => { generic_add_vector::<Sym, SymReg<L>, SymMath>(dims, a, b, r); None }
            "KSubVec" => { generic_sub_vector::<Sym, SymReg<L>, SymMath>(dims, a, b, r); None }
            "KMulVec" => { generic_mul_vector::<Sym, SymReg<L>, SymMath>(dims, a, b, r); None }
            "KDivVec" => { generic_div_vector::<Sym, SymReg<L>, SymMath>(dims, a, b, r); None }
            _ => panic!("unknown kernel {}", k),
        }
    }
}

/// `sym <kernel> <L> <dims> <zx> <zy> <z0>`
pub fn run_case(toks: &[&str]) -> String {
    let k = toks[0];
    let l: usize = toks[1].parse().unwrap();
    let dims: usize = toks[2].parse().unwrap();
    let zx = toks[3] == "1"; let zy = toks[4] == "1"; let z0 = toks[5] == "1";
    ARENA.with(|a| { let mut a = a.borrow_mut(); a.nodes.clear(); a.events.clear(); a.bufs.clear(); a.zx = zx; a.zy = zy; a.z0 = z0; });
    let a = mk_buf(0, dims, 0);
    let b = mk_buf(1, dims, 100_000);
    let mut r = mk_buf(2, dims, 200_000);
    let v = mk(Node::Value);
    let res = {
        let (aa, bb) = (a.slice(), b.slice());
        let rr = r.slice_mut();
        with_l!(l, run_kernel, k, dims, aa, bb, rr, v)
    };
    let mut out = String::from("ok ");
    match res { Some(t) => show(t.0, &mut out), None => out.push('-') }
    out.push_str(" ;");
    for c in r.slice() { out.push(' '); show(c.0, &mut out); }
    out.push_str(" ;");
    ARENA.with(|x| for e in x.borrow().events.iter() { out.push(' '); out.push_str(e); });
    // stray writes / modified inputs
    let mut stray = vec![];
    for (nm, buf, base) in [("a", &a, 0u32), ("b", &b, 100_000), ("r", &r, 200_000)] {
        for i in buf.clobbered(base) { stray.push(format!("{}{}", nm, i)); }
    }
    ARENA.with(|x| {
        let x = x.borrow();
        for (nm, buf, s) in [("a", &a, 0u8), ("b", &b, 1u8)] {
            for (i, c) in buf.slice().iter().enumerate() {
                match &x.nodes[c.0 as usize] { Node::Var(s2, j) if *s2 == s && *j == i as i64 => {}, _ => stray.push(format!("{}{}", nm, i)) }
            }
        }
    });
    out.push_str(" ;");
    for s in stray { out.push_str(" stray:"); out.push_str(&s); }
    out
}
