//! Correspondence (D)(i): the REAL `cfavml::dispatch!` macro with recording closures, for every subset of
//! supplied optional slots.  (The `#[cfg(feature = "nightly")]` inside the macro resolves in THIS crate: its
//! `nightly` feature is enabled in the nightly build.)
pub fn probe(sup: u32) -> &'static str {
    match sup {
        0 => { fn f() -> &'static str { cfavml::dispatch!(
            fallback = (|| "fallback") => ()
        ) } f() },
        1 => { fn f() -> &'static str { cfavml::dispatch!(
            avx512 = (|| "avx512") => ()
            fallback = (|| "fallback") => ()
        ) } f() },
        2 => { fn f() -> &'static str { cfavml::dispatch!(
            avx2fma = (|| "avx2fma") => ()
            fallback = (|| "fallback") => ()
        ) } f() },
        3 => { fn f() -> &'static str { cfavml::dispatch!(
            avx512 = (|| "avx512") => ()
            avx2fma = (|| "avx2fma") => ()
            fallback = (|| "fallback") => ()
        ) } f() },
        4 => { fn f() -> &'static str { cfavml::dispatch!(
            avx2 = (|| "avx2") => ()
            fallback = (|| "fallback") => ()
        ) } f() },
        5 => { fn f() -> &'static str { cfavml::dispatch!(
            avx512 = (|| "avx512") => ()
            avx2 = (|| "avx2") => ()
            fallback = (|| "fallback") => ()
        ) } f() },
        6 => { fn f() -> &'static str { cfavml::dispatch!(
            avx2fma = (|| "avx2fma") => ()
            avx2 = (|| "avx2") => ()
            fallback = (|| "fallback") => ()
        ) } f() },
        7 => { fn f() -> &'static str { cfavml::dispatch!(
            avx512 = (|| "avx512") => ()
            avx2fma = (|| "avx2fma") => ()
            avx2 = (|| "avx2") => ()
            fallback = (|| "fallback") => ()
        ) } f() },
        8 => { fn f() -> &'static str { cfavml::dispatch!(
            neon = (|| "neon") => ()
            fallback = (|| "fallback") => ()
        ) } f() },
        9 => { fn f() -> &'static str { cfavml::dispatch!(
            avx512 = (|| "avx512") => ()
            neon = (|| "neon") => ()
            fallback = (|| "fallback") => ()
        ) } f() },
        10 => { fn f() -> &'static str { cfavml::dispatch!(
            avx2fma = (|| "avx2fma") => ()
            neon = (|| "neon") => ()
            fallback = (|| "fallback") => ()
        ) } f() },
        11 => { fn f() -> &'static str { cfavml::dispatch!(
            avx512 = (|| "avx512") => ()
            avx2fma = (|| "avx2fma") => ()
            neon = (|| "neon") => ()
            fallback = (|| "fallback") => ()
        ) } f() },
        12 => { fn f() -> &'static str { cfavml::dispatch!(
            avx2 = (|| "avx2") => ()
            neon = (|| "neon") => ()
            fallback = (|| "fallback") => ()
        ) } f() },
        13 => { fn f() -> &'static str { cfavml::dispatch!(
            avx512 = (|| "avx512") => ()
            avx2 = (|| "avx2") => ()
            neon = (|| "neon") => ()
            fallback = (|| "fallback") => ()
        ) } f() },
        14 => { fn f() -> &'static str { cfavml::dispatch!(
            avx2fma = (|| "avx2fma") => ()
            avx2 = (|| "avx2") => ()
            neon = (|| "neon") => ()
            fallback = (|| "fallback") => ()
        ) } f() },
        15 => { fn f() -> &'static str { cfavml::dispatch!(
            avx512 = (|| "avx512") => ()
            avx2fma = (|| "avx2fma") => ()
            avx2 = (|| "avx2") => ()
            neon = (|| "neon") => ()
            fallback = (|| "fallback") => ()
        ) } f() }
        _ => "error",
    }
}
