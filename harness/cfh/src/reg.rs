//! Correspondence (B): every method of every executable `SimdRegister<T>` impl, on registers loaded from
//! arrays, results stored back.  line: <Backend> <ty> <method> <n regs per operand> <lanes...>
use crate::exp::Elem;
use cfavml::danger::*;
use std::panic::{catch_unwind, AssertUnwindSafe};

unsafe fn load_dense_from<T: Copy, R: SimdRegister<T>>(v: &[T]) -> DenseLane<R::Register> { R::load_dense(v.as_ptr()) }

#[inline(always)]
unsafe fn call<T: Elem, R: SimdRegister<T>>(method: &str, ops: &[Vec<T>]) -> Result<Vec<T>, String> {
    let l = R::elements_per_lane();
    let store = |r: R::Register| -> Vec<T> { let mut out = vec![ops[0][0]; l]; R::write(out.as_mut_ptr(), r); out };
    let store_d = |d: DenseLane<R::Register>| -> Vec<T> { let mut out = vec![ops[0][0]; l * 8]; R::write_dense(out.as_mut_ptr(), d); out };
    let ld = |k: usize| R::load(ops[k].as_ptr());
    let ldd = |k: usize| load_dense_from::<T, R>(&ops[k]);
    Ok(match method {
        "lanes" => { return Err(format!("ok {}", l)); }
        "roundtrip" => store(ld(0)),
        "filled" => store(R::filled(ops[0][0])),
        "zeroed" => store(R::zeroed()),
        "add" => store(R::add(ld(0), ld(1))),
        "sub" => store(R::sub(ld(0), ld(1))),
        "mul" => store(R::mul(ld(0), ld(1))),
        "div" => store(R::div(ld(0), ld(1))),
        "fmadd" => store(R::fmadd(ld(0), ld(1), ld(2))),
        "max" => store(R::max(ld(0), ld(1))),
        "min" => store(R::min(ld(0), ld(1))),
        "sum_to_value" => vec![R::sum_to_value(ld(0))],
        "max_to_value" => vec![R::max_to_value(ld(0))],
        "min_to_value" => vec![R::min_to_value(ld(0))],
        "roundtrip_dense" => store_d(ldd(0)),
        "filled_dense" => store_d(R::filled_dense(ops[0][0])),
        "zeroed_dense" => store_d(R::zeroed_dense()),
        "add_dense" => store_d(R::add_dense(ldd(0), ldd(1))),
        "sub_dense" => store_d(R::sub_dense(ldd(0), ldd(1))),
        "mul_dense" => store_d(R::mul_dense(ldd(0), ldd(1))),
        "div_dense" => store_d(R::div_dense(ldd(0), ldd(1))),
        "fmadd_dense" => store_d(R::fmadd_dense(ldd(0), ldd(1), ldd(2))),
        "max_dense" => store_d(R::max_dense(ldd(0), ldd(1))),
        "min_dense" => store_d(R::min_dense(ldd(0), ldd(1))),
        "sum_to_register" => store(R::sum_to_register(ldd(0))),
        "max_to_register" => store(R::max_to_register(ldd(0))),
        "min_to_register" => store(R::min_to_register(ldd(0))),
        _ => return Err("error unknown-method".to_string()),
    })
}

unsafe fn call_fallback<T: Elem>(m: &str, ops: &[Vec<T>]) -> Result<Vec<T>, String> where Fallback: SimdRegister<T> { call::<T, Fallback>(m, ops) }
#[target_feature(enable = "avx2")]
unsafe fn call_avx2<T: Elem>(m: &str, ops: &[Vec<T>]) -> Result<Vec<T>, String> where Avx2: SimdRegister<T> { call::<T, Avx2>(m, ops) }
#[target_feature(enable = "avx2,fma")]
unsafe fn call_avx2fma<T: Elem>(m: &str, ops: &[Vec<T>]) -> Result<Vec<T>, String> where Avx2Fma: SimdRegister<T> { call::<T, Avx2Fma>(m, ops) }
#[cfg(cfh_nightly)]
#[target_feature(enable = "avx512f,avx512bw")]
unsafe fn call_avx512<T: Elem>(m: &str, ops: &[Vec<T>]) -> Result<Vec<T>, String> where Avx512: SimdRegister<T> { call::<T, Avx512>(m, ops) }

fn run_t<T: Elem>(backend: &str, method: &str, per: usize, lanes: &[&str]) -> String
where Fallback: SimdRegister<T>, Avx2: SimdRegister<T>, T: MaybeFma + MaybeAvx512 {
    let vals: Vec<T> = lanes.iter().map(|s| T::from_hex(s)).collect();
    let mut ops: Vec<Vec<T>> = vec![];
    if per > 0 { for c in vals.chunks(per) { ops.push(c.to_vec()); } }
    if ops.is_empty() { return "error no-operands".to_string(); }
    let res = catch_unwind(AssertUnwindSafe(|| unsafe {
        match backend {
            "Fallback" => call_fallback::<T>(method, &ops),
            "Avx2" => call_avx2::<T>(method, &ops),
            "Avx2Fma" => T::fma(method, &ops),
            "Avx512" => T::avx512(method, &ops),
            _ => Err("error unknown-backend".to_string()),
        }
    }));
    match res {
        Ok(Ok(v)) => { let mut s = String::from("ok"); for x in v { s.push(' '); s.push_str(&x.to_hex()); } s }
        Ok(Err(e)) => e,
        Err(e) => { let msg = if let Some(s) = e.downcast_ref::<String>() { s.clone() } else if let Some(s) = e.downcast_ref::<&str>() { s.to_string() } else { String::new() };
                    if msg.contains("divide by zero") { "panic divzero".into() } else { "panic other".into() } }
    }
}

pub trait MaybeFma: Elem { unsafe fn fma(m: &str, ops: &[Vec<Self>]) -> Result<Vec<Self>, String> { let _ = (m, ops); Err("error no-such-impl".into()) } }
impl MaybeFma for f32 { unsafe fn fma(m: &str, ops: &[Vec<f32>]) -> Result<Vec<f32>, String> { call_avx2fma::<f32>(m, ops) } }
impl MaybeFma for f64 { unsafe fn fma(m: &str, ops: &[Vec<f64>]) -> Result<Vec<f64>, String> { call_avx2fma::<f64>(m, ops) } }
impl MaybeFma for i8 {} impl MaybeFma for i16 {} impl MaybeFma for i32 {} impl MaybeFma for i64 {}
impl MaybeFma for u8 {} impl MaybeFma for u16 {} impl MaybeFma for u32 {} impl MaybeFma for u64 {}

pub trait MaybeAvx512: Elem { unsafe fn avx512(m: &str, ops: &[Vec<Self>]) -> Result<Vec<Self>, String>; }
macro_rules! avx512_impl { ($($t:ty),*) => { $(
    impl MaybeAvx512 for $t {
        #[cfg(cfh_nightly)]
        unsafe fn avx512(m: &str, ops: &[Vec<$t>]) -> Result<Vec<$t>, String> { call_avx512::<$t>(m, ops) }
        #[cfg(not(cfh_nightly))]
        unsafe fn avx512(m: &str, ops: &[Vec<$t>]) -> Result<Vec<$t>, String> { let _ = (m, ops); Err("error no-such-impl".into()) }
    } )* } }
avx512_impl!(f32, f64, i8, i16, i32, i64, u8, u16, u32, u64);

/// line: <Backend> <ty> <method> <lanes per operand> <lanes...>
pub fn run_line(toks: &[&str]) -> String {
    let (backend, ty, method) = (toks[0], toks[1], toks[2]);
    let per: usize = toks[3].parse().unwrap();
    let lanes = &toks[4..];
    match ty {
        "f32" => run_t::<f32>(backend, method, per, lanes), "f64" => run_t::<f64>(backend, method, per, lanes),
        "i8" => run_t::<i8>(backend, method, per, lanes), "i16" => run_t::<i16>(backend, method, per, lanes),
        "i32" => run_t::<i32>(backend, method, per, lanes), "i64" => run_t::<i64>(backend, method, per, lanes),
        "u8" => run_t::<u8>(backend, method, per, lanes), "u16" => run_t::<u16>(backend, method, per, lanes),
        "u32" => run_t::<u32>(backend, method, per, lanes), "u64" => run_t::<u64>(backend, method, per, lanes),
        _ => "error unknown-type".to_string(),
    }
}
