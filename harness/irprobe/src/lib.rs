//! C10 probe crate: nothing here is ever run.  `irprobe_table` takes the address of every routine
//! named by the translator (facts["safe_entries"], facts["exports"]) so that rustc must generate
//! code for it — the generic `xconst::<D>` forms are instantiated in THIS crate, the `xany` forms
//! live in cfavml's own object code.  checks/c10_ir.py then reads the `.ll` files of both crates.
#![allow(warnings)]

include!(env!("IRPROBE_GLUE"));
