//! utilh — correspondence harness for cfavml-utils (C16, C17).
//!
//!   utilh ab            stdin: one case per line `<size> <len>`; full observation script on a real AlignedBuffer<T>
//!   utilh abmeta S LEN  bookkeeping only (never touches the buffer's memory); one case per process
//!   utilh probe         C17: one configuration per process (environment + affinity set by the caller)
//!   utilh race N        C17: N threads racing on first get_or_init_pool()
use std::io::{BufRead, Write};
use std::mem::size_of;
use std::panic::{catch_unwind, AssertUnwindSafe};

use cfavml_utils::aligned_buffer::AlignedBuffer;

// ------------------------------------------------------------------------------------------------
// C16
// ------------------------------------------------------------------------------------------------

fn pat(k: u64, f: u64) -> u8 {
    ((f * 131 + k * 89 + 7) & 255) as u8
}

/// Fletcher-style checksum of Model/AlignedBuf.v `cks`: s1 = 1 + sum, s2 = sum of running s1; s2 * 2^34 + s1.
fn cks(bytes: &[u8]) -> u128 {
    let (mut s1, mut s2) = (1u64, 0u64);
    for &b in bytes {
        s1 = s1.wrapping_add(b as u64);
        s2 = s2.wrapping_add(s1);
    }
    ((s2 as u128) << 34) + s1 as u128
}

unsafe fn bytes_of<T>(s: &[T]) -> &[u8] {
    std::slice::from_raw_parts(s.as_ptr() as *const u8, s.len() * size_of::<T>())
}

fn pattern<T: Copy>(k: u64, len: usize) -> Vec<T> {
    let sz = size_of::<T>();
    let raw: Vec<u8> = (0..len * sz).map(|f| pat(k, f as u64)).collect();
    (0..len)
        .map(|i| unsafe { std::ptr::read_unaligned(raw.as_ptr().add(i * sz) as *const T) })
        .collect()
}

fn panic_msg(e: Box<dyn std::any::Any + Send>) -> String {
    let m = if let Some(s) = e.downcast_ref::<&str>() {
        s.to_string()
    } else if let Some(s) = e.downcast_ref::<String>() {
        s.clone()
    } else {
        "<non-string payload>".to_string()
    };
    m.replace('\n', " ").chars().take(160).collect()
}

fn ab_full<T: Copy>(len: usize) -> String {
    let sz = size_of::<T>();
    let r = catch_unwind(AssertUnwindSafe(|| {
        let mut buf: AlignedBuffer<T> = unsafe { AlignedBuffer::zeroed(len) };
        let alloc = buf.allocated_size();
        let ptr = buf.as_mut_ptr() as usize;
        // the bookkeeping must back the views before the harness touches memory through them
        if alloc < len || alloc.checked_mul(sz).map_or(true, |b| b > isize::MAX as usize) {
            std::mem::forget(buf);
            return format!("undersized len={} alloc={} ptr={}", len, alloc, ptr);
        }
        let vlen = buf.as_slice().len();
        let sptr = buf.as_slice().as_ptr() as usize;
        let dlen = buf.len(); // through Deref
        let zero = unsafe { bytes_of(buf.as_slice()) }.iter().all(|&b| b == 0);
        // slack between len and allocated_size(): inside the storage if allocated_size() is honest
        let slack0 = unsafe { std::slice::from_raw_parts((ptr as *const u8).add(len * sz), (alloc - len) * sz) }
            .iter()
            .all(|&b| b == 0);
        // write 1: copy_from_slice
        let d1: Vec<T> = pattern(1, len);
        buf.copy_from_slice(&d1);
        let c1 = cks(unsafe { bytes_of(buf.as_slice()) });
        let rt1 = unsafe { bytes_of(buf.as_slice()) == bytes_of(&d1) };
        // clone
        let mut c = buf.clone();
        let cptr = c.as_mut_ptr() as usize;
        let clen = c.as_slice().len();
        let calloc = c.allocated_size();
        let cc0 = cks(unsafe { bytes_of(c.as_slice()) });
        // write 2 into the clone, through the raw pointer
        let d2: Vec<T> = pattern(2, len);
        for (i, v) in d2.iter().enumerate() {
            unsafe { c.as_mut_ptr().add(i).write(*v) };
        }
        let b3 = cks(unsafe { bytes_of(buf.as_slice()) });
        let c3 = cks(unsafe { bytes_of(c.as_slice()) });
        // write 3 into the original, element by element through the mutable view
        let d3: Vec<T> = pattern(3, len);
        for (dst, v) in buf.as_mut_slice().iter_mut().zip(d3.iter()) {
            *dst = *v;
        }
        let b4 = cks(unsafe { bytes_of(&buf[..]) });
        let c4 = cks(unsafe { bytes_of(&c[..]) });
        let slack = cks(unsafe { std::slice::from_raw_parts((ptr as *const u8).add(len * sz), (alloc - len) * sz) });
        let wrong = if len > 0 {
            // a source of the wrong length must panic, not write
            let short: Vec<T> = pattern(4, len - 1);
            let r = catch_unwind(AssertUnwindSafe(|| buf.copy_from_slice(&short)));
            let unchanged = cks(unsafe { bytes_of(&buf[..]) }) == b4;
            if r.is_err() && unchanged { 1 } else { 0 }
        } else {
            1
        };
        format!(
            "ok len={} alloc={} ptr={} sptr={} vlen={} dlen={} zero={} slack0={} c1={} rt1={} cptr={} clen={} calloc={} cc0={} b3={} c3={} b4={} c4={} slack={} wrong={}",
            len, alloc, ptr, sptr, vlen, dlen, zero as u8, slack0 as u8, c1, rt1 as u8, cptr, clen, calloc, cc0, b3, c3, b4, c4,
            slack, wrong
        )
    }));
    match r {
        Ok(s) => s,
        Err(e) => format!("panic {}", panic_msg(e)),
    }
}

fn ab_meta<T: Copy>(len: usize) -> String {
    let r = catch_unwind(AssertUnwindSafe(|| {
        let buf: AlignedBuffer<T> = unsafe { AlignedBuffer::zeroed(len) };
        let alloc = buf.allocated_size();
        // `len()` only forms the fat pointer; nothing is read through it
        let l = buf.len();
        std::mem::forget(buf);
        format!("ok len={} alloc={}", l, alloc)
    }));
    match r {
        Ok(s) => s,
        Err(e) => format!("panic {}", panic_msg(e)),
    }
}

macro_rules! by_size {
    ($f:ident, $size:expr, $len:expr) => {
        match $size {
            0 => $f::<()>($len),
            1 => $f::<u8>($len),
            2 => $f::<u16>($len),
            3 => $f::<[u8; 3]>($len),
            4 => $f::<u32>($len),
            8 => $f::<u64>($len),
            16 => $f::<u128>($len),
            24 => $f::<[u64; 3]>($len),
            32 => $f::<[u64; 4]>($len),
            64 => $f::<[u64; 8]>($len),
            128 => $f::<[u64; 16]>($len),
            _ => "unsupported-size".to_string(),
        }
    };
}

fn mode_ab() {
    let stdin = std::io::stdin();
    let out = std::io::stdout();
    for line in stdin.lock().lines() {
        let line = line.unwrap();
        let mut it = line.split_whitespace();
        let (size, len) = match (it.next(), it.next()) {
            (Some(a), Some(b)) => (a.parse::<usize>().unwrap(), b.parse::<usize>().unwrap()),
            _ => continue,
        };
        // announce the case first: if the process dies the caller knows which case was in flight
        {
            let mut o = out.lock();
            writeln!(o, "begin {} {}", size, len).unwrap();
            o.flush().unwrap();
        }
        let r = by_size!(ab_full, size, len);
        let mut o = out.lock();
        writeln!(o, "case {} {} {}", size, len, r).unwrap();
    }
}

fn mode_abmeta(size: usize, len: usize) {
    println!("case {} {} {}", size, len, by_size!(ab_meta, size, len));
}

// ------------------------------------------------------------------------------------------------
// C17
// ------------------------------------------------------------------------------------------------

fn allowed_list() -> String {
    // affinity of the CURRENT thread as the kernel reports it
    std::fs::read_to_string("/proc/thread-self/status")
        .ok()
        .and_then(|s| {
            s.lines()
                .find(|l| l.starts_with("Cpus_allowed_list:"))
                .map(|l| l["Cpus_allowed_list:".len()..].trim().to_string())
        })
        .unwrap_or_else(|| "?".to_string())
}

fn pool_identity(pool: &rayon::ThreadPool) -> String {
    // the OS thread of worker 0 identifies the pool
    let ids = pool.broadcast(|_| format!("{:?}", std::thread::current().id()));
    ids.first().cloned().unwrap_or_else(|| "none".to_string())
}

fn kind(p: &cfavml_utils::MaybeBorrowedPool) -> &'static str {
    match p {
        cfavml_utils::MaybeBorrowedPool::Borrowed(_) => "B",
        cfavml_utils::MaybeBorrowedPool::Owned(_) => "O",
    }
}

fn print_sys() {
    let cores: Vec<String> = core_affinity::get_core_ids()
        .unwrap_or_default()
        .iter()
        .map(|c| c.id.to_string())
        .collect();
    println!(
        "sys P={} A={} cores={} avail={} logical={}",
        num_cpus::get_physical(),
        cores.len(),
        cores.join(","),
        std::thread::available_parallelism().map(|n| n.get()).unwrap_or(1),
        num_cpus::get()
    );
}

fn mode_probe() {
    use rayon::prelude::*;
    print_sys();
    let pool = cfavml_utils::get_or_init_pool();
    println!("pool1 threads={} kind={}", pool.current_num_threads(), kind(&pool));
    // a job on EVERY worker (also guarantees that every start handler has completed)
    let workers = pool.broadcast(|ctx| format!("{}:{}", ctx.index(), allowed_list()));
    println!("workers n={} {}", workers.len(), workers.join(";"));
    let s: u64 = pool.install(|| (0..10_000u64).into_par_iter().map(|x| x * 2).sum());
    println!("job sum={}", s);
    let id1 = pool_identity(&pool);
    let pool2 = cfavml_utils::get_or_init_pool();
    let id2 = pool_identity(&pool2);
    println!(
        "pool2 threads={} kind={} same={}",
        pool2.current_num_threads(),
        kind(&pool2),
        (id1 == id2) as u8
    );
    println!("done");
}

fn mode_race(n: usize) {
    print_sys();
    let barrier = std::sync::Arc::new(std::sync::Barrier::new(n));
    let handles: Vec<_> = (0..n)
        .map(|_| {
            let b = barrier.clone();
            std::thread::spawn(move || {
                b.wait();
                let p = cfavml_utils::get_or_init_pool();
                let id = pool_identity(&p);
                let k = kind(&p);
                let t = p.current_num_threads();
                (p, id, k, t)
            })
        })
        .collect();
    // keep every pool alive until all identities are collected
    let res: Vec<_> = handles.into_iter().map(|h| h.join().unwrap()).collect();
    let ids: Vec<&str> = res.iter().map(|r| r.1.as_str()).collect();
    let kinds: String = res.iter().map(|r| r.2).collect();
    let threads: Vec<String> = res.iter().map(|r| r.3.to_string()).collect();
    println!("race n={} kinds={} ids={} threads={}", n, kinds, ids.join(","), threads.join(","));
    println!("done");
}

fn main() {
    let args: Vec<String> = std::env::args().collect();
    // panics are reported through catch_unwind; keep stderr quiet for the expected ones
    if args.get(1).map(|s| s.starts_with("ab")).unwrap_or(false) {
        std::panic::set_hook(Box::new(|_| {}));
    }
    match args.get(1).map(|s| s.as_str()) {
        Some("ab") => mode_ab(),
        Some("abmeta") => mode_abmeta(args[2].parse().unwrap(), args[3].parse().unwrap()),
        Some("probe") => mode_probe(),
        Some("race") => mode_race(args[2].parse().unwrap()),
        _ => {
            eprintln!("usage: utilh ab | abmeta SIZE LEN | probe | race N");
            std::process::exit(2);
        }
    }
}
