"""Shared machinery of the checks: builds, Coq audit, evidence, verdicts (DESIGN.md §2.6)."""
import contextlib
import fcntl
import glob
import hashlib
import json
import os
import re
import subprocess
import sys
import time

VERIF = os.path.dirname(os.path.abspath(__file__))
REPO = os.environ.get("VERIF_REPO", "/repo")
BUILD = os.path.join(VERIF, ".build")
COQ = os.path.join(VERIF, "coq")
EVID = os.path.join(VERIF, "evidence")
REPLAYS = os.path.join(VERIF, "replays")
NCPU = os.cpu_count() or 4

ENV = dict(os.environ)
ENV.update({"CARGO_NET_OFFLINE": "true", "CARGO_TERM_COLOR": "never"})

ALLOWED_AXIOMS = {
    # the four standard-library axioms Flocq's real numbers bring (DESIGN §2.8); none is declared by us
    "ClassicalDedekindReals.sig_not_dec", "ClassicalDedekindReals.sig_forall_dec",
    "FunctionalExtensionality.functional_extensionality_dep", "Classical_Prop.classic",
}
BANNED = re.compile(r"\b(Admitted|admit|Axiom|Axioms|Parameter|Parameters|Conjecture|Conjectures|Hypothesis|Hypotheses|Variable|Variables)\b"
                    r"|Unset\s+Guard|bypass_check|type-in-type|impredicative-set|Admit\s+Obligations|Unset\s+Universe\s+Checking|Unset\s+Positivity")


def sh(cmd, timeout=1200, cwd=None, env=None, input_=None):
    e = dict(ENV)
    if env:
        e.update(env)
    try:
        p = subprocess.run(cmd, shell=isinstance(cmd, str), cwd=cwd, env=e, input=input_,
                           stdout=subprocess.PIPE, stderr=subprocess.STDOUT, timeout=timeout, text=True,
                           errors="replace")
        return p.returncode, p.stdout
    except subprocess.TimeoutExpired as ex:
        out = ex.stdout or ""
        if isinstance(out, bytes):
            out = out.decode(errors="replace")
        return 124, out + "\n[timeout after %ss]" % timeout


@contextlib.contextmanager
def build_lock(name="lock"):
    os.makedirs(BUILD, exist_ok=True)
    f = open(os.path.join(BUILD, name), "w")
    try:
        fcntl.flock(f, fcntl.LOCK_EX)
        yield
    finally:
        fcntl.flock(f, fcntl.LOCK_UN)
        f.close()


def point_manifest(crate_dir):
    """Harness crates path-depend on /repo/<crate>.  When VERIF_REPO names another tree (a scratch worktree used to
    exercise the checks against a changed copy, e.g. from `vp run --with-repo`), rewrite the path dependencies of the
    harness manifest to that tree.  With the default REPO = /repo this is the identity."""
    path = os.path.join(crate_dir, "Cargo.toml")
    try:
        src = open(path).read()
    except OSError:
        return
    new = re.sub(r'path\s*=\s*"(?:/repo|%s)/' % re.escape(REPO.rstrip("/")), 'path = "%s/' % REPO.rstrip("/"), src)
    prev = os.path.join(crate_dir, ".verif_repo")
    old = open(prev).read() if os.path.exists(prev) else "/repo"
    if old != REPO:
        new = new.replace('path = "%s/' % old.rstrip("/"), 'path = "%s/' % REPO.rstrip("/"))
    if new != src:
        with open(path, "w") as f:
            f.write(new)
        lock = os.path.join(crate_dir, "Cargo.lock")
        if os.path.exists(lock):
            os.remove(lock)
    if old != REPO or os.path.exists(prev):
        with open(prev, "w") as f:
            f.write(REPO)


# ------------------------------------------------------------------------------------------------
# translator
# ------------------------------------------------------------------------------------------------

def translate():
    """Regenerate coq/Gen/*.v from /repo.  Returns (facts, errors)."""
    with build_lock():
        rc, out = sh([sys.executable, os.path.join(VERIF, "tools", "translate.py")], timeout=300)
    try:
        with open(os.path.join(BUILD, "gen_facts.json")) as f:
            facts = json.load(f)
    except (OSError, ValueError):
        facts = {"errors": [{"step": "translate", "error": "translator crashed: " + out[-2000:]}]}
    if rc != 0 and not facts.get("errors"):
        facts["errors"] = [{"step": "translate", "error": out[-2000:]}]
    return facts, facts.get("errors", [])


# ------------------------------------------------------------------------------------------------
# Coq
# ------------------------------------------------------------------------------------------------

def coq_makefile():
    mk = os.path.join(COQ, "Makefile")
    proj = os.path.join(COQ, "_CoqProject")
    if (not os.path.exists(mk)) or os.path.getmtime(mk) < os.path.getmtime(proj):
        rc, out = sh("coq_makefile -f _CoqProject -o Makefile", cwd=COQ, timeout=120)
        if rc != 0:
            raise RuntimeError("coq_makefile failed: " + out)


def coq_make(targets, timeout=2400, keep_going=False):
    """Full .vo build of the given targets (relative to coq/).  Returns (ok, log)."""
    with build_lock():
        os.makedirs(os.path.join(BUILD, "ocaml"), exist_ok=True)   # Extract/Extract.v writes model.ml there (Cd)
        coq_makefile()
        cmd = ["timeout", str(timeout), "make", "-j%d" % NCPU] + (["-k"] if keep_going else []) + list(targets)
        rc, out = sh(cmd, cwd=COQ, timeout=timeout + 30)
    return rc == 0, out


def coq_first_error(log):
    m = re.search(r'File "\./([^"]+)", line (\d+), characters [\d-]+:\s*\n((?:.|\n)*?)(?:\n\n|\nmake)', log)
    if not m:
        return None
    path, line, msg = m.group(1), int(m.group(2)), m.group(3).strip()
    name = None
    try:
        src = open(os.path.join(COQ, path)).read().splitlines()
        for i in range(min(line, len(src)) - 1, -1, -1):
            mm = re.match(r"\s*(Lemma|Theorem|Corollary|Example|Definition|Fixpoint|Fact|Remark)\s+([\w']+)", src[i])
            if mm:
                name = mm.group(2)
                break
    except OSError:
        pass
    return {"file": path, "line": line, "lemma": name, "message": msg[:600]}


def props_theorems(props_rel):
    src = open(os.path.join(COQ, props_rel)).read()
    src = re.sub(r"\(\*.*?\*\)", "", src, flags=re.S)
    return re.findall(r"^\s*(?:Theorem|Corollary)\s+([\w']+)", src, flags=re.M), \
        re.findall(r"^\s*Example\s+([\w']+)", src, flags=re.M)


def coq_audit(props_rel):
    """Print Assumptions of every Theorem of a Props file, from a fresh coqc run (never cached).
    Returns (ok, {theorem: [axioms]}, problems)."""
    thms, _ = props_theorems(props_rel)
    mod = "CF." + props_rel[:-2].replace("/", ".")
    body = "From CF Require Import %s.\n" % props_rel[:-2].replace("/", ".")
    for t in thms:
        body += 'Goal True. idtac "@@BEGIN %s". Abort.\nPrint Assumptions %s.\n' % (t, t)
    body += 'Goal True. idtac "@@END". Abort.\n'
    os.makedirs(os.path.join(BUILD, "audit"), exist_ok=True)
    tag = props_rel.replace("/", "_")[:-2]
    path = os.path.join(BUILD, "audit", "Audit_%s.v" % tag)
    with open(path, "w") as f:
        f.write(body)
    rc, out = sh(["coqc", "-noglob", "-Q", COQ, "CF", path], timeout=600)
    problems = []
    axioms = {}
    if rc != 0:
        problems.append("audit coqc failed: " + out[-800:])
        return False, axioms, problems
    chunks = re.split(r"@@BEGIN (\S+)", out)
    for i in range(1, len(chunks), 2):
        name = chunks[i]
        text = chunks[i + 1].split("@@END")[0]
        if "Closed under the global context" in text:
            axioms[name] = []
            continue
        ax = [x for x in re.findall(r"^([A-Za-z_][\w'.]*)\s*:", text, flags=re.M) if x != "Axioms"]
        axioms[name] = ax
        for a in ax:
            if a not in ALLOWED_AXIOMS:
                problems.append("theorem %s depends on non-allow-listed axiom %s" % (name, a))
    for t in thms:
        if t not in axioms:
            problems.append("no Print Assumptions output for " + t)
    return not problems, axioms, problems


def coq_grep_banned():
    hits = []
    for path in glob.glob(os.path.join(COQ, "**", "*.v"), recursive=True):
        src = open(path).read()
        nocom = re.sub(r"\(\*.*?\*\)", lambda m: "\n" * m.group(0).count("\n"), src, flags=re.S)
        for i, ln in enumerate(nocom.splitlines(), 1):
            m = BANNED.search(ln)
            if m:
                # `Variable`/`Hypothesis` are fine inside a Section: accept only when file has a Section open
                if m.group(1) in ("Variable", "Variables", "Hypothesis", "Hypotheses") and _in_section(nocom, i):
                    continue
                hits.append("%s:%d: %s" % (os.path.relpath(path, VERIF), i, ln.strip()[:120]))
    return hits


def _in_section(src, lineno):
    depth = 0
    for i, ln in enumerate(src.splitlines(), 1):
        if i >= lineno:
            break
        if re.match(r"\s*Section\s+\w+", ln):
            depth += 1
        elif re.match(r"\s*End\s+\w+", ln) and depth > 0:
            depth -= 1
    return depth > 0


def coq_eval(body, timeout=600, name="eval"):
    """Compile a scratch .v (the caller writes Require lines) and return its stdout."""
    os.makedirs(os.path.join(BUILD, "eval"), exist_ok=True)
    h = hashlib.sha1(body.encode()).hexdigest()[:10]
    path = os.path.join(BUILD, "eval", "E_%s_%s.v" % (re.sub(r"\W", "_", name), h))
    with open(path, "w") as f:
        f.write(body)
    rc, out = sh(["coqc", "-noglob", "-Q", COQ, "CF", path], timeout=timeout)
    return rc, out


def coqchk(props_rel, timeout=1800):
    mod = "CF." + props_rel[:-2].replace("/", ".")
    rc, out = sh(["coqchk", "-silent", "-o", "-Q", COQ, "CF", mod], timeout=timeout)
    return rc, out


# ------------------------------------------------------------------------------------------------
# known findings
# ------------------------------------------------------------------------------------------------

def known_findings():
    try:
        with open(os.path.join(VERIF, "known_findings.json")) as f:
            return json.load(f)
    except OSError:
        return []


# ------------------------------------------------------------------------------------------------
# context of one check run
# ------------------------------------------------------------------------------------------------

class Ctx:
    def __init__(self, pid, tier, seed):
        self.pid, self.tier, self.seed = pid, tier, seed
        self.t0 = time.time()
        self.obligations = 0
        self.discharged = 0
        self.theorems = {}
        self.broken = []          # proofs / translator / correspondences that no longer check
        self.violations = []      # concrete failing inputs: dicts with key/what/replay
        self.evaluations = 0
        self.distinct = set()
        self.samples = []
        self.rules = []
        self.dist = {}
        self.trusted = []
        self.assumptions = []
        self.extra = {}
        self.checker_cmds = []
        self.log = []
        self.facts = None

    # -- bookkeeping -------------------------------------------------------------------------
    def note(self, s):
        self.log.append(s)
        print("[%s] %s" % (self.pid, s), flush=True)

    def cover(self, n_eval, distinct_keys=(), samples=(), rule=None, dist=None):
        self.evaluations += n_eval
        for k in distinct_keys:
            self.distinct.add(k)
        for s in samples:
            if len(self.samples) < 12:
                self.samples.append(s)
        if rule and rule not in self.rules:
            self.rules.append(rule)
        if dist:
            for k, v in dist.items():
                self.dist[k] = self.dist.get(k, 0) + v

    def violation(self, key, what, replay):
        """One violation per key (the first, i.e. after shrinking/ordering by the caller, is the replay)."""
        for v in self.violations:
            if v["key"] == key:
                v["count"] = v.get("count", 1) + 1
                return
        self.violations.append({"key": key, "what": what, "replay": replay})

    def broke(self, kind, name, detail):
        """kind in {theorem, correspondence, translator, audit}."""
        self.broken.append({"kind": kind, "name": name, "detail": detail})

    # -- steps -------------------------------------------------------------------------------
    def translate(self, steps=()):
        facts, errors = translate()
        self.facts = facts
        for e in errors:
            if steps and e["step"] not in steps:
                continue
            self.broke("translator", e["step"], e["error"])
        return facts

    def prove(self, props_rel, extra_targets=()):
        """Build Props/<id>.vo (+deps) and audit it.  Every Theorem in the file is one obligation."""
        thms, examples = props_theorems(props_rel)
        self.obligations += len(thms)
        target = props_rel[:-2] + ".vo"
        self.checker_cmds.append("make -C coq %s && coqc Print Assumptions audit (%s)" % (target, ", ".join(thms)))
        t = time.time()
        ok, log = coq_make([target] + list(extra_targets))
        self.note("coq build %s: %s in %.1fs" % (target, "ok" if ok else "FAILED", time.time() - t))
        if not ok:
            err = coq_first_error(log) or {"file": props_rel, "line": 0, "lemma": None, "message": log[-800:]}
            self.broke("theorem", "%s (%s:%d)" % (err.get("lemma"), err["file"], err["line"]), err["message"])
            return False
        ok, axioms, problems = coq_audit(props_rel)
        hits = coq_grep_banned()
        for h in hits:
            problems.append("banned construct: " + h)
        if problems:
            for p in problems:
                self.broke("audit", props_rel, p)
            return False
        self.discharged += len(thms)
        self.theorems.update(axioms)
        used = sorted({a for v in axioms.values() for a in v})
        self.extra.setdefault("axioms_used", [])
        for a in used:
            if a not in self.extra["axioms_used"]:
                self.extra["axioms_used"].append(a)
        self.extra.setdefault("nonvacuity_examples", []).extend(examples)
        if self.tier == "thorough" and os.environ.get("VERIF_SKIP_COQCHK") != "1":
            t = time.time()
            rc, out = coqchk(props_rel)
            self.note("coqchk %s rc=%d in %.1fs" % (props_rel, rc, time.time() - t))
            self.extra["coqchk"] = {"rc": rc, "tail": out[-1500:]}
            if rc != 0:
                self.broke("audit", "coqchk " + props_rel, out[-800:])
                return False
            ax = set(re.findall(r"^\s*([A-Za-z_][\w'.]*\.[\w'.]+)\s*$", out.split("Axioms:")[-1], flags=re.M)) \
                if "Axioms:" in out else set()
            for a in ax:
                short = a.replace("Coq.Reals.", "").replace("Coq.Logic.", "")
                if short not in ALLOWED_AXIOMS and a not in ALLOWED_AXIOMS:
                    self.broke("audit", "coqchk " + props_rel, "axiom outside allow-list: " + a)
        return True

    # -- verdict -----------------------------------------------------------------------------
    def finish(self, level="proof"):
        os.makedirs(EVID, exist_ok=True)
        os.makedirs(REPLAYS, exist_ok=True)
        known = [k for k in known_findings() if k.get("property") == self.pid and k.get("status") == "open"]
        lines = []
        n_viol = 0
        seen_known = set()
        for v in self.violations:
            match = [k for k in known if k.get("key") == v["key"]]
            if match:
                if v["key"] not in seen_known:
                    seen_known.add(v["key"])
                    lines.append("KNOWN-FINDING: property=%s %s" % (self.pid, match[0].get("what", v["what"])))
                continue
            n_viol += 1
            path = self._write_replay(v["key"], {"property": self.pid, "kind": v["replay"].get("kind", "input"),
                                                 "key": v["key"], "what": v["what"], **v["replay"]})
            lines.append("VIOLATION property=%s replay=%s" % (self.pid, path))
        if n_viol == 0 and self.broken:
            # Is every broken item explained by a known (open) finding?  Only if a concrete violation with that
            # key was reproduced above; otherwise the property is no longer shown to hold.
            explained = seen_known and all(b.get("explained_by") in seen_known for b in self.broken)
            if not explained:
                n_viol += 1
                path = self._write_replay("broken", {"property": self.pid, "kind": "no-failing-input-found",
                                                     "broken": self.broken,
                                                     "searched": {"evaluations": self.evaluations,
                                                                  "rules": self.rules}})
                lines.append("VIOLATION property=%s replay=%s no-failing-input-found" % (self.pid, path))
        wall = time.time() - self.t0
        cov = {
            "obligations": self.obligations, "discharged": self.discharged,
            "checker_cmd": " ; ".join(self.checker_cmds) or "n/a",
            "trusted_base": self.trusted,
            "evaluations": self.evaluations, "distinct_nontrivial": len(self.distinct),
            "rule": " | ".join(self.rules), "samples": self.samples or ["(no correspondence cases in this run)"],
            "input_distribution": self.dist,
            "theorems": self.theorems,
            "broken": self.broken,
        }
        if self.discharged == 0:
            # the proof-level keys require discharged >= 1; a run whose proofs did not check reports the counts
            # under other names and falls back to the exploration-style keys
            cov["obligations_total"] = cov.pop("obligations")
            cov["discharged_total"] = cov.pop("discharged")
        cov.update(self.extra)
        ev = {"property_id": self.pid, "tier": self.tier, "seed": self.seed, "level": level, "coverage": cov,
              "assumptions": self.assumptions, "wall_s": round(wall, 2), "violations": n_viol}
        with open(os.path.join(EVID, "%s.json" % self.pid), "w") as f:
            json.dump(ev, f, indent=1, default=str)
        for ln in lines:
            print(ln, flush=True)
        print("[%s] tier=%s obligations=%d discharged=%d evaluations=%d distinct=%d violations=%d wall=%.1fs" % (
            self.pid, self.tier, self.obligations, self.discharged, self.evaluations, len(self.distinct), n_viol, wall),
            flush=True)
        return 1 if n_viol else 0

    def _write_replay(self, key, obj):
        h = hashlib.sha1((self.pid + key + json.dumps(obj, sort_keys=True, default=str)).encode()).hexdigest()[:10]
        path = os.path.join(REPLAYS, "%s-%s.json" % (self.pid, h))
        with open(path, "w") as f:
            json.dump(obj, f, indent=1, default=str)
        return path


# ------------------------------------------------------------------------------------------------
# deterministic PRNG shared by all generators (SplitMix64)
# ------------------------------------------------------------------------------------------------

class SplitMix:
    def __init__(self, seed):
        self.s = seed & 0xFFFFFFFFFFFFFFFF

    def next(self):
        self.s = (self.s + 0x9E3779B97F4A7C15) & 0xFFFFFFFFFFFFFFFF
        z = self.s
        z = ((z ^ (z >> 30)) * 0xBF58476D1CE4E5B9) & 0xFFFFFFFFFFFFFFFF
        z = ((z ^ (z >> 27)) * 0x94D049BB133111EB) & 0xFFFFFFFFFFFFFFFF
        return z ^ (z >> 31)

    def below(self, n):
        return self.next() % n

    def choice(self, xs):
        return xs[self.below(len(xs))]


# ------------------------------------------------------------------------------------------------
# drift trigger for hand-modelled code (DESIGN 2.5)
# ------------------------------------------------------------------------------------------------

def _token_fingerprint(path):
    """sha256 over the token texts of the non-test part of a Rust file (comments, blank lines and formatting do not count)"""
    sys.path.insert(0, os.path.join(VERIF, "tools"))
    import rustlex
    src = open(path).read()
    k = src.find("#[cfg(test)]")
    if k >= 0:
        src = src[:k]
    toks = rustlex.tokenize(src)
    h = hashlib.sha256()
    for t in toks:
        h.update(t.text.encode())
        h.update(b"\0")
    return h.hexdigest(), len(toks)


def source_drift(name, rel_paths):
    """Compare the token fingerprints of hand-modelled source files with the baseline recorded when the model was written
    (corpus/fingerprints.json).  Returns the list of files whose tokens differ (a comment / formatting change is not a
    difference).  A difference means: the hand model may no longer describe the code - the caller reports it as broken and
    widens its search; it is not by itself a violation."""
    base_path = os.path.join(VERIF, "corpus", "fingerprints.json")
    try:
        base = json.load(open(base_path))
    except (OSError, ValueError):
        base = {}
    changed = []
    for rel in rel_paths:
        p = os.path.join(REPO, rel)
        try:
            fp, n = _token_fingerprint(p)
        except OSError:
            changed.append({"file": rel, "reason": "missing"})
            continue
        b = base.get(name, {}).get(rel)
        if b is None:
            changed.append({"file": rel, "reason": "no baseline recorded"})
        elif b["sha256"] != fp:
            changed.append({"file": rel, "reason": "tokens differ from the baseline (%d tokens then, %d now)" % (b["tokens"], n)})
    return changed


def record_fingerprints(name, rel_paths):
    base_path = os.path.join(VERIF, "corpus", "fingerprints.json")
    try:
        base = json.load(open(base_path))
    except (OSError, ValueError):
        base = {}
    base[name] = {}
    for rel in rel_paths:
        fp, n = _token_fingerprint(os.path.join(REPO, rel))
        base[name][rel] = {"sha256": fp, "tokens": n}
    with open(base_path, "w") as f:
        json.dump(base, f, indent=1, sort_keys=True)
