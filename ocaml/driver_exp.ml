(* `exp` mode: model result of calling export row <idx> (of GenExports.exports).
   line: <idx> <name> <c|a> <DIMS|-> <debug 0|1> <la> <lb> <lr> <place> <v> <a...> <b...> <r...> *)
open Model
open Driver_common

let show_f32 x = match bits_of_f32 x with None -> "nan" | Some z -> hex_of_z 8 z
let show_f64 x = match bits_of_f64 x with None -> "nan" | Some z -> hex_of_z 16 z

let finish show (o : _ xoutcome) =
  match o with
  | XOk (r, res, _) ->
      let b = Buffer.create 256 in
      Buffer.add_string b "ok ";
      (match r with RValue v -> Buffer.add_string b (show v) | RUnit -> Buffer.add_char b '-');
      List.iter (fun c -> Buffer.add_char b ' '; Buffer.add_string b (show c)) res;
      Buffer.contents b
  | XPanicDiv -> "panic divzero"
  | XPanicAssert -> "panic assert"
  | XFault e -> Printf.sprintf "fault %s%d+%d" (match e.ev_slice with SA -> "a" | SB -> "b" | SR -> "r") (int_of_nat e.ev_idx) (int_of_nat e.ev_width)
  | XOutOfFuel -> "outoffuel"
  | XNoModel -> "nomodel"

let run_case toks =
  match toks with
  | idx :: _name :: form :: dims :: debug :: la :: lb :: lr :: _place :: v :: rest ->
      (* <idx> is a row number of GenExports.exports, or an explicit key ty:Register:Kernel (the meaning of a NAME) *)
      let key =
        match String.split_on_char ':' idx with
        | [t; r; k] -> ((ty_of_string t, reg_of_string r), kernel_of_string k)
        | _ -> List.nth export_keys (int_of_string idx) in
      let ((t, _), _) = key in
      let f = if form = "c" then Const else Any in
      let dn = nat_of_int (if dims = "-" then 0 else int_of_string dims) in
      let dbg = debug = "1" in
      let (a, rest) = take (int_of_string la) rest in
      let (b, rest) = take (int_of_string lb) rest in
      let (r, _) = take (int_of_string lr) rest in
      (match t with
       | F32 ->
           let c x = f32_of_bits (z_of_hex x) in
           finish show_f32 (run_key_f32 key f dbg dn (c v) (List.map c a) (List.map c b) (List.map c r))
       | F64 ->
           let c x = f64_of_bits (z_of_hex x) in
           finish show_f64 (run_key_f64 key f dbg dn (c v) (List.map c a) (List.map c b) (List.map c r))
       | _ ->
           let d = ty_digits t in
           finish (hex_of_z d) (run_key_int key f dbg dn (z_of_hex v) (List.map z_of_hex a) (List.map z_of_hex b) (List.map z_of_hex r)))
  | _ -> "error bad-exp-case"
