(* Model-side driver: reads one case per line on stdin, runs the Coq-extracted model, prints one canonical
   result line per case. *)
let () =
  let mode = if Array.length Sys.argv > 1 then Sys.argv.(1) else "" in
  (try
     while true do
       let line = input_line stdin in
       let toks = Driver_common.split_ws line in
       if toks <> [] then begin
         let res =
           try
             match mode with
             | "sym" -> Driver_sym.run_case toks
             | "exp" -> Driver_exp.run_case toks
             | "spec" -> Driver_spec.run_case toks
             | "reg" -> Driver_reg.run_case toks
             | "safe" -> Driver_safe.run_case toks
             | "dispatch" -> Driver_safe.run_dispatch toks
             | _ -> "error unknown-mode"
           with Failure s -> "error " ^ s | Not_found -> "error not-found" | Stack_overflow -> "error stack-overflow"
         in
         print_string res; print_newline ()
       end
     done
   with End_of_file -> ())
