(* `reg` mode: the model of one SimdRegister method.  line: <Backend> <ty> <method> <lanes per operand> <lanes...> *)
open Model
open Driver_common

let rec chunks n l = if l = [] then [] else let (a, r) = take (min n (List.length l)) l in a :: chunks n r

let run_ops ops show parse meth per lanes_s =
  let vals = List.map parse lanes_s in
  let opnds = chunks per vals in
  let l = int_of_nat ops.lanes in
  let nth k = List.nth opnds k in
  let dense k = chunks l (nth k) in
  let out_reg r = "ok" ^ String.concat "" (List.map (fun x -> " " ^ show x) r) in
  let out_dense d = out_reg (List.concat d) in
  let out_val v = "ok " ^ show v in
  match meth with
  | "lanes" -> "ok " ^ string_of_int l
  | "roundtrip" -> out_reg (nth 0)
  | "filled" -> out_reg (ops.r_filled (List.hd (nth 0)))
  | "zeroed" -> out_reg ops.r_zeroed
  | "add" -> out_reg (ops.r_add (nth 0) (nth 1))
  | "sub" -> out_reg (ops.r_sub (nth 0) (nth 1))
  | "mul" -> out_reg (ops.r_mul (nth 0) (nth 1))
  | "div" -> (match ops.r_div (nth 0) (nth 1) with Some r -> out_reg r | None -> "panic divzero")
  | "fmadd" -> out_reg (ops.r_fmadd (nth 0) (nth 1) (nth 2))
  | "max" -> out_reg (ops.r_max (nth 0) (nth 1))
  | "min" -> out_reg (ops.r_min (nth 0) (nth 1))
  | "sum_to_value" -> out_val (ops.r_sum_to_value (nth 0))
  | "max_to_value" -> out_val (ops.r_max_to_value (nth 0))
  | "min_to_value" -> out_val (ops.r_min_to_value (nth 0))
  | "roundtrip_dense" -> out_dense (dense 0)
  | "filled_dense" -> out_dense (filled_dense ops (List.hd (nth 0)))
  | "zeroed_dense" -> out_dense (zeroed_dense ops)
  | "add_dense" -> out_dense (ops.r_add_dense (dense 0) (dense 1))
  | "sub_dense" -> out_dense (ops.r_sub_dense (dense 0) (dense 1))
  | "mul_dense" -> out_dense (ops.r_mul_dense (dense 0) (dense 1))
  | "div_dense" -> (match ops.r_div_dense (dense 0) (dense 1) with Some d -> out_dense d | None -> "panic divzero")
  | "fmadd_dense" -> out_dense (ops.r_fmadd_dense (dense 0) (dense 1) (dense 2))
  | "max_dense" -> out_dense (ops.r_max_dense (dense 0) (dense 1))
  | "min_dense" -> out_dense (ops.r_min_dense (dense 0) (dense 1))
  | "sum_to_register" -> out_reg (sum_to_register ops (dense 0))
  | "max_to_register" -> out_reg (max_to_register ops (dense 0))
  | "min_to_register" -> out_reg (min_to_register ops (dense 0))
  | _ -> "error unknown-method"

let run_case toks =
  match toks with
  | backend :: ty :: meth :: per :: lanes ->
      let r = reg_of_string backend and t = ty_of_string ty in
      let per = int_of_string per in
      (match t with
       | F32 -> (match f32_ops r with None -> "error no-such-impl"
                 | Some ops -> run_ops ops Driver_exp.show_f32 (fun x -> f32_of_bits (z_of_hex x)) meth per lanes)
       | F64 -> (match f64_ops r with None -> "error no-such-impl"
                 | Some ops -> run_ops ops Driver_exp.show_f64 (fun x -> f64_of_bits (z_of_hex x)) meth per lanes)
       | _ -> (match int_ops r t with None -> "error no-such-impl"
               | Some ops -> run_ops ops (hex_of_z (ty_digits t)) z_of_hex meth per lanes))
  | _ -> "error bad-reg-case"
