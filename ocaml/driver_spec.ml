(* `spec` mode: what the PROPERTY demands for the operation a key names (independent of kernels/registers).
   line: <ty:Reg:Kernel or row idx> <name> <c|a> <DIMS|-> <debug> <la> <lb> <lr> <place> <v> <a...> <b...> <r...>
   prints: ok <ret|-> <res...> | panic | unspecified *)
open Model
open Driver_common

let show_res show keep_tail = function
  | SVal v -> "ok " ^ show v
  | SVec l -> "ok -" ^ String.concat "" (List.map (fun c -> " " ^ show c) l) ^ String.concat "" (List.map (fun c -> " " ^ c) keep_tail)
  | SPanic -> "panic"
  | SUnspecified -> "unspecified"

let rec drop n l = if n = 0 then l else match l with [] -> [] | _ :: r -> drop (n - 1) r

let run_case toks =
  match toks with
  | idx :: _name :: _form :: _dims :: _debug :: la :: lb :: lr :: _place :: v :: rest ->
      let key =
        match String.split_on_char ':' idx with
        | [t; r; k] -> ((ty_of_string t, reg_of_string r), kernel_of_string k)
        | _ -> List.nth export_keys (int_of_string idx) in
      let ((t, _), k) = key in
      let (a, rest) = take (int_of_string la) rest in
      let (b, rest) = take (int_of_string lb) rest in
      let (r, _) = take (int_of_string lr) rest in
      (* result cells beyond len a keep their previous contents (only reachable for mismatched calls) *)
      let tail = drop (List.length a) r in
      (match t with
       | F32 -> let c x = f32_of_bits (z_of_hex x) in
           show_res Driver_exp.show_f32 tail (spec_f32 k (c v) (List.map c a) (List.map c b))
       | F64 -> let c x = f64_of_bits (z_of_hex x) in
           show_res Driver_exp.show_f64 tail (spec_f64 k (c v) (List.map c a) (List.map c b))
       | _ ->
           show_res (hex_of_z (ty_digits t)) tail
             (spec_int (int_signed t) (width t) k (z_of_hex v) (List.map z_of_hex a) (List.map z_of_hex b)))
  | _ -> "error bad-spec-case"
