(* Shared helpers of the model-side driver: conversions between OCaml ints/strings and the extracted
   datatypes (nat, positive, Z, Coq strings stay extracted datatypes — ExtrOcamlBasic only). *)
open Model

let rec nat_of_int n = if n <= 0 then O else S (nat_of_int (n - 1))
let rec int_of_nat = function O -> 0 | S n -> 1 + int_of_nat n

let kernel_of_string = function
  | "KDot" -> KDot | "KCosine" -> KCosine | "KEuclid" -> KEuclid | "KNorm" -> KNorm | "KSum" -> KSum
  | "KMaxH" -> KMaxH | "KMaxV" -> KMaxV | "KMaxVal" -> KMaxVal | "KMinH" -> KMinH | "KMinV" -> KMinV
  | "KMinVal" -> KMinVal | "KAddVal" -> KAddVal | "KSubVal" -> KSubVal | "KMulVal" -> KMulVal
  | "KDivVal" -> KDivVal | "KAddVec" -> KAddVec | "KSubVec" -> KSubVec | "KMulVec" -> KMulVec
  | "KDivVec" -> KDivVec | s -> failwith ("unknown kernel " ^ s)

let split_ws s = List.filter (fun x -> x <> "") (String.split_on_char ' ' s)
