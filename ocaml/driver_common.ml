(* Shared helpers of the model-side driver: conversions between OCaml ints/strings and the extracted
   datatypes (nat, positive, Z, Coq strings stay extracted datatypes — ExtrOcamlBasic only). *)
open Model

let rec nat_of_int n = if n <= 0 then O else S (nat_of_int (n - 1))
let rec int_of_nat = function O -> 0 | S n -> 1 + int_of_nat n

let kernel_of_string = function
  | "KDot" -> KDot | "KCosine" -> KCosine | "KEuclid" -> KEuclid | "KNorm" -> KNorm | "KSum" -> KSum
  | "KMaxH" -> KMaxH | "KMaxV" -> KMaxV | "KMaxVal" -> KMaxVal | "KMinH" -> KMinH | "KMinV" -> KMinV
  | "KMinVal" -> KMinVal | "KAddVal" -> KAddVal | "KSubVal" -> KSubVal | "KMulVal" -> KMulVal
  | "KDivVal" -> KDivVal | "KAddVec" -> KAddVec | "KSubVec" -> KSubVec | "KMulVec" -> KMulVec
  | "KDivVec" -> KDivVec | s -> failwith ("unknown kernel " ^ s)

let split_ws s = List.filter (fun x -> x <> "") (String.split_on_char ' ' s)

(* ---- Z <-> hex ---- *)
let rec pos_of_bits_msb (acc : positive option) (bits : bool list) : positive option =
  match bits with
  | [] -> acc
  | b :: r ->
      let acc' = match acc with
        | None -> if b then Some XH else None
        | Some p -> Some (if b then XI p else XO p) in
      pos_of_bits_msb acc' r

let z_of_hex s : z =
  let bits = ref [] in
  String.iter (fun c ->
    let d = match c with
      | '0'..'9' -> Char.code c - 48 | 'a'..'f' -> Char.code c - 87 | 'A'..'F' -> Char.code c - 55
      | _ -> failwith ("bad hex " ^ s) in
    bits := !bits @ [d land 8 <> 0; d land 4 <> 0; d land 2 <> 0; d land 1 <> 0]) s;
  match pos_of_bits_msb None !bits with None -> Z0 | Some p -> Zpos p

let rec bits_lsb_of_pos = function XH -> [true] | XO p -> false :: bits_lsb_of_pos p | XI p -> true :: bits_lsb_of_pos p

(* non-negative z < 2^(4*digits) as fixed-width lowercase hex *)
let hex_of_z (digits : int) (x : z) =
  match x with
  | Zneg _ -> "NEG"
  | _ ->
    let bits = match x with Z0 -> [] | Zpos p -> bits_lsb_of_pos p | Zneg _ -> [] in
    let arr = Array.make (digits * 4) false in
    List.iteri (fun i b -> if i < digits * 4 then arr.(i) <- b else if b then failwith "hex overflow") bits;
    String.init digits (fun k ->
      let base = (digits - 1 - k) * 4 in
      let d = (if arr.(base) then 1 else 0) + (if arr.(base+1) then 2 else 0)
              + (if arr.(base+2) then 4 else 0) + (if arr.(base+3) then 8 else 0) in
      "0123456789abcdef".[d])

let ty_of_string = function
  | "i8" -> I8 | "i16" -> I16 | "i32" -> I32 | "i64" -> I64 | "u8" -> U8 | "u16" -> U16 | "u32" -> U32
  | "u64" -> U64 | "f32" -> F32 | "f64" -> F64 | s -> failwith ("unknown type " ^ s)
let reg_of_string = function
  | "Fallback" -> Fallback | "Avx2" -> Avx2 | "Avx2Fma" -> Avx2Fma | "Avx512" -> Avx512 | "Neon" -> Neon
  | s -> failwith ("unknown register " ^ s)
let ty_digits = function I8 | U8 -> 2 | I16 | U16 -> 4 | I32 | U32 | F32 -> 8 | I64 | U64 | F64 -> 16

let rec take n l = if n = 0 then ([], l) else match l with [] -> failwith "short case line" | x :: r -> let (a, b) = take (n - 1) r in (x :: a, b)
