(* `safe` mode: model result of calling safe routine <sidx> (of GenSafe.safe_entries) under a dispatch
   outcome.  line: <sidx> <nightly 0|1> <avail bits: 1=avx512 2=avx2 4=fma> <mask> <name> <c|a> <DIMS|->
                   <debug> <la> <lb> <lr> <place> <v> <a...> <b...> <r...> *)
open Model
open Driver_common

let run_case toks =
  match toks with
  | sidx :: nightly :: avail :: _mask :: name :: form :: dims :: debug :: la :: lb :: lr :: _place :: v :: rest ->
      let (cc, ca) = List.nth safe_cores (int_of_string sidx) in
      let f = if form = "c" then Const else Any in
      (match (if form = "c" then cc else ca) with
       | None -> "nomodel"
       | Some core ->
         let av = int_of_string avail in
         let bc = { bc_arch = X86_64; bc_nightly = (nightly = "1"); bc_std = true; bc_tf = [] } in
         let p = { o_avx512 = av land 1 <> 0; o_avx2 = av land 2 <> 0; o_fma = av land 4 <> 0; o_neon = false } in
         let dn = nat_of_int (if dims = "-" then 0 else int_of_string dims) in
         let dbg = debug = "1" in
         let (a, rest) = take (int_of_string la) rest in
         let (b, rest) = take (int_of_string lb) rest in
         let (r, _) = take (int_of_string lr) rest in
         let tyname = List.hd (String.split_on_char '_' name) in
         (match ty_of_string tyname with
          | F32 ->
              let c x = f32_of_bits (z_of_hex x) in
              Driver_exp.finish Driver_exp.show_f32 (run_safe_f32 core f bc p dbg dn (c v) (List.map c a) (List.map c b) (List.map c r))
          | F64 ->
              let c x = f64_of_bits (z_of_hex x) in
              Driver_exp.finish Driver_exp.show_f64 (run_safe_f64 core f bc p dbg dn (c v) (List.map c a) (List.map c b) (List.map c r))
          | t ->
              let d = ty_digits t in
              Driver_exp.finish (hex_of_z d) (run_safe_int core f bc p dbg dn (z_of_hex v) (List.map z_of_hex a) (List.map z_of_hex b) (List.map z_of_hex r))))
  | _ -> "error bad-safe-case"

(* `dispatch` mode: <nightly> <avail> <supplied bits: 1=avx512 2=avx2fma 4=avx2 8=neon> -> selected slot *)
let run_dispatch toks =
  match toks with
  | [nightly; avail; sup; _mask] ->
      let av = int_of_string avail and s = int_of_string sup in
      let bc = { bc_arch = X86_64; bc_nightly = (nightly = "1"); bc_std = true; bc_tf = [] } in
      let p = { o_avx512 = av land 1 <> 0; o_avx2 = av land 2 <> 0; o_fma = av land 4 <> 0; o_neon = false } in
      let su = { s_avx512 = s land 1 <> 0; s_avx2fma = s land 2 <> 0; s_avx2 = s land 4 <> 0; s_neon = s land 8 <> 0 } in
      let show = function
        | Some SAvx512 -> "avx512" | Some SAvx2Fma -> "avx2fma" | Some SAvx2 -> "avx2" | Some SNeon -> "neon"
        | Some SFallback -> "fallback" | None -> "none" in
      (* first token: the regenerated chain (the model of the macro); second: the SPECIFICATION (documented priority,
         the guard each back end needs) *)
      show (select_chain the_chain bc p su) ^ " " ^ show (select_spec bc p su)
  | _ -> "error bad-dispatch-case"
