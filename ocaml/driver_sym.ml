(* `sym` mode: print the expression tree and register-level event log the MODEL kernels produce, in the
   format of the Rust harness (harness/cfh/src/sym.rs). *)
open Model
open Driver_common

let sop_name = function
  | OAdd -> "+" | OSub -> "-" | OMul -> "*" | ODiv -> "/" | OFma -> "fma" | OMax -> "max" | OMin -> "min"
  | OSumF -> "+*" | OMaxF -> "max*" | OMinF -> "min*"
  | SAdd -> "s+" | SSub -> "s-" | SMul -> "s*" | SDiv -> "s/" | SMax -> "smax" | SMin -> "smin"
  | SSqrt -> "ssqrt" | SAbs -> "sabs"
let const_name = function CZero -> "0" | COne -> "1" | CMin -> "MIN" | CMax -> "MAX" | CRegZero -> "rz"
let slice_name = function SA -> "a" | SB -> "b" | SR -> "r"

let rec show b = function
  | TVar (s, i) -> Buffer.add_string b (slice_name s); Buffer.add_string b (string_of_int (int_of_nat i))
  | TValue -> Buffer.add_char b 'v'
  | TConst c -> Buffer.add_string b (const_name c)
  | TOp (o, args) ->
      Buffer.add_char b '('; Buffer.add_string b (sop_name o);
      List.iter (fun x -> Buffer.add_char b ' '; show b x) args; Buffer.add_char b ')'

let show_event b (e : event) =
  Buffer.add_char b (if e.ev_write then 'W' else 'R');
  Buffer.add_string b (slice_name e.ev_slice);
  Buffer.add_string b (string_of_int (int_of_nat e.ev_idx));
  Buffer.add_char b '+';
  Buffer.add_string b (string_of_int (int_of_nat e.ev_width))

let run_case toks =
  match toks with
  | [k; l; dims; zx; zy; z0] ->
      let d = nat_of_int (int_of_string dims) in
      let b = Buffer.create 4096 in
      (match sym_run (kernel_of_string k) (nat_of_int (int_of_string l)) d d d d (zx = "1") (zy = "1") (z0 = "1") with
       | Ok (r, m) ->
           Buffer.add_string b "ok ";
           (match r with RValue t -> show b t | RUnit -> Buffer.add_char b '-');
           Buffer.add_string b " ;";
           List.iter (fun c -> Buffer.add_char b ' '; show b c) m.mR;
           Buffer.add_string b " ;";
           List.iter (fun e -> if not e.ev_scalar then (Buffer.add_char b ' '; show_event b e)) m.trace;
           Buffer.add_string b " ;"
       | Panic _ -> Buffer.add_string b "panic divzero"
       | Fault e -> Buffer.add_string b "fault "; show_event b e
       | OutOfFuel -> Buffer.add_string b "outoffuel");
      Buffer.contents b
  | _ -> "error bad-sym-case"
