#!/usr/bin/env python3
"""selftest_mem.py — mutation test of the memory tie (tools/translate_mem.py + Proofs/GenMemProofs.v, Props/C07Mem.v).

For each mutation a scratch worktree of /repo (`git -C /repo worktree add --detach /tmp/gm_wt`, removed at the end; /repo
itself is never patched) is edited, the translator is run on it into /tmp/gm_coq/<label>/GenSimdApi.v, and every
stand-alone lemma of Proofs/GenMemProofs.v is re-checked SEPARATELY against that file (each is cut out and compiled on its
own against the compiled /verif/coq tree, so one failure does not hide the others); then the whole GenMemProofs.v +
Props/C07Mem.v are compiled as `make Props/C07Mem.vo` would, to show which lemma the check would name first.
Prints one line per mutation and writes .build/genmem/selftest_results.json.   Usage: selftest_mem.py [-k substr]
"""
import concurrent.futures
import json
import os
import re
import shutil
import subprocess
import sys

VERIF = os.path.dirname(os.path.dirname(os.path.abspath(__file__)))
COQ = os.path.join(VERIF, "coq")
WT = "/tmp/gm_wt"
WORK = "/tmp/gm_coq"
OUT = os.path.join(VERIF, ".build", "genmem")
D = "cfavml/src/danger/"
API = D + "core_simd_api.rs"

OVERRIDE = """    #[inline(always)]
    unsafe fn load_dense(mem: *const f32) -> DenseLane<Self::Register> {
        DenseLane::copy(_mm512_loadu_ps(mem))
    }

    #[inline(always)]
    unsafe fn load(mem: *const f32) -> Self::Register {
        _mm512_loadu_ps(mem)"""

# (label, [(file, old, new, occurrence)], lemmas that MUST be among the broken ones, translator error expected?)
MUTATIONS = [
    ("clean (unchanged worktree)", [], [], False),
    ("load_dense: offset `* 7` -> `* 8` (h reads one register too far)",
     [(API, "h: Self::load(mem.add(Self::elements_per_lane() * 7)),", "h: Self::load(mem.add(Self::elements_per_lane() * 8)),", 0)],
     ["gen_load_dense_is_model"], False),
    ("write_dense: fields g / h swapped",
     [(API, "Self::write(mem.add(Self::elements_per_lane() * 6), lane.g);", "Self::write(mem.add(Self::elements_per_lane() * 6), lane.h);", 0),
      (API, "Self::write(mem.add(Self::elements_per_lane() * 7), lane.h);", "Self::write(mem.add(Self::elements_per_lane() * 7), lane.g);", 0)],
     ["gen_write_dense_is_model"], False),
    ("write_dense: duplicated offset (`* 3` -> `* 2`)",
     [(API, "Self::write(mem.add(Self::elements_per_lane() * 3), lane.d);", "Self::write(mem.add(Self::elements_per_lane() * 2), lane.d);", 0)],
     ["gen_write_dense_is_model"], False),
    ("load_dense: accesses reordered (b is loaded before a)",
     [(API, "            a: Self::load(mem.add(Self::elements_per_lane() * 0)),\n            b: Self::load(mem.add(Self::elements_per_lane() * 1)),\n",
       "            b: Self::load(mem.add(Self::elements_per_lane() * 1)),\n            a: Self::load(mem.add(Self::elements_per_lane() * 0)),\n", 0)],
     ["gen_load_dense_is_model"], False),
    ("load_dense: fields mixed up (`a:` gets offset 1, `b:` offset 0)",
     [(API, "            a: Self::load(mem.add(Self::elements_per_lane() * 0)),\n            b: Self::load(mem.add(Self::elements_per_lane() * 1)),\n",
       "            a: Self::load(mem.add(Self::elements_per_lane() * 1)),\n            b: Self::load(mem.add(Self::elements_per_lane() * 0)),\n", 0)],
     ["gen_load_dense_is_model"], False),
    ("DenseLane::NUM_LANES = 4", [(API, "pub const NUM_LANES: usize = 8;", "pub const NUM_LANES: usize = 4;", 0)],
     ["gen_elements_per_dense_is_model", "gen_num_lanes_is_model"], False),
    ("elements_per_lane default halves the lane count",
     [(API, "mem::size_of::<Self::Register>() / mem::size_of::<T>()", "mem::size_of::<Self::Register>() / mem::size_of::<T>() / 2", 0)],
     ["gen_mem_lanes"], False),
    ("filled_dense builds the dense from zeroed()",
     [(API, "DenseLane::copy(Self::filled(value))", "DenseLane::copy(Self::zeroed())", 0)], ["gen_filled_dense_is_model"], False),
    ("Avx2 f32 load: `_mm256_loadu_ps` -> `_mm256_load_ps` (ALIGNED)",
     [(D + "impl_avx2.rs", "_mm256_loadu_ps(mem)", "_mm256_load_ps(mem)", 0)], ["gen_mem_unaligned"], False),
    ("Avx2 i8 write: `_mm256_storeu_si256` -> `_mm256_stream_si256` (non-temporal, aligned)",
     [(D + "impl_avx2.rs", "_mm256_storeu_si256(mem.cast(), reg)", "_mm256_stream_si256(mem.cast(), reg)", 0)], ["gen_mem_unaligned"], False),
    ("Avx512 f64 load through `_mm256_loadu_pd` (half register)",
     [(D + "impl_avx512.rs", "_mm512_loadu_pd(mem)", "_mm256_loadu_pd(mem)", 0)], ["gen_mem_whole_register"], False),
    ("NEON f32 load: `vld1q_f32` -> `vld1_f32` (64-bit)",
     [(D + "impl_neon.rs", "vld1q_f32(mem)", "vld1_f32(mem)", 0)], ["gen_mem_whole_register"], False),
    ("an impl (Avx512 f32) overriding `load_dense`",
     [(D + "impl_avx512.rs", "    #[inline(always)]\n    unsafe fn load(mem: *const f32) -> Self::Register {\n        _mm512_loadu_ps(mem)", OVERRIDE, 0)],
     ["gen_dense_mem_no_overrides"], False),
    ("Avx2 u32: `type Register = __m128i` (register model of 4 lanes)",
     [(D + "impl_avx2.rs", "impl SimdRegister<u32> for Avx2 {\n    type Register = __m256i;", "impl SimdRegister<u32> for Avx2 {\n    type Register = __m128i;", 0)],
     ["gen_mem_whole_register", "gen_mem_lanes"], False),
    ("Avx2 f64 load at an offset: `_mm256_loadu_pd(mem.add(1))`",
     [(D + "impl_avx2.rs", "_mm256_loadu_pd(mem)", "_mm256_loadu_pd(mem.add(1))", 0)],
     ["gen_mem_complete", "gen_mem_impls_covered", "gen_mem_exports_covered"], True),
    ("Avx2 i16 load through an intrinsic without a row: `_mm256_lddqu_si256`",
     [(D + "impl_avx2.rs", "_mm256_loadu_si256(mem.cast())", "_mm256_lddqu_si256(mem.cast())", 1)], ["gen_mem_known"], True),
    ("NEON u8 write calls a LOAD intrinsic (`vld1q_u8(mem, reg)`)",
     [(D + "impl_neon.rs", "vst1q_u8(mem, reg)", "vld1q_u8(mem, reg)", 0)], ["gen_mem_kinds"], False),
    ("Avx2Fma f64 write delegates to Avx2 `load`",
     [(D + "impl_avx2_fma.rs", "Avx2::write(mem, reg)", "Avx2::load(mem, reg)", 1)], ["gen_mem_complete"], True),
    ("control: Fallback `mem.read()` -> `mem.read_unaligned()` (harmless)",
     [(D + "impl_fallback.rs", "mem.read()", "mem.read_unaligned()", 0)], [], False),
]


def sh(cmd, cwd=None, timeout=600):
    p = subprocess.run(cmd, cwd=cwd, stdout=subprocess.PIPE, stderr=subprocess.STDOUT, text=True, timeout=timeout)
    return p.returncode, p.stdout


def lemma_blocks():
    """(prelude, [(name, text to append after the prelude)]) for every stand-alone lemma of GenMemProofs.v (those before
    the 'Prop reading' part, which only combines them)."""
    src = open(os.path.join(COQ, "Proofs", "GenMemProofs.v")).read()
    src = src.replace("From CF Require Import Gen.GenSimdApi.", "From GMM Require Import GenSimdApi.")
    head, rest = src.split("(** * Part 1", 1)
    rest = rest.split("(** ** The Prop reading", 1)[0]
    sect_a, sect_b = rest.index("Section Defaults."), rest.index("End Defaults.")
    blocks = []
    for m in re.finditer(r"^\s*Lemma (\w+)\b.*?Qed\.", rest, flags=re.S | re.M):
        body = m.group(0)
        if sect_a < m.start() < sect_b:
            body = "Section Defaults.\n  Context {T : Type}.\n  Variable R : SimdOps T.\n" + body + "\nEnd Defaults.\n"
        blocks.append((m.group(1), body))
    return head, blocks


def probe(work, prelude, name, body):
    path = os.path.join(work, "Probe_%s.v" % name)
    with open(path, "w") as f:
        f.write(prelude + body + "\n")
    rc, out = sh(["timeout", "120", "coqc", "-noglob", "-Q", COQ, "CF", "-Q", work, "GMM", path])
    if rc == 0:
        return name, True, ""
    m = re.search(r"Error:\s*(.*)", out, flags=re.S)
    msg = (m.group(1) if m else out).strip().splitlines()
    return name, False, " ".join(x.strip() for x in msg[:3])[:160]


def first_error(log, path):
    m = re.search(r'File "[^"]*", line (\d+), characters', log)
    if not m:
        return None
    line = int(m.group(1))
    src = open(path).read().splitlines()
    for i in range(min(line, len(src)) - 1, -1, -1):
        mm = re.match(r"\s*(Lemma|Theorem|Example)\s+([\w']+)", src[i])
        if mm:
            return mm.group(2)
    return "line %d" % line


def run_one(label, edits):
    tag = re.sub(r"[^A-Za-z0-9]+", "_", label)[:40].strip("_")
    work = os.path.join(WORK, tag)
    shutil.rmtree(work, ignore_errors=True)
    os.makedirs(work)
    saved = {}
    try:
        for rel, old, new, occ in edits:
            path = os.path.join(WT, rel)
            src = open(path).read()
            saved.setdefault(path, src)
            idx = -1
            for _ in range(occ + 1):
                idx = src.find(old, idx + 1)
            if idx < 0:
                return {"label": label, "applicable": False}
            with open(path, "w") as f:
                f.write(src[:idx] + new + src[idx + len(old):])
        gen = os.path.join(work, "GenSimdApi.v")
        rc, out = sh([sys.executable, os.path.join(VERIF, "tools", "translate_mem.py"), "--repo", WT, "--out", gen])
    finally:
        for path, src in saved.items():
            with open(path, "w") as f:
                f.write(src)
    terr = [ln for ln in out.splitlines() if ln.startswith("TRANSLATE-ERROR")]
    res = {"label": label, "applicable": True, "translator_rc": rc, "translator_error": terr[0][:400] if terr else None}
    rc2, out2 = sh(["timeout", "120", "coqc", "-noglob", "-Q", COQ, "CF", "-Q", work, "GMM", gen])
    res["gen_compiles"] = rc2 == 0
    if rc2 != 0:
        res["gen_error"] = out2[-300:]
        res["broken"] = ["(generated file does not compile)"]
        return res
    prelude, blocks = lemma_blocks()
    broken, msgs = [], {}
    with concurrent.futures.ThreadPoolExecutor(max_workers=8) as ex:
        for name, ok, msg in ex.map(lambda b: probe(work, prelude, b[0], b[1]), blocks):
            if not ok:
                broken.append(name)
                msgs[name] = msg
    res["broken"], res["messages"], res["n_lemmas"] = broken, msgs, len(blocks)
    # the files as the build sees them
    full = os.path.join(work, "GenMemProofs.v")
    with open(full, "w") as f:
        f.write(open(os.path.join(COQ, "Proofs", "GenMemProofs.v")).read().replace(
            "From CF Require Import Gen.GenSimdApi.", "From GMM Require Import GenSimdApi."))
    rc3, out3 = sh(["timeout", "200", "coqc", "-noglob", "-Q", COQ, "CF", "-Q", work, "GMM", full])
    res["proofs_file_compiles"] = rc3 == 0
    res["first_error_in_build"] = None if rc3 == 0 else first_error(out3, full)
    if rc3 == 0:
        props = os.path.join(work, "C07Mem.v")
        with open(props, "w") as f:
            f.write(open(os.path.join(COQ, "Props", "C07Mem.v")).read()
                    .replace("From CF Require Import Gen.GenExports Gen.GenSimdApi.", "From CF Require Import Gen.GenExports.\nFrom GMM Require Import GenSimdApi.")
                    .replace("From CF Require Import Proofs.GenMemSpec Proofs.GenMemProofs.", "From CF Require Import Proofs.GenMemSpec.\nFrom GMM Require Import GenMemProofs."))
        rc4, out4 = sh(["timeout", "200", "coqc", "-noglob", "-Q", COQ, "CF", "-Q", work, "GMM", props])
        res["props_file_compiles"] = rc4 == 0
        if rc4 != 0:
            res["first_error_in_build"] = first_error(out4, props)
    return res


def main():
    only = sys.argv[sys.argv.index("-k") + 1] if "-k" in sys.argv else None
    os.makedirs(OUT, exist_ok=True)
    sh(["git", "-C", "/repo", "worktree", "remove", "--force", WT])
    rc, out = sh(["git", "-C", "/repo", "worktree", "add", "--detach", WT, "HEAD"])
    if rc != 0:
        print(out)
        return 2
    results, bad = [], 0
    try:
        for label, edits, expect, want_terr in MUTATIONS:
            if only and only not in label:
                continue
            r = run_one(label, edits)
            if not r.get("applicable"):
                print("NOT APPLICABLE (source changed?): " + label)
                bad += 1
                results.append(r)
                continue
            broken = r["broken"]
            caught = all(x in broken for x in expect) and (bool(r["translator_error"]) or not want_terr)
            if not edits:
                caught = not broken and not r["translator_error"] and r.get("props_file_compiles")
            if not expect and edits:
                caught = not broken and not r["translator_error"]
            r["expected"], r["caught"] = expect, bool(caught)
            bad += 0 if caught else 1
            print("%-88s translator=%-5s broken=%s%s   -> %s" % (
                label, "ERROR" if r["translator_error"] else "ok", ",".join(broken) or "-",
                ("   first in build: %s" % r["first_error_in_build"]) if r.get("first_error_in_build") else "",
                ("as expected" if caught else "MISSED (expected %s)" % (",".join(expect) or "nothing broken"))), flush=True)
            if r["translator_error"]:
                print("      " + r["translator_error"][:260])
            results.append(r)
    finally:
        sh(["git", "-C", "/repo", "worktree", "remove", "--force", WT])
        shutil.rmtree(WORK, ignore_errors=True)
    with open(os.path.join(OUT, "selftest_results.json"), "w") as f:
        json.dump(results, f, indent=1)
    print("\nself-test: %d/%d as expected" % (len(results) - bad, len(results)))
    return 1 if bad else 0


if __name__ == "__main__":
    sys.exit(main())
