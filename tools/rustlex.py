"""Minimal Rust tokenizer + helpers used by translate.py and fingerprint.py.

Fails loudly (TranslateError) on anything it does not understand: a failed
translation is a broken tie and is handled by run.py as such.
"""
import re


class TranslateError(Exception):
    pass


TOKEN_RE = re.compile(r"""
    (?P<ws>\s+)
  | (?P<lcomment>//[^\n]*)
  | (?P<bcomment>/\*.*?\*/)
  | (?P<str>b?"(?:\\.|[^"\\])*")
  | (?P<rawstr>r\#*"(?:.|\n)*?"\#*)
  | (?P<char>'(?:\\.|[^'\\])')
  | (?P<lifetime>'[A-Za-z_][A-Za-z0-9_]*)
  | (?P<num>0x[0-9a-fA-F_]+(?:[iu](?:8|16|32|64|128|size))?|0b[01_]+(?:[iu](?:8|16|32|64|128|size))?|[0-9][0-9_]*(?:\.[0-9][0-9_]*)?(?:[eE][+-]?[0-9]+)?(?:[iuf](?:8|16|32|64|128|size))?)
  | (?P<ident>\$?[A-Za-z_][A-Za-z0-9_]*)
  | (?P<punct>::|->|=>|==|!=|<=|>=|&&|\|\||\+=|-=|\*=|/=|%=|<<|>>|\.\.=|\.\.|[{}()\[\]<>;,.:=+\-*/%!&|^~?#@$])
""", re.X | re.S)


class Tok:
    __slots__ = ("kind", "text", "line")

    def __init__(self, kind, text, line):
        self.kind, self.text, self.line = kind, text, line

    def __repr__(self):
        return "%s:%r@%d" % (self.kind, self.text, self.line)


def tokenize(src, keep_doc=False):
    toks = []
    pos = 0
    line = 1
    n = len(src)
    while pos < n:
        m = TOKEN_RE.match(src, pos)
        if not m:
            raise TranslateError("cannot tokenize at line %d: %r" % (line, src[pos:pos + 30]))
        kind = m.lastgroup
        text = m.group(0)
        if kind in ("ws", "bcomment"):
            pass
        elif kind == "lcomment":
            if keep_doc and (text.startswith("///") or text.startswith("//!")):
                toks.append(Tok("doc", text, line))
        else:
            toks.append(Tok(kind, text, line))
        line += text.count("\n")
        pos = m.end()
    return toks


OPEN = {"(": ")", "[": "]", "{": "}"}
CLOSE = {")", "]", "}"}


def match_close(toks, i):
    """toks[i] is an opening bracket; return index of its closing bracket."""
    depth = 0
    j = i
    while j < len(toks):
        t = toks[j].text
        if toks[j].kind == "punct" and t in OPEN:
            depth += 1
        elif toks[j].kind == "punct" and t in CLOSE:
            depth -= 1
            if depth == 0:
                return j
        j += 1
    raise TranslateError("unbalanced bracket at line %d" % toks[i].line)


def texts(toks):
    return [t.text for t in toks]


def split_top(toks, sep=","):
    """Split a token list on top-level separators."""
    out, cur, depth = [], [], 0
    for t in toks:
        if t.kind == "punct" and t.text in OPEN:
            depth += 1
        elif t.kind == "punct" and t.text in CLOSE:
            depth -= 1
        if depth == 0 and t.kind == "punct" and t.text == sep:
            out.append(cur)
            cur = []
        else:
            cur.append(t)
    if cur:
        out.append(cur)
    return out


def strip_attrs(toks):
    """Remove #[...] and #![...] attribute token groups; returns (tokens, attrs) where attrs is a list of
    (index_in_output_where_it_applied, attr_tokens)."""
    out, attrs = [], []
    i = 0
    while i < len(toks):
        t = toks[i]
        if t.kind == "punct" and t.text == "#":
            j = i + 1
            if j < len(toks) and toks[j].text == "!":
                j += 1
            if j < len(toks) and toks[j].text == "[":
                k = match_close(toks, j)
                attrs.append((len(out), toks[j + 1:k]))
                i = k + 1
                continue
        out.append(t)
        i += 1
    return out, attrs
