#!/usr/bin/env python3
"""Regenerate MANIFEST.json from tools/manifest_src.py (one place to edit)."""
import json, os, sys
sys.path.insert(0, os.path.dirname(os.path.abspath(__file__)))
import manifest_src as M
checks = []
for pid, c in sorted(M.CHECKS.items()):
    checks.append({
        "property_id": pid,
        "quick_cmd": "python3 run.py %s --tier quick" % pid,
        "thorough_cmd": "python3 run.py %s --tier thorough" % pid,
        "evidence_file": "/verif/evidence/%s.json" % pid,
        "replay_cmd_template": "python3 run.py --replay {path}",
        "engine": "coq-model",
        "level_claimed": {"category": "proof", "text": c["text"], "design_ref": c.get("design_ref", "DESIGN.md §3 " + pid)},
        "level_note": c["note"],
        "technique": c["technique"],
    })
na = [{"property_id": p, "reason": r} for p, r in sorted(M.NOT_APPLICABLE.items())]
m = {
    "version": 1,
    "setup_cmd": "python3 run.py --setup",
    "hooks": M.HOOKS,
    "engines": [{"name": "coq-model", "path": "/verif/coq", "serves_properties": sorted(M.CHECKS),
                 "kind_free_text": "Coq 8.16.1 development: translator-generated tables (coq/Gen) + hand-written executable model (coq/Model) with proofs (coq/Proofs, coq/Props), tied to /repo by tools/translate.py and by Rust/OCaml correspondence harnesses"}],
    "checks": checks,
    "notes": M.NOTES,
    "not_applicable": na,
}
json.dump(m, open(os.path.join(os.path.dirname(os.path.dirname(os.path.abspath(__file__))), "MANIFEST.json"), "w"), indent=1)
print("wrote MANIFEST.json with %d checks, %d not_applicable" % (len(checks), len(na)))
