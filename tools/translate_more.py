"""translate_more.py — further generators called from translate.py (`steps(facts, write_if_changed, GEN, REPO)`).

step "math":  cfavml/src/math/default.rs + math/fast_math.rs  ->  coq/Gen/GenMath.v            (property C18)

Every `impl Math<T> for StdMath|FastMath` — the two written out for f32/f64 and the sixteen produced by the two
arms of `macro_rules! define_int_ops` (the macro is EXPANDED here: the arm is chosen by matching the invocation's
tokens against the arm's pattern and `$t` is substituted) — becomes one `MathOps` record whose 13 fields are the
TRANSLATION of the Rust method bodies over the primitives of Model/Prim.v and Model/PrimMore.v.  The translator is
a small typed expression compiler: it knows the type of every sub-expression (the parameters' declared types, the
type a path such as `i8::MAX` or a cast `as f64` names), picks the primitive by (type, operator/method) and fails
with TranslateError on everything outside the fragment below, on a type mismatch, on a missing/duplicated/extra
method and on a body whose type is not the declared return type.

   literals            0  1  -1 (integers, at the expected type)        ->  i_lit w n
                       0.0 1.0 2.0 ... (integral float literals)        ->  f_lit n
   paths               $t::MAX $t::MIN                                  ->  i_MAX sg w / i_MIN sg w
                       f32::INFINITY NEG_INFINITY NAN MAX MIN           ->  f_inf false / f_inf true / f_nan / ...
   integer methods     wrapping_add/sub/mul   wrapping_div/rem (may panic: option)   saturating_add/sub/mul
                       min max abs (signed only; release semantics) wrapping_abs wrapping_neg
   float methods/ops   + - * / (unary -)  min max abs sqrt mul_add       ->  f_add ... f_fma
   comparisons         == != < <= > >=                                   ->  i_eq / f_eq / i_lt / f_lt ...
   casts               int as f32|f64, f32|f64 as int                    ->  cast_int_f64 sg w / cast_f64_int sg w
   UFCS                f32::sqrt(a) == a.sqrt();  StdMath::sqrt(x) / FastMath::sqrt(x): the field of the record
                       already generated for (that variant, the type of x)
   intrinsics          [core::]intrinsics::f{add,sub,mul,div}_algebraic  ->  prim_f*_algebraic
   control             `if cfg!(miri) {A} else {B}` -> B (miri is not the build under verification);
                       `#[cfg(feature = "std")] {A} #[cfg(not(feature = "std"))] {B}` -> selected by FLAGS (std build);
                       `if c {A} else {B}` on a translated boolean c -> Coq if
   `/` and `%` on integers (panic on zero AND on MIN / -1 in every profile: i_div_op / i_rem_op)
   NOT in the fragment `+ - *` on integers (overflow behaviour depends on the build profile), bit operations,
                       `let`, loops, early return, calls to free functions (the no_std helpers f32_sqrt_fast /
                       f32_abs_fast are only recorded, not translated: that branch is outside the property).
"""
import os

from rustlex import TranslateError, Tok, tokenize, match_close, texts

# the build under verification (DESIGN §3 C18: sqrt under no_std is the documented approximation, outside the property)
FLAGS = {"feature:std": True, "miri": False, "test": False, "debug_assertions": False}

INT_TYS = {"i8": (True, 8), "i16": (True, 16), "i32": (True, 32), "i64": (True, 64),
           "u8": (False, 8), "u16": (False, 16), "u32": (False, 32), "u64": (False, 64)}
FLOAT_TYS = {"f32": (24, 128), "f64": (53, 1024)}
ALL_TYS = ["i8", "i16", "i32", "i64", "u8", "u16", "u32", "u64", "f32", "f64"]
COQ_TY = {"i8": "I8", "i16": "I16", "i32": "I32", "i64": "I64", "u8": "U8", "u16": "U16", "u32": "U32",
          "u64": "U64", "f32": "F32", "f64": "F64"}
VARIANTS = {"StdMath": ("std", "VStd", "cfavml/src/math/default.rs"),
            "FastMath": ("fast", "VFast", "cfavml/src/math/fast_math.rs")}
# the 13 methods of `trait Math<T>` (math/mod.rs), in the order of the record MathOps: (name, arity, returns)
METHODS = [("zero", 0, "T"), ("one", 0, "T"), ("max", 0, "T"), ("min", 0, "T"), ("sqrt", 1, "T"), ("abs", 1, "T"),
           ("cmp_eq", 2, "bool"), ("cmp_min", 2, "T"), ("cmp_max", 2, "T"),
           ("add", 2, "T"), ("sub", 2, "T"), ("mul", 2, "T"), ("div", 2, "T")]
FIELD = {"zero": "m_zero", "one": "m_one", "max": "m_max", "min": "m_min", "sqrt": "m_sqrt", "abs": "m_abs",
         "cmp_eq": "m_cmp_eq", "cmp_min": "m_cmp_min", "cmp_max": "m_cmp_max", "add": "m_add", "sub": "m_sub",
         "mul": "m_mul", "div": "m_div"}


def cbool(b):
    return "true" if b else "false"


def is_int(t):
    return t in INT_TYS


def is_float(t):
    return t in FLOAT_TYS


def sgw(t):
    sg, w = INT_TYS[t]
    return "%s %d" % (cbool(sg), w)


def src_text(toks):
    """canonical one-line rendering of a token list (recorded as a fact, shown in messages)"""
    out = ""
    for t in toks:
        s = t.text
        if out and (s in (")", ",", ".", ";", "(", "::", "]") or out.endswith(("(", ".", "::", "!", "[", "$"))
                    and not (s == "(" and out.endswith(("if", "else", "as")))):
            if s == "(" and out[-1:] in "+-*/=<>&|":
                out += " "
            out += s
        else:
            out += (" " if out else "") + s
    return out


# ----------------------------------------------------------------------------------------------
# cfg attributes / cfg!()
# ----------------------------------------------------------------------------------------------

def eval_cfg(toks):
    """value of a cfg predicate under FLAGS; TranslateError on a key FLAGS does not decide"""
    pos = [0]

    def eat(x=None):
        if pos[0] >= len(toks):
            raise TranslateError("cfg: unexpected end")
        t = toks[pos[0]]
        if x is not None and t.text != x:
            raise TranslateError("cfg: expected %r got %r at line %d" % (x, t.text, t.line))
        pos[0] += 1
        return t

    def peek():
        return toks[pos[0]].text if pos[0] < len(toks) else None

    def expr():
        t = eat()
        if t.kind != "ident":
            raise TranslateError("cfg: unexpected token %r at line %d" % (t.text, t.line))
        if t.text in ("all", "any", "not"):
            eat("(")
            items = []
            while peek() != ")":
                items.append(expr())
                if peek() == ",":
                    eat(",")
            eat(")")
            if t.text == "not":
                if len(items) != 1:
                    raise TranslateError("cfg: not() takes one argument (line %d)" % t.line)
                return not items[0]
            return all(items) if t.text == "all" else any(items)
        if peek() == "=":
            eat("=")
            v = eat()
            key = "%s:%s" % (t.text, v.text.strip('"'))
        else:
            key = t.text
        if key not in FLAGS:
            raise TranslateError("cfg: the translator has no value for `%s` (line %d)" % (key, t.line))
        return FLAGS[key]

    v = expr()
    if pos[0] != len(toks):
        raise TranslateError("cfg: trailing tokens at line %d" % toks[pos[0]].line)
    return v


def take_attrs(toks, i):
    """consume #[...] groups at toks[i:]; returns (next index, list of attribute token lists)"""
    attrs = []
    while i < len(toks) and toks[i].text == "#":
        if toks[i + 1].text != "[":
            raise TranslateError("unexpected `#` at line %d" % toks[i].line)
        k = match_close(toks, i + 1)
        attrs.append(toks[i + 2:k])
        i = k + 1
    return i, attrs


def cfg_of_attrs(attrs):
    """conjunction of the #[cfg(...)] among attrs under FLAGS (True when there is none)"""
    ok = True
    for a in attrs:
        if a and a[0].text == "cfg":
            if a[1].text != "(" or a[-1].text != ")":
                raise TranslateError("malformed #[cfg] at line %d" % a[0].line)
            ok = ok and eval_cfg(a[2:-1])
        elif a and a[0].text == "cfg_attr":
            raise TranslateError("cfg_attr is not supported (line %d)" % a[0].line)
    return ok


# ----------------------------------------------------------------------------------------------
# typed expression compiler
# ----------------------------------------------------------------------------------------------

class E:
    """a translated expression: Coq text, Rust type name, and whether it is an `option` (may panic)"""
    __slots__ = ("coq", "ty", "partial")

    def __init__(self, coq, ty, partial=False):
        self.coq, self.ty, self.partial = coq, ty, partial


INT_METHODS2 = {"wrapping_add": "i_add %(w)d", "wrapping_sub": "i_sub %(w)d", "wrapping_mul": "i_mul %(w)d",
                "saturating_add": "i_sat_add %(sg)s %(w)d", "saturating_sub": "i_sat_sub %(sg)s %(w)d",
                "saturating_mul": "i_sat_mul %(sg)s %(w)d",
                "min": "i_min %(sg)s %(w)d", "max": "i_max %(sg)s %(w)d"}
INT_METHODS2_PARTIAL = {"wrapping_div": "i_div %(sg)s %(w)d", "wrapping_rem": "i_rem %(sg)s %(w)d"}
FLOAT_METHODS = {"min": ("f_min", 2), "max": ("f_max", 2), "abs": ("f_abs", 1), "sqrt": ("f_sqrt", 1),
                 "mul_add": ("f_fma", 3)}
FLOAT_BINOPS = {"+": "f_add", "-": "f_sub", "*": "f_mul", "/": "f_div"}
ALGEBRAIC = {"fadd_algebraic": "prim_fadd_algebraic", "fsub_algebraic": "prim_fsub_algebraic",
             "fmul_algebraic": "prim_fmul_algebraic", "fdiv_algebraic": "prim_fdiv_algebraic"}


class Compiler:
    def __init__(self, toks, env, records, where):
        self.toks, self.pos, self.env, self.records, self.where = toks, 0, env, records, where
        self.notes = []
        self.fresh = 0

    # -- token helpers
    def err(self, msg, tok=None):
        line = tok.line if tok is not None else (self.toks[min(self.pos, len(self.toks) - 1)].line if self.toks else 0)
        raise TranslateError("%s line %d: %s" % (self.where, line, msg))

    def peek(self, k=0):
        return self.toks[self.pos + k].text if self.pos + k < len(self.toks) else None

    def peek_tok(self):
        return self.toks[self.pos] if self.pos < len(self.toks) else None

    def eat(self, x=None):
        if self.pos >= len(self.toks):
            self.err("unexpected end of body" + (" (expected %r)" % x if x else ""))
        t = self.toks[self.pos]
        if x is not None and t.text != x:
            self.err("expected %r, found %r" % (x, t.text), t)
        self.pos += 1
        return t

    def sub(self, toks):
        c = Compiler(toks, self.env, self.records, self.where)
        c.notes = self.notes
        return c

    # -- monadic plumbing: apply a total Coq function to arguments some of which may panic
    def app(self, fn, args, ty, partial_result=False):
        binds, names = [], []
        for a in args:
            if a.partial:
                self.fresh += 1
                v = "p%d_" % self.fresh
                binds.append((a.coq, v))
                names.append(v)
            else:
                names.append(a.coq)
        core = "(%s %s)" % (fn, " ".join(names)) if names else fn
        if not binds:
            return E(core, ty, partial_result)
        inner = core if partial_result else "(Some %s)" % core
        for c, v in reversed(binds):
            inner = "(obind %s (fun %s => %s))" % (c, v, inner)
        return E(inner, ty, True)

    # -- blocks --------------------------------------------------------------------------------
    def block_body(self, expected):
        """the token list of a `{ ... }` interior: either cfg-selected sub-blocks or one tail expression"""
        if self.peek() == "#":
            chosen = None
            while self.pos < len(self.toks):
                self.pos, attrs = take_attrs(self.toks, self.pos)
                if not any(a and a[0].text == "cfg" for a in attrs):
                    self.err("attribute inside a body that is not a #[cfg]")
                if self.peek() != "{":
                    self.err("#[cfg] inside a body must be followed by a block")
                k = match_close(self.toks, self.pos)
                inner = self.toks[self.pos + 1:k]
                cond = src_text([t for a in attrs for t in a])
                if cfg_of_attrs(attrs):
                    if chosen is not None:
                        self.err("two #[cfg] blocks are both enabled in the build under verification")
                    chosen = inner
                    self.notes.append({"selected": cond, "body": src_text(inner)})
                else:
                    self.notes.append({"not_selected": cond, "body": src_text(inner)})
                self.pos = k + 1
            if chosen is None:
                self.err("no #[cfg] block is enabled in the build under verification")
            c = self.sub(chosen)
            e = c.block_body(expected)
            return e
        if self.peek() in ("let", "return", "loop", "while", "for", "unsafe", "match"):
            self.err("`%s` is outside the translated fragment" % self.peek())
        e = self.expr(expected)
        if self.pos != len(self.toks):
            self.err("unexpected %r after the body's expression (statements are outside the translated fragment)"
                     % self.peek(), self.peek_tok())
        return e

    def braced(self, expected):
        if self.peek() != "{":
            self.err("expected a block")
        self.eat("{")
        k = match_close(self.toks, self.pos - 1)
        inner = self.toks[self.pos:k]
        self.pos = k + 1
        return self.sub(inner).block_body(expected)

    # -- expressions: precedence climbing ------------------------------------------------------
    def expr(self, expected=None):
        return self.bool_expr(expected)

    def _expr_end(self):
        """index of the first token after this expression (`,` `;` `{` `}` or an unmatched closing bracket at depth 0)"""
        d = 0
        for j in range(self.pos, len(self.toks)):
            s = self.toks[j].text
            if self.toks[j].kind == "punct":
                if s in "([":
                    d += 1
                elif s in ")]":
                    d -= 1
                    if d < 0:
                        return j
                elif d == 0 and s in (",", ";", "{", "}"):
                    return j
        return len(self.toks)

    def bool_expr(self, expected):
        """`||` / `&&` (short-circuit; both operands are pure here, so orb / andb), lowest precedence"""
        if self.peek() in ("if", "{") or not self._has_top(("||", "&&")):
            return self.cmp_expr(expected)
        end = self._expr_end()
        toks = self.toks[self.pos:end]

        def split(ts, op):
            out, cur, d = [], [], 0
            for t in ts:
                if t.kind == "punct" and t.text in "([":
                    d += 1
                elif t.kind == "punct" and t.text in ")]":
                    d -= 1
                if d == 0 and t.kind == "punct" and t.text == op:
                    out.append(cur)
                    cur = []
                else:
                    cur.append(t)
            out.append(cur)
            return out

        def one(ts):
            c = self.sub(ts)
            e = c.cmp_expr("bool")
            if c.pos != len(ts):
                self.err("trailing tokens in an operand of `||` / `&&`")
            if e.ty != "bool":
                self.err("operand of `||` / `&&` has type %s" % e.ty)
            if e.partial:
                self.err("a partial operation under `||` / `&&` is outside the translated fragment")
            return e
        disj = []
        for seg in split(toks, "||"):
            conj = [one(x) for x in split(seg, "&&")]
            e = conj[0]
            for x in conj[1:]:
                e = self.app("andb", [e, x], "bool")
            disj.append(e)
        e = disj[0]
        for x in disj[1:]:
            e = self.app("orb", [e, x], "bool")
        self.pos = end
        return e

    def cmp_expr(self, expected):
        ops = ("==", "!=", "<", "<=", ">", ">=")
        if self.peek() in ("if", "{") or not self._has_top(ops):
            return self.add_expr(expected)
        l = self._operand_pair(self.add_expr, ops)
        (a, op, b) = l
        if a.ty != b.ty:
            self.err("comparison `%s` of %s with %s" % (op, a.ty, b.ty))
        t = a.ty
        if is_int(t):
            sg, w = INT_TYS[t]
            fn = {"==": "i_eq", "!=": "i_eq", "<": "i_lt %s" % sgw(t), "<=": "i_le %s" % sgw(t),
                  ">": "i_lt %s" % sgw(t), ">=": "i_le %s" % sgw(t)}[op]
        elif is_float(t):
            fn = {"==": "f_eq", "!=": "f_eq", "<": "f_lt", "<=": "f_le", ">": "f_lt", ">=": "f_le"}[op]
        else:
            self.err("comparison on type %s" % t)
        args = [b, a] if op in (">", ">=") else [a, b]
        e = self.app(fn, args, "bool")
        if op == "!=":
            e = self.app("negb", [e], "bool")
        return e

    def _has_top(self, ops):
        """is there one of ops at bracket depth 0 before the end of this expression (`,` `;` `{` stop it)?"""
        d = 0
        for j in range(self.pos, len(self.toks)):
            s = self.toks[j].text
            if self.toks[j].kind == "punct":
                if s in "([":
                    d += 1
                elif s in ")]":
                    d -= 1
                    if d < 0:
                        return False
                elif d == 0 and s in (",", ";", "{", "}"):
                    return False
                elif d == 0 and s in ops:
                    return True
        return False

    def _operand_pair(self, sub, ops):
        """parse `X op Y` where a literal operand takes its type from the other one"""
        start = self.pos
        try:
            a = sub(None)
        except _NeedType:
            # left operand is an untyped literal: skip it, parse the right one, come back
            self.pos = start
            self._skip_operand(ops)
            op = self.eat().text
            b = sub(None)
            end = self.pos
            self.pos = start
            a = sub(b.ty)
            self.pos = end
            return a, op, b
        op = self.eat().text
        if op not in ops:
            self.err("expected one of %s, found %r" % (" ".join(ops), op))
        b = sub(a.ty)
        return a, op, b

    def _skip_operand(self, ops):
        d = 0
        while self.pos < len(self.toks):
            s = self.toks[self.pos].text
            if self.toks[self.pos].kind == "punct":
                if s in "([":
                    d += 1
                elif s in ")]":
                    d -= 1
                elif d == 0 and s in ops:
                    return
            self.pos += 1
        self.err("operator expected")

    def add_expr(self, expected):
        a = self.mul_expr(expected)
        while self.peek() in ("+", "-"):
            op = self.eat()
            b = self.mul_expr(a.ty)
            a = self.arith(op, a, b)
        return a

    def mul_expr(self, expected):
        a = self.cast_expr(expected)
        while self.peek() in ("*", "/", "%"):
            op = self.eat()
            b = self.cast_expr(a.ty)
            a = self.arith(op, a, b)
        return a

    def arith(self, op, a, b):
        if a.ty != b.ty:
            self.err("operator `%s` applied to %s and %s" % (op.text, a.ty, b.ty), op)
        if is_float(a.ty) and op.text in FLOAT_BINOPS:
            return self.app(FLOAT_BINOPS[op.text], [a, b], a.ty)
        if is_int(a.ty) and op.text in ("/", "%"):
            # `/` and `%` panic on a zero divisor and on MIN / -1 in every profile: a partial primitive
            return self.app(("i_div_op %s" if op.text == "/" else "i_rem_op %s") % sgw(a.ty), [a, b], a.ty, partial_result=True)
        if is_int(a.ty):
            self.err("operator `%s` on %s: its overflow behaviour depends on the build profile (panic in debug, wrap in "
                     "release); the math layer is specified with the explicit wrapping_* methods — outside the "
                     "translated fragment" % (op.text, a.ty), op)
        self.err("operator `%s` on type %s is outside the translated fragment" % (op.text, a.ty), op)

    def cast_expr(self, expected):
        # the operand of `as` has its own type: the expected type is not pushed through a cast
        start, nnotes = self.pos, len(self.notes)
        try:
            a = self.unary(expected)
        except _NeedType:
            a = None
        if a is None or self.peek() == "as":
            if a is None and not self._as_follows(start):
                raise _NeedType()
            self.pos = start
            del self.notes[nnotes:]
            try:
                a = self.unary(None)
            except _NeedType:
                self.err("the operand of `as` is an unsuffixed literal (its type would be inferred by rustc); "
                         "outside the translated fragment")
        while self.peek() == "as":
            kw = self.eat()
            t = self.eat()
            tgt = t.text
            if is_int(a.ty) and tgt in FLOAT_TYS:
                a = self.app("cast_int_%s %s" % (tgt, sgw(a.ty)), [a], tgt)
            elif is_float(a.ty) and tgt in INT_TYS:
                a = self.app("cast_%s_int %s" % (a.ty, sgw(tgt)), [a], tgt)
            elif a.ty == tgt:
                pass
            else:
                self.err("cast `%s as %s` is outside the translated fragment" % (a.ty, tgt), kw)
        return a

    def _as_follows(self, start):
        j = start
        while j < len(self.toks) and self.toks[j].text in ("-", "!"):
            j += 1
        return j + 1 < len(self.toks) and self.toks[j].kind == "num" and self.toks[j + 1].text == "as"

    def unary(self, expected):
        if self.peek() == "-":
            op = self.eat()
            nt = self.peek_tok()
            if nt is not None and nt.kind == "num":
                return self.literal(expected, negative=True)
            a = self.unary(expected)
            if is_float(a.ty):
                return self.app("f_neg", [a], a.ty)
            self.err("unary `-` on %s (overflow behaviour depends on the build profile; use wrapping_neg)" % a.ty, op)
        if self.peek() == "!":
            op = self.eat()
            a = self.unary(expected)
            if a.ty == "bool":
                return self.app("negb", [a], "bool")
            self.err("`!` on %s is outside the translated fragment" % a.ty, op)
        return self.postfix(expected)

    def literal(self, expected, negative=False):
        t = self.eat()
        s = t.text.replace("_", "")
        suffix = None
        for ty in list(INT_TYS) + list(FLOAT_TYS):
            if s.endswith(ty) and not s.startswith("0x"):
                suffix, s = ty, s[:-len(ty)]
                break
        ty = suffix or expected
        isfloatlit = ("." in s or "e" in s.lower()) and not s.startswith("0x")
        if ty is None:
            raise _NeedType()
        if is_float(ty):
            try:
                v = float(s)
            except ValueError:
                self.err("cannot read float literal %r" % t.text, t)
            if v != int(v) or abs(v) >= 2 ** 24 or "e" in s.lower():
                self.err("float literal %s: only integral literals below 2^24 are in the translated fragment" % t.text, t)
            n = -int(v) if negative else int(v)
            return E("(f_lit %s : %s)" % ("(%d)" % n if n < 0 else "%d" % n, ty), ty)
        if is_int(ty):
            if isfloatlit:
                self.err("float literal %s where %s is expected" % (t.text, ty), t)
            n = int(s, 0)
            sg, w = INT_TYS[ty]
            if negative:
                n = -n
            lo, hi = (-(1 << (w - 1)), (1 << (w - 1)) - 1) if sg else (0, (1 << w) - 1)
            if not lo <= n <= hi:
                self.err("literal %d out of range for %s" % (n, ty), t)
            return E("(i_lit %d %s)" % (w, "(%d)" % n if n < 0 else "%d" % n), ty)
        self.err("literal %s where %s is expected" % (t.text, ty), t)

    def args(self, expected_each=None):
        """parse `( e, e, ... )` at pos; expected_each: list of expected types (or None)"""
        self.eat("(")
        out = []
        while self.peek() != ")":
            ex = expected_each[len(out)] if expected_each and len(out) < len(expected_each) else None
            out.append(self.expr(ex))
            if self.peek() == ",":
                self.eat(",")
            elif self.peek() != ")":
                self.err("expected `,` or `)` in argument list, found %r" % self.peek(), self.peek_tok())
        self.eat(")")
        return out

    def method(self, recv, name_tok, args):
        name, t = name_tok.text, recv.ty
        if is_int(t):
            sg, w = INT_TYS[t]
            d = {"sg": cbool(sg), "w": w}
            for a in args:
                if a.ty != t:
                    self.err("method %s.%s called with an argument of type %s" % (t, name, a.ty), name_tok)
            if name in INT_METHODS2 and len(args) == 1:
                return self.app(INT_METHODS2[name] % d, [recv] + args, t)
            if name in INT_METHODS2_PARTIAL and len(args) == 1:
                return self.app(INT_METHODS2_PARTIAL[name] % d, [recv] + args, t, partial_result=True)
            if name in ("abs", "wrapping_abs") and not args:
                if not sg:
                    self.err("no method `%s` on the unsigned type %s" % (name, t), name_tok)
                if name == "abs":
                    self.notes.append({"profile": "`%s::abs` is translated with its release semantics "
                                                  "(MIN.abs() wraps to MIN; a debug build panics)" % t})
                return self.app("i_abs %s" % sgw(t), [recv], t)
            if name == "wrapping_neg" and not args:
                return self.app("i_neg %d" % w, [recv], t)
            self.err("method `%s` (with %d argument(s)) on %s is outside the translated fragment" % (name, len(args), t), name_tok)
        if is_float(t):
            if name == "is_nan" and not args:
                return self.app("f_is_nan", [recv], "bool")
            if name in FLOAT_METHODS and len(args) + 1 == FLOAT_METHODS[name][1]:
                for a in args:
                    if a.ty != t:
                        self.err("method %s.%s called with an argument of type %s" % (t, name, a.ty), name_tok)
                return self.app(FLOAT_METHODS[name][0], [recv] + args, t)
            self.err("method `%s` (with %d argument(s)) on %s is outside the translated fragment" % (name, len(args), t), name_tok)
        self.err("method `%s` on type %s" % (name, t), name_tok)

    def postfix(self, expected):
        a = self.primary(expected)
        while self.peek() == ".":
            self.eat(".")
            name = self.eat()
            if name.kind != "ident" or self.peek() != "(":
                self.err("field access / tuple index is outside the translated fragment", name)
            a = self.method(a, name, self.args([a.ty, a.ty]))
        return a

    def primary(self, expected):
        t = self.peek_tok()
        if t is None:
            self.err("expression expected")
        if t.text == "(":
            self.eat("(")
            e = self.expr(expected)
            self.eat(")")
            return e
        if t.kind == "num":
            return self.literal(expected)
        if t.text == "if":
            return self.if_expr(expected)
        if t.text == "{":
            return self.braced(expected)
        if t.kind != "ident":
            self.err("unexpected token %r" % t.text, t)
        if t.text.startswith("$"):
            self.err("unsubstituted macro variable %s" % t.text, t)
        # a path  seg(::seg)*
        segs = [self.eat()]
        while self.peek() == "::":
            self.eat("::")
            s = self.eat()
            if s.kind != "ident":
                self.err("unexpected %r in a path" % s.text, s)
            segs.append(s)
        names = [s.text for s in segs]
        if self.peek() == "!":
            self.err("macro call `%s!` is outside the translated fragment" % "::".join(names), t)
        if self.peek() == "(":
            return self.call(names, t, expected)
        if len(names) == 1:
            if names[0] in ("true", "false"):
                return E(names[0], "bool")
            if names[0] in self.env:
                return E(names[0], self.env[names[0]])
            self.err("unknown variable `%s`" % names[0], t)
        if len(names) == 2 and names[0] in INT_TYS:
            if names[1] in ("MAX", "MIN"):
                return E("(i_%s %s)" % (names[1], sgw(names[0])), names[0])
            self.err("constant %s is outside the translated fragment" % "::".join(names), t)
        if len(names) == 2 and names[0] in FLOAT_TYS:
            c = {"INFINITY": "f_inf false", "NEG_INFINITY": "f_inf true", "NAN": "f_nan", "MAX": "f_MAXFIN",
                 "MIN": "f_neg f_MAXFIN"}.get(names[1])
            if c is None:
                self.err("constant %s is outside the translated fragment" % "::".join(names), t)
            return E("(%s : %s)" % (c, names[0]), names[0])
        self.err("path `%s` is outside the translated fragment" % "::".join(names), t)

    def call(self, names, t, expected):
        path = "::".join(names)
        # UFCS on a primitive type: T::m(recv, args) == recv.m(args)
        if len(names) == 2 and (names[0] in INT_TYS or names[0] in FLOAT_TYS):
            args = self.args([names[0]] * 3)
            if not args:
                self.err("call %s() is outside the translated fragment" % path, t)
            if args[0].ty != names[0]:
                self.err("%s called on a value of type %s" % (path, args[0].ty), t)
            return self.method(args[0], Tok("ident", names[1], t.line), args[1:])
        # another implementor's method: the field of the record generated for (variant, operand type)
        if len(names) == 2 and names[0] in VARIANTS:
            m = [x for x in METHODS if x[0] == names[1]]
            if not m:
                self.err("%s is not a method of trait Math" % path, t)
            _, arity, ret = m[0]
            ety = expected if arity == 0 else None
            args = self.args([ety] * arity if arity == 0 else None)
            if len(args) != arity:
                self.err("%s takes %d argument(s)" % (path, arity), t)
            if arity == 0:
                ty = expected
                if ty is None:
                    self.err("cannot determine the element type of %s()" % path, t)
            else:
                ty = args[0].ty
                for a in args:
                    if a.ty != ty:
                        self.err("%s called with operands of types %s" % (path, ", ".join(x.ty for x in args)), t)
            rec = (VARIANTS[names[0]][0], ty)
            if rec not in self.records:
                self.err("%s at element type %s refers to `impl Math<%s> for %s`, which is not (yet) defined at this point "
                         "(a layer may only call implementations that come before it: recursion is outside the fragment)"
                         % (path, ty, ty, names[0]), t)
            fn = "%s %s_%s" % (FIELD[names[1]], rec[0], ty)
            return self.app(fn, args, "bool" if ret == "bool" else ty, partial_result=(names[1] == "div"))
        if names[-1] in ALGEBRAIC and names[:-1] in (["intrinsics"], ["core", "intrinsics"], ["std", "intrinsics"]):
            args = self.args()
            if len(args) != 2 or args[0].ty != args[1].ty or not is_float(args[0].ty):
                self.err("%s expects two floats of one type" % path, t)
            return self.app(ALGEBRAIC[names[-1]], args, args[0].ty)
        self.err("call of `%s` is outside the translated fragment" % path, t)

    def if_expr(self, expected):
        kw = self.eat("if")
        if self.peek() == "cfg" and self.peek(1) == "!":
            self.eat()
            self.eat("!")
            if self.peek() != "(":
                self.err("malformed cfg!")
            k = match_close(self.toks, self.pos)
            ctoks = self.toks[self.pos + 1:k]
            self.pos = k + 1
            val = eval_cfg(ctoks)
            blocks = []
            for which in ("then", "else"):
                if which == "else":
                    self.eat("else")
                if self.peek() != "{":
                    self.err("`else if` after cfg! is outside the translated fragment")
                k = match_close(self.toks, self.pos)
                blocks.append(self.toks[self.pos + 1:k])
                self.pos = k + 1
            chosen, other = (blocks[0], blocks[1]) if val else (blocks[1], blocks[0])
            self.notes.append({"selected": "cfg!(%s) = %s" % (src_text(ctoks), cbool(val)), "body": src_text(chosen)})
            self.notes.append({"not_selected": "cfg!(%s) = %s" % (src_text(ctoks), cbool(not val)), "body": src_text(other)})
            return self.sub(chosen).block_body(expected)
        # find the `{` that ends the condition
        d, j = 0, self.pos
        while j < len(self.toks) and not (d == 0 and self.toks[j].text == "{"):
            if self.toks[j].text in "([":
                d += 1
            elif self.toks[j].text in ")]":
                d -= 1
            j += 1
        if j >= len(self.toks):
            self.err("`if` without a block", kw)
        c = self.sub(self.toks[self.pos:j]).block_body("bool")
        if c.ty != "bool":
            self.err("`if` condition of type %s" % c.ty, kw)
        self.pos = j
        a = self.braced(expected)
        if self.peek() != "else":
            self.err("`if` without `else` is outside the translated fragment", kw)
        self.eat("else")
        b = self.if_expr(a.ty) if self.peek() == "if" else self.braced(a.ty)
        if a.ty != b.ty:
            self.err("branches of `if` have types %s and %s" % (a.ty, b.ty), kw)
        partial = a.partial or b.partial

        def lift(x):
            return x.coq if (x.partial or not partial) else "(Some %s)" % x.coq
        if c.partial:
            self.fresh += 1
            v = "p%d_" % self.fresh
            body = "(if %s then %s else %s)" % (v, lift(a) if partial else "(Some %s)" % a.coq,
                                                lift(b) if partial else "(Some %s)" % b.coq)
            return E("(obind %s (fun %s => %s))" % (c.coq, v, body), a.ty, True)
        return E("(if %s then %s else %s)" % (c.coq, lift(a), lift(b)), a.ty, partial)


class _NeedType(Exception):
    pass


# ----------------------------------------------------------------------------------------------
# items: impl blocks, macro_rules!, macro invocations
# ----------------------------------------------------------------------------------------------

def parse_impl(toks, i, where):
    """toks[i] == 'impl'.  Returns (next index, trait element type, implementor, body tokens, line)"""
    line = toks[i].line
    hdr = texts(toks[i:i + 8])
    if hdr[1] == "<":
        raise TranslateError("%s line %d: generic impl is outside the translated fragment" % (where, line))
    if hdr[1] != "Math" or hdr[2] != "<" or hdr[4] != ">" or hdr[5] != "for" or hdr[7] != "{":
        raise TranslateError("%s line %d: expected `impl Math<T> for X {`, found `%s`" % (where, line, " ".join(hdr)))
    k = match_close(toks, i + 7)
    return k + 1, hdr[3], hdr[6], toks[i + 8:k], line


def parse_fns(toks, where):
    """the fns of an impl body -> {name: (params [(name, ty)], ret, body tokens, line)} (cfg-disabled fns dropped)"""
    fns = {}
    skipped = []
    i = 0
    while i < len(toks):
        i, attrs = take_attrs(toks, i)
        if i >= len(toks):
            break
        if toks[i].text != "fn":
            raise TranslateError("%s line %d: expected `fn` in impl, found %r" % (where, toks[i].line, toks[i].text))
        name = toks[i + 1]
        if toks[i + 2].text != "(":
            raise TranslateError("%s line %d: generic method %s" % (where, name.line, name.text))
        k = match_close(toks, i + 2)
        ptoks = toks[i + 3:k]
        params = []
        cur = []
        for t in ptoks + [None]:
            if t is None or t.text == ",":
                if cur:
                    if len(cur) != 3 or cur[1].text != ":":
                        raise TranslateError("%s line %d: parameter of %s is not `name: type`" % (where, name.line, name.text))
                    params.append((cur[0].text, cur[2].text))
                cur = []
            else:
                cur.append(t)
        j = k + 1
        ret = None
        if toks[j].text == "->":
            ret = toks[j + 1].text
            j += 2
        if toks[j].text != "{":
            raise TranslateError("%s line %d: method %s: unsupported signature" % (where, name.line, name.text))
        e = match_close(toks, j)
        if cfg_of_attrs(attrs):
            if name.text in fns:
                raise TranslateError("%s line %d: method %s defined twice" % (where, name.line, name.text))
            fns[name.text] = (params, ret, toks[j + 1:e], name.line)
        else:
            skipped.append(name.text)
        i = e + 1
    return fns, skipped


def parse_macro_rules(toks, i, where):
    """toks[i..] == macro_rules ! name { (pat) => { body } ; ... }.  Returns (next, name, [(pattern toks, body toks)])"""
    name = toks[i + 2].text
    if toks[i + 3].text != "{":
        raise TranslateError("%s line %d: macro_rules! %s: expected `{`" % (where, toks[i].line, name))
    end = match_close(toks, i + 3)
    arms = []
    j = i + 4
    while j < end:
        if toks[j].text != "(":
            raise TranslateError("%s line %d: macro_rules! %s: arm pattern must be parenthesised" % (where, toks[j].line, name))
        k = match_close(toks, j)
        pat = toks[j + 1:k]
        if toks[k + 1].text != "=>" or toks[k + 2].text != "{":
            raise TranslateError("%s line %d: macro_rules! %s: expected `=> {`" % (where, toks[k].line, name))
        e = match_close(toks, k + 2)
        arms.append((pat, toks[k + 3:e]))
        j = e + 1
        if j < end and toks[j].text == ";":
            j += 1
    return end + 1, name, arms


def match_arm(pat, inv, where, line):
    """match invocation tokens against an arm pattern made of literal tokens and `$x:ident`; returns bindings or None"""
    binds = {}
    pi = ii = 0
    while pi < len(pat):
        p = pat[pi]
        if p.kind == "ident" and p.text.startswith("$"):
            if pi + 2 >= len(pat) or pat[pi + 1].text != ":":
                raise TranslateError("%s line %d: macro pattern fragment without a specifier" % (where, p.line))
            spec = pat[pi + 2].text
            if spec != "ident":
                raise TranslateError("%s line %d: macro fragment specifier `%s` is outside the translated fragment" % (where, p.line, spec))
            if ii >= len(inv) or inv[ii].kind != "ident":
                return None
            binds[p.text] = inv[ii]
            pi += 3
            ii += 1
        elif p.text == "$":
            raise TranslateError("%s line %d: macro repetition is outside the translated fragment" % (where, p.line))
        else:
            if ii >= len(inv) or inv[ii].text != p.text:
                return None
            pi += 1
            ii += 1
    return binds if ii == len(inv) else None


def expand(body, binds):
    out = []
    for t in body:
        if t.kind == "ident" and t.text in binds:
            b = binds[t.text]
            out.append(Tok(b.kind, b.text, t.line))
        else:
            out.append(t)
    return out


def collect_impls(rel, src):
    """all `impl Math<T> for X` of one file, macro invocations expanded, in source order of their definition point"""
    toks = tokenize(src)
    impls = []          # (elem ty, implementor, body toks, line, origin)
    macros = {}
    other = []
    i = 0
    while i < len(toks):
        i, attrs = take_attrs(toks, i)
        if i >= len(toks):
            break
        t = toks[i]
        enabled = cfg_of_attrs(attrs)
        if t.text == "impl":
            j, ety, who, body, line = parse_impl(toks, i, rel)
            if enabled:
                impls.append((ety, who, body, line, "impl at line %d" % line))
            i = j
        elif t.text == "macro_rules":
            j, name, arms = parse_macro_rules(toks, i, rel)
            macros[name] = arms
            i = j
        elif t.kind == "ident" and i + 2 < len(toks) and toks[i + 1].text == "!" and toks[i + 2].text == "(":
            k = match_close(toks, i + 2)
            inv = toks[i + 3:k]
            if t.text not in macros:
                raise TranslateError("%s line %d: invocation of unknown macro %s!" % (rel, t.line, t.text))
            hit = None
            for n, (pat, body) in enumerate(macros[t.text]):
                b = match_arm(pat, inv, rel, t.line)
                if b is not None:
                    hit = (n, expand(body, b))
                    break
            if hit is None:
                raise TranslateError("%s line %d: no arm of %s! matches `%s`" % (rel, t.line, t.text, src_text(inv)))
            if enabled:
                n, etoks = hit
                p = 0
                while p < len(etoks):
                    p, a2 = take_attrs(etoks, p)
                    if p >= len(etoks):
                        break
                    if etoks[p].text != "impl":
                        raise TranslateError("%s line %d: %s! expands to something other than an impl" % (rel, t.line, t.text))
                    q, ety, who, body, line = parse_impl(etoks, p, rel)
                    if cfg_of_attrs(a2):
                        impls.append((ety, who, body, line, "%s!(%s) at line %d, arm %d (`%s`)" % (
                            t.text, src_text(inv), t.line, n + 1, src_text(macros[t.text][n][0]))))
                    p = q
            i = k + 1
            if i < len(toks) and toks[i].text == ";":
                i += 1
        elif t.text in ("use", "extern"):
            while toks[i].text != ";":
                i += 1
            i += 1
        elif t.text == "pub" or t.text == "struct":
            # `pub struct X;`
            j = i
            while toks[j].text not in (";", "{"):
                j += 1
            if toks[j].text == "{":
                j = match_close(toks, j)
            other.append(src_text(toks[i:j + 1]))
            i = j + 1
        elif t.text == "fn":
            # free helper functions (the no_std approximations): recorded, not translated
            j = i
            while toks[j].text != "{":
                j += 1
            e = match_close(toks, j)
            other.append("fn %s (free helper, not translated%s)" % (toks[i + 1].text, "" if enabled else ", cfg-disabled"))
            i = e + 1
        elif t.text == "mod":
            j = i
            while toks[j].text not in (";", "{"):
                j += 1
            if toks[j].text == "{":
                j = match_close(toks, j)
            if enabled:
                raise TranslateError("%s line %d: an enabled inner module is outside the translated fragment" % (rel, t.line))
            i = j + 1
        elif t.text == "const" or t.text == "static" or t.text == "type":
            raise TranslateError("%s line %d: top-level `%s` is outside the translated fragment" % (rel, t.line, t.text))
        else:
            raise TranslateError("%s line %d: unexpected item starting with %r" % (rel, t.line, t.text))
    return impls, other


def translate_impl(ety, who, body, line, origin, rel, records):
    """one impl -> (record name, Coq definition text, facts)"""
    if who not in VARIANTS:
        raise TranslateError("%s line %d: impl Math<%s> for unknown implementor %s" % (rel, line, ety, who))
    if ety not in INT_TYS and ety not in FLOAT_TYS:
        raise TranslateError("%s line %d: impl Math<%s>: unknown element type" % (rel, line, ety))
    vshort = VARIANTS[who][0]
    fns, skipped = parse_fns(body, rel)
    want = [m[0] for m in METHODS]
    for n in fns:
        if n not in want:
            raise TranslateError("%s line %d: impl Math<%s> for %s defines `%s`, which is not one of the 13 trait methods"
                                 % (rel, fns[n][3], ety, who, n))
    fields = []
    mfacts = {}
    cty = "Z" if ety in INT_TYS else ety
    for name, arity, ret in METHODS:
        if name not in fns:
            raise TranslateError("%s line %d: impl Math<%s> for %s lacks method `%s`" % (rel, line, ety, who, name))
        params, rty, btoks, fline = fns[name]
        where = "%s (impl Math<%s> for %s, fn %s)" % (rel, ety, who, name)
        if len(params) != arity:
            raise TranslateError("%s line %d: takes %d parameter(s), the trait says %d" % (where, fline, len(params), arity))
        want_ret = "bool" if ret == "bool" else ety
        if rty != want_ret:
            raise TranslateError("%s line %d: returns %s, the trait says %s" % (where, fline, rty, want_ret))
        env = {}
        for pn, pt in params:
            if pt != ety:
                raise TranslateError("%s line %d: parameter %s has type %s, the trait says %s" % (where, fline, pn, pt, ety))
            if pn in env:
                raise TranslateError("%s line %d: duplicate parameter %s" % (where, fline, pn))
            env[pn] = pt
        c = Compiler(btoks, env, records, where)
        e = c.block_body(want_ret)
        if e.ty != want_ret:
            raise TranslateError("%s line %d: body has type %s, expected %s" % (where, fline, e.ty, want_ret))
        if name == "div":
            rhs = e.coq if e.partial else "Some %s" % e.coq
        else:
            if e.partial:
                raise TranslateError("%s line %d: the body may panic (it uses a panicking primitive); only `div` has a panic "
                                     "outcome in the specification of the math layer" % (where, fline))
            rhs = e.coq
        lam = "".join("fun %s : %s => " % (pn, cty) for pn, _ in params)
        fields.append("     %s := %s%s" % (FIELD[name], lam, rhs))
        mfacts[name] = {"line": fline, "params": [p for p, _ in params], "rust": src_text(btoks),
                        "coq": lam + rhs, "notes": c.notes}
    rec = "%s_%s" % (vshort, ety)
    text = "(* %s: impl Math<%s> for %s — %s *)\nDefinition %s : MathOps %s :=\n  {|\n%s\n  |}.\n" % (
        rel, ety, who, origin, rec, cty, ";\n".join(fields))
    return rec, text, {"origin": origin, "line": line, "methods": mfacts, "skipped_cfg": skipped}


def gen_math(facts, write_if_changed, GEN, REPO):
    records = {}
    out = ["(* GENERATED by tools/translate_more.py (step \"math\") from cfavml/src/math/default.rs and",
           "   cfavml/src/math/fast_math.rs — do not edit.  One MathOps record per (implementor, element type); every field",
           "   is the translation of the Rust method body over the primitives of Model/Prim.v and Model/PrimMore.v.",
           "   Build under translation: %s. *)" % ", ".join("%s=%s" % (k, cbool(v)) for k, v in sorted(FLAGS.items())),
           "From Coq Require Import ZArith Bool.",
           "From Flocq Require Import IEEE754.BinarySingleNaN.",
           "From CF Require Import Model.Tables Model.Prim Model.SimdApi Model.PrimMore.",
           "Local Open Scope Z_scope.", ""]
    mf = {"flags": dict(FLAGS), "variants": {}, "other_items": {}}
    for who in ("StdMath", "FastMath"):
        vshort, vcoq, rel = VARIANTS[who]
        path = os.path.join(REPO, rel)
        try:
            with open(path) as f:
                src = f.read()
        except OSError as ex:
            raise TranslateError("cannot read %s: %s" % (rel, ex))
        impls, other = collect_impls(rel, src)
        mf["other_items"][rel] = other
        mf["variants"][vshort] = {}
        for ety, w, body, line, origin in impls:
            if w != who:
                raise TranslateError("%s line %d: impl for %s in the file of %s" % (rel, line, w, who))
            if (vshort, ety) in records:
                raise TranslateError("%s line %d: second impl Math<%s> for %s" % (rel, line, ety, who))
            rec, text, f = translate_impl(ety, who, body, line, origin, rel, records)
            records[(vshort, ety)] = rec
            out.append(text)
            mf["variants"][vshort][ety] = f
        for ety in ALL_TYS:
            if (vshort, ety) not in records:
                raise TranslateError("%s: no impl Math<%s> for %s" % (rel, ety, who))
    # selectors
    out.append("(* the layer of (variant, element type); None for a float type in the integer selector *)")
    out.append("Definition gen_int_math (v : math_variant) (t : ty) : option (MathOps Z) :=")
    out.append("  match v, t with")
    for who in ("StdMath", "FastMath"):
        vshort, vcoq, _ = VARIANTS[who]
        for ety in ALL_TYS:
            if ety in INT_TYS:
                out.append("  | %s, %s => Some %s_%s" % (vcoq, COQ_TY[ety], vshort, ety))
    out.append("  | _, _ => None")
    out.append("  end.")
    for fty in ("f32", "f64"):
        out.append("Definition gen_%s_math (v : math_variant) : MathOps %s :=" % (fty, fty))
        out.append("  match v with VStd => std_%s | VFast => fast_%s end." % (fty, fty))
    out.append("")
    write_if_changed(os.path.join(GEN, "GenMath.v"), "\n".join(out))
    # the AutoMath alias (math/mod.rs): which variant a build uses — recorded
    try:
        with open(os.path.join(REPO, "cfavml/src/math/mod.rs")) as f:
            modsrc = f.read()
        mt = tokenize(modsrc)
        alias = []
        for i in range(len(mt) - 4):
            if mt[i].text == "type" and mt[i + 1].text == "AutoMath" and mt[i + 2].text == "=":
                j = i
                while j > 0 and mt[j].text != "#":
                    j -= 1
                k = match_close(mt, j + 1)
                alias.append({"cfg": src_text(mt[j + 2:k]), "variant": mt[i + 3].text})
        mf["automath"] = alias
    except (OSError, TranslateError) as ex:
        raise TranslateError("math/mod.rs: %s" % ex)
    facts["math"] = mf


def steps(facts, write_if_changed, GEN, REPO):
    return [("math", lambda: gen_math(facts, write_if_changed, GEN, REPO))]
